/-! Hand-written: for every run-time-checked access of the pinned inventory (`Expected.Pinned.*IndexSites`) the reason
    it cannot panic, established by reading the source.  `Props/Pin/IndexGuards.lean` checks that this table names
    exactly the pinned sites (so a site without a recorded guard, or a guard for a site that is gone, is a broken
    obligation); the guards themselves are prose — they are read, not proved. -/
namespace GoWebdav.Expected.Guards

def mapRead := "read of a map (a missing key yields the zero value; a nil map may be read)"
def mapWrite := "write to a map made in the same function (make / composite literal), never nil"
def rangeIdx := "index taken from `for i := range` over the same slice, or over a slice of the same length made by `make([]T, len(src))`"

def internal : List (String × List (String × String)) := [
  ("internal.Client.Options", [("classes[\"1\"]", mapRead), ("resp.Header[\"Allow\"]", mapRead), ("resp.Header[\"Dav\"]", mapRead)]),
  ("internal.Client.PropFindFlat", [("ms.Responses[0]", "preceded by `if len(ms.Responses) != 1 { return … }`")]),
  ("internal.DiscoverContextURL", [("addrs[0]", "preceded by `if len(addrs) == 0 { return … }` (DNS discovery, outside every property)"),
                                   ("txtRecords[0]", "inside `if len(txtRecords) > 0` (DNS discovery, outside every property)")]),
  ("internal.ETag.UnmarshalText", [("b[0]", "right operand of `len(b) == 0 ||`: evaluated only for a non-empty text")]),
  ("internal.EncodeProp", [("l[i]", rangeIdx)]),
  ("internal.Handler.handlePropfind", [("b[:]", "full slice of a fixed-size array")]),
  ("internal.NewPropFindResponse", [("props[ResourceTypeName]", mapRead), ("seen[xmlName]", mapRead), ("seen[xmlName]", mapWrite)]),
  ("internal.Prop.Get", [("p.Raw[i]", rangeIdx)]),
  ("internal.Response.EncodeProp", [("resp.PropStats[i]", rangeIdx)]),
  ("internal.Response.Path", [("resp.Hrefs[0]", "inside `if len(resp.Hrefs) == 1`")]),
  ("internal.Status.UnmarshalText", [("parts[1]", "preceded by `if len(parts) != 3 { return … }`"), ("parts[2]", "the same guard")]),
  ("internal.parseCommaSeparatedSet", [("m[f]", mapWrite)]),
  ("internal.rawXMLValueReader.Token", [("tr.val.children[tr.child]", "inside `for tr.child < len(tr.val.children)`")]),
  ("internal.valueXMLName", [("nameParts[0]", "preceded by `if len(nameParts) != 2 { return … }`"), ("nameParts[1]", "the same guard"),
                             ("strings.Split(tag, \",\")[0]", "strings.Split with a non-empty separator returns at least one element")]),
  ("internal.xmlNamesToRaw", [("l[i]", rangeIdx)])]

def webdav : List (String × List (String × String)) := [
  ("webdav.backend.PropFind", [("resps[i]", rangeIdx)]),
  ("webdav.backend.propFindFile", [("props[internal.GetContentLengthName]", mapWrite), ("props[internal.GetContentTypeName]", mapWrite),
    ("props[internal.GetETagName]", mapWrite), ("props[internal.GetLastModifiedName]", mapWrite), ("props[internal.ResourceTypeName]", mapWrite)]),
  ("webdav.servePrincipalPropfind", [("props[homeSet.GetXMLName()]", mapWrite)])]

def caldav : List (String × List (String × String)) := [
  ("caldav.Client.MultiGetCalendar", [("calendarMultiget.Hrefs[i]", rangeIdx)]),
  ("caldav.backend.propFindCalendar", [("props[calendarDescriptionName]", mapWrite), ("props[internal.DisplayNameName]", mapWrite), ("props[maxResourceSizeName]", mapWrite)]),
  ("caldav.backend.propFindCalendarObject", [("props[internal.GetContentLengthName]", mapWrite), ("props[internal.GetETagName]", mapWrite), ("props[internal.GetLastModifiedName]", mapWrite)]),
  ("caldav.matchParamFilter", [("values[0]", "preceded by `if len(values) == 0 { return … }`")])]

def carddav : List (String × List (String × String)) := [
  ("carddav.Client.HasSupport", [("classes[\"addressbook\"]", mapRead)]),
  ("carddav.Client.MultiGetAddressBook", [("addressbookMultiget.Hrefs[i]", rangeIdx)]),
  ("carddav.backend.propFindAddressBook", [("props[addressBookDescriptionName]", mapWrite), ("props[internal.DisplayNameName]", mapWrite), ("props[maxResourceSizeName]", mapWrite)]),
  ("carddav.backend.propFindAddressObject", [("props[internal.GetContentLengthName]", mapWrite), ("props[internal.GetETagName]", mapWrite), ("props[internal.GetLastModifiedName]", mapWrite)]),
  ("carddav.decodeSupportedAddressData", [("l[i]", rangeIdx)]),
  ("carddav.filterProperties", [("ao.Card[vcard.FieldVersion]", mapRead), ("result.Card[prop]", mapWrite), ("result.Card[vcard.FieldVersion]", mapWrite)])]

/-- the sites a guard table speaks about -/
def sites (g : List (String × List (String × String))) : List (String × List String) :=
  g.map (fun (f, l) => (f, l.map Prod.fst))

end GoWebdav.Expected.Guards
