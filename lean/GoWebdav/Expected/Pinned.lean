/-! PINNED snapshot (vf/pin_expected.py, run by hand on the pinned tree; reviewed): the fact tables of the pinned go-webdav
    sources.  The extractor regenerates `Generated.*` from /repo on every run; `Props/Pin/*.lean` hold the equalities. -/
namespace GoWebdav.Expected.Pinned

/-- every struct carrying `xml:"…"` tags: (package.struct, [(field, Go type, xml tag)]) -/
def internalSchema : List (String × List (String × String × String)) := [
   ("CurrentUserPrincipal", [("XMLName", "xml.Name", "DAV: current-user-principal"), ("Href", "Href", "href,omitempty"), ("Unauthenticated", "*struct{}", "unauthenticated,omitempty")])
  ,("DisplayName", [("XMLName", "xml.Name", "DAV: displayname"), ("Name", "string", ",chardata")])
  ,("Error", [("XMLName", "xml.Name", "DAV: error"), ("Raw", "[]RawXMLValue", ",any")])
  ,("GetContentLength", [("XMLName", "xml.Name", "DAV: getcontentlength"), ("Length", "int64", ",chardata")])
  ,("GetContentType", [("XMLName", "xml.Name", "DAV: getcontenttype"), ("Type", "string", ",chardata")])
  ,("GetETag", [("XMLName", "xml.Name", "DAV: getetag"), ("ETag", "ETag", ",chardata")])
  ,("GetLastModified", [("XMLName", "xml.Name", "DAV: getlastmodified"), ("LastModified", "Time", ",chardata")])
  ,("Include", [("XMLName", "xml.Name", "DAV: include"), ("Raw", "[]RawXMLValue", ",any")])
  ,("Limit", [("XMLName", "xml.Name", "DAV: limit"), ("NResults", "uint", "nresults")])
  ,("Location", [("XMLName", "xml.Name", "DAV: location"), ("Href", "Href", "href")])
  ,("MultiStatus", [("XMLName", "xml.Name", "DAV: multistatus"), ("Responses", "[]Response", "response"), ("ResponseDescription", "string", "responsedescription,omitempty"), ("SyncToken", "string", "sync-token,omitempty")])
  ,("Prop", [("XMLName", "xml.Name", "DAV: prop"), ("Raw", "[]RawXMLValue", ",any")])
  ,("PropFind", [("XMLName", "xml.Name", "DAV: propfind"), ("Prop", "*Prop", "prop,omitempty"), ("AllProp", "*struct{}", "allprop,omitempty"), ("Include", "*Include", "include,omitempty"), ("PropName", "*struct{}", "propname,omitempty")])
  ,("PropStat", [("XMLName", "xml.Name", "DAV: propstat"), ("Prop", "Prop", "prop"), ("Status", "Status", "status"), ("ResponseDescription", "string", "responsedescription,omitempty"), ("Error", "*Error", "error,omitempty")])
  ,("PropertyUpdate", [("XMLName", "xml.Name", "DAV: propertyupdate"), ("Remove", "[]Remove", "remove"), ("Set", "[]Set", "set")])
  ,("Remove", [("XMLName", "xml.Name", "DAV: remove"), ("Prop", "Prop", "prop")])
  ,("ResourceType", [("XMLName", "xml.Name", "DAV: resourcetype"), ("Raw", "[]RawXMLValue", ",any")])
  ,("Response", [("XMLName", "xml.Name", "DAV: response"), ("Hrefs", "[]Href", "href"), ("PropStats", "[]PropStat", "propstat,omitempty"), ("ResponseDescription", "string", "responsedescription,omitempty"), ("Status", "*Status", "status,omitempty"), ("Error", "*Error", "error,omitempty"), ("Location", "*Location", "location,omitempty")])
  ,("Set", [("XMLName", "xml.Name", "DAV: set"), ("Prop", "Prop", "prop")])
  ,("SyncCollectionQuery", [("XMLName", "xml.Name", "DAV: sync-collection"), ("SyncToken", "string", "sync-token"), ("Limit", "*Limit", "limit,omitempty"), ("SyncLevel", "string", "sync-level"), ("Prop", "*Prop", "prop")])
]

/-- status codes named per function (http.StatusXxx selectors and literal HTTPError codes) -/
def internalStatusSites : List (String × List Nat) := [
  ("internal.Client.DoMultiStatus", [207]),
  ("internal.DecodeXMLRequest", [400, 400]),
  ("internal.HTTPErrorFromError", [500]),
  ("internal.Handler.ServeHTTP", [201, 204, 405]),
  ("internal.Handler.handleCopyMove", [201, 204, 400, 400, 400, 400]),
  ("internal.Handler.handleOptions", [204]),
  ("internal.Handler.handlePropfind", [400, 400]),
  ("internal.IsNotFound", [404]),
  ("internal.NewErrorResponse", [500]),
  ("internal.NewOKResponse", [200]),
  ("internal.NewPropFindResponse", [200, 200, 200, 400, 404]),
  ("internal.Prop.Decode", [404]),
  ("internal.Response.DecodeProp", [404]),
  ("internal.ServeError", [500]),
  ("internal.ServeMultiStatus", [207]),
  ("internal.Status.Err", [200]),
  ("internal.parseDestination", [400, 400])]

def internalPanicSites : List (String × Nat) := [("internal.Depth.String", 1), ("internal.RawXMLValue.MarshalXML", 1), ("internal.RawXMLValue.TokenReader", 1)]

/-- run-time-checked accesses per function: index and slice expressions, type assertions without comma-ok (sorted) -/
def internalIndexSites : List (String × List String) := [
  ("internal.Client.Options", ["classes[\"1\"]", "resp.Header[\"Allow\"]", "resp.Header[\"Dav\"]"]),
  ("internal.Client.PropFindFlat", ["ms.Responses[0]"]),
  ("internal.DiscoverContextURL", ["addrs[0]", "txtRecords[0]"]),
  ("internal.ETag.UnmarshalText", ["b[0]"]),
  ("internal.EncodeProp", ["l[i]"]),
  ("internal.Handler.handlePropfind", ["b[:]"]),
  ("internal.NewPropFindResponse", ["props[ResourceTypeName]", "seen[xmlName]", "seen[xmlName]"]),
  ("internal.Prop.Get", ["p.Raw[i]"]),
  ("internal.Response.EncodeProp", ["resp.PropStats[i]"]),
  ("internal.Response.Path", ["resp.Hrefs[0]"]),
  ("internal.Status.UnmarshalText", ["parts[1]", "parts[2]"]),
  ("internal.parseCommaSeparatedSet", ["m[f]"]),
  ("internal.rawXMLValueReader.Token", ["tr.val.children[tr.child]"]),
  ("internal.valueXMLName", ["nameParts[0]", "nameParts[1]", "strings.Split(tag, \",\")[0]"]),
  ("internal.xmlNamesToRaw", ["l[i]"])]

/-- assignments through a pointer receiver, per method (state kept across calls on a handler, client or reader value) -/
def internalReceiverWrites : List (String × List String) := [
  ("internal.ETag.UnmarshalText", ["*etag"]),
  ("internal.Href.UnmarshalText", ["*h"]),
  ("internal.RawXMLValue.UnmarshalXML", ["val.tok", "val.children", "val.out", "val.children", "val.children"]),
  ("internal.Response.EncodeProp", ["resp.PropStats"]),
  ("internal.Status.UnmarshalText", ["s.Code", "s.Text"]),
  ("internal.Time.UnmarshalText", ["*t"]),
  ("internal.rawXMLValueReader.Token", ["tr.end", "tr.start", "tr.childReader", "tr.childReader", "tr.end"])]

def internalGlobals : List String := ["CollectionName", "CurrentUserPrincipalName", "DisplayNameName", "GetContentLengthName", "GetContentTypeName", "GetETagName", "GetLastModifiedName", "ResourceTypeName"]

def webdavSchema : List (String × List (String × String × String)) := [
   ("groupMembership", [("XMLName", "xml.Name", "DAV: group-membership"), ("Hrefs", "[]internal.Href", "href")])
  ,("principalAlternateURISet", [("XMLName", "xml.Name", "DAV: alternate-URI-set"), ("Hrefs", "[]internal.Href", "href")])
  ,("principalURL", [("XMLName", "xml.Name", "DAV: principal-URL"), ("Href", "internal.Href", "href")])
]

/-- status codes named per function (http.StatusXxx selectors and literal HTTPError codes) -/
def webdavStatusSites : List (String × List Nat) := [
  ("webdav.Handler.ServeHTTP", [500]),
  ("webdav.LocalFileSystem.Copy", [403, 412]),
  ("webdav.LocalFileSystem.Create", [405]),
  ("webdav.LocalFileSystem.Mkdir", [405]),
  ("webdav.LocalFileSystem.Move", [403, 412]),
  ("webdav.LocalFileSystem.localPath", [400, 400]),
  ("webdav.ServePrincipal", [204, 405]),
  ("webdav.backend.Copy", [412]),
  ("webdav.backend.HeadGet", [405]),
  ("webdav.backend.Mkcol", [409, 415]),
  ("webdav.backend.Move", [412]),
  ("webdav.backend.PropPatch", [403]),
  ("webdav.backend.Put", [201, 204]),
  ("webdav.checkConditionalMatches", [400, 400, 412, 412]),
  ("webdav.errFromOS", [403, 404, 503]),
  ("webdav.errFromOSDest", [409])]

def webdavPanicSites : List (String × Nat) := []

/-- run-time-checked accesses per function: index and slice expressions, type assertions without comma-ok (sorted) -/
def webdavIndexSites : List (String × List String) := [
  ("webdav.backend.PropFind", ["resps[i]"]),
  ("webdav.backend.propFindFile", ["props[internal.GetContentLengthName]", "props[internal.GetContentTypeName]", "props[internal.GetETagName]", "props[internal.GetLastModifiedName]", "props[internal.ResourceTypeName]"]),
  ("webdav.servePrincipalPropfind", ["props[homeSet.GetXMLName()]"])]

/-- assignments through a pointer receiver, per method (state kept across calls on a handler, client or reader value) -/
def webdavReceiverWrites : List (String × List String) := []

def webdavGlobals : List String := ["fileInfoPropFind", "groupMembershipName", "principalAlternateURISetName", "principalName", "principalURLName"]

def caldavSchema : List (String × List (String × String × String)) := [
   ("calendarDataReq", [("XMLName", "xml.Name", "urn:ietf:params:xml:ns:caldav calendar-data"), ("Comp", "*comp", "comp,omitempty"), ("Expand", "*expand", "expand,omitempty")])
  ,("calendarDataResp", [("XMLName", "xml.Name", "urn:ietf:params:xml:ns:caldav calendar-data"), ("Data", "[]byte", ",chardata")])
  ,("calendarDataType", [("XMLName", "xml.Name", "urn:ietf:params:xml:ns:caldav calendar-data"), ("ContentType", "string", "content-type,attr"), ("Version", "string", "version,attr")])
  ,("calendarDescription", [("XMLName", "xml.Name", "urn:ietf:params:xml:ns:caldav calendar-description"), ("Description", "string", ",chardata")])
  ,("calendarHomeSet", [("XMLName", "xml.Name", "urn:ietf:params:xml:ns:caldav calendar-home-set"), ("Href", "internal.Href", "DAV: href")])
  ,("calendarMultiget", [("XMLName", "xml.Name", "urn:ietf:params:xml:ns:caldav calendar-multiget"), ("Prop", "*internal.Prop", "DAV: prop,omitempty"), ("AllProp", "*struct{}", "DAV: allprop,omitempty"), ("PropName", "*struct{}", "DAV: propname,omitempty"), ("Hrefs", "[]internal.Href", "DAV: href")])
  ,("calendarQuery", [("XMLName", "xml.Name", "urn:ietf:params:xml:ns:caldav calendar-query"), ("Prop", "*internal.Prop", "DAV: prop,omitempty"), ("AllProp", "*struct{}", "DAV: allprop,omitempty"), ("PropName", "*struct{}", "DAV: propname,omitempty"), ("Filter", "filter", "filter")])
  ,("comp", [("XMLName", "xml.Name", "urn:ietf:params:xml:ns:caldav comp"), ("Name", "string", "name,attr"), ("Allprop", "*struct{}", "allprop,omitempty"), ("Prop", "[]prop", "prop,omitempty"), ("Allcomp", "*struct{}", "allcomp,omitempty"), ("Comp", "[]comp", "comp,omitempty")])
  ,("compFilter", [("XMLName", "xml.Name", "urn:ietf:params:xml:ns:caldav comp-filter"), ("Name", "string", "name,attr"), ("IsNotDefined", "*struct{}", "is-not-defined,omitempty"), ("TimeRange", "*timeRange", "time-range,omitempty"), ("PropFilters", "[]propFilter", "prop-filter,omitempty"), ("CompFilters", "[]compFilter", "comp-filter,omitempty")])
  ,("expand", [("XMLName", "xml.Name", "urn:ietf:params:xml:ns:caldav expand"), ("Start", "dateWithUTCTime", "start,attr"), ("End", "dateWithUTCTime", "end,attr")])
  ,("filter", [("XMLName", "xml.Name", "urn:ietf:params:xml:ns:caldav filter"), ("CompFilter", "compFilter", "comp-filter")])
  ,("maxResourceSize", [("XMLName", "xml.Name", "urn:ietf:params:xml:ns:caldav max-resource-size"), ("Size", "int64", ",chardata")])
  ,("mkcolReq", [("XMLName", "xml.Name", "DAV: mkcol"), ("ResourceType", "internal.ResourceType", "set>prop>resourcetype"), ("DisplayName", "string", "set>prop>displayname")])
  ,("paramFilter", [("XMLName", "xml.Name", "urn:ietf:params:xml:ns:caldav param-filter"), ("Name", "string", "name,attr"), ("IsNotDefined", "*struct{}", "is-not-defined,omitempty"), ("TextMatch", "*textMatch", "text-match,omitempty")])
  ,("prop", [("XMLName", "xml.Name", "urn:ietf:params:xml:ns:caldav prop"), ("Name", "string", "name,attr")])
  ,("propFilter", [("XMLName", "xml.Name", "urn:ietf:params:xml:ns:caldav prop-filter"), ("Name", "string", "name,attr"), ("IsNotDefined", "*struct{}", "is-not-defined,omitempty"), ("TimeRange", "*timeRange", "time-range,omitempty"), ("TextMatch", "*textMatch", "text-match,omitempty"), ("ParamFilter", "[]paramFilter", "param-filter,omitempty")])
  ,("supportedCalendarComponentSet", [("XMLName", "xml.Name", "urn:ietf:params:xml:ns:caldav supported-calendar-component-set"), ("Comp", "[]comp", "comp")])
  ,("supportedCalendarData", [("XMLName", "xml.Name", "urn:ietf:params:xml:ns:caldav supported-calendar-data"), ("Types", "[]calendarDataType", "calendar-data")])
  ,("textMatch", [("XMLName", "xml.Name", "urn:ietf:params:xml:ns:caldav text-match"), ("Text", "string", ",chardata"), ("Collation", "string", "collation,attr,omitempty"), ("NegateCondition", "negateCondition", "negate-condition,attr,omitempty")])
  ,("timeRange", [("XMLName", "xml.Name", "urn:ietf:params:xml:ns:caldav time-range"), ("Start", "dateWithUTCTime", "start,attr,omitempty"), ("End", "dateWithUTCTime", "end,attr,omitempty")])
]

/-- status codes named per function (http.StatusXxx selectors and literal HTTPError codes) -/
def caldavStatusSites : List (String × List Nat) := [
  ("caldav.Handler.ServeHTTP", [308, 500, 500]),
  ("caldav.Handler.handleMultiget", [400]),
  ("caldav.Handler.handleQuery", [400, 400]),
  ("caldav.Handler.handleReport", [400]),
  ("caldav.NewPreconditionError", [409]),
  ("caldav.backend.Copy", [501]),
  ("caldav.backend.Mkcol", [400, 400, 403]),
  ("caldav.backend.Move", [501]),
  ("caldav.backend.Options", [404]),
  ("caldav.backend.PropFind", [404]),
  ("caldav.backend.PropPatch", [501]),
  ("caldav.backend.Put", [201, 400, 400, 400]),
  ("caldav.decodeComp", [400, 400, 400])]

def caldavPanicSites : List (String × Nat) := [("caldav.Match", 1)]

/-- run-time-checked accesses per function: index and slice expressions, type assertions without comma-ok (sorted) -/
def caldavIndexSites : List (String × List String) := [
  ("caldav.Client.MultiGetCalendar", ["calendarMultiget.Hrefs[i]"]),
  ("caldav.backend.propFindCalendar", ["props[calendarDescriptionName]", "props[internal.DisplayNameName]", "props[maxResourceSizeName]"]),
  ("caldav.backend.propFindCalendarObject", ["props[internal.GetContentLengthName]", "props[internal.GetETagName]", "props[internal.GetLastModifiedName]"]),
  ("caldav.matchParamFilter", ["values[0]"])]

/-- assignments through a pointer receiver, per method (state kept across calls on a handler, client or reader value) -/
def caldavReceiverWrites : List (String × List String) := [
  ("caldav.dateWithUTCTime.UnmarshalText", ["*t"]),
  ("caldav.negateCondition.UnmarshalText", ["*nc", "*nc"]),
  ("caldav.reportReq.UnmarshalXML", ["r.Query", "r.Multiget"])]

def caldavGlobals : List String := ["CapabilityCalendar", "calendarDataName", "calendarDescriptionName", "calendarHomeSetName", "calendarMultigetName", "calendarName", "calendarQueryName", "maxResourceSizeName", "supportedCalendarComponentSetName", "supportedCalendarDataName"]

def carddavSchema : List (String × List (String × String × String)) := [
   ("addressDataReq", [("XMLName", "xml.Name", "urn:ietf:params:xml:ns:carddav address-data"), ("Props", "[]prop", "prop"), ("Allprop", "*struct{}", "allprop")])
  ,("addressDataResp", [("XMLName", "xml.Name", "urn:ietf:params:xml:ns:carddav address-data"), ("Data", "[]byte", ",chardata")])
  ,("addressDataType", [("XMLName", "xml.Name", "urn:ietf:params:xml:ns:carddav address-data-type"), ("ContentType", "string", "content-type,attr"), ("Version", "string", "version,attr")])
  ,("addressbookDescription", [("XMLName", "xml.Name", "urn:ietf:params:xml:ns:carddav addressbook-description"), ("Description", "string", ",chardata")])
  ,("addressbookHomeSet", [("XMLName", "xml.Name", "urn:ietf:params:xml:ns:carddav addressbook-home-set"), ("Href", "internal.Href", "DAV: href")])
  ,("addressbookMultiget", [("XMLName", "xml.Name", "urn:ietf:params:xml:ns:carddav addressbook-multiget"), ("Prop", "*internal.Prop", "DAV: prop,omitempty"), ("AllProp", "*struct{}", "DAV: allprop,omitempty"), ("PropName", "*struct{}", "DAV: propname,omitempty"), ("Hrefs", "[]internal.Href", "DAV: href")])
  ,("addressbookQuery", [("XMLName", "xml.Name", "urn:ietf:params:xml:ns:carddav addressbook-query"), ("Prop", "*internal.Prop", "DAV: prop,omitempty"), ("AllProp", "*struct{}", "DAV: allprop,omitempty"), ("PropName", "*struct{}", "DAV: propname,omitempty"), ("Filter", "filter", "filter"), ("Limit", "*limit", "limit,omitempty")])
  ,("filter", [("XMLName", "xml.Name", "urn:ietf:params:xml:ns:carddav filter"), ("Test", "filterTest", "test,attr,omitempty"), ("Props", "[]propFilter", "prop-filter")])
  ,("limit", [("XMLName", "xml.Name", "urn:ietf:params:xml:ns:carddav limit"), ("NResults", "uint", "nresults")])
  ,("maxResourceSize", [("XMLName", "xml.Name", "urn:ietf:params:xml:ns:carddav max-resource-size"), ("Size", "int64", ",chardata")])
  ,("mkcolReq", [("XMLName", "xml.Name", "DAV: mkcol"), ("ResourceType", "internal.ResourceType", "set>prop>resourcetype"), ("DisplayName", "string", "set>prop>displayname"), ("Description", "addressbookDescription", "set>prop>addressbook-description")])
  ,("paramFilter", [("XMLName", "xml.Name", "urn:ietf:params:xml:ns:carddav param-filter"), ("Name", "string", "name,attr"), ("IsNotDefined", "*struct{}", "is-not-defined"), ("TextMatch", "*textMatch", "text-match")])
  ,("prop", [("XMLName", "xml.Name", "urn:ietf:params:xml:ns:carddav prop"), ("Name", "string", "name,attr")])
  ,("propFilter", [("XMLName", "xml.Name", "urn:ietf:params:xml:ns:carddav prop-filter"), ("Name", "string", "name,attr"), ("Test", "filterTest", "test,attr,omitempty"), ("IsNotDefined", "*struct{}", "is-not-defined,omitempty"), ("TextMatches", "[]textMatch", "text-match,omitempty"), ("Params", "[]paramFilter", "param-filter,omitempty")])
  ,("supportedAddressData", [("XMLName", "xml.Name", "urn:ietf:params:xml:ns:carddav supported-address-data"), ("Types", "[]addressDataType", "address-data-type")])
  ,("textMatch", [("XMLName", "xml.Name", "urn:ietf:params:xml:ns:carddav text-match"), ("Text", "string", ",chardata"), ("Collation", "string", "collation,attr,omitempty"), ("NegateCondition", "negateCondition", "negate-condition,attr,omitempty"), ("MatchType", "matchType", "match-type,attr,omitempty")])
]

/-- status codes named per function (http.StatusXxx selectors and literal HTTPError codes) -/
def carddavStatusSites : List (String × List Nat) := [
  ("carddav.Client.SyncCollection", [404]),
  ("carddav.Handler.ServeHTTP", [308, 500, 500]),
  ("carddav.Handler.handleMultiget", [400]),
  ("carddav.Handler.handleQuery", [400, 400]),
  ("carddav.Handler.handleReport", [400]),
  ("carddav.NewPreconditionError", [409]),
  ("carddav.backend.Copy", [501]),
  ("carddav.backend.Delete", [403]),
  ("carddav.backend.Mkcol", [400, 400, 403]),
  ("carddav.backend.Move", [501]),
  ("carddav.backend.Options", [404]),
  ("carddav.backend.PropFind", [404]),
  ("carddav.backend.PropPatch", [405, 405, 501, 501]),
  ("carddav.backend.Put", [201, 400, 400, 400]),
  ("carddav.decodeAddressDataReq", [400])]

def carddavPanicSites : List (String × Nat) := [("carddav.filterProperties", 1)]

/-- run-time-checked accesses per function: index and slice expressions, type assertions without comma-ok (sorted) -/
def carddavIndexSites : List (String × List String) := [
  ("carddav.Client.HasSupport", ["classes[\"addressbook\"]"]),
  ("carddav.Client.MultiGetAddressBook", ["addressbookMultiget.Hrefs[i]"]),
  ("carddav.backend.propFindAddressBook", ["props[addressBookDescriptionName]", "props[internal.DisplayNameName]", "props[maxResourceSizeName]"]),
  ("carddav.backend.propFindAddressObject", ["props[internal.GetContentLengthName]", "props[internal.GetETagName]", "props[internal.GetLastModifiedName]"]),
  ("carddav.decodeSupportedAddressData", ["l[i]"]),
  ("carddav.filterProperties", ["ao.Card[vcard.FieldVersion]", "result.Card[prop]", "result.Card[vcard.FieldVersion]"])]

/-- assignments through a pointer receiver, per method (state kept across calls on a handler, client or reader value) -/
def carddavReceiverWrites : List (String × List String) := [
  ("carddav.filterTest.UnmarshalText", ["*ft"]),
  ("carddav.matchType.UnmarshalText", ["*mt"]),
  ("carddav.negateCondition.UnmarshalText", ["*nc", "*nc"]),
  ("carddav.reportReq.UnmarshalXML", ["r.Query", "r.Multiget"])]

def carddavGlobals : List String := ["CapabilityAddressBook", "addressBookDescriptionName", "addressBookHomeSetName", "addressBookMultigetName", "addressBookName", "addressBookQueryName", "addressDataName", "maxResourceSizeName", "supportedAddressDataName"]

end GoWebdav.Expected.Pinned
