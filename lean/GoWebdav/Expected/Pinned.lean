/-! PINNED snapshot (vf/pin_expected.py, run by hand on the pinned tree; reviewed): the fact tables of the pinned go-webdav
    sources.  The extractor regenerates `Generated.*` from /repo on every run; `Props/Pin/*.lean` hold the equalities. -/
namespace GoWebdav.Expected.Pinned

/-- every struct carrying `xml:"…"` tags: (package.struct, [(field, Go type, xml tag)]) -/
def internalSchema : List (String × List (String × String × String)) := [
   ("CurrentUserPrincipal", [("XMLName", "xml.Name", "DAV: current-user-principal"), ("Href", "Href", "href,omitempty"), ("Unauthenticated", "*struct{}", "unauthenticated,omitempty")])
  ,("DisplayName", [("XMLName", "xml.Name", "DAV: displayname"), ("Name", "string", ",chardata")])
  ,("Error", [("XMLName", "xml.Name", "DAV: error"), ("Raw", "[]RawXMLValue", ",any")])
  ,("GetContentLength", [("XMLName", "xml.Name", "DAV: getcontentlength"), ("Length", "int64", ",chardata")])
  ,("GetContentType", [("XMLName", "xml.Name", "DAV: getcontenttype"), ("Type", "string", ",chardata")])
  ,("GetETag", [("XMLName", "xml.Name", "DAV: getetag"), ("ETag", "ETag", ",chardata")])
  ,("GetLastModified", [("XMLName", "xml.Name", "DAV: getlastmodified"), ("LastModified", "Time", ",chardata")])
  ,("Include", [("XMLName", "xml.Name", "DAV: include"), ("Raw", "[]RawXMLValue", ",any")])
  ,("Limit", [("XMLName", "xml.Name", "DAV: limit"), ("NResults", "uint", "nresults")])
  ,("Location", [("XMLName", "xml.Name", "DAV: location"), ("Href", "Href", "href")])
  ,("MultiStatus", [("XMLName", "xml.Name", "DAV: multistatus"), ("Responses", "[]Response", "response"), ("ResponseDescription", "string", "responsedescription,omitempty"), ("SyncToken", "string", "sync-token,omitempty")])
  ,("Prop", [("XMLName", "xml.Name", "DAV: prop"), ("Raw", "[]RawXMLValue", ",any")])
  ,("PropFind", [("XMLName", "xml.Name", "DAV: propfind"), ("Prop", "*Prop", "prop,omitempty"), ("AllProp", "*struct{}", "allprop,omitempty"), ("Include", "*Include", "include,omitempty"), ("PropName", "*struct{}", "propname,omitempty")])
  ,("PropStat", [("XMLName", "xml.Name", "DAV: propstat"), ("Prop", "Prop", "prop"), ("Status", "Status", "status"), ("ResponseDescription", "string", "responsedescription,omitempty"), ("Error", "*Error", "error,omitempty")])
  ,("PropertyUpdate", [("XMLName", "xml.Name", "DAV: propertyupdate"), ("Remove", "[]Remove", "remove"), ("Set", "[]Set", "set")])
  ,("Remove", [("XMLName", "xml.Name", "DAV: remove"), ("Prop", "Prop", "prop")])
  ,("ResourceType", [("XMLName", "xml.Name", "DAV: resourcetype"), ("Raw", "[]RawXMLValue", ",any")])
  ,("Response", [("XMLName", "xml.Name", "DAV: response"), ("Hrefs", "[]Href", "href"), ("PropStats", "[]PropStat", "propstat,omitempty"), ("ResponseDescription", "string", "responsedescription,omitempty"), ("Status", "*Status", "status,omitempty"), ("Error", "*Error", "error,omitempty"), ("Location", "*Location", "location,omitempty")])
  ,("Set", [("XMLName", "xml.Name", "DAV: set"), ("Prop", "Prop", "prop")])
  ,("SyncCollectionQuery", [("XMLName", "xml.Name", "DAV: sync-collection"), ("SyncToken", "string", "sync-token"), ("Limit", "*Limit", "limit,omitempty"), ("SyncLevel", "string", "sync-level"), ("Prop", "*Prop", "prop")])
]

/-- the set of status codes named in each source file, sorted -/
def internalStatusByFile : List (String × List Nat) := [("client.go", [207]), ("elements.go", [200, 404, 500]), ("internal.go", [404, 500]), ("server.go", [200, 201, 204, 207, 400, 404, 405, 500])]

/-- explicit panic() calls per source file -/
def internalPanicsByFile : List (String × Nat) := [("internal.go", 1), ("xml.go", 2)]

/-- run-time-checked accesses per source file, as shapes (identifiers replaced by _), sorted -/
def internalIndexShapesByFile : List (String × List String) := [
  ("client.go", ["_._[\"Allow\"]", "_._[\"Dav\"]", "_._[0]", "_[\"1\"]", "_[0]", "_[0]", "_[_]"]),
  ("elements.go", ["_._[0]", "_._[_]", "_._[_]", "_[0]", "_[1]", "_[2]", "_[_]", "_[_]"]),
  ("server.go", ["_[:]", "_[_]", "_[_]", "_[_]"]),
  ("xml.go", ["_._()[0]", "_._._[_._]", "_[0]", "_[1]"])]

/-- the receiver types whose methods assign through the receiver -/
def internalReceiverWriteTypes : List String := ["ETag", "Href", "RawXMLValue", "Response", "Status", "Time", "rawXMLValueReader"]

def internalGlobals : List String := ["CollectionName", "CurrentUserPrincipalName", "DisplayNameName", "GetContentLengthName", "GetContentTypeName", "GetETagName", "GetLastModifiedName", "ResourceTypeName"]

def webdavSchema : List (String × List (String × String × String)) := [
   ("groupMembership", [("XMLName", "xml.Name", "DAV: group-membership"), ("Hrefs", "[]internal.Href", "href")])
  ,("principalAlternateURISet", [("XMLName", "xml.Name", "DAV: alternate-URI-set"), ("Hrefs", "[]internal.Href", "href")])
  ,("principalURL", [("XMLName", "xml.Name", "DAV: principal-URL"), ("Href", "internal.Href", "href")])
]

/-- the set of status codes named in each source file, sorted -/
def webdavStatusByFile : List (String × List Nat) := [("fs_local.go", [400, 403, 404, 405, 409, 412, 503]), ("server.go", [201, 204, 403, 405, 409, 412, 415, 500])]

/-- explicit panic() calls per source file -/
def webdavPanicsByFile : List (String × Nat) := []

/-- run-time-checked accesses per source file, as shapes (identifiers replaced by _), sorted -/
def webdavIndexShapesByFile : List (String × List String) := [
  ("server.go", ["_[_._()]", "_[_._]", "_[_._]", "_[_._]", "_[_._]", "_[_._]", "_[_]"])]

/-- the receiver types whose methods assign through the receiver -/
def webdavReceiverWriteTypes : List String := []

def webdavGlobals : List String := ["fileInfoPropFind", "groupMembershipName", "principalAlternateURISetName", "principalName", "principalURLName"]

def caldavSchema : List (String × List (String × String × String)) := [
   ("calendarDataReq", [("XMLName", "xml.Name", "urn:ietf:params:xml:ns:caldav calendar-data"), ("Comp", "*comp", "comp,omitempty"), ("Expand", "*expand", "expand,omitempty")])
  ,("calendarDataResp", [("XMLName", "xml.Name", "urn:ietf:params:xml:ns:caldav calendar-data"), ("Data", "[]byte", ",chardata")])
  ,("calendarDataType", [("XMLName", "xml.Name", "urn:ietf:params:xml:ns:caldav calendar-data"), ("ContentType", "string", "content-type,attr"), ("Version", "string", "version,attr")])
  ,("calendarDescription", [("XMLName", "xml.Name", "urn:ietf:params:xml:ns:caldav calendar-description"), ("Description", "string", ",chardata")])
  ,("calendarHomeSet", [("XMLName", "xml.Name", "urn:ietf:params:xml:ns:caldav calendar-home-set"), ("Href", "internal.Href", "DAV: href")])
  ,("calendarMultiget", [("XMLName", "xml.Name", "urn:ietf:params:xml:ns:caldav calendar-multiget"), ("Prop", "*internal.Prop", "DAV: prop,omitempty"), ("AllProp", "*struct{}", "DAV: allprop,omitempty"), ("PropName", "*struct{}", "DAV: propname,omitempty"), ("Hrefs", "[]internal.Href", "DAV: href")])
  ,("calendarQuery", [("XMLName", "xml.Name", "urn:ietf:params:xml:ns:caldav calendar-query"), ("Prop", "*internal.Prop", "DAV: prop,omitempty"), ("AllProp", "*struct{}", "DAV: allprop,omitempty"), ("PropName", "*struct{}", "DAV: propname,omitempty"), ("Filter", "filter", "filter")])
  ,("comp", [("XMLName", "xml.Name", "urn:ietf:params:xml:ns:caldav comp"), ("Name", "string", "name,attr"), ("Allprop", "*struct{}", "allprop,omitempty"), ("Prop", "[]prop", "prop,omitempty"), ("Allcomp", "*struct{}", "allcomp,omitempty"), ("Comp", "[]comp", "comp,omitempty")])
  ,("compFilter", [("XMLName", "xml.Name", "urn:ietf:params:xml:ns:caldav comp-filter"), ("Name", "string", "name,attr"), ("IsNotDefined", "*struct{}", "is-not-defined,omitempty"), ("TimeRange", "*timeRange", "time-range,omitempty"), ("PropFilters", "[]propFilter", "prop-filter,omitempty"), ("CompFilters", "[]compFilter", "comp-filter,omitempty")])
  ,("expand", [("XMLName", "xml.Name", "urn:ietf:params:xml:ns:caldav expand"), ("Start", "dateWithUTCTime", "start,attr"), ("End", "dateWithUTCTime", "end,attr")])
  ,("filter", [("XMLName", "xml.Name", "urn:ietf:params:xml:ns:caldav filter"), ("CompFilter", "compFilter", "comp-filter")])
  ,("maxResourceSize", [("XMLName", "xml.Name", "urn:ietf:params:xml:ns:caldav max-resource-size"), ("Size", "int64", ",chardata")])
  ,("mkcolReq", [("XMLName", "xml.Name", "DAV: mkcol"), ("ResourceType", "internal.ResourceType", "set>prop>resourcetype"), ("DisplayName", "string", "set>prop>displayname")])
  ,("paramFilter", [("XMLName", "xml.Name", "urn:ietf:params:xml:ns:caldav param-filter"), ("Name", "string", "name,attr"), ("IsNotDefined", "*struct{}", "is-not-defined,omitempty"), ("TextMatch", "*textMatch", "text-match,omitempty")])
  ,("prop", [("XMLName", "xml.Name", "urn:ietf:params:xml:ns:caldav prop"), ("Name", "string", "name,attr")])
  ,("propFilter", [("XMLName", "xml.Name", "urn:ietf:params:xml:ns:caldav prop-filter"), ("Name", "string", "name,attr"), ("IsNotDefined", "*struct{}", "is-not-defined,omitempty"), ("TimeRange", "*timeRange", "time-range,omitempty"), ("TextMatch", "*textMatch", "text-match,omitempty"), ("ParamFilter", "[]paramFilter", "param-filter,omitempty")])
  ,("supportedCalendarComponentSet", [("XMLName", "xml.Name", "urn:ietf:params:xml:ns:caldav supported-calendar-component-set"), ("Comp", "[]comp", "comp")])
  ,("supportedCalendarData", [("XMLName", "xml.Name", "urn:ietf:params:xml:ns:caldav supported-calendar-data"), ("Types", "[]calendarDataType", "calendar-data")])
  ,("textMatch", [("XMLName", "xml.Name", "urn:ietf:params:xml:ns:caldav text-match"), ("Text", "string", ",chardata"), ("Collation", "string", "collation,attr,omitempty"), ("NegateCondition", "negateCondition", "negate-condition,attr,omitempty")])
  ,("timeRange", [("XMLName", "xml.Name", "urn:ietf:params:xml:ns:caldav time-range"), ("Start", "dateWithUTCTime", "start,attr,omitempty"), ("End", "dateWithUTCTime", "end,attr,omitempty")])
]

/-- the set of status codes named in each source file, sorted -/
def caldavStatusByFile : List (String × List Nat) := [("server.go", [201, 308, 400, 403, 404, 409, 500, 501])]

/-- explicit panic() calls per source file -/
def caldavPanicsByFile : List (String × Nat) := [("match.go", 1)]

/-- run-time-checked accesses per source file, as shapes (identifiers replaced by _), sorted -/
def caldavIndexShapesByFile : List (String × List String) := [
  ("client.go", ["_._[_]"]),
  ("match.go", ["_[0]"]),
  ("server.go", ["_[_._]", "_[_._]", "_[_._]", "_[_._]", "_[_]", "_[_]"])]

/-- the receiver types whose methods assign through the receiver -/
def caldavReceiverWriteTypes : List String := ["dateWithUTCTime", "negateCondition", "reportReq"]

def caldavGlobals : List String := ["CapabilityCalendar", "calendarDataName", "calendarDescriptionName", "calendarHomeSetName", "calendarMultigetName", "calendarName", "calendarQueryName", "maxResourceSizeName", "supportedCalendarComponentSetName", "supportedCalendarDataName"]

def carddavSchema : List (String × List (String × String × String)) := [
   ("addressDataReq", [("XMLName", "xml.Name", "urn:ietf:params:xml:ns:carddav address-data"), ("Props", "[]prop", "prop"), ("Allprop", "*struct{}", "allprop")])
  ,("addressDataResp", [("XMLName", "xml.Name", "urn:ietf:params:xml:ns:carddav address-data"), ("Data", "[]byte", ",chardata")])
  ,("addressDataType", [("XMLName", "xml.Name", "urn:ietf:params:xml:ns:carddav address-data-type"), ("ContentType", "string", "content-type,attr"), ("Version", "string", "version,attr")])
  ,("addressbookDescription", [("XMLName", "xml.Name", "urn:ietf:params:xml:ns:carddav addressbook-description"), ("Description", "string", ",chardata")])
  ,("addressbookHomeSet", [("XMLName", "xml.Name", "urn:ietf:params:xml:ns:carddav addressbook-home-set"), ("Href", "internal.Href", "DAV: href")])
  ,("addressbookMultiget", [("XMLName", "xml.Name", "urn:ietf:params:xml:ns:carddav addressbook-multiget"), ("Prop", "*internal.Prop", "DAV: prop,omitempty"), ("AllProp", "*struct{}", "DAV: allprop,omitempty"), ("PropName", "*struct{}", "DAV: propname,omitempty"), ("Hrefs", "[]internal.Href", "DAV: href")])
  ,("addressbookQuery", [("XMLName", "xml.Name", "urn:ietf:params:xml:ns:carddav addressbook-query"), ("Prop", "*internal.Prop", "DAV: prop,omitempty"), ("AllProp", "*struct{}", "DAV: allprop,omitempty"), ("PropName", "*struct{}", "DAV: propname,omitempty"), ("Filter", "filter", "filter"), ("Limit", "*limit", "limit,omitempty")])
  ,("filter", [("XMLName", "xml.Name", "urn:ietf:params:xml:ns:carddav filter"), ("Test", "filterTest", "test,attr,omitempty"), ("Props", "[]propFilter", "prop-filter")])
  ,("limit", [("XMLName", "xml.Name", "urn:ietf:params:xml:ns:carddav limit"), ("NResults", "uint", "nresults")])
  ,("maxResourceSize", [("XMLName", "xml.Name", "urn:ietf:params:xml:ns:carddav max-resource-size"), ("Size", "int64", ",chardata")])
  ,("mkcolReq", [("XMLName", "xml.Name", "DAV: mkcol"), ("ResourceType", "internal.ResourceType", "set>prop>resourcetype"), ("DisplayName", "string", "set>prop>displayname"), ("Description", "addressbookDescription", "set>prop>addressbook-description")])
  ,("paramFilter", [("XMLName", "xml.Name", "urn:ietf:params:xml:ns:carddav param-filter"), ("Name", "string", "name,attr"), ("IsNotDefined", "*struct{}", "is-not-defined"), ("TextMatch", "*textMatch", "text-match")])
  ,("prop", [("XMLName", "xml.Name", "urn:ietf:params:xml:ns:carddav prop"), ("Name", "string", "name,attr")])
  ,("propFilter", [("XMLName", "xml.Name", "urn:ietf:params:xml:ns:carddav prop-filter"), ("Name", "string", "name,attr"), ("Test", "filterTest", "test,attr,omitempty"), ("IsNotDefined", "*struct{}", "is-not-defined,omitempty"), ("TextMatches", "[]textMatch", "text-match,omitempty"), ("Params", "[]paramFilter", "param-filter,omitempty")])
  ,("supportedAddressData", [("XMLName", "xml.Name", "urn:ietf:params:xml:ns:carddav supported-address-data"), ("Types", "[]addressDataType", "address-data-type")])
  ,("textMatch", [("XMLName", "xml.Name", "urn:ietf:params:xml:ns:carddav text-match"), ("Text", "string", ",chardata"), ("Collation", "string", "collation,attr,omitempty"), ("NegateCondition", "negateCondition", "negate-condition,attr,omitempty"), ("MatchType", "matchType", "match-type,attr,omitempty")])
]

/-- the set of status codes named in each source file, sorted -/
def carddavStatusByFile : List (String × List Nat) := [("client.go", [404]), ("server.go", [201, 308, 400, 403, 404, 405, 409, 500, 501])]

/-- explicit panic() calls per source file -/
def carddavPanicsByFile : List (String × Nat) := [("match.go", 1)]

/-- run-time-checked accesses per source file, as shapes (identifiers replaced by _), sorted -/
def carddavIndexShapesByFile : List (String × List String) := [
  ("client.go", ["_._[_]", "_[\"addressbook\"]", "_[_]"]),
  ("match.go", ["_._[_._]", "_._[_._]", "_._[_]"]),
  ("server.go", ["_[_._]", "_[_._]", "_[_._]", "_[_._]", "_[_]", "_[_]"])]

/-- the receiver types whose methods assign through the receiver -/
def carddavReceiverWriteTypes : List String := ["filterTest", "matchType", "negateCondition", "reportReq"]

def carddavGlobals : List String := ["CapabilityAddressBook", "addressBookDescriptionName", "addressBookHomeSetName", "addressBookMultigetName", "addressBookName", "addressBookQueryName", "addressDataName", "maxResourceSizeName", "supportedAddressDataName"]

/-- run-time-checked accesses per function: index and slice expressions, type assertions without comma-ok (sorted) -/
def internalIndexSites : List (String × List String) := [
  ("internal.Client.Options", ["classes[\"1\"]", "resp.Header[\"Allow\"]", "resp.Header[\"Dav\"]"]),
  ("internal.Client.PropFindFlat", ["ms.Responses[0]"]),
  ("internal.DiscoverContextURL", ["addrs[0]", "txtRecords[0]"]),
  ("internal.ETag.UnmarshalText", ["b[0]"]),
  ("internal.EncodeProp", ["l[i]"]),
  ("internal.Handler.handlePropfind", ["b[:]"]),
  ("internal.NewPropFindResponse", ["props[ResourceTypeName]", "seen[xmlName]", "seen[xmlName]"]),
  ("internal.Prop.Get", ["p.Raw[i]"]),
  ("internal.Response.EncodeProp", ["resp.PropStats[i]"]),
  ("internal.Response.Path", ["resp.Hrefs[0]"]),
  ("internal.Status.UnmarshalText", ["parts[1]", "parts[2]"]),
  ("internal.parseCommaSeparatedSet", ["m[f]"]),
  ("internal.rawXMLValueReader.Token", ["tr.val.children[tr.child]"]),
  ("internal.valueXMLName", ["nameParts[0]", "nameParts[1]", "strings.Split(tag, \",\")[0]"]),
  ("internal.xmlNamesToRaw", ["l[i]"])]

/-- run-time-checked accesses per function: index and slice expressions, type assertions without comma-ok (sorted) -/
def webdavIndexSites : List (String × List String) := [
  ("webdav.backend.PropFind", ["resps[i]"]),
  ("webdav.backend.propFindFile", ["props[internal.GetContentLengthName]", "props[internal.GetContentTypeName]", "props[internal.GetETagName]", "props[internal.GetLastModifiedName]", "props[internal.ResourceTypeName]"]),
  ("webdav.servePrincipalPropfind", ["props[homeSet.GetXMLName()]"])]

/-- run-time-checked accesses per function: index and slice expressions, type assertions without comma-ok (sorted) -/
def caldavIndexSites : List (String × List String) := [
  ("caldav.Client.MultiGetCalendar", ["calendarMultiget.Hrefs[i]"]),
  ("caldav.backend.propFindCalendar", ["props[calendarDescriptionName]", "props[internal.DisplayNameName]", "props[maxResourceSizeName]"]),
  ("caldav.backend.propFindCalendarObject", ["props[internal.GetContentLengthName]", "props[internal.GetETagName]", "props[internal.GetLastModifiedName]"]),
  ("caldav.matchParamFilter", ["values[0]"])]

/-- run-time-checked accesses per function: index and slice expressions, type assertions without comma-ok (sorted) -/
def carddavIndexSites : List (String × List String) := [
  ("carddav.Client.HasSupport", ["classes[\"addressbook\"]"]),
  ("carddav.Client.MultiGetAddressBook", ["addressbookMultiget.Hrefs[i]"]),
  ("carddav.backend.propFindAddressBook", ["props[addressBookDescriptionName]", "props[internal.DisplayNameName]", "props[maxResourceSizeName]"]),
  ("carddav.backend.propFindAddressObject", ["props[internal.GetContentLengthName]", "props[internal.GetETagName]", "props[internal.GetLastModifiedName]"]),
  ("carddav.decodeSupportedAddressData", ["l[i]"]),
  ("carddav.filterProperties", ["ao.Card[vcard.FieldVersion]", "result.Card[prop]", "result.Card[vcard.FieldVersion]"])]

end GoWebdav.Expected.Pinned
