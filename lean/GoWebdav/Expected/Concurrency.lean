/-! Hand-written expectations about shared state and the upload goroutine (compared with `Generated.Facts`). -/
namespace GoWebdav.Expected

/-- `Client.Create`: one goroutine, one `chan error` of capacity 1, a send on each of the goroutine's two exits -/
def webdavConcurrency : List (String × Nat × List String × Nat) := [("webdav.Client.Create", 1, ["error/1"], 2)]

/-- the error exit sends the error, the normal exit closes the response body and sends nil;
    `Close` closes the pipe writer (EOF for the transport) BEFORE it waits for the goroutine's result -/
def webdavChanEvents : List (String × List String) :=
  [("webdav.Client.Create", ["close:pw", "go", "send:done<-err", "close:resp.Body", "send:done<-nil"]),
   ("webdav.fileWriter.Close", ["close:fw.pw", "recv:fw.done"])]

end GoWebdav.Expected
