/-! Hand-written expectations for the regenerated tables (RFC 4918 §10.2, §10.6; RFC 4791 §9.7.5; RFC 6352 §10.5). -/
namespace GoWebdav.Expected

/-- RFC 4918 §10.2: Depth = "0" | "1" | "infinity" (Go constants 0, 1, -1) -/
def depthTable : List (String × Int) := [("0", 0), ("1", 1), ("infinity", -1)]
/-- RFC 4918 §10.6: Overwrite = "T" | "F" -/
def overwriteTable : List (String × Bool) := [("T", true), ("F", false)]
/-- negate-condition = "yes" | "no" -/
def negateTable : List (String × Bool) := [("yes", true), ("no", false)]
def filterTests : List String := ["anyof", "allof"]
def matchTypes : List String := ["equals", "contains", "starts-with", "ends-with"]

/-- the method dispatch of the shared handler -/
def dispatch : List (String × String) := [
  ("OPTIONS", "h.handleOptions"), ("GET", "h.Backend.HeadGet"), ("HEAD", "h.Backend.HeadGet"),
  ("PUT", "h.Backend.Put"), ("DELETE", "h.Backend.Delete"), ("PROPFIND", "h.handlePropfind"),
  ("PROPPATCH", "h.handleProppatch"), ("MKCOL", "h.Backend.Mkcol"), ("COPY", "h.handleCopyMove"),
  ("MOVE", "h.handleCopyMove"), ("*", "HTTPErrorf")]

end GoWebdav.Expected
