import GoWebdav.Std.Path
/-!
Model of `LocalFileSystem.localPath` / `externalPath` (fs_local.go) and `backend.resourceTypeAtPath`
(caldav/server.go, carddav/server.go).  Host paths are segment lists below `/`; the served root is a list of
normal segments (`filepath.Join(root, cleaned name)` = the concatenation, a fact about `path/filepath` that
the correspondence op `localpath` validates against the real function on every run).
-/
namespace GoWebdav.Impl.Path
open GoWebdav GoWebdav.Std.Path

inductive LPErr where
  | invalidChar    -- 400 "invalid character in path"
  | notAbs         -- 400 "expected absolute path"
deriving DecidableEq, Repr

/-- `localPath(name)`: the host path as segments -/
def localPath (root : List Seg) (name : Bytes) : Except LPErr (List Seg) :=
  if name.contains 0 then .error .invalidChar
  else if !isAbs (clean name) then .error .notAbs
  else .ok (root ++ rootedSegs name)

/-- `externalPath(p)` for a host path `root ++ below`: `"/" + filepath.ToSlash(filepath.Rel(root, p))`
    (`Rel` yields `"."` for the root itself) -/
def externalPath (below : List Seg) : Bytes :=
  slash :: (if below = [] then dot else joinSegs below)

/-- `resourceTypeAtPath(reqPath)` with `b.Prefix = pfx` -/
def resourceTypeAtPath (pfx reqPath : Bytes) : Nat :=
  let p := trimPrefix (clean reqPath) pfx
  let p := if isAbs p then p else slash :: p
  if p = [slash] then 0 else (splitSlash p).length - 1

end GoWebdav.Impl.Path
