import GoWebdav.Std.Posix
import GoWebdav.Impl.Path
import GoWebdav.Impl.Cond
import GoWebdav.Generated.Tables
/-!
Model of the WebDAV file server: `internal.Handler.ServeHTTP` (dispatch table regenerated from the source) →
`handleOptions/handlePropfind/handleProppatch/handleCopyMove` (internal/server.go) → `backend.*` (server.go) →
`LocalFileSystem.*`, `checkConditionalMatches`, `errFromOS`, `errFromOSDest`, `pathsOverlap` (fs_local.go) →
`Std.Posix`.  The served root is `[]`; checks are made in the order the Go code makes them.

Abstractions (each computed on the Go side by the standard library and handed to the model as a view):
* a conditional header is seen relative to the target's current entity tag (`CondView`), because the tag embeds the
  modification time; the verdict is `Impl.Cond.check` on canonical stand-ins;
* `Destination` is the result of `url.Parse` (`DestView`); `Content-Type` is seen through `mime.ParseMediaType`;
* a PROPFIND body is seen as its decoded form (`PfBody`; XML decoding itself belongs to C11/C13);
* the COPY walk (`filepath.Walk` + `Mkdir`/`copyRegularFile` per visited entry) is modelled by its result
  (`Std.Posix.graft`), the first step's failure on a missing destination parent being an explicit check.
-/
namespace GoWebdav.Impl.Webdav
open GoWebdav GoWebdav.Std.Path GoWebdav.Std.Posix GoWebdav.Impl.Path GoWebdav.Generated

inductive CondView where
  | unset | star | current | other | malformed
deriving DecidableEq, Repr

inductive DestView where
  | absent                 -- no Destination header
  | unparsable             -- url.Parse fails
  | path (p : Bytes)       -- url.Parse(...).Path
deriving DecidableEq, Repr

inductive PfBody where
  | allprop | propname | fileprops | noform | malformed
deriving DecidableEq, Repr

structure Request where
  method : String
  path : Bytes
  depth : String := ""
  overwrite : String := ""
  dest : DestView := .absent
  ifMatch : CondView := .unset
  ifNoneMatch : CondView := .unset
  ctypeSet : Bool := false          -- Content-Type header present
  ctypeXml : Bool := false          -- … and it is application/xml or text/xml
  body : Bytes := []
  fault : Option Nat := none        -- the body reader fails after this many bytes
  pf : PfBody := .allprop           -- decoded form of an XML body (PROPFIND / PROPPATCH)
deriving DecidableEq, Repr

-- error texts (C17) ------------------------------------------------------------------------------

/-- an `os` error as Go types it -/
inductive OsErr where
  | pathErr (op : String) (path : FPath) (errno : String)          -- *fs.PathError
  | linkErr (op : String) (old new : FPath) (errno : String)       -- *os.LinkError
  | plain (text : String)
deriving DecidableEq, Repr

/-- message of a response body; `host p` = the absolute host path of `p` would appear in the text -/
inductive Msg where
  | none
  | text (s : String)
  | opErrno (op errno : String)
  | host (p : FPath)
deriving DecidableEq, Repr

/-- `stripPaths` -/
def stripPaths : OsErr → Msg
  | .pathErr op _ errno => .opErrno op errno
  | .linkErr op _ _ errno => .opErrno op errno
  | .plain s => .text s

def Msg.mentionsHost : Msg → Bool
  | .host _ => true
  | _ => false

structure Response where
  status : Nat
  allow : List String := []                         -- Allow (OPTIONS)
  dav : Bool := false                               -- DAV: 1, 3 (OPTIONS)
  body : Option Bytes := none                       -- entity body (GET)
  contentLength : Option Nat := none                -- GET / HEAD
  tagged : Bool := false                            -- ETag and Last-Modified of the stored resource are announced
  multi : List (Bytes × Bool × Option Nat) := []    -- PROPFIND: (href path, is collection, getcontentlength)
  msg : Msg := .none
deriving DecidableEq, Repr

def err (code : Nat) (m : Msg := .none) : Response := { status := code, msg := m }

-- helpers ------------------------------------------------------------------------------------------

/-- canonical stand-ins for the conditional-header views: the current tag is `c` -/
def condChars : CondView → List Char
  | .unset => []
  | .star => ['*']
  | .current => ['"', 'c', '"']
  | .other => ['"', 'o', '"']
  | .malformed => ['c']

def asciiUtf8 (c : Char) : List UInt8 := [UInt8.ofNat c.toNat]

/-- `checkConditionalMatches(fi, ifMatch, ifNoneMatch)` -/
def checkCond (exists_ : Bool) (im inm : CondView) : Cond.Verdict :=
  Cond.check asciiUtf8 (if exists_ then some [99] else none) (condChars im) (condChars inm)

/-- the visible paths of a tree, without repetition -/
def paths (t : FS) : List FPath := (t.map (·.1)).eraseDups.filter (fun p => (lookup t p).isSome)

def sizeOf? : Entry → Option Nat
  | .file c => some c.length
  | .dir => none

def isDir : Entry → Bool
  | .dir => true
  | .file _ => false

/-- `pathsOverlap`: equal, or one contains the other -/
def overlap (a b : FPath) : Bool := a.isPrefixOf b || b.isPrefixOf a

/-- what the body reader delivers: the whole body, or a failure after `n` bytes -/
def readBody (r : Request) : Except Unit Bytes :=
  match r.fault with
  | none => .ok r.body
  | some _ => .error ()

-- the methods -------------------------------------------------------------------------------------

def optionsResp (t : FS) (r : Request) : Response :=
  match localPath [] r.path with
  | .error _ => err 400 (.text "invalid path")
  | .ok p =>
    match lookup t p with
    | none => { status := 204, allow := ["OPTIONS", "PUT", "MKCOL"], dav := true }
    | some e =>
      let base := ["OPTIONS", "DELETE", "PROPFIND", "COPY", "MOVE"]
      { status := 204, allow := if isDir e then base else base ++ ["HEAD", "GET", "PUT"], dav := true }

/-- read-only: the tree is handed back untouched -/
def options (t : FS) (r : Request) : FS × Response := (t, optionsResp t r)

def headGetResp (t : FS) (r : Request) : Response :=
  match localPath [] r.path with
  | .error _ => err 400 (.text "invalid path")
  | .ok p =>
    match lookup t p with
    | none => err 404 (stripPaths (.pathErr "stat" p "no such file or directory"))
    | some .dir => err 405
    | some (.file c) =>
      { status := 200, body := if r.method = "HEAD" then none else some c, contentLength := some c.length, tagged := true }

/-- read-only: the tree is handed back untouched -/
def headGet (t : FS) (r : Request) : FS × Response := (t, headGetResp t r)

def put (t : FS) (r : Request) : FS × Response :=
  match localPath [] r.path with
  | .error _ => (t, err 400 (.text "invalid path"))
  | .ok p =>
    let fi := lookup t p
    if fi = some .dir then (t, err 405 (.text "cannot write to a collection")) else
    match checkCond fi.isSome r.ifMatch r.ifNoneMatch with
    | .badRequest => (t, err 400 (.text "failed to unquote ETag"))
    | .preconditionFailed => (t, err 412 (.text "condition failed"))
    | .proceed =>
      -- os.Create(p): the parent must resolve to a directory
      if !parentOK t p then (t, err 409 (stripPaths (.pathErr "open" p "no such file or directory"))) else
      match readBody r with
      | .error () =>
        -- the file has been created/truncated; the error path removes it
        (removeAll t p, err 500 (.text "body read error"))
      | .ok content =>
        (set t p (.file content), { status := if fi.isSome then 204 else 201, tagged := true })

def delete (t : FS) (r : Request) : FS × Response :=
  match localPath [] r.path with
  | .error _ => (t, err 400 (.text "invalid path"))
  | .ok p =>
    match lookup t p with
    | none => (t, err 404 (stripPaths (.pathErr "stat" p "no such file or directory")))
    | some _ =>
      match checkCond true r.ifMatch r.ifNoneMatch with
      | .badRequest => (t, err 400 (.text "failed to unquote ETag"))
      | .preconditionFailed => (t, err 412 (.text "condition failed"))
      | .proceed => (removeAll t p, { status := 204 })

def mkcol (t : FS) (r : Request) : FS × Response :=
  if r.ctypeSet then (t, err 415 (.text "request body not supported in MKCOL request")) else
  match localPath [] r.path with
  | .error _ => (t, err 400 (.text "invalid path"))
  | .ok p =>
    if (lookup t p).isSome then (t, err 405 (stripPaths (.pathErr "mkdir" p "file exists")))
    else if !parentOK t p then (t, err 409 (stripPaths (.pathErr "mkdir" p "no such file or directory")))
    else (set t p .dir, { status := 201 })

/-- `LocalFileSystem.Copy` / `Move` after the headers have been accepted -/
def copyMove (t : FS) (isMove : Bool) (srcName dstName : Bytes) (recursive overwrite : Bool) : FS × Response :=
  match localPath [] srcName with
  | .error _ => (t, err 400 (.text "invalid path"))
  | .ok src =>
  match localPath [] dstName with
  | .error _ => (t, err 400 (.text "invalid path"))
  | .ok dst =>
    match lookup t src with
    | none => (t, err 404 (stripPaths (.pathErr "stat" src "no such file or directory")))
    | some srcEntry =>
      if overlap src dst then (t, err 403 (.text "source and destination overlap")) else
      let dstExists := (lookup t dst).isSome
      if dstExists && !overwrite then (t, err 412 (.text "file already exists")) else
      let t1 := if dstExists then removeAll t dst else t
      -- first step of the walk / the rename: the destination's parent must resolve to a directory
      if !parentOK t1 dst then
        (t1, err 409 (stripPaths (if isMove then .linkErr "rename" src dst "no such file or directory" else .pathErr "mkdir" dst "no such file or directory")))
      else
        let t2 :=
          if isMove then removeAll (graft t1 src dst) src
          else if recursive || !isDir srcEntry then graft t1 src dst
          else set t1 dst .dir
        (t2, { status := if dstExists then 204 else 201 })

def copyMoveHandler (t : FS) (r : Request) : FS × Response :=
  match r.dest with
  | .absent => (t, err 400 (.text "missing Destination header"))
  | .unparsable => (t, err 400 (.text "malformed Destination header"))
  | .path dstName =>
    match (if r.overwrite = "" then some true else parseOverwrite r.overwrite) with
    | none => (t, err 400 (.text "invalid Overwrite value"))
    | some ow =>
      match (if r.depth = "" then some (-1) else parseDepth r.depth) with
      | none => (t, err 400 (.text "invalid Depth value"))
      | some depth =>
        if r.method = "COPY" then
          if depth = 1 then (t, err 400 (.text "Depth: 1 is not supported in COPY request"))
          else copyMove t false r.path dstName (depth ≠ 0) ow
        else
          if depth ≠ -1 then (t, err 400 (.text "only Depth: infinity is accepted in MOVE request"))
          else copyMove t true r.path dstName true ow

/-- `externalPath` of a visible path -/
def hrefOf (p : FPath) : Bytes := externalPath p

/-- the decoded form of a PROPFIND body: an XML content type means the body must decode; otherwise it must be
    empty (= allprop); `none` = the request body is refused -/
def bodyForm (r : Request) : Option PfBody :=
  if r.ctypeXml then (if r.pf = .malformed || r.body.isEmpty then none else some r.pf)
  else if r.body.isEmpty then some .allprop else none

def propfindResp (t : FS) (r : Request) : Response :=
  match bodyForm r with
  | none => err 400 (.text "bad request body")
  | some form =>
    match (if r.depth = "" then some (-1) else parseDepth r.depth) with
    | none => err 400 (.text "invalid Depth value")
    | some depth =>
      match localPath [] r.path with
      | .error _ => err 400 (.text "invalid path")
      | .ok p =>
        match lookup t p with
        | none => err 404 (stripPaths (.pathErr "stat" p "no such file or directory"))
        | some e =>
          if form = .noform then err 400 (.text "request missing propname, allprop or prop element") else
          -- `propname` lists names without values: neither kind nor size is reported
          let describe (href : Bytes) (e : Entry) : Bytes × Bool × Option Nat :=
            (href, decide (form ≠ .propname) && isDir e, if form ≠ .propname then sizeOf? e else none)
          if depth ≠ 0 && isDir e then
            let members := (paths t).filter (fun q => if depth = 1 then (q = p || (q.length = p.length + 1 && p.isPrefixOf q)) else p.isPrefixOf q)
            { status := 207, multi := members.filterMap (fun q => (lookup t q).map (fun e' => describe (hrefOf q) e')) }
          else
            { status := 207, multi := [describe r.path e] }

/-- read-only: the tree is handed back untouched -/
def propfind (t : FS) (r : Request) : FS × Response := (t, propfindResp t r)

def proppatchResp (t : FS) (r : Request) : Response :=
  if !r.ctypeXml then err 400 (.text "expected application/xml request")
  else if r.pf = .malformed || r.body.isEmpty then err 400 (.text "bad request body")
  else err 403 (.text "PROPPATCH is unsupported")

/-- read-only: the tree is handed back untouched -/
def proppatch (t : FS) (r : Request) : FS × Response := (t, proppatchResp t r)

/-- `internal.Handler.ServeHTTP`: the regenerated `switch r.Method` picks the handler -/
def step (t : FS) (r : Request) : FS × Response :=
  let handler := match dispatch.find? (fun kv => kv.1 == r.method) with
    | some kv => kv.2
    | none => (match dispatch.find? (fun kv => kv.1 == "*") with | some kv => kv.2 | none => "")
  if handler = "h.handleOptions" then options t r
  else if handler = "h.Backend.HeadGet" then headGet t r
  else if handler = "h.Backend.Put" then put t r
  else if handler = "h.Backend.Delete" then delete t r
  else if handler = "h.handlePropfind" then propfind t r
  else if handler = "h.handleProppatch" then proppatch t r
  else if handler = "h.Backend.Mkcol" then mkcol t r
  else if handler = "h.handleCopyMove" then copyMoveHandler t r
  else (t, err 405 (.text "unsupported method"))

def run (t : FS) : List Request → FS × List Response
  | [] => (t, [])
  | r :: rs =>
    let (t1, resp) := step t r
    let (t2, resps) := run t1 rs
    (t2, resp :: resps)

end GoWebdav.Impl.Webdav
