import GoWebdav.Std.Str
/-!
Model of carddav/match.go: `Match`, `matchPropFilter`, `matchTextMatch`, `Filter`, `filterProperties`.

A vCard is a Go map from property name to a list of field values; it is modelled as an association
list with first-match lookup (`Card.Get` returns the first field of the slice stored under the key).
-/
namespace GoWebdav.Impl.Carddav
open GoWebdav.Std

structure TextMatch where
  text : String
  negate : Bool
  matchType : String
deriving DecidableEq, Repr

structure PropFilter where
  name : String
  test : String
  isNotDefined : Bool
  textMatches : List TextMatch
deriving DecidableEq, Repr

structure Query where
  allProp : Bool
  props : List String
  propFilters : List PropFilter
  filterTest : String
  limit : Int
deriving DecidableEq, Repr

abbrev Card := List (String × List String)

/-- the slice stored under a key (`card[k]`, nil when absent) -/
def Card.values (c : Card) (k : String) : List String :=
  match c.find? (fun kv => kv.1 == k) with
  | some kv => kv.2
  | none => []

/-- `Card.Get(k)`: first field under the key -/
def Card.get (c : Card) (k : String) : Option String := (c.values k).head?

def Card.insert (c : Card) (k : String) (v : List String) : Card := (k, v) :: c

structure AO where
  path : String
  card : Card
deriving DecidableEq, Repr

inductive Err where
  | unknownQueryTest | unknownPropTest | unknownMatchType | panicEmptyCard
deriving DecidableEq, Repr

def matchTextMatch (t : TextMatch) (value : String) : Except Err Bool :=
  let neg (ok : Bool) : Except Err Bool := .ok (if t.negate then !ok else ok)
  if t.matchType = "equals" then neg (t.text == value)
  else if t.matchType = "contains" ∨ t.matchType = "" then neg (Str.contains value t.text)
  else if t.matchType = "starts-with" then neg (Str.hasPrefix value t.text)
  else if t.matchType = "ends-with" then neg (Str.hasSuffix value t.text)
  else .error .unknownMatchType

/-- `for … { ok, err := f(x); if err != nil { return false, err }; if ok { return true, nil } }; return false, nil` -/
def anyScan : List (Except Err Bool) → Except Err Bool
  | [] => .ok false
  | .error e :: _ => .error e
  | .ok true :: _ => .ok true
  | .ok false :: rest => anyScan rest

/-- `for … { ok, err := f(x); if err != nil { return false, err }; if !ok { return false, nil } }; return true, nil` -/
def allScan : List (Except Err Bool) → Except Err Bool
  | [] => .ok true
  | .error e :: _ => .error e
  | .ok false :: _ => .ok false
  | .ok true :: rest => allScan rest

def matchPropFilter (pf : PropFilter) (card : Card) : Except Err Bool :=
  match card.get pf.name with
  | none => .ok pf.isNotDefined
  | some v =>
    if pf.isNotDefined then .ok false
    else if pf.textMatches.isEmpty then .ok true
    else if pf.test = "anyof" ∨ pf.test = "" then anyScan (pf.textMatches.map (matchTextMatch · v))
    else if pf.test = "allof" then allScan (pf.textMatches.map (matchTextMatch · v))
    else .error .unknownPropTest

/-- `Match(query, ao)` for a non-nil query -/
def match_ (q : Query) (card : Card) : Except Err Bool :=
  if q.filterTest = "anyof" ∨ q.filterTest = "" then anyScan (q.propFilters.map (matchPropFilter · card))
  else if q.filterTest = "allof" then allScan (q.propFilters.map (matchPropFilter · card))
  else .error .unknownQueryTest

def matchOpt (q : Option Query) (card : Card) : Except Err Bool :=
  match q with
  | none => .ok true
  | some q => match_ q card

def filterProperties (q : Query) (ao : AO) : Except Err AO :=
  if q.allProp ∨ q.props.isEmpty then .ok ao
  else if ao.card.isEmpty then .error .panicEmptyCard
  else
    let base : Card := Card.insert [] "VERSION" (ao.card.values "VERSION")
    let card := q.props.foldl (fun (acc : Card) p => if (ao.card.find? (fun kv => kv.1 == p)).isSome then acc.insert p (ao.card.values p) else acc) base
    .ok { path := ao.path, card := card }

/-- the loop of `Filter`; `k` = `len(out)` so far, `n` = effective limit -/
def filterLoop (q : Query) (n : Nat) : List AO → Nat → Except Err (List AO)
  | [], _ => .ok []
  | ao :: rest, k =>
    match match_ q ao.card with
    | .error e => .error e
    | .ok false => filterLoop q n rest k
    | .ok true =>
      match filterProperties q ao with
      | .error e => .error e
      | .ok x => if k + 1 ≥ n then .ok [x] else (filterLoop q n rest (k + 1)).map (x :: ·)

def effLimit (limit : Int) (len : Nat) : Nat :=
  if limit ≤ 0 ∨ limit > len then len else limit.toNat

def filter (q : Option Query) (aos : List AO) : Except Err (List AO) :=
  match q with
  | none => .ok aos
  | some q => filterLoop q (effLimit q.limit aos.length) aos 0

end GoWebdav.Impl.Carddav
