import GoWebdav.Std.Xml
import GoWebdav.Std.Decimal
import GoWebdav.Generated.Tables
/-!
Model of the CardDAV query wire path: client side `QueryAddressBook` / `MultiGetAddressBook`
(`encodeAddressPropReq`, `encodePropFilter`, `encodeParamFilter`, `encodeTextMatch` in carddav/client.go, followed by
`xml.Marshal` of the tagged structs of carddav/elements.go) and server side `handleReport` → `handleQuery` /
`handleMultiget` (`xml.Unmarshal` into the same structs, then `decodePropFilter`, `decodeParamFilter`,
`decodeTextMatch`, `decodeAddressDataReq` in carddav/server.go).  Both directions are modelled as ONE function each
between the API value and the namespace-expanded element tree (struct-tag semantics per `Std.Xml`); the enumeration
attributes are decoded with the tables regenerated from the source.
-/
namespace GoWebdav.Impl.CarddavWire
open GoWebdav GoWebdav.Std.Xml GoWebdav.Generated

def nsCard : String := "urn:ietf:params:xml:ns:carddav"
def nsDav : String := "DAV:"

structure TextMatch where
  text : String
  negate : Bool
  matchType : String
deriving DecidableEq, Repr

structure ParamFilter where
  name : String
  isNotDefined : Bool
  textMatch : Option TextMatch
deriving DecidableEq, Repr

structure PropFilter where
  name : String
  test : String
  isNotDefined : Bool
  textMatches : List TextMatch
  params : List ParamFilter
deriving DecidableEq, Repr

structure Query where
  allProp : Bool
  props : List String
  filterTest : String
  propFilters : List PropFilter
  limit : Int
deriving DecidableEq, Repr

structure MultiGet where
  allProp : Bool
  props : List String
  paths : List String
deriving DecidableEq, Repr

inductive Err where
  | encode        -- the client refuses to encode (IsNotDefined together with matches)
  | badRequest    -- 400
deriving DecidableEq, Repr

def el (loc : String) (attrs : List (QName × String)) (children : List Node) : Node := .elem ⟨nsCard, loc⟩ attrs children
def dav (loc : String) (children : List Node) : Node := .elem ⟨nsDav, loc⟩ [] children
def att (loc v : String) : QName × String := (⟨"", loc⟩, v)
/-- `,attr,omitempty` for a string -/
def atOpt (loc v : String) : List (QName × String) := if v = "" then [] else [att loc v]

-- client → wire ---------------------------------------------------------------------------------------------------

/-- `negate-condition,attr,omitempty` through `negateCondition.MarshalText` -/
def negAttr (b : Bool) : List (QName × String) :=
  match carddavNegateFormat b with | some v => [att "negate-condition" v] | none => []

def encTextMatch (t : TextMatch) : Node :=
  el "text-match" (negAttr t.negate ++ atOpt "match-type" t.matchType) (textNodes t.text)

def indNodes (b : Bool) : List Node := if b then [el "is-not-defined" [] []] else []

def optTM : Option TextMatch → List Node
  | some t => [encTextMatch t]
  | none => []

def encParamFilter (p : ParamFilter) : Except Err Node :=
  if p.isNotDefined ∧ p.textMatch.isSome then .error .encode
  else .ok (el "param-filter" [att "name" p.name] (indNodes p.isNotDefined ++ optTM p.textMatch))

def encPropFilter (p : PropFilter) : Except Err Node :=
  if p.isNotDefined ∧ (!p.textMatches.isEmpty ∨ !p.params.isEmpty) then .error .encode
  else match p.params.mapM encParamFilter with
    | .error e => .error e
    | .ok params => .ok (el "prop-filter" ([att "name" p.name] ++ atOpt "test" p.test)
        (indNodes p.isNotDefined ++ p.textMatches.map encTextMatch ++ params))

/-- `encodeAddressPropReq`: DAV:prop with address-data, getlastmodified, getetag -/
def encPropReq (allProp : Bool) (props : List String) : Node :=
  dav "prop" [el "address-data" [] (if allProp then [el "allprop" [] []] else props.map (fun n => el "prop" [att "name" n] [])),
              dav "getlastmodified" [], dav "getetag" []]

def encLimit (limit : Int) : List Node :=
  if limit > 0 then [el "limit" [] [el "nresults" [] [.text (String.ofList (Std.Decimal.natDigits limit.toNat))]]] else []

/-- `QueryAddressBook`: the request body -/
def encodeQuery (q : Query) : Except Err Node :=
  match q.propFilters.mapM encPropFilter with
  | .error e => .error e
  | .ok pfs => .ok (el "addressbook-query" []
      ([encPropReq q.allProp q.props, el "filter" (atOpt "test" q.filterTest) pfs] ++ encLimit q.limit))

/-- `MultiGetAddressBook`: the property request, then the hrefs (the request path when none is given) -/
def encodeMultiGet (reqPath : String) (escape : String → String) (m : MultiGet) : Node :=
  el "addressbook-multiget" []
    (encPropReq m.allProp m.props :: (if m.paths.isEmpty then [reqPath] else m.paths).map (fun p => dav "href" [.text (escape p)]))

-- wire → backend ---------------------------------------------------------------------------------------------------

/-- an element filling a nested-struct field: the local name matched, now the struct's XMLName checks the namespace -/
def checkNs (n : Node) (space : String) : Except Err Unit :=
  if n.space? = some space then .ok () else .error .badRequest

def decNegate (attrs : List (QName × String)) : Except Err Bool :=
  match attr attrs "negate-condition" with
  | none => .ok false
  | some v => match carddavNegateParse v with | some b => .ok b | none => .error .badRequest

def decEnum (valid : List String) (attrs : List (QName × String)) (loc : String) : Except Err String :=
  match attr attrs loc with
  | none => .ok ""
  | some v => if valid.contains v then .ok v else .error .badRequest

def decTextMatch (n : Node) : Except Err TextMatch :=
  match n with
  | .elem _ attrs children => do
    checkNs n nsCard
    let neg ← decNegate attrs
    let mt ← decEnum carddavMatchTypes attrs "match-type"
    pure ⟨chardata children, neg, mt⟩
  | _ => .error .badRequest

/-- children of param-filter, routed by local name; scalar fields keep the last occurrence -/
def decParamFilter (n : Node) : Except Err ParamFilter :=
  match n with
  | .elem _ attrs children => do
    checkNs n nsCard
    let ind := children.any (·.localIs "is-not-defined")
    let tm ← (match (children.filter (·.localIs "text-match")).getLast? with
      | some t => (decTextMatch t).map some
      | none => .ok none)
    if ind ∧ tm.isSome then .error .badRequest
    else pure ⟨(attr attrs "name").getD "", ind, tm⟩
  | _ => .error .badRequest

def decPropFilter (n : Node) : Except Err PropFilter :=
  match n with
  | .elem _ attrs children => do
    checkNs n nsCard
    let test ← decEnum carddavFilterTests attrs "test"
    let ind := children.any (·.localIs "is-not-defined")
    let tms ← (children.filter (·.localIs "text-match")).mapM decTextMatch
    let params ← (children.filter (·.localIs "param-filter")).mapM decParamFilter
    if ind ∧ (!tms.isEmpty ∨ !params.isEmpty) then .error .badRequest
    else pure ⟨(attr attrs "name").getD "", test, ind, tms, params⟩
  | _ => .error .badRequest

/-- `query.Prop.Decode(&addressData)` + `decodeAddressDataReq`: the address-data element inside DAV:prop -/
def propNameOf (p : Node) : String :=
  match p with
  | .elem _ attrs _ => (attr attrs "name").getD ""
  | _ => ""

/-- the address-data element's children: allprop, or the named properties -/
def decDataChildren (children : List Node) : Except Err (Bool × List String) :=
  let allprop := children.any (·.localIs "allprop")
  let props := (children.filter (·.localIs "prop")).map propNameOf
  if (children.filter (·.localIs "prop")).any (fun p => p.space? ≠ some nsCard) then .error .badRequest
  else if allprop ∧ !props.isEmpty then .error .badRequest
  else .ok (allprop, props)

def decDataReq (propChildren : List Node) : Except Err (Bool × List String) :=
  match propChildren.find? (·.isElem nsCard "address-data") with
  | none => .ok (false, [])
  | some (.elem _ _ children) => decDataChildren children
  | some _ => .ok (false, [])

def isSp (c : Char) : Bool := c = ' ' || c = '\n' || c = '\t' || c = '\r'
def trimAscii (l : List Char) : List Char := ((l.dropWhile isSp).reverse.dropWhile isSp).reverse

/-- `limit`/`nresults` (an unsigned integer, surrounding white space trimmed) -/
def decLimit (children : List Node) : Except Err (Option Nat) :=
  match (children.filter (·.localIs "limit")).getLast? with
  | none => .ok none
  | some l =>
    match l with
    | .elem _ _ lc =>
      if l.space? ≠ some nsCard then .error .badRequest else
      match (lc.filter (·.localIs "nresults")).getLast? with
      | none => .ok (some 0)
      | some (.elem _ _ nc) =>
        let digits := trimAscii (chardata nc).toList
        if digits.isEmpty then .error .badRequest else
        (match Std.Decimal.readDigits 0 digits with
         | some v =>
           -- `NResults uint` (64 bit): larger numbers do not parse; `int(NResults)` wraps values from 2^63 on to a
           -- non-positive limit, which is answered like nresults 0
           if v ≥ 18446744073709551616 then .error .badRequest
           else if v ≥ 9223372036854775808 then .ok (some 0)
           else .ok (some v)
         | none => .error .badRequest)
      | some _ => .ok (some 0)
    | _ => .ok none

/-- the data request carried by the last DAV:prop child of a report root -/
def dataReqOf (children : List Node) : Except Err (Bool × List String) :=
  match (children.filter (·.isElem nsDav "prop")).getLast? with
  | some (.elem _ _ pc) => decDataReq pc
  | _ => .ok (false, [])

/-- the filter child of an addressbook-query: its test and prop-filters -/
def filterOf (children : List Node) : Except Err (String × List PropFilter) :=
  match (children.filter (·.localIs "filter")).getLast? with
  | some (.elem fq fattrs fc) => do
    if fq.space ≠ nsCard then .error .badRequest else
    let test ← decEnum carddavFilterTests fattrs "test"
    let pfs ← (fc.filter (·.localIs "prop-filter")).mapM decPropFilter
    pure (test, pfs)
  | _ => .ok ("", [])

/-- what `handleQuery` hands to the backend: `none` = answered with an empty multi-status without consulting it
    (a limit of zero) -/
def decodeQuery (n : Node) : Except Err (Option Query) :=
  match n with
  | .elem name _ children =>
    if !(name.space == nsCard && name.loc == "addressbook-query") then .error .badRequest else do
    let dataReq ← dataReqOf children
    let (test, pfs) ← filterOf children
    let limit ← decLimit children
    match limit with
    | some 0 => pure none
    | some k => pure (some ⟨dataReq.1, dataReq.2, test, pfs, k⟩)
    | none => pure (some ⟨dataReq.1, dataReq.2, test, pfs, 0⟩)
  | _ => .error .badRequest

/-- one DAV:href child: its character data through `url.Parse(...).Path` -/
def decHref (unescape : String → Option String) (h : Node) : Except Err String :=
  match h with
  | .elem _ _ hc => (match unescape (chardata hc) with | some p => .ok p | none => .error .badRequest)
  | _ => .error .badRequest

/-- `handleMultiget`: the data request and the hrefs in document order (`unescape` = url.Parse(...).Path) -/
def decodeMultiGet (unescape : String → Option String) (n : Node) : Except Err MultiGet :=
  match n with
  | .elem name _ children =>
    if !(name.space == nsCard && name.loc == "addressbook-multiget") then .error .badRequest else do
    let dataReq ← dataReqOf children
    let hrefs ← (children.filter (·.isElem nsDav "href")).mapM (decHref unescape)
    pure ⟨dataReq.1, dataReq.2, hrefs⟩
  | _ => .error .badRequest

end GoWebdav.Impl.CarddavWire
