import GoWebdav.Std.Path
import GoWebdav.Impl.ObjectWire
import GoWebdav.Generated.Tables
/-!
Model of the WebDAV client/server pair (client.go, server.go, internal/client.go):

* names: `internal.Client.ResolveHref` — a name that does not start with `/` is joined to the endpoint path with
  `path.Join`, any other name is taken as it is; the request URL carries the escaped path and the handler sees the
  unescaped one (C16's href round trip);
* options: `Copy` / `Move` write Destination, Overwrite and Depth; `handleCopyMove` reads them back (regenerated
  `parseOverwrite`, `formatOverwrite`, `parseDepth`, `depthString`);
* metadata: `propFindFile` exposes a FileInfo as properties, `fileInfoFromResponse` rebuilds it (property level, with
  the codec family of `Impl.ObjectWire`);
* listings: `backend.PropFind` answers with the backend's `ReadDir` list in its order, `ReadDir` maps each response.
-/
namespace GoWebdav.Impl.DavWire
open GoWebdav GoWebdav.Std.Path GoWebdav.Impl.ObjectWire GoWebdav.Generated

/-- `ResolveHref(name).Path` for an endpoint whose path is `e` -/
def resolve (e n : Bytes) : Bytes :=
  if n.head? = some slash then n else clean (e ++ slash :: n)

-- options ----------------------------------------------------------------------------------------------------------------

structure CopyOptions where
  noRecursive : Bool
  noOverwrite : Bool
deriving DecidableEq, Repr

/-- the headers `Copy` writes -/
def copyHeaders (o : CopyOptions) : String × Option String :=
  (formatOverwrite (!o.noOverwrite), depthString (if o.noRecursive then 0 else -1))

/-- what `handleCopyMove` + `backend.Copy` hand to the file system for these header values -/
def copyDecode (ow : String) (depth : Option String) : Option CopyOptions := do
  let overwrite ← (if ow = "" then some true else parseOverwrite ow)
  let d ← (match depth with | none => some (-1) | some s => if s = "" then some (-1) else parseDepth s)
  if d = 1 then none else pure ⟨d = 0, !overwrite⟩

def moveHeaders (noOverwrite : Bool) : String := formatOverwrite (!noOverwrite)
def moveDecode (ow : String) : Option Bool := (if ow = "" then some true else parseOverwrite ow).map (!·)

-- metadata ---------------------------------------------------------------------------------------------------------------

structure FileInfo where
  path : String
  isDir : Bool
  size : Int
  modTime : Option Int       -- none = Go's zero time
  mimeType : String
  etag : String
deriving DecidableEq, Repr

/-- `propFindFile` for the properties `fileInfoPropFind` asks for -/
def fileResp (k : Codecs Unit) (fi : FileInfo) : WResp :=
  ⟨k.escHref fi.path,
   [("resourcetype", PV.names (if fi.isDir then ["collection"] else []))] ++
   (match fi.modTime with | some t => [("getlastmodified", PV.text (k.fmtDate t))] | none => []) ++
   (if fi.isDir then [] else
     [("getcontentlength", PV.text (k.fmtInt fi.size))] ++
     opt (fi.mimeType ≠ "") ("getcontenttype", .text fi.mimeType) ++
     opt (fi.etag ≠ "") ("getetag", .text (k.quoteTag fi.etag)))⟩

/-- `fileInfoFromResponse` -/
def fileInfoOf (k : Codecs Unit) (w : WResp) : Except Err FileInfo :=
  match k.unescHref w.href with
  | none => .error .undecodable
  | some path =>
    let mod : Except Err (Option Int) := match w.get "getlastmodified" with
      | some (.text t) => (match k.parseDate t with | some v => .ok (some v) | none => .error .undecodable)
      | _ => .ok none
    match w.get "resourcetype" with
    | some (.names rt) =>
      if rt.contains "collection" then
        (match mod with | .ok m => .ok ⟨path, true, 0, m, "", ""⟩ | .error e => .error e)
      else
        (match w.get "getcontentlength" with
         | some (.text s) =>
           (match k.parseInt s with
            | none => .error .undecodable
            | some n =>
              let tag : Except Err String := match w.get "getetag" with
                | some (.text t) => (match k.unquoteTag t with | some v => .ok v | none => .error .undecodable)
                | _ => .ok ""
              match mod, tag with
              | .ok m, .ok t => .ok ⟨path, false, n, m, optText w "getcontenttype", t⟩
              | _, _ => .error .undecodable)
         | _ => .error .required)
    | _ => .error .required

/-- what the client is entitled to see: a collection has no size, content type or entity tag -/
def FileInfo.seen (fi : FileInfo) : FileInfo :=
  if fi.isDir then { fi with size := 0, mimeType := "", etag := "" } else fi

/-- `ReadDir`: every response of the multi-status, in order -/
def readDir (k : Codecs Unit) (listing : List FileInfo) : Except Err (List FileInfo) :=
  (listing.map (fileResp k)).mapM (fileInfoOf k)

end GoWebdav.Impl.DavWire
