import GoWebdav.Generated.Tables
/-!
Model of the request front end of the CalDAV and CardDAV handlers and of the principal helper:
`caldav.Handler.ServeHTTP` / `carddav.Handler.ServeHTTP` (REPORT handled directly, everything else through
`internal.Handler.ServeHTTP`, whose method switch is the regenerated `Generated.dispatch`), `handlePropfind`,
`handleProppatch`, `handleCopyMove`, `DecodeXMLRequest`, and the backends' `Options`, `HeadGet`, `Put`, `Delete`,
`Mkcol`, `PropPatch`, `Copy`, `Move`; `webdav.ServePrincipal`.

A request is described by what these functions look at: the method, the hierarchy level of the path
(`resourceTypeAtPath`), whether the addressed calendar/address book/object exists, the class of the Content-Type
value, the class of the body, and the classes of Depth, Overwrite and Destination.  The data backend is the fixed
double of family `srvfront` (one collection with one object; creations and deletions succeed).

The outcome is the exact status code and whether a create/update/delete call reached the backend.
-/
namespace GoWebdav.Impl.Frontend
open GoWebdav.Generated

inductive Srv | cal | card | prin
deriving DecidableEq, Repr

/-- `Content-Type` as `mime.ParseMediaType` sees it -/
inductive CType
  | none        -- header absent
  | xml         -- application/xml (with parameters)
  | textxml     -- text/xml
  | obj         -- the server's object type: text/calendar resp. text/vcard
  | objparam    -- the same with parameters
  | otherobj    -- the other server's object type
  | other       -- some other well-formed media type
  | bad         -- does not parse as a media type
  | objbadparam -- the server's object type followed by a malformed parameter (`text/calendar; charset`):
                --   `mime.ParseMediaType` returns the type TOGETHER WITH an error
  | xmlbadparam -- application/xml followed by a malformed parameter: `isContentXML` ignores the error
deriving DecidableEq, Repr

inductive Body
  | empty       -- zero bytes
  | trunc       -- a valid XML document for the method, cut off anywhere before its last byte
  | random      -- bytes that are not XML
  | wrongroot   -- well-formed XML whose root is not the element the method expects
  | noform      -- PROPFIND: a propfind element with none of propname / allprop / prop (other methods: valid)
  | valid       -- a valid XML document for the method
  | objok       -- a parseable iCalendar resp. vCard object
  | objbad      -- text that is neither XML nor a parseable object
  | badrt       -- a mkcol document whose resourcetype lacks the calendar / addressbook element
deriving DecidableEq, Repr

inductive Depth | absent | d0 | d1 | inf | bad
deriving DecidableEq, Repr
inductive Ow | absent | t | f | bad
deriving DecidableEq, Repr
inductive Dst | absent | ok | bad
deriving DecidableEq, Repr

structure Req where
  srv : Srv
  method : String
  level : Nat          -- 0 root, 1 principal, 2 home set, 3 collection, 4 object, 5 below an object
  exists_ : Bool       -- the addressed collection (level 3) or object (level 4) exists
  ctype : CType
  body : Body
  depth : Depth
  ow : Ow
  dst : Dst
deriving DecidableEq, Repr

structure Out where
  status : Nat
  mutated : Bool
deriving DecidableEq, Repr

/-- `isContentXML` -/
def isXml : CType → Bool
  | .xml => true
  | .textxml => true
  | .xmlbadparam => true
  | _ => false

inductive XmlResult | ok | noForm | badRt | err
deriving DecidableEq, Repr

/-- `xml.NewDecoder(body).Decode(v)` into the struct the method expects (`XMLName` checks the root) -/
def decodeXml (method : String) : Body → XmlResult
  | .valid => .ok
  | .noform => if method = "PROPFIND" then .noForm else .ok
  | .badrt => if method = "MKCOL" then .badRt else .err
  | _ => .err

def refuse (code : Nat) : Out := ⟨code, false⟩

/-- `DecodeXMLRequest`: 400 unless the content type is XML and the body decodes -/
def decodeXmlRequest (method : String) (ct : CType) (b : Body) : Except Out XmlResult :=
  if !isXml ct then .error (refuse 400)
  else match decodeXml method b with
    | .err => .error (refuse 400)
    | x => .ok x

/-- `handlePropfind` in front of the CalDAV/CardDAV `PropFind`; `missing`: the addressed collection/object does not
    exist, `deep`: the path lies below an object -/
def propfindK (ct : CType) (b : Body) (d : Depth) (missing deep : Bool) : Out :=
  let decoded : Except Out XmlResult :=
    if isXml ct then decodeXmlRequest "PROPFIND" ct b
    else if b = .empty then .ok .ok else .error (refuse 400)   -- "unsupported request body"
  match decoded with
  | .error o => o
  | .ok x =>
    if d = .bad then refuse 400
    else if missing then refuse 404           -- the backend's own not-found
    else if deep then refuse 404              -- no resource of the hierarchy at this path
    else if x = .noForm then refuse 400       -- NewPropFindResponse on the first resource
    else refuse 207

def propfind (r : Req) : Out :=
  propfindK r.ctype r.body r.depth (decide (r.level = 3 ∨ r.level = 4) && !r.exists_) (decide (r.level ≥ 5))

/-- `handleProppatch`; CalDAV's `PropPatch` is unimplemented (501), CardDAV's answers a multi-status that refuses each
    property individually -/
def proppatchK (card : Bool) (ct : CType) (b : Body) : Out :=
  match decodeXmlRequest "PROPPATCH" ct b with
  | .error o => o
  | .ok _ => if card then refuse 207 else refuse 501

def proppatch (r : Req) : Out := proppatchK (r.srv = .card) r.ctype r.body

/-- `handleCopyMove` in front of the unimplemented `Copy` / `Move` -/
def copyMoveK (isCopy : Bool) (dst : Dst) (ow : Ow) (d : Depth) : Out :=
  if dst ≠ .ok then refuse 400
  else if ow = .bad then refuse 400
  else if d = .bad then refuse 400
  else if isCopy ∧ d = .d1 then refuse 400
  else if !isCopy ∧ (d = .d0 ∨ d = .d1) then refuse 400
  else refuse 501

def copyMove (r : Req) : Out := copyMoveK (r.method = "COPY") r.dst r.ow r.depth

/-- the backends' `Put`: media type first, then the object parser -/
def putK (ct : CType) (b : Body) : Out :=
  match ct with
  | .obj | .objparam => if b = .objok then ⟨201, true⟩ else refuse 400
  | _ => refuse 400

def put (r : Req) : Out := putK r.ctype r.body

def mkcolK (isCollectionLevel : Bool) (ct : CType) (b : Body) : Out :=
  if !isCollectionLevel then refuse 403
  else if b = .empty then ⟨201, true⟩
  else match decodeXmlRequest "MKCOL" ct b with
    | .error o => o
    | .ok .badRt => refuse 400
    | .ok _ => ⟨201, true⟩

def mkcol (r : Req) : Out := mkcolK (r.level = 3) r.ctype r.body

def delete (r : Req) : Out :=
  match r.srv with
  | .cal => ⟨204, true⟩                                       -- every path goes to DeleteCalendarObject
  | _ => if r.level = 3 ∨ r.level = 4 then ⟨204, true⟩ else refuse 403

/-- the backends' `Options` (caldav/server.go, carddav/server.go): the methods announced in `Allow` and how many
    object look-ups (`GetCalendarObject` / `GetAddressObject`) the answer costs — decided by the level alone, and at
    object level by whether the object exists -/
structure OptionsAnswer where
  allow : List String
  objectReads : Nat
deriving DecidableEq, Repr

def optionsK (level : Nat) (exists_ : Bool) : OptionsAnswer :=
  if level ≠ 4 then ⟨["OPTIONS", "PROPFIND", "REPORT", "DELETE", "MKCOL"], 0⟩
  else if exists_ then ⟨["OPTIONS", "HEAD", "GET", "PUT", "DELETE", "PROPFIND"], 1⟩
  else ⟨["OPTIONS", "PUT"], 1⟩

def options (r : Req) : OptionsAnswer := optionsK r.level r.exists_

def headGet (r : Req) : Out := if r.level = 4 ∧ r.exists_ then refuse 200 else refuse 404

def reportK (ct : CType) (b : Body) : Out :=
  match decodeXmlRequest "REPORT" ct b with
  | .error o => o
  | .ok _ => refuse 207

def report (r : Req) : Out := reportK r.ctype r.body

/-- the handler named by the regenerated method switch -/
def handlerOf (method : String) : String :=
  match dispatch.find? (fun kv => kv.1 == method) with
  | some kv => kv.2
  | none => (match dispatch.find? (fun kv => kv.1 == "*") with | some kv => kv.2 | none => "")

def davServe (r : Req) : Out :=
  if r.method = "REPORT" then report r else
  let h := handlerOf r.method
  if h = "h.handleOptions" then refuse 204
  else if h = "h.Backend.HeadGet" then headGet r
  else if h = "h.Backend.Put" then put r
  else if h = "h.Backend.Delete" then delete r
  else if h = "h.handlePropfind" then propfind r
  else if h = "h.handleProppatch" then proppatch r
  else if h = "h.Backend.Mkcol" then mkcol r
  else if h = "h.handleCopyMove" then copyMove r
  else refuse 405

/-- `webdav.ServePrincipal` -/
def principalPropfindK (ct : CType) (b : Body) : Out :=
  if b = .empty then refuse 207 else        -- no body: allprop
  match decodeXmlRequest "PROPFIND" ct b with
  | .error o => o
  | .ok .noForm => refuse 400
  | .ok _ => refuse 207

def principalServe (r : Req) : Out :=
  if r.method = "OPTIONS" then refuse 204
  else if r.method = "PROPFIND" then principalPropfindK r.ctype r.body
  else refuse 405

def serve (r : Req) : Out :=
  match r.srv with
  | .prin => principalServe r
  | _ => davServe r

end GoWebdav.Impl.Frontend
