import GoWebdav.Impl.Codec
/-!
Model of `ConditionalMatch` (webdav.go) and `checkConditionalMatches` (fs_local.go).
Header values are character lists ("" = header absent, as `Header.Get` gives); entity tags are byte strings.
`utf8` is the UTF-8 encoder (a parameter: only its action on what `Unquote` returns matters).
-/
namespace GoWebdav.Impl.Cond
open GoWebdav GoWebdav.Std GoWebdav.Impl.Codec

variable (utf8 : Char → List UInt8)

def outBytes (l : List Quote.Out) : Bytes :=
  l.flatMap (fun o => match o with | .rune c => utf8 c | .byte b => [b])

def isSet (v : List Char) : Bool := v ≠ []
def isWildcard (v : List Char) : Bool := v = ['*']

/-- `ConditionalMatch.ETag()` -/
def etagOf (v : List Char) : Option Bytes := (etagDecode v).map (outBytes utf8)

/-- `ConditionalMatch.MatchETag(etag)`; `none` = error -/
def matchETag (v : List Char) (etag : Bytes) : Option Bool :=
  if etag = [] then some false
  else if isWildcard v then some true
  else match etagOf utf8 v with
    | some t => some (t = etag)
    | none => none

inductive Verdict where
  | proceed
  | badRequest        -- 400
  | preconditionFailed -- 412
deriving DecidableEq, Repr

/-- `checkConditionalMatches(fi, ifMatch, ifNoneMatch)`; `fi = none` ⇔ the resource does not exist -/
def check (fi : Option Bytes) (ifMatch ifNoneMatch : List Char) : Verdict :=
  let etag : Bytes := match fi with | some e => e | none => []
  let afterIfMatch : Verdict :=
    if isSet ifMatch then
      match matchETag utf8 ifMatch etag with
      | none => .badRequest
      | some false => .preconditionFailed
      | some true => .proceed
    else .proceed
  match afterIfMatch with
  | .proceed =>
    if isSet ifNoneMatch then
      match matchETag utf8 ifNoneMatch etag with
      | none => .badRequest
      | some true => .preconditionFailed
      | some false => .proceed
    else .proceed
  | v => v

end GoWebdav.Impl.Cond
