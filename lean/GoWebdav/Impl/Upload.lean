/-!
Model of the streamed upload of client.go (`Client.Create`, `fileWriter.Write`, `fileWriter.Close`) as a labelled
transition system: the *caller* (`Write* ; Close`), the *library goroutine* (`Do ; send done`), the *transport/server*
(consumes chunks, then answers 2xx / answers non-2xx / drops / stalls until cancelled; closes the request body when it
returns — net/http's RoundTripper contract), the synchronous `io.Pipe` and the `done` channel of capacity 1.
A server is *patient* (reads everything it is offered and answers only after EOF) or *impatient* (reads at most a
budget of chunks; may answer, drop or stall at any moment).
-/
namespace GoWebdav.Impl.Upload
inductive Caller | writing (n : Nat) | closed | returned (ok : Bool)
deriving DecidableEq, Repr
inductive Transport | reading (patient : Bool) (budget : Nat) | stalled | answered (ok : Bool) | failed
deriving DecidableEq, Repr
inductive Gor | inDo | sending (ok : Bool) | exited
deriving DecidableEq, Repr

structure State where
  c : Caller
  t : Transport
  g : Gor
  readerClosed : Bool
  writerClosed : Bool         -- pw.Close() has happened: the reader sees EOF
  done : Option Bool          -- buffered channel of capacity 1
deriving DecidableEq, Repr

def Transport.finished : Transport → Option Bool
  | .answered ok => some ok
  | .failed => some false
  | _ => none

inductive Step : State → State → Prop
  -- a patient server (patient = true) reads every chunk it is offered and answers only after EOF;
  -- an impatient one reads at most `budget` chunks and may answer, drop or stall at any moment
  | consumeP (n b g w d) : Step ⟨.writing (n+1), .reading true b, g, false, w, d⟩ ⟨.writing n, .reading true b, g, false, w, d⟩
  | consume  (n b g w d) : Step ⟨.writing (n+1), .reading false (b+1), g, false, w, d⟩ ⟨.writing n, .reading false b, g, false, w, d⟩
  | writeErr (n t g w d) : Step ⟨.writing (n+1), t, g, true, w, d⟩ ⟨.writing n, t, g, true, w, d⟩    -- ErrClosedPipe, caller carries on
  | close    (t g r w d) : Step ⟨.writing 0, t, g, r, w, d⟩ ⟨.closed, t, g, r, true, d⟩              -- pw.Close: never blocks, signals EOF
  | answerEOF (c p b g r d ok) : Step ⟨c, .reading p b, g, r, true, d⟩ ⟨c, .answered ok, g, r, true, d⟩ -- whole body seen
  | answer   (c b g r w d ok) : Step ⟨c, .reading false b, g, r, w, d⟩ ⟨c, .answered ok, g, r, w, d⟩  -- before / midway
  | drop     (c b g r w d) : Step ⟨c, .reading false b, g, r, w, d⟩ ⟨c, .failed, g, r, w, d⟩
  | stall    (c b g r w d) : Step ⟨c, .reading false b, g, r, w, d⟩ ⟨c, .stalled, g, r, w, d⟩
  | cancel   (c g r w d) : Step ⟨c, .stalled, g, r, w, d⟩ ⟨c, .failed, g, r, w, d⟩                   -- the only exit of a stall
  | closeBody (c t g w d ok) (h : t.finished = some ok) : Step ⟨c, t, g, false, w, d⟩ ⟨c, t, g, true, w, d⟩
  | doReturns (c t r w d ok) (h : t.finished = some ok) : Step ⟨c, t, .inDo, r, w, d⟩ ⟨c, t, .sending ok, r, w, d⟩
  | send     (c t r w ok) : Step ⟨c, t, .sending ok, r, w, none⟩ ⟨c, t, .exited, r, w, some ok⟩
  | recv     (t g r w ok) : Step ⟨.closed, t, g, r, w, some ok⟩ ⟨.returned ok, t, g, r, w, none⟩

def init (n : Nat) (p : Bool) (b : Nat) : State := ⟨.writing n, .reading p b, .inDo, false, false, none⟩

inductive Reachable (s0 : State) : State → Prop
  | refl : Reachable s0 s0
  | step {s s'} : Reachable s0 s → Step s s' → Reachable s0 s'

def Final (s : State) : Prop := (∃ ok, s.c = .returned ok) ∧ s.g = .exited ∧ s.readerClosed = true

end GoWebdav.Impl.Upload
