import GoWebdav.Std.Basic
/-!
Model of how collections and objects travel from a CalDAV / CardDAV backend to the client, at the level of property
values: which properties the server exposes for a value and with which text (`propFindCalendar`,
`propFindCalendarObject`, `propFindAddressBook`, `propFindAddressObject`, `HeadGet`, `Put` in caldav/server.go and
carddav/server.go), and how the client rebuilds the value from them (`FindCalendars`, `FindAddressBooks`,
`decodeCalendarObjectList`, `decodeAddressList`, `populateCalendarObject`, `populateAddressObject`,
`GetCalendarObject`, `PutCalendarObject`, … in the two client.go files).

The text codecs are parameters: href escaping (`Href.MarshalText` / `url.Parse`), entity-tag quoting (`ETag` /
`strconv.Unquote`), HTTP dates, decimal integers, and the iCalendar / vCard encoders and decoders of go-ical and
go-vcard.  Their round trips are the hypotheses `Codecs.OK`; the first four are theorems of C16 over `Std`, the last
is the behaviour of the two external libraries (trusted, exercised by family `objwire`).

That a requested property the server exposes arrives in a 200 propstat, and one it does not expose in a 404 propstat
which the client reads as "absent", is C11 (`NewPropFindResponse`) composed with C14 (`DecodeProp`); here a response
is the list of exposed properties.
-/
namespace GoWebdav.Impl.ObjectWire

structure Codecs (Data : Type) where
  escHref : String → String
  unescHref : String → Option String
  quoteTag : String → String
  unquoteTag : String → Option String
  fmtDate : Int → String
  parseDate : String → Option Int
  fmtInt : Int → String
  parseInt : String → Option Int
  encData : Data → String
  decData : String → Option Data

structure Codecs.OK {Data : Type} (k : Codecs Data) : Prop where
  href : ∀ p, k.unescHref (k.escHref p) = some p
  tag : ∀ t, k.unquoteTag (k.quoteTag t) = some t
  date : ∀ t, k.parseDate (k.fmtDate t) = some t
  int : ∀ n, k.parseInt (k.fmtInt n) = some n
  data : ∀ d, k.decData (k.encData d) = some d

/-- a property value on the wire -/
inductive PV
  | text (s : String)               -- character data
  | names (l : List String)         -- child elements identified by a name (resource types, component names)
deriving DecidableEq, Repr

/-- a DAV:response for a value: the escaped href and the exposed properties -/
structure WResp where
  href : String
  props : List (String × PV)
deriving DecidableEq, Repr

def WResp.get (w : WResp) (name : String) : Option PV := (w.props.find? (·.1 == name)).map (·.2)

inductive Err | required | undecodable
deriving DecidableEq, Repr

/-- an optional text property: absent means the empty / zero value -/
def optText (w : WResp) (name : String) : String :=
  match w.get name with | some (.text s) => s | _ => ""

def opt (b : Bool) (x : String × PV) : List (String × PV) := if b then [x] else []

-- calendars -------------------------------------------------------------------------------------------------------------

structure Calendar where
  path : String
  name : String
  description : String
  maxResourceSize : Int
  comps : Option (List String)        -- `SupportedComponentSet`; none = nil
deriving DecidableEq, Repr

/-- `propFindCalendar` for the properties `FindCalendars` asks for -/
def calendarResp {D} (k : Codecs D) (c : Calendar) : WResp :=
  ⟨k.escHref c.path,
   [("resourcetype", .names ["collection", "calendar"]),
    ("calendar-description", .text c.description),
    ("supported-calendar-component-set", .names (match c.comps with | some l => l | none => ["VEVENT"]))] ++
   opt (c.name ≠ "") ("displayname", .text c.name) ++
   opt (c.maxResourceSize > 0) ("max-resource-size", .text (k.fmtInt c.maxResourceSize))⟩

def sizeOf? {D} (k : Codecs D) (w : WResp) (name : String) : Except Err Int :=
  match w.get name with
  | some (.text s) => (match k.parseInt s with | some n => .ok n | none => .error .undecodable)
  | _ => .ok 0

/-- one iteration of `FindCalendars`: none = not a calendar, skipped -/
def calendarOf {D} (k : Codecs D) (w : WResp) : Except Err (Option Calendar) :=
  match k.unescHref w.href with
  | none => .error .undecodable
  | some path =>
    match w.get "resourcetype" with
    | some (.names rt) =>
      if !rt.contains "calendar" then .ok none else
      (match sizeOf? k w "max-resource-size" with
       | .error e => .error e
       | .ok size =>
         if size < 0 then .error .undecodable else
         let comps := match w.get "supported-calendar-component-set" with | some (.names l) => l | _ => []
         .ok (some ⟨path, optText w "displayname", optText w "calendar-description", size, some comps⟩))
    | _ => .error .required

/-- what the client is entitled to see: sizes that are not positive are "no limit", an unset component set is the
    server's default VEVENT -/
def Calendar.seen (c : Calendar) : Calendar :=
  { c with maxResourceSize := if c.maxResourceSize > 0 then c.maxResourceSize else 0,
           comps := some (match c.comps with | some l => l | none => ["VEVENT"]) }

-- address books ---------------------------------------------------------------------------------------------------------

structure AddressBook where
  path : String
  name : String
  description : String
  maxResourceSize : Int
deriving DecidableEq, Repr

def bookResp {D} (k : Codecs D) (b : AddressBook) : WResp :=
  ⟨k.escHref b.path,
   [("resourcetype", .names ["collection", "addressbook"])] ++
   opt (b.name ≠ "") ("displayname", .text b.name) ++
   opt (b.description ≠ "") ("addressbook-description", .text b.description) ++
   opt (b.maxResourceSize > 0) ("max-resource-size", .text (k.fmtInt b.maxResourceSize))⟩

def bookOf {D} (k : Codecs D) (w : WResp) : Except Err (Option AddressBook) :=
  match k.unescHref w.href with
  | none => .error .undecodable
  | some path =>
    match w.get "resourcetype" with
    | some (.names rt) =>
      if !rt.contains "addressbook" then .ok none else
      (match sizeOf? k w "max-resource-size" with
       | .error e => .error e
       | .ok size =>
         if size < 0 then .error .undecodable else
         .ok (some ⟨path, optText w "displayname", optText w "addressbook-description", size⟩))
    | _ => .error .required

def AddressBook.seen (b : AddressBook) : AddressBook :=
  { b with maxResourceSize := if b.maxResourceSize > 0 then b.maxResourceSize else 0 }

-- objects ----------------------------------------------------------------------------------------------------------------

/-- a calendar or address object; `modTime = none` is Go's zero time ("unknown") -/
structure Obj (D : Type) where
  path : String
  modTime : Option Int
  contentLength : Int
  etag : String
  data : D

/-- `propFindCalendarObject` / `propFindAddressObject` for the properties the clients' REPORTs ask for (the object
    data, getlastmodified, getetag — `encodeCalendarReq` / `encodeAddressPropReq` do not ask for getcontentlength) -/
def objResp {D} (k : Codecs D) (dataName : String) (o : Obj D) : WResp :=
  ⟨k.escHref o.path,
   [(dataName, .text (k.encData o.data))] ++
   (match o.modTime with | some t => [("getlastmodified", PV.text (k.fmtDate t))] | none => []) ++
   opt (o.etag ≠ "") ("getetag", .text (k.quoteTag o.etag))⟩

/-- one iteration of `decodeCalendarObjectList` / `decodeAddressList` -/
def objOf {D} (k : Codecs D) (dataName : String) (w : WResp) : Except Err (Obj D) :=
  match k.unescHref w.href with
  | none => .error .undecodable
  | some path =>
    match w.get dataName with
    | some (.text s) =>
      (match k.decData s with
       | none => .error .undecodable
       | some d =>
         let mod : Except Err (Option Int) := match w.get "getlastmodified" with
           | some (.text t) => (match k.parseDate t with | some v => .ok (some v) | none => .error .undecodable)
           | _ => .ok none
         let tag : Except Err String := match w.get "getetag" with
           | some (.text t) => (match k.unquoteTag t with | some v => .ok v | none => .error .undecodable)
           | _ => .ok ""
         match mod, tag, sizeOf? k w "getcontentlength" with
         | .ok m, .ok t, .ok n => .ok ⟨path, m, n, t, d⟩
         | _, _, _ => .error .undecodable)
    | _ => .error .required

/-- through GET: a ContentLength that is not positive is "unknown" and arrives as 0 -/
def Obj.seen {D} (o : Obj D) : Obj D := { o with contentLength := if o.contentLength > 0 then o.contentLength else 0 }
/-- through a REPORT the size is not asked for -/
def Obj.seenInReport {D} (o : Obj D) : Obj D := { o with contentLength := 0 }

-- GET and PUT: headers --------------------------------------------------------------------------------------------------

structure Headers where
  location : Option String
  etag : Option String
  contentLength : Option String
  lastModified : Option String
deriving DecidableEq, Repr

/-- `HeadGet`: the headers set for an object -/
def getHeaders {D} (k : Codecs D) (o : Obj D) : Headers :=
  ⟨none, if o.etag ≠ "" then some (k.quoteTag o.etag) else none,
   if o.contentLength > 0 then some (k.fmtInt o.contentLength) else none,
   o.modTime.map k.fmtDate⟩

/-- `Put`: the headers set from what the backend returned (the Location is the escaped path) -/
def putHeaders {D} (k : Codecs D) (o : Obj D) : Headers :=
  ⟨if o.path ≠ "" then some (k.escHref o.path) else none, if o.etag ≠ "" then some (k.quoteTag o.etag) else none, none,
   o.modTime.map k.fmtDate⟩

/-- `populateCalendarObject` / `populateAddressObject` on an object that starts with the request path -/
def populate {D} (k : Codecs D) (reqPath : String) (d : D) (h : Headers) : Except Err (Obj D) :=
  let path : Except Err String := match h.location with
    | some l => (match k.unescHref l with | some p => .ok p | none => .error .undecodable)
    | none => .ok reqPath
  let tag : Except Err String := match h.etag with
    | some t => (match k.unquoteTag t with | some v => .ok v | none => .error .undecodable)
    | none => .ok ""
  let len : Except Err Int := match h.contentLength with
    | some s => (match k.parseInt s with | some n => .ok n | none => .error .undecodable)
    | none => .ok 0
  let mod : Except Err (Option Int) := match h.lastModified with
    | some s => (match k.parseDate s with | some t => .ok (some t) | none => .error .undecodable)
    | none => .ok none
  match path, tag, len, mod with
  | .ok p, .ok t, .ok n, .ok m => .ok ⟨p, m, n, t, d⟩
  | _, _, _, _ => .error .undecodable

-- multiget: per-href accounting ------------------------------------------------------------------------------------------

inductive Outcome (D : Type) | obj (o : Obj D) | status (code : Nat)

/-- `handleMultiget`: one response per requested href, in request order: the object, or the backend's own status
    (500 for an error without one) -/
def multiget {D} (backend : String → Except (Option Nat) (Obj D)) (hrefs : List String) : List (String × Outcome D) :=
  hrefs.map (fun h => match backend h with
    | .ok o => (h, .obj o)
    | .error (some c) => (h, .status c)
    | .error none => (h, .status 500))

end GoWebdav.Impl.ObjectWire
