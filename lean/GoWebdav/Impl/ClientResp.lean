import GoWebdav.Std.Basic
/-!
Model of how the clients interpret a response: `internal.Client.Do`, `DoMultiStatus`, `PropFindFlat`
(internal/client.go), `Status.Err`, `Response.Err`, `Response.Path`, `Response.DecodeProp` (internal/elements.go), the
per-response loop of `carddav.Client.SyncCollection`, and `webdav.fileInfoFromResponse`.

A response is described by what these functions look at: the status code, the class of its Content-Type, the class of
its body; a multi-status by, per response, the number of hrefs, the optional status, and per propstat its status code
and the names of the properties it lists.  Messages are not modelled, only which kind of error is returned and which
code it carries.
-/
namespace GoWebdav.Impl.ClientResp

/-- `Content-Type` of the response as `Do` classifies it (an absent header counts as text/plain) -/
inductive CT | absent | xml | textxml | textOther | other | bad
deriving DecidableEq, Repr

/-- the body of an error response -/
inductive EBody
  | davError        -- a DAV:error document (with a condition element)
  | xmlOther        -- well-formed XML with another root
  | garbage         -- not XML; non-blank text
  | blank           -- empty or white space only
deriving DecidableEq, Repr

/-- what the wrapped error of the returned `HTTPError` is -/
inductive Wrapped | dav | decodeErr | text | nothing
deriving DecidableEq, Repr

inductive DoOut
  | ok
  | http (code : Nat) (w : Wrapped)     -- `&HTTPError{Code, Err}`
deriving DecidableEq, Repr

def isXmlCT : CT → Bool | .xml => true | .textxml => true | _ => false
def isTextCT : CT → Bool | .absent => true | .textOther => true | .textxml => true | _ => false

/-- `Client.Do` on a response that arrived (transport errors are returned as they are) -/
def doOut (status : Nat) (ct : CT) (b : EBody) : DoOut :=
  if status / 100 = 2 then .ok
  else if isXmlCT ct then
    (match b with | .davError => .http status .dav | _ => .http status .decodeErr)
  else if isTextCT ct then
    (match b with | .blank => .http status .nothing | _ => .http status .text)
  else .http status .nothing

/-- the body of a 207 answer -/
inductive MsBody | decodes | broken
deriving DecidableEq, Repr

inductive MsOut | ok | http (code : Nat) (w : Wrapped) | plain
deriving DecidableEq, Repr

/-- `DoMultiStatus` -/
def msOut (status : Nat) (ct : CT) (eb : EBody) (mb : MsBody) : MsOut :=
  match doOut status ct eb with
  | .http c w => .http c w
  | .ok => if status ≠ 207 then .plain else if mb = .decodes then .ok else .plain

-- inside a multi-status ---------------------------------------------------------------------------------------------------

structure PropStat where
  status : Nat                -- `Status.Code`; an empty or absent status element leaves 0
  props : List String         -- names of the properties listed
deriving DecidableEq, Repr

structure Resp where
  hrefs : List String
  status : Option Nat         -- `*Status`: none when the element is absent
  propstats : List PropStat
  hasError : Bool := false    -- a DAV:error child (a precondition / postcondition code)
  hasDesc : Bool := false     -- a DAV:responsedescription child
deriving DecidableEq, Repr

/-- `Response.Err`: the code of the `HTTPError`, if any -/
def respErr (r : Resp) : Option Nat :=
  match r.status with
  | none => none
  | some c => if c / 100 = 2 then none else some c

/-- what the `HTTPError` of a failed response wraps: the DAV:error element (`errors.As` finds it, also behind a
    description), a description only, or nothing -/
inductive RespWrapped | dav | text | nothing
deriving DecidableEq, Repr

def respWrapped (r : Resp) : RespWrapped :=
  if r.hasError then .dav else if r.hasDesc then .text else .nothing

inductive PathOut
  | ok (p : String)
  | http (code : Nat) (p : String)     -- the response's own error; the path is still reported when there is one href
  | malformed                          -- not exactly one href
deriving DecidableEq, Repr

/-- `Response.Path` -/
def respPath (r : Resp) : PathOut :=
  let p := match r.hrefs with | [h] => some h | _ => none
  match respErr r, p with
  | some c, some h => .http c h
  | some c, none => .http c ""
  | none, some h => .ok h
  | none, none => .malformed

inductive PropOut
  | value (i : Nat)        -- decoded from propstat number i
  | http (code : Nat)      -- the response's or the propstat's status, or 404 for a missing property
deriving DecidableEq, Repr

def findStat (name : String) : List PropStat → Nat → Option (Nat × PropStat)
  | [], _ => none
  | ps :: rest, i => if ps.props.contains name then some (i, ps) else findStat name rest (i + 1)

/-- `Response.DecodeProp` for one property whose value decodes -/
def decodeProp (r : Resp) (name : String) : PropOut :=
  match respErr r with
  | some c => .http c
  | none =>
    match findStat name r.propstats 0 with
    | none => .http 404
    | some (i, ps) => if ps.status ≠ 200 then .http ps.status else .value i

inductive SyncOut
  | deleted (p : String)
  | skipped                 -- the collection itself
  | updated (p : String)
  | fail                    -- the whole call returns an error
deriving DecidableEq, Repr

/-- an optional property: absent (404) is fine, any other failure fails the call -/
def optionalOK (o : PropOut) : Bool :=
  match o with
  | .value _ => true
  | .http c => c = 404

/-- one iteration of the loop in `SyncCollection` -/
def syncOne (reqPath : String) (r : Resp) : SyncOut :=
  match respPath r with
  | .http c p => if c = 404 then .deleted p else .fail
  | .malformed => .fail
  | .ok p =>
    if p = reqPath ∨ reqPath = p ++ "/" then .skipped
    else if optionalOK (decodeProp r "getlastmodified") && optionalOK (decodeProp r "getetag") then .updated p
    else .fail

/-- `PropFindFlat`: exactly one response -/
def flat (rs : List Resp) : Option Resp := match rs with | [r] => some r | _ => none

end GoWebdav.Impl.ClientResp
