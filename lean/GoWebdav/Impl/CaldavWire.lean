import GoWebdav.Std.Xml
import GoWebdav.Std.Time
import GoWebdav.Impl.Caldav
import GoWebdav.Generated.Tables
/-!
Model of the CalDAV query wire path.

Client side: `QueryCalendar` / `MultiGetCalendar` with `encodeCalendarReq`, `encodeCalendarCompReq`,
`encodeExpandRequest`, `encodeCompFilter`, `encodePropFilter`, `encodeParamFilter`, `encodeTextMatch`
(caldav/client.go) followed by `xml.Marshal` of the tagged structs of caldav/elements.go (child order = struct field
order; `dateWithUTCTime.MarshalXMLAttr` omits the zero instant, otherwise formats the instant in UTC).

Server side: `handleReport` → `reportReq.UnmarshalXML` → `handleQuery` / `handleMultiget` with `decodeCompFilter`,
`decodePropFilter`, `decodeParamFilter`, `decodeComp`, `decodeCalendarDataReq` (caldav/server.go).

The filter values are those of `Impl.Caldav` (the same API types the matcher of C06 consumes).  Instants are Unix
seconds; `Z` is Go's zero `time.Time` ("no bound").

A singular field (pointer or struct) that occurs twice in a document makes `encoding/xml` merge the occurrences into
one value; such documents are outside RFC 4791's grammar and the model abstains on them (`Err.abstain`).
-/
namespace GoWebdav.Impl.CaldavWire
open GoWebdav GoWebdav.Std.Xml GoWebdav.Generated GoWebdav.Impl.Caldav

def nsCal : String := "urn:ietf:params:xml:ns:caldav"
def nsDav : String := "DAV:"

/-- `CalendarCompRequest` without `Expand` -/
inductive CompReq where
  | mk (name : String) (allProps : Bool) (props : List String) (allComps : Bool) (comps : List CompReq)
deriving Repr

/-- `CalendarCompRequest` as used at the top of a request: the component selection and the expansion range -/
structure DataReq where
  comp : CompReq
  expand : Option (Int × Int)

structure Query where
  data : DataReq
  filter : CompFilter

structure MultiGet where
  data : DataReq
  paths : List String

inductive Err where
  | badRequest    -- 400
  | abstain       -- a singular element given twice: not modelled
deriving DecidableEq, Repr

def el (loc : String) (attrs : List (QName × String)) (children : List Node) : Node := .elem ⟨nsCal, loc⟩ attrs children
def dav (loc : String) (children : List Node) : Node := .elem ⟨nsDav, loc⟩ [] children
def att (loc v : String) : QName × String := (⟨"", loc⟩, v)

-- client → wire ---------------------------------------------------------------------------------------------------

def fmt (t : Int) : String := String.ofList (Std.Time.fmtCal t)

/-- a `dateWithUTCTime` attribute: omitted for the zero instant -/
def timeAttr (loc : String) (t : Int) : List (QName × String) := if t = Z then [] else [att loc (fmt t)]

def ind (b : Bool) : List Node := if b then [el "is-not-defined" [] []] else []

def encTimeRange (s e : Int) : List Node :=
  if s = Z ∧ e = Z then [] else [el "time-range" (timeAttr "start" s ++ timeAttr "end" e) []]

/-- `negate-condition,attr,omitempty` through `negateCondition.MarshalText` -/
def negAttr (b : Bool) : List (QName × String) :=
  match caldavNegateFormat b with | some v => [att "negate-condition" v] | none => []

def encTextMatch (t : TextMatch) : Node := el "text-match" (negAttr t.negate) (textNodes t.text)

def encTM : Option TextMatch → List Node
  | some t => [encTextMatch t]
  | none => []

def encParamFilter (p : ParamFilter) : Node :=
  el "param-filter" [att "name" p.name] (ind p.isNotDefined ++ encTM p.textMatch)

def encPropFilter (p : PropFilter) : Node :=
  el "prop-filter" [att "name" p.name]
    (ind p.isNotDefined ++ encTimeRange p.start p.end_ ++ encTM p.textMatch ++ p.paramFilters.map encParamFilter)

mutual
def encCompFilter : CompFilter → Node
  | .mk name i s e props comps =>
    el "comp-filter" [att "name" name] (ind i ++ encTimeRange s e ++ props.map encPropFilter ++ encCompFilters comps)
def encCompFilters : List CompFilter → List Node
  | [] => []
  | c :: cs => encCompFilter c :: encCompFilters cs
end

def flag (loc : String) (b : Bool) : List Node := if b then [el loc [] []] else []

mutual
def encComp : CompReq → Node
  | .mk name ap props ac comps =>
    el "comp" [att "name" name]
      (flag "allprop" ap ++ props.map (fun p => el "prop" [att "name" p] []) ++ flag "allcomp" ac ++ encComps comps)
def encComps : List CompReq → List Node
  | [] => []
  | c :: cs => encComp c :: encComps cs
end

def encExpand : Option (Int × Int) → List Node
  | some (s, e) => [el "expand" (timeAttr "start" s ++ timeAttr "end" e) []]
  | none => []

/-- `encodeCalendarReq`: DAV:prop with calendar-data, getlastmodified, getetag -/
def encDataReq (d : DataReq) : Node :=
  dav "prop" [el "calendar-data" [] (encComp d.comp :: encExpand d.expand), dav "getlastmodified" [], dav "getetag" []]

/-- `QueryCalendar`: the request body -/
def encodeQuery (q : Query) : Node :=
  el "calendar-query" [] [encDataReq q.data, el "filter" [] [encCompFilter q.filter]]

/-- `MultiGetCalendar`: the property request, then the hrefs (the request path when none is given) -/
def encodeMultiGet (reqPath : String) (escape : String → String) (m : MultiGet) : Node :=
  el "calendar-multiget" []
    (encDataReq m.data :: (if m.paths.isEmpty then [reqPath] else m.paths).map (fun p => dav "href" [.text (escape p)]))

-- wire → backend ---------------------------------------------------------------------------------------------------

def pick (loc : String) (cs : List Node) : List Node := cs.filter (·.localIs loc)

/-- the occurrences of a singular field -/
def single (loc : String) (cs : List Node) : Except Err (Option Node) :=
  match pick loc cs with
  | [] => .ok none
  | [n] => .ok (some n)
  | _ => .error .abstain

/-- an element filling a nested-struct field: the local name matched, now the struct's XMLName checks the namespace -/
def checkNs (q : QName) (space : String) : Except Err Unit :=
  if q.space = space then .ok () else .error .badRequest

def nameAttr (attrs : List (QName × String)) : String := (attr attrs "name").getD ""

def decTime (attrs : List (QName × String)) (loc : String) : Except Err Int :=
  match attr attrs loc with
  | none => .ok Z
  | some v => match Std.Time.parseCal v.toList with | some t => .ok t | none => .error .badRequest

/-- `timeRange` / `expand`: two optional `dateWithUTCTime` attributes -/
def decRange (n : Node) : Except Err (Int × Int) :=
  match n with
  | .elem q attrs _ => do
    checkNs q nsCal
    let s ← decTime attrs "start"
    let e ← decTime attrs "end"
    pure (s, e)
  | _ => .error .badRequest

def decOptRange (loc : String) (cs : List Node) : Except Err (Option (Int × Int)) := do
  match ← single loc cs with
  | none => pure none
  | some n => let r ← decRange n; pure (some r)

def decNegate (attrs : List (QName × String)) : Except Err Bool :=
  match attr attrs "negate-condition" with
  | none => .ok false
  | some v => match caldavNegateParse v with | some b => .ok b | none => .error .badRequest

def decTextMatch (n : Node) : Except Err TextMatch :=
  match n with
  | .elem q attrs children => do
    checkNs q nsCal
    let neg ← decNegate attrs
    pure ⟨chardata children, neg⟩
  | _ => .error .badRequest

def decOptTextMatch (cs : List Node) : Except Err (Option TextMatch) := do
  match ← single "text-match" cs with
  | none => pure none
  | some n => let t ← decTextMatch n; pure (some t)

def hasInd (cs : List Node) : Bool := cs.any (·.localIs "is-not-defined")

def decParamFilter (n : Node) : Except Err ParamFilter :=
  match n with
  | .elem q attrs children => do
    checkNs q nsCal
    let tm ← decOptTextMatch children
    if hasInd children ∧ tm.isSome then .error .badRequest
    else pure ⟨nameAttr attrs, hasInd children, tm⟩
  | _ => .error .badRequest

def decPropFilter (n : Node) : Except Err PropFilter :=
  match n with
  | .elem q attrs children => do
    checkNs q nsCal
    let tr ← decOptRange "time-range" children
    let tm ← decOptTextMatch children
    let params ← (pick "param-filter" children).mapM decParamFilter
    if hasInd children ∧ (tm.isSome ∨ tr.isSome ∨ !params.isEmpty) then .error .badRequest
    else pure ⟨nameAttr attrs, hasInd children, (tr.getD (Z, Z)).1, (tr.getD (Z, Z)).2, tm, params⟩
  | _ => .error .badRequest

mutual
def decCompFilter : Node → Except Err CompFilter
  | .elem q attrs children => do
    checkNs q nsCal
    let tr ← decOptRange "time-range" children
    let props ← (pick "prop-filter" children).mapM decPropFilter
    let comps ← decCompFilters children
    if hasInd children ∧ (tr.isSome ∨ !props.isEmpty ∨ !comps.isEmpty) then .error .badRequest
    else pure (.mk (nameAttr attrs) (hasInd children) (tr.getD (Z, Z)).1 (tr.getD (Z, Z)).2 props comps)
  | _ => .error .badRequest
/-- the `comp-filter` children of an element, in document order -/
def decCompFilters : List Node → Except Err (List CompFilter)
  | [] => .ok []
  | n :: rest =>
    if n.localIs "comp-filter" then do
      let c ← decCompFilter n
      let cs ← decCompFilters rest
      pure (c :: cs)
    else decCompFilters rest
end

def decPropName (n : Node) : Except Err String :=
  match n with
  | .elem q attrs _ => do checkNs q nsCal; pure (nameAttr attrs)
  | _ => .error .badRequest

mutual
def decComp : Node → Except Err CompReq
  | .elem q attrs children => do
    checkNs q nsCal
    let props ← (pick "prop" children).mapM decPropName
    let comps ← decComps children
    let ap := children.any (·.localIs "allprop")
    let ac := children.any (·.localIs "allcomp")
    if ap ∧ !props.isEmpty then .error .badRequest
    else if ac ∧ !comps.isEmpty then .error .badRequest
    else pure (.mk (nameAttr attrs) ap props ac comps)
  | _ => .error .badRequest
def decComps : List Node → Except Err (List CompReq)
  | [] => .ok []
  | n :: rest =>
    if n.localIs "comp" then do
      let c ← decComp n
      let cs ← decComps rest
      pure (c :: cs)
    else decComps rest
end

def zeroReq : DataReq := ⟨.mk "" false [] false [], none⟩

/-- `Prop.Decode(&calendarData)` + `decodeCalendarDataReq`: the first calendar-data element inside DAV:prop -/
def decDataReq (propChildren : List Node) : Except Err DataReq :=
  match propChildren.find? (·.isElem nsCal "calendar-data") with
  | some (.elem _ _ children) => do
    let comp ← (do
      match ← single "comp" children with
      | none => pure (CompReq.mk "" true [] true [])
      | some n => decComp n)
    let ex ← decOptRange "expand" children
    pure ⟨comp, ex⟩
  | _ => .ok ⟨.mk "" true [] true [], none⟩

/-- the DAV:prop child of a report root -/
def decPropReq (children : List Node) : Except Err DataReq :=
  match children.filter (·.isElem nsDav "prop") with
  | [] => .ok zeroReq
  | [.elem _ _ pc] => decDataReq pc
  | _ => .error .abstain

/-- what `handleQuery` hands to the backend -/
def decodeQuery (n : Node) : Except Err Query :=
  match n with
  | .elem name _ children =>
    if !(name.space == nsCal && name.loc == "calendar-query") then .error .badRequest else do
    let filter ← (do
      match ← single "filter" children with
      | some (.elem fq _ fc) =>
        checkNs fq nsCal
        (match ← single "comp-filter" fc with
         | some cf => decCompFilter cf
         | none => pure (CompFilter.mk "" false Z Z [] []))
      | _ => pure (CompFilter.mk "" false Z Z [] []))
    let data ← decPropReq children
    pure ⟨data, filter⟩
  | _ => .error .badRequest

def decHref (unescape : String → Option String) (h : Node) : Except Err String :=
  match h with
  | .elem _ _ hc => (match unescape (chardata hc) with | some p => .ok p | none => .error .badRequest)
  | _ => .error .badRequest

/-- `handleMultiget`: the data request and the hrefs in document order (`unescape` = url.Parse(...).Path) -/
def decodeMultiGet (unescape : String → Option String) (n : Node) : Except Err MultiGet :=
  match n with
  | .elem name _ children =>
    if !(name.space == nsCal && name.loc == "calendar-multiget") then .error .badRequest else do
    let hrefs ← (children.filter (·.isElem nsDav "href")).mapM (decHref unescape)
    let data ← decPropReq children
    pure ⟨data, hrefs⟩
  | _ => .error .badRequest

end GoWebdav.Impl.CaldavWire
