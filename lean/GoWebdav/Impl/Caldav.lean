import GoWebdav.Std.Str
/-!
Model of caldav/match.go: `Filter`, `Match`, `match`, `matchCompFilter`, `matchPropFilter`,
`matchCompTimeRange`, `matchPropTimeRange`, `matchParamFilter`, `matchTextMatch`.

Instants are `Int` seconds since the Unix epoch; Go's zero `time.Time` (the "unset" value of the
`Start`/`End` fields) is the instant `Z`.  Components are already-parsed values: what go-ical's
`Props.Get`, `Params.Values`, `IProp.DateTime`, `Event.DateTimeStart/End` and `RecurrenceSet` return
is part of the component value (go-ical itself is modelled, not verified; see `Std` note in DESIGN §2).
-/
namespace GoWebdav.Impl.Caldav
open GoWebdav.Std

/-- `time.Time{}` as a Unix instant (0001-01-01T00:00:00Z) -/
def Z : Int := -62135596800

structure TextMatch where
  text : String
  negate : Bool
deriving DecidableEq, Repr

structure ParamFilter where
  name : String
  isNotDefined : Bool
  textMatch : Option TextMatch
deriving DecidableEq, Repr

structure PropFilter where
  name : String
  isNotDefined : Bool
  start : Int
  end_ : Int
  textMatch : Option TextMatch
  paramFilters : List ParamFilter
deriving DecidableEq, Repr

inductive CompFilter where
  | mk (name : String) (isNotDefined : Bool) (start end_ : Int) (props : List PropFilter) (comps : List CompFilter)
deriving Repr

def CompFilter.name : CompFilter → String | .mk n _ _ _ _ _ => n
def CompFilter.isNotDefined : CompFilter → Bool | .mk _ i _ _ _ _ => i

/-- an iCalendar property as go-ical holds it -/
structure IProp where
  name : String                         -- upper-cased by the decoder
  value : String                        -- raw value text
  params : List (String × List String)  -- upper-cased parameter names
  time : Option Int                     -- `IProp.DateTime(loc)`; `none` = it returns an error
deriving DecidableEq, Repr

/-- how an event states its end -/
inductive EndSpec where
  | dtend (e : Option Int)      -- DTEND present; `none` = unparsable
  | duration (d : Option Int)   -- DURATION present (seconds); `none` = unparsable
  | none
deriving DecidableEq, Repr

/-- `RecurrenceSet`: no RRULE / error / the instances of the bounded family FREQ=…;INTERVAL;COUNT (UTC) -/
inductive Recur where
  | none
  | err
  | rule (first step : Int) (count : Nat)
deriving DecidableEq, Repr

structure Timing where
  recur : Recur
  dtstart : Option (Option Int × Bool)   -- DTSTART: absent / (parsed instant or error, VALUE=DATE)
  endSpec : EndSpec
deriving DecidableEq, Repr

inductive Component where
  | mk (name : String) (props : List IProp) (timing : Timing) (children : List Component)
deriving Repr

def Component.name : Component → String | .mk n _ _ _ => n
def Component.props : Component → List IProp | .mk _ p _ _ => p
def Component.timing : Component → Timing | .mk _ _ t _ => t
def Component.children : Component → List Component | .mk _ _ _ c => c

inductive Err where
  | parse
deriving DecidableEq, Repr

-- go-ical views ------------------------------------------------------------------------------

/-- `Props.Get(name)`: first property stored under the upper-cased name -/
def getProp (props : List IProp) (name : String) : Option IProp := props.find? (fun p => p.name == Str.toUpper name)

/-- `Params.Values(name)` -/
def paramValues (p : IProp) (name : String) : List String :=
  match p.params.find? (fun kv => kv.1 == Str.toUpper name) with
  | some kv => kv.2
  | none => []

/-- `Event.DateTimeStart`: the zero time when there is no DTSTART -/
def dateTimeStart (t : Timing) : Except Err Int :=
  match t.dtstart with
  | none => .ok Z
  | some (none, _) => .error .parse
  | some (some s, _) => .ok s

/-- `Event.DateTimeEnd` (go-ical components.go) -/
def dateTimeEnd (t : Timing) : Except Err Int :=
  match t.endSpec with
  | .dtend (some e) => .ok e
  | .dtend none => .error .parse
  | es =>
    match t.dtstart with
    | none => .ok Z
    | some (none, _) => .error .parse
    | some (some s, isDate) =>
      match es with
      | .duration (some d) => .ok (s + d)
      | .duration none => .error .parse
      | _ => .ok (if isDate then s + 86400 else s)

def instances (first step : Int) : Nat → List Int
  | 0 => []
  | n + 1 => first :: instances (first + step) step n

-- match.go ------------------------------------------------------------------------------------

def matchTextMatch (t : TextMatch) (value : String) : Bool :=
  let m := Str.contains value t.text
  if t.negate then !m else m

def matchParamFilter (f : ParamFilter) (field : IProp) : Bool :=
  match paramValues field f.name with
  | [] => f.isNotDefined
  | value :: _ =>
    if f.isNotDefined then false
    else match f.textMatch with
      | some tm => matchTextMatch tm value
      | none => true

/-- `intervalOverlaps(start, end, evStart, evEnd)`: `[s, e)` (an instant unless `e > s`) against `[start, end_)`; `Z` = open side -/
def intervalOverlaps (start end_ s e : Int) : Bool :=
  if end_ ≠ Z && !(s < end_) then false
  else if start = Z then true
  else if e > s then e > start
  else !(s < start)

/-- the `for { instStart, ok := next(); … }` loop over the recurrence instances (sorted by start time) -/
def instanceLoop (start end_ dur : Int) : List Int → Bool
  | [] => false
  | t :: rest =>
    if end_ ≠ Z && !(t < end_) then false
    else if intervalOverlaps start end_ t (t + dur) then true
    else instanceLoop start end_ dur rest

def matchCompTimeRange (start end_ : Int) (c : Component) : Except Err Bool :=
  match c.timing.recur with
  | .err => .error .parse
  | recur =>
    -- `if comp.Name == ical.CompEvent { eventStart, eventEnd = … } else if rset == nil { return false }`
    let times : Except Err (Option (Int × Int)) :=
      if c.name = "VEVENT" then
        match dateTimeStart c.timing with
        | .error e => .error e
        | .ok s => match dateTimeEnd c.timing with
          | .error e => .error e
          | .ok e => .ok (some (s, e))
      else .ok none
    match times with
    | .error e => .error e
    | .ok times =>
      match recur with
      | .rule first step count =>
        let dur := match times with
          | some (s, e) => if e > s then e - s else 0
          | none => 0
        .ok (instanceLoop start end_ dur (instances first step count))
      | _ =>
        match times with
        | some (s, e) => .ok (intervalOverlaps start end_ s e)
        | none => .ok false

def matchPropTimeRange (start end_ : Int) (field : IProp) : Except Err Bool :=
  match field.time with
  | none => .error .parse
  | some t => .ok (intervalOverlaps start end_ t t)

/-- sequential conjunction with early exit: stops at the first error or `false` -/
def allScan : List (Except Err Bool) → Except Err Bool
  | [] => .ok true
  | .error e :: _ => .error e
  | .ok false :: _ => .ok false
  | .ok true :: rest => allScan rest

/-- sequential disjunction with early exit: stops at the first error or `true` -/
def anyScan : List (Except Err Bool) → Except Err Bool
  | [] => .ok false
  | .error e :: _ => .error e
  | .ok true :: _ => .ok true
  | .ok false :: rest => anyScan rest

def hasRange (start end_ : Int) : Bool := start ≠ Z || end_ ≠ Z

def matchPropFilter (f : PropFilter) (c : Component) : Except Err Bool :=
  match getProp c.props f.name with
  | none => .ok f.isNotDefined
  | some field =>
    if f.isNotDefined then .ok false
    else if !(f.paramFilters.all (matchParamFilter · field)) then .ok false
    else if hasRange f.start f.end_ then matchPropTimeRange f.start f.end_ field
    else match f.textMatch with
      | some tm => .ok (matchTextMatch tm field.value)
      | none => .ok true

/-- the body of Go's `match` once the recursive results are known (non-recursive combinator) -/
def gate (name : String) (ind : Bool) (start end_ : Int) (props : List PropFilter) (c : Component)
    (subs : List (Except Err Bool)) : Except Err Bool :=
  if c.name ≠ name then .ok ind
  else if ind then .ok false
  else allScan ((if hasRange start end_ then [matchCompTimeRange start end_ c] else []) ++ subs ++ props.map (matchPropFilter · c))

/-- `matchCompFilter` once the per-child results are known: is-not-defined holds iff no child has the name -/
def childGate (ind : Bool) (perChild : List (Except Err Bool)) : Except Err Bool :=
  if ind then allScan perChild else anyScan perChild

mutual
/-- Go's `match(filter, comp)` -/
def matchF : CompFilter → Component → Except Err Bool
  | .mk name ind s e props comps, c => gate name ind s e props c (matchSubs comps c)
/-- one `matchCompFilter(compFilter, comp)` result per nested component filter -/
def matchSubs : List CompFilter → Component → List (Except Err Bool)
  | [], _ => []
  | cf :: rest, c => childGate cf.isNotDefined (c.children.map (matchF cf)) :: matchSubs rest c
end

/-- `Filter(query, cos)` -/
def filterLoop (f : CompFilter) : List (String × Component) → Except Err (List (String × Component))
  | [] => .ok []
  | co :: rest =>
    match matchF f co.2 with
    | .error e => .error e
    | .ok false => filterLoop f rest
    | .ok true => (filterLoop f rest).map (co :: ·)

def filter (q : Option CompFilter) (cos : List (String × Component)) : Except Err (List (String × Component)) :=
  match q with
  | none => .ok cos
  | some f => filterLoop f cos

end GoWebdav.Impl.Caldav
