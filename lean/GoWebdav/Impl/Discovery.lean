import GoWebdav.Impl.Codec
/-!
Model of the discovery chain of the CalDAV / CardDAV clients against the library's own servers (C12, last sentence
but two): the well-known redirect, `current-user-principal`, the home set and the collection list.

Server side (caldav/server.go, carddav/server.go, after fix 1b8f3d2): every path the backend names leaves the server
as `(&internal.Href{Path: p}).String()` — in the `Location` header of the well-known redirect, in the `href` child of
`current-user-principal` and of the home-set property, and as the `href` of each collection's response.
Client side (client.go `FindCurrentUserPrincipal`, caldav/client.go `FindCalendarHomeSet`, `FindCalendars`, and the
carddav twins; net/http for the redirect): every such text is read back with `url.Parse` and its `.Path` is what the
caller gets (`prop.Href.Path`, `resp.Path()`).
-/
namespace GoWebdav.Impl.Discovery
open GoWebdav GoWebdav.Impl.Codec

/-- what the backend says (`CurrentUserPrincipal`, `CalendarHomeSetPath` / `AddressBookHomeSetPath`, `ListCalendars` /
    `ListAddressBooks` paths) -/
structure Backend where
  principal : Bytes
  homeSet : Bytes
  collections : List Bytes
deriving Repr, DecidableEq

/-- what the servers put on the wire for it -/
structure Wire where
  wellKnownLocation : Bytes          -- `http.Redirect(w, r, (&internal.Href{Path: principalPath}).String(), 308)`
  principalHref : Bytes              -- `current-user-principal/href`
  homeSetHref : Bytes                -- `calendar-home-set/href`, `addressbook-home-set/href`
  collectionHrefs : List Bytes       -- one `response/href` per collection

def serve (b : Backend) : Wire :=
  { wellKnownLocation := hrefEncode b.principal
    principalHref := hrefEncode b.principal
    homeSetHref := hrefEncode b.homeSet
    collectionHrefs := b.collections.map hrefEncode }

/-- `Href.UnmarshalText` + `.Path`; a text that does not parse is an error of the call -/
def readHref (s : Bytes) : Option Bytes :=
  match hrefDecode s with
  | .path p => some p
  | _ => none

/-- what the client reports at the four steps: where the well-known URL led, the principal, the home set, the collections -/
def discover (w : Wire) : Option (Bytes × Bytes × Bytes × List Bytes) := do
  let viaWellKnown ← readHref w.wellKnownLocation
  let p ← readHref w.principalHref
  let h ← readHref w.homeSetHref
  let cs ← w.collectionHrefs.mapM readHref
  pure (viaWellKnown, p, h, cs)

/-- the well-known redirect as it was before fix 1b8f3d2: the path handed to `http.Redirect` as it is -/
def serveRawLocation (b : Backend) : Wire := { serve b with wellKnownLocation := b.principal }

end GoWebdav.Impl.Discovery
