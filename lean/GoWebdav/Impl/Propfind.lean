import GoWebdav.Std.Basic
/-!
Model of `internal.NewPropFindResponse` / `Response.EncodeProp` (internal/server.go, internal/elements.go) and of the
PROPFIND scope of the CalDAV / CardDAV backends (`backend.PropFind` in caldav/server.go and carddav/server.go).

The `props` argument is a Go map: its iteration order is arbitrary, so the model takes the entries in SOME order
(`Avail`, keys distinct) and every theorem holds for every order.
-/
namespace GoWebdav.Impl.Propfind

structure Name where
  space : String
  loc : String
deriving DecidableEq, Repr

/-- what a `PropFindFunc` returns: a value (abstracted as text) or an error mapped to its HTTP code -/
inductive PropVal where
  | value (v : String)
  | error (code : Nat)
deriving DecidableEq, Repr

abbrev Avail := List (Name × PropVal)

inductive Form where
  | propname
  | allprop
  | prop (names : List Name)
  | none
deriving DecidableEq, Repr

/-- one property inside a propstat: its name and its value (`none` = the empty element) -/
abbrev Item := Name × Option String

structure PropStat where
  code : Nat
  props : List Item
deriving DecidableEq, Repr

def resourceType : Name := ⟨"DAV:", "resourcetype"⟩

def lookupAvail (a : Avail) (n : Name) : Option PropVal := (a.find? (fun x => x.1 == n)).map (·.2)

/-- `resp.EncodeProp(code, v)`: append to the propstat with that status, or open a new one -/
def encodeProp : List PropStat → Nat → Item → List PropStat
  | [], code, it => [⟨code, [it]⟩]
  | ps :: rest, code, it =>
    if ps.code = code then { ps with props := ps.props ++ [it] } :: rest
    else ps :: encodeProp rest code it

/-- `if _, ok := props[ResourceTypeName]; !ok { props[ResourceTypeName] = … }` -/
def withResourceType (a : Avail) : Avail :=
  if (lookupAvail a resourceType).isSome then a else a ++ [(resourceType, .value "")]

def itemFor (a : Avail) (n : Name) : Nat × Item :=
  match lookupAvail a n with
  | some (.value v) => (200, (n, some v))
  | some (.error c) => (c, (n, Option.none))
  | Option.none => (404, (n, Option.none))

/-- the `seen` map of the `prop` loop: requested names in order, a name that has been answered is skipped -/
def firstOccurrences : List Name → List Name → List Name
  | _, [] => []
  | seen, n :: rest => if n ∈ seen then firstOccurrences seen rest else n :: firstOccurrences (n :: seen) rest

/-- the (status, property) pairs in the order the Go loops produce them -/
def produced (a : Avail) : Form → Option (List (Nat × Item))
  | .propname => some (a.map (fun x => (200, (x.1, Option.none))))
  | .allprop => some (a.map (fun x => itemFor a x.1))
  | .prop names => some ((firstOccurrences [] names).map (itemFor a))
  | .none => Option.none

/-- `NewPropFindResponse(path, propfind, props)`: the propstats; `none` = 400 (no propname, allprop or prop) -/
def newPropFindResponse (avail : Avail) (form : Form) : Option (List PropStat) :=
  (produced (withResourceType avail) form).map (fun items => items.foldl (fun ps x => encodeProp ps x.1 x.2) [])

/-- all (status, property) pairs of a response -/
def flat (ps : List PropStat) : List (Nat × Item) := ps.flatMap (fun p => p.props.map (fun it => (p.code, it)))

-- scope of the CalDAV / CardDAV servers ----------------------------------------------------------------------------------

/-- what the backend exposes: the current user's principal and home set, the collections and their objects -/
structure Hierarchy where
  principal : String
  homeSet : String
  collections : List (String × List String)
deriving DecidableEq, Repr

inductive Level | root | principal | homeSet | collection | object | deeper
deriving DecidableEq, Repr

inductive DepthV | zero | one | infinity
deriving DecidableEq, Repr

/-- `propFindAllCalendars(recurse)` -/
def allCollections (h : Hierarchy) (recurse : Bool) : List String :=
  h.collections.flatMap (fun c => c.1 :: (if recurse then c.2 else []))

/-- hrefs of `backend.PropFind` (one response each), for a request path at the given level -/
def scope (h : Hierarchy) (reqPath : String) (level : Level) (d : DepthV) : List String :=
  match level with
  | .root =>
    reqPath :: (if d = .zero then [] else h.principal :: (if d = .infinity then h.homeSet :: allCollections h true else []))
  | .principal =>
    if reqPath = h.principal then
      h.principal :: (if d = .zero then [] else h.homeSet :: (if d = .infinity then allCollections h true else []))
    else []
  | .homeSet =>
    if reqPath = h.homeSet then
      h.homeSet :: (if d = .zero then [] else allCollections h (d = .infinity))
    else []
  | .collection =>
    match h.collections.find? (fun c => c.1 == reqPath) with
    | some c => c.1 :: (if d = .zero then [] else c.2)
    | none => []          -- the backend's GetCalendar fails: the error is served instead
  | .object => if h.collections.any (fun c => c.2.contains reqPath) then [reqPath] else []
  | .deeper => []

end GoWebdav.Impl.Propfind
