import GoWebdav.Std.Decimal
import GoWebdav.Std.Quote
import GoWebdav.Std.Time
import GoWebdav.Std.Url
import GoWebdav.Generated.Tables
/-!
Model of the wire primitives of internal/elements.go, internal/internal.go and caldav/elements.go:
`Status`, `ETag`, `Href`, `Time`, `dateWithUTCTime`; `Depth` and `Overwrite` are the regenerated definitions
of `Generated.Tables` themselves.
-/
namespace GoWebdav.Impl.Codec
open GoWebdav GoWebdav.Std GoWebdav.Std.Decimal

-- Status ----------------------------------------------------------------------------------------

def httpPrefix : List Char := ['H', 'T', 'T', 'P', '/', '1', '.', '1']

/-- `Status.MarshalText`; `statusText` = `http.StatusText` -/
def statusEncode (statusText : Int → List Char) (code : Int) (text : List Char) : List Char :=
  httpPrefix ++ [' '] ++ intText code ++ [' '] ++ (if text = [] then statusText code else text)

/-- `strings.Cut(s, " ")` -/
def cutSp : List Char → List Char × Option (List Char)
  | [] => ([], none)
  | c :: cs => if c = ' ' then ([], some cs) else
    let r := cutSp cs
    (c :: r.1, r.2)

/-- `Status.UnmarshalText`: `none` = error; the empty text leaves the zero status -/
def statusDecode (s : List Char) : Option (Int × List Char) :=
  if s = [] then some (0, []) else
  match cutSp s with
  | (_, none) => none
  | (_, some r1) =>
    match cutSp r1 with
    | (_, none) => none
    | (codeText, some text) =>
      match atoi codeText with
      | none => none
      | some code => some (code, text)

-- ETag ------------------------------------------------------------------------------------------

/-- `ETag.String` / `MarshalText`: `fmt.Sprintf("%q", etag)` -/
def etagEncode (isPrint : Char → Bool) (tag : List Quote.GoRune) : List Char := Quote.quote isPrint tag

/-- `ETag.UnmarshalText`: a double-quoted Go string -/
def etagDecode (s : List Char) : Option (List Quote.Out) := Quote.unquote s

-- Href ------------------------------------------------------------------------------------------

/-- `Href.String` for `Href{Path: p}`: the escaped path; a relative path whose first segment contains a colon
    gets a `./` in front (RFC 3986 §4.2) -/
def hrefEncode (p : Bytes) : Bytes :=
  if Url.firstSegmentHasColon p then [46, 47] ++ Url.escapePath p else Url.escapePath p

/-- `Href.UnmarshalText` seen through `.Path` -/
def hrefDecode (s : Bytes) : Url.ParseResult := Url.parseRef s

-- dates -----------------------------------------------------------------------------------------

/-- a `time.Time`: the instant and the zone offset of its location (seconds east of UTC) -/
structure GoTime where
  unix : Int
  offset : Int
deriving DecidableEq, Repr

/-- `Time.MarshalText`: `time.Time(*t).UTC().Format(http.TimeFormat)` -/
def httpDateEncode (t : GoTime) : List Char := Time.fmtHttp t.unix
/-- `dateWithUTCTime.MarshalText`: `time.Time(*t).UTC().Format("20060102T150405Z")` -/
def calDateEncode (t : GoTime) : List Char := Time.fmtCal t.unix

end GoWebdav.Impl.Codec
