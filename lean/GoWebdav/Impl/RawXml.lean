import GoWebdav.Std.Basic
/-!
Model of internal/xml.go: `RawXMLValue` (captured element tree), `UnmarshalXML` (recursive descent over the token
stream), `MarshalXML` (replay) and the `rawXMLValueReader.Token` state machine with the Go struct's own fields
(`val, start, end, child, childReader`).  Tokens are namespace-resolved, as `xml.Decoder.Token` delivers them.
-/
namespace GoWebdav.Impl.RawXml

structure Tag where
  space : String
  loc : String
  attrs : List (String × String × String)    -- (space, local, value), in document order
deriving DecidableEq, Repr

/-- a non-element token: CharData / Comment / ProcInst / Directive -/
structure Leaf where
  kind : Nat
  data : String
deriving DecidableEq, Repr

inductive Raw where
  | elem (tag : Tag) (children : List Raw)
  | leaf (l : Leaf)
deriving Repr

inductive Tok where
  | start (t : Tag)
  | stop (t : Tag)       -- `tok.End()`: the end element carries the start element's name
  | leaf (l : Leaf)
deriving DecidableEq, Repr

mutual
/-- `MarshalXML`: start token, children, end token -/
def flatten : Raw → List Tok
  | .elem t cs => Tok.start t :: (flattenL cs ++ [Tok.stop t])
  | .leaf l => [Tok.leaf l]
def flattenL : List Raw → List Tok
  | [] => []
  | c :: cs => flatten c ++ flattenL cs
end

/-- `UnmarshalXML` after the start token has been read: children up to the matching end element.
    `fuel` bounds the recursion (the token list length suffices). -/
def parseChildren : Nat → List Tok → Option (List Raw × List Tok)
  | 0, _ => none
  | _ + 1, [] => none                                   -- unexpected EOF
  | _ + 1, Tok.stop _ :: rest => some ([], rest)
  | n + 1, Tok.leaf l :: rest =>
    match parseChildren n rest with
    | some (cs, rest') => some (Raw.leaf l :: cs, rest')
    | none => none
  | n + 1, Tok.start t :: rest =>
    match parseChildren n rest with
    | some (inner, rest') =>
      match parseChildren n rest' with
      | some (cs, rest'') => some (Raw.elem t inner :: cs, rest'')
      | none => none
    | none => none

/-- capture of one element: `d.DecodeElement(&raw, &start)` -/
def parseElem (toks : List Tok) : Option (Raw × List Tok) :=
  match toks with
  | Tok.start t :: rest =>
    match parseChildren (rest.length + 1) rest with
    | some (cs, rest') => some (Raw.elem t cs, rest')
    | none => none
  | _ => none

-- the token reader --------------------------------------------------------------------------------------

/-- mirror of the Go struct: val, start, end, child, childReader -/
inductive Reader where
  | mk (val : Raw) (started ended : Bool) (child : Nat) (cr : Option Reader)
deriving Repr

def fresh (v : Raw) : Reader := .mk v false false 0 none

/-- first `Token()` of a fresh reader never returns EOF and needs no recursion -/
def firstToken : Raw → Tok × Reader
  | .leaf t => (.leaf t, .mk (.leaf t) false true 0 none)
  | .elem n cs => (.start n, .mk (.elem n cs) true false 0 none)

/-- non-recursive body of `Token()`; `sub` is the result of calling `Token()` on the existing child reader, if any -/
def stepR (val : Raw) (started ended : Bool) (child : Nat) (sub : Option (Option Tok × Reader)) : Option Tok × Reader :=
  if ended then (none, .mk val started ended child none) else
  match val with
  | .leaf t => (some (.leaf t), .mk val started true child none)
  | .elem n cs =>
    if !started then (some (.start n), .mk val true ended child none) else
    -- the `for tr.child < len(children)` loop, unrolled: at most one call into an existing child reader,
    -- then at most one fresh child reader whose first token is never EOF
    let afterEOF (child : Nat) : Option Tok × Reader :=
      match cs[child]? with
      | some c => let (t, r) := firstToken c; (some t, .mk val started ended child (some r))
      | none => (some (.stop n), .mk val started true child none)
    match sub with
    | some (some t, r') => (some t, .mk val started ended child (some r'))
    | some (none, _) => afterEOF (child + 1)
    | none => afterEOF child

/-- `rawXMLValueReader.Token()`: `none` = io.EOF -/
def next : Reader → Option Tok × Reader
  | .mk val s e c none => stepR val s e c none
  | .mk val s e c (some r) => stepR val s e c (some (next r))

/-- read until EOF, at most `fuel` calls -/
def drain : Nat → Reader → List Tok
  | 0, _ => []
  | n + 1, r =>
    match next r with
    | (some t, r') => t :: drain n r'
    | (none, _) => []

/-- well nested: every end element closes the innermost open start element with the same name -/
def balanced : List Tag → List Tok → Bool
  | [], [] => true
  | _ :: _, [] => false
  | st, Tok.leaf _ :: rest => balanced st rest
  | st, Tok.start t :: rest => balanced (t :: st) rest
  | top :: st, Tok.stop t :: rest => top == t && balanced st rest
  | [], Tok.stop _ :: _ => false

end GoWebdav.Impl.RawXml
