import GoWebdav.Std.Basic
/-!
Model of `caldav.ValidateCalendarObject` (caldav/caldav.go).

A calendar is seen the way the Go function sees it: whether the top-level component carries a
METHOD property, and for each child its name and the outcome of `comp.Props.Text("UID")`
(`absent`/empty text both give `""`; a value that is not TEXT-typed or carries a broken escape
gives an error).
-/
namespace GoWebdav.Impl.Validate

inductive Uid where
  | none                 -- no UID property (Props.Text returns "", nil)
  | err                  -- Props.Text returns an error
  | text (s : String)    -- decoded UID text (may be "")
deriving DecidableEq, Repr

structure Comp where
  name : String
  uid : Uid
deriving DecidableEq, Repr

def vtimezone : String := "VTIMEZONE"

inductive Err where
  | method | types | uidErr | uids
deriving DecidableEq, Repr

def Uid.asText : Uid → Except Err String
  | .none => .ok ""
  | .err => .error .uidErr
  | .text s => .ok s

/-- one iteration of the `for _, comp := range cal.Children` loop; state = (eventType, uid) -/
def step (st : String × String) (c : Comp) : Except Err (String × String) :=
  let eventType := st.1
  let uid := st.2
  -- `if comp.Name != ical.CompTimezone { if eventType == "" { eventType = comp.Name }; if eventType != comp.Name { return err } }`
  let eventType' := if c.name ≠ vtimezone then (if eventType = "" then c.name else eventType) else eventType
  if c.name ≠ vtimezone ∧ eventType' ≠ c.name then .error .types else
  match c.uid.asText with
  | .error e => .error e
  | .ok compUID =>
    let uid' := if uid = "" then compUID else uid
    if compUID ≠ "" ∧ uid' ≠ compUID then .error .uids else .ok (eventType', uid')

def loop : String × String → List Comp → Except Err (String × String)
  | st, [] => .ok st
  | st, c :: cs =>
    match step st c with
    | .error e => .error e
    | .ok st' => loop st' cs

/-- `ValidateCalendarObject`: on success `(eventType, uid)`; on failure the Go code returns `"", "", err`. -/
def validate (hasMethod : Bool) (comps : List Comp) : Except Err (String × String) :=
  if hasMethod then .error .method else loop ("", "") comps

end GoWebdav.Impl.Validate
