import GoWebdav.Impl.CarddavWire
/-!
An independent, strict reader of RFC 6352 request documents (§10.3 addressbook-query, §8.7 addressbook-multiget,
§10.4 address-data, §10.5 filter grammar, §10.6 limit), over namespace-expanded element trees.

Strict means: every element must be the one the grammar allows at that place — right namespace, right local name, in
the order of the DTD, with only the attributes the DTD declares, enumeration attributes with the DTD's values — and
nothing else may be present.  This is the "independent RFC-based reader" of property C09: what the client sends must be
read by it, to the request the caller expressed.  It shares with the implementation model only the value types and
`Std` (tree type, decimal digits); namespaces, element names and enumeration values are its own literals.

    <!ELEMENT addressbook-query ((DAV:allprop | DAV:propname | DAV:prop)?, filter, limit?)>
    <!ELEMENT addressbook-multiget ((DAV:allprop | DAV:propname | DAV:prop)?, DAV:href+)>
    <!ELEMENT address-data (allprop | prop*)>          content-type, version  #IMPLIED
    <!ELEMENT prop EMPTY>                              name CDATA #REQUIRED  novalue (yes | no) "no"
    <!ELEMENT filter (prop-filter*)>                   test (anyof | allof) "anyof"
    <!ELEMENT prop-filter (is-not-defined | (text-match*, param-filter*))>
                                                       name CDATA #REQUIRED  test (anyof | allof) "anyof"
    <!ELEMENT param-filter (is-not-defined | text-match)?>      name CDATA #REQUIRED
    <!ELEMENT text-match (#PCDATA)>   collation CDATA "i;unicode-casemap"  negate-condition (yes | no) "no"
                                      match-type (equals | contains | starts-with | ends-with) "contains"
    <!ELEMENT limit (nresults)>       <!ELEMENT nresults (#PCDATA)>

An absent enumeration attribute is read as "" (the DTD's default, as the API writes it).
-/
namespace GoWebdav.Spec.CarddavWire
open GoWebdav GoWebdav.Std.Xml GoWebdav.Impl.CarddavWire

def nsC : String := "urn:ietf:params:xml:ns:carddav"
def nsD : String := "DAV:"
def matchTypes : List String := ["equals", "contains", "starts-with", "ends-with"]
def tests : List String := ["anyof", "allof"]

/-- the CardDAV element `loc` -/
def isC (loc : String) : Node → Bool
  | .elem q _ _ => q.space == nsC && q.loc == loc
  | _ => false
/-- the DAV: element `loc` -/
def isD (loc : String) : Node → Bool
  | .elem q _ _ => q.space == nsD && q.loc == loc
  | _ => false
/-- the CardDAV element `loc`, EMPTY and without attributes -/
def emptyC (loc : String) : Node → Bool
  | .elem q attrs cs => q.space == nsC && q.loc == loc && attrs.isEmpty && cs.isEmpty
  | _ => false

def isText : Node → Bool | .text _ => true | _ => false
def isElemNode : Node → Bool | .elem _ _ _ => true | _ => false

/-- only declared, un-namespaced attributes -/
def attrsOK (allowed : List String) (attrs : List (QName × String)) : Bool :=
  attrs.all (fun a => a.1.space == "" && allowed.contains a.1.loc)

def readEnum (valid : List String) (attrs : List (QName × String)) (loc : String) : Option String :=
  match attr attrs loc with
  | none => some ""
  | some v => if valid.contains v then some v else none

def readNegate (attrs : List (QName × String)) : Option Bool :=
  match attr attrs "negate-condition" with
  | none => some false
  | some v => if v = "yes" then some true else if v = "no" then some false else none

def readTextMatch (n : Node) : Option TextMatch :=
  match n with
  | .elem _ attrs cs =>
    if !(isC "text-match" n && attrsOK ["collation", "negate-condition", "match-type"] attrs && cs.all isText) then none else do
    let neg ← readNegate attrs
    let mt ← readEnum matchTypes attrs "match-type"
    pure ⟨chardata cs, neg, mt⟩
  | _ => none

/-- the content of a param-filter: nothing, is-not-defined, or one text-match -/
def readParamBody (cs : List Node) : Option (Bool × Option TextMatch) :=
  match cs with
  | [] => some (false, none)
  | [c] => if emptyC "is-not-defined" c then some (true, none) else (readTextMatch c).map (fun t => (false, some t))
  | _ => none

def readParamFilter (n : Node) : Option ParamFilter :=
  match n with
  | .elem _ attrs cs =>
    if !(isC "param-filter" n && attrsOK ["name"] attrs) then none else do
    let name ← attr attrs "name"
    let b ← readParamBody cs
    pure ⟨name, b.1, b.2⟩
  | _ => none

/-- the content of a prop-filter: is-not-defined alone, or text-matches followed by param-filters and nothing else -/
def readPropBody (cs : List Node) : Option (Bool × List TextMatch × List ParamFilter) :=
  if cs.length = 1 ∧ cs.all (emptyC "is-not-defined") = true then some (true, [], []) else
  let rest := cs.dropWhile (isC "text-match")
  if !(rest.dropWhile (isC "param-filter")).isEmpty then none else do
  let tms ← (cs.takeWhile (isC "text-match")).mapM readTextMatch
  let pms ← (rest.takeWhile (isC "param-filter")).mapM readParamFilter
  pure (false, tms, pms)

def readPropFilter (n : Node) : Option PropFilter :=
  match n with
  | .elem _ attrs cs =>
    if !(isC "prop-filter" n && attrsOK ["name", "test"] attrs) then none else do
    let name ← attr attrs "name"
    let test ← readEnum tests attrs "test"
    let b ← readPropBody cs
    pure ⟨name, test, b.1, b.2.1, b.2.2⟩
  | _ => none

def readFilter (n : Node) : Option (String × List PropFilter) :=
  match n with
  | .elem _ attrs cs =>
    if !(isC "filter" n && attrsOK ["test"] attrs) then none else do
    let test ← readEnum tests attrs "test"
    let pfs ← cs.mapM readPropFilter
    pure (test, pfs)
  | _ => none

def readProp (n : Node) : Option String :=
  match n with
  | .elem _ attrs [] => if isC "prop" n && attrsOK ["name", "novalue"] attrs then attr attrs "name" else none
  | _ => none

/-- address-data in a request: allprop, or the named properties (none = the whole card) -/
def readAddressData (n : Node) : Option (Bool × List String) :=
  match n with
  | .elem _ attrs cs =>
    if !(isC "address-data" n && attrsOK ["content-type", "version"] attrs) then none else
    if cs.length = 1 ∧ cs.all (emptyC "allprop") = true then some (true, []) else (cs.mapM readProp).map (fun ps => (false, ps))
  | _ => none

def dataOf (ds : List Node) : Option (Bool × List String) :=
  match ds with
  | [] => some (false, [])
  | [d] => readAddressData d
  | _ => none

/-- the property request: DAV:prop holding property elements, among them at most one address-data; DAV:allprop and
    DAV:propname ask for no address data -/
def readPropReq (n : Node) : Option (Bool × List String) :=
  match n with
  | .elem _ attrs cs =>
    if isD "allprop" n || isD "propname" n then (if attrs.isEmpty && cs.isEmpty then some (false, []) else none) else
    if !(isD "prop" n && attrs.isEmpty && cs.all isElemNode) then none else dataOf (cs.filter (isC "address-data"))
  | _ => none

def readNResults (n : Node) : Option Int :=
  match n with
  | .elem _ [] tc =>
    if !(isC "nresults" n && tc.all isText) then none else
    let ds := (chardata tc).toList
    -- a positive number of results (RFC 6352 §10.6.1 by way of RFC 5323: a limit of zero is not a limit)
    if ds.isEmpty then none else
    match Std.Decimal.readDigits 0 ds with
    | some v => if v = 0 then none else some (Int.ofNat v)
    | none => none
  | _ => none

def readLimit (n : Node) : Option Int :=
  match n with
  | .elem _ [] [c] => if isC "limit" n then readNResults c else none
  | _ => none

def isPropReq (n : Node) : Bool := isD "prop" n || isD "allprop" n || isD "propname" n

/-- the optional leading property request -/
def leadProp (cs : List Node) : Option (Bool × List String) × List Node :=
  match cs with
  | c :: rest => if isPropReq c then (readPropReq c, rest) else (some (false, []), cs)
  | [] => (some (false, []), [])

/-- filter, then an optional limit (0 = none) -/
def readTail (cs : List Node) : Option (String × List PropFilter × Int) :=
  match cs with
  | [f] => (readFilter f).map (fun x => (x.1, x.2, 0))
  | [f, l] => do
    let x ← readFilter f
    let k ← readLimit l
    pure (x.1, x.2, k)
  | _ => none

def readQuery (n : Node) : Option Query :=
  match n with
  | .elem q attrs cs =>
    if !(q.space == nsC && q.loc == "addressbook-query" && attrs.isEmpty) then none else do
    let d ← (leadProp cs).1
    let t ← readTail (leadProp cs).2
    pure ⟨d.1, d.2, t.1, t.2.1, t.2.2⟩
  | _ => none

def readHref (unescape : String → Option String) (n : Node) : Option String :=
  match n with
  | .elem _ [] cs => if isD "href" n && cs.all isText then unescape (chardata cs) else none
  | _ => none

def readMultiGet (unescape : String → Option String) (n : Node) : Option MultiGet :=
  match n with
  | .elem q attrs cs =>
    if !(q.space == nsC && q.loc == "addressbook-multiget" && attrs.isEmpty) then none else do
    let d ← (leadProp cs).1
    let hs ← (leadProp cs).2.mapM (readHref unescape)
    if hs.isEmpty then none else pure ⟨d.1, d.2, hs⟩
  | _ => none

end GoWebdav.Spec.CarddavWire
