import GoWebdav.Impl.Caldav
/-!
RFC 4791 §9.7–9.9 as stated by property C06.

* `overlapTable` is the VEVENT table of §9.9, one row per way an event can state its end
  (`Z` as range bound = that side is open). A DTEND that is not after DTSTART, or a non-positive DURATION,
  is read as a zero-length event at DTSTART (the RFC's zero-length row).
* The property speaks of events only: for components other than VEVENT the specification adopts "no match"
  (what the implementation does); the check does not judge those inputs.
* Unparsable time values make a time-range test false here; the implementation reports an error when it
  reaches one (theorem `C06_match_sound` is about the cases in which it answers).
-/
namespace GoWebdav.Spec.Caldav
open GoWebdav.Impl.Caldav GoWebdav.Std

def lt (rs x : Int) : Bool := rs = Z || rs < x     -- range start strictly before x (or open)
def le (rs x : Int) : Bool := rs = Z || rs ≤ x     -- range start at or before x (or open)
def gt (re x : Int) : Bool := re = Z || x < re     -- range end strictly after x (or open)

/-- RFC 4791 §9.9, VEVENT rows; `s` = DTSTART, `isDate` = DTSTART is a DATE value -/
def overlapTable (rs re s : Int) (isDate : Bool) : EndSpec → Bool
  | .dtend (some e) => if s < e then lt rs e && gt re s else le rs s && gt re s
  | .dtend none => false
  | .duration (some d) => if 0 < d then lt rs (s + d) && gt re s else le rs s && gt re s
  | .duration none => false
  | .none => if isDate then lt rs (s + 86400) && gt re s else le rs s && gt re s

/-- length of the event's interval in seconds (0 for zero-length / degenerate events) -/
def durationOf (s : Int) (isDate : Bool) : EndSpec → Int
  | .dtend (some e) => if s < e then e - s else 0
  | .duration (some d) => if 0 < d then d else 0
  | .none => if isDate then 86400 else 0
  | _ => 0

/-- does `[t, t+dur)` (an instant when `dur = 0`) overlap `[rs, re)` -/
def overlapAt (rs re t dur : Int) : Bool :=
  if 0 < dur then lt rs (t + dur) && gt re t else le rs t && gt re t

/-- time range of a component filter against a component -/
def rangeHolds (rs re : Int) (c : Component) : Bool :=
  if c.name ≠ "VEVENT" then
    -- outside the property (it speaks of events): adopted from the implementation — recurring components
    -- other than events match when an instance start lies in the range, non-recurring ones never
    match c.timing.recur with
    | .rule first step count => (instances first step count).any (fun t => overlapAt rs re t 0)
    | _ => false
  else
    match c.timing.dtstart with
    | some (some s, isDate) =>
      match c.timing.recur with
      | .err => false
      | .rule first step count =>
        -- a recurring event matches iff some instance overlaps; every instance lasts as long as the event
        c.timing.endSpec ≠ .dtend none && c.timing.endSpec ≠ .duration none &&
        (instances first step count).any (fun t => overlapAt rs re t (durationOf s isDate c.timing.endSpec))
      | .none => overlapTable rs re s isDate c.timing.endSpec
    | _ => false

/-- well-formedness assumed of calendar objects: every VEVENT has a DTSTART (RFC 5545 §3.6.1) and recurrence
    instances are generated in ascending order -/
def localWF (c : Component) : Bool :=
  (c.name ≠ "VEVENT" || c.timing.dtstart.isSome) &&
  (match c.timing.recur with | .rule _ step _ => decide (0 ≤ step) | _ => true)

mutual
def wf : Component → Bool
  | .mk name props timing children => localWF (.mk name props timing children) && wfL children
def wfL : List Component → Bool
  | [] => true
  | c :: cs => wf c && wfL cs
end

def textHolds (t : TextMatch) (v : String) : Bool := Str.contains v t.text != t.negate

/-- a parameter filter holds iff the parameter exists (is-not-defined: is absent) and its text-match holds -/
def paramHolds (f : ParamFilter) (p : IProp) : Bool :=
  match paramValues p f.name with
  | [] => f.isNotDefined
  | v :: _ => !f.isNotDefined && (match f.textMatch with | some tm => textHolds tm v | none => true)

/-- a property filter holds iff the property exists (is-not-defined: is absent) and its time range or
    text-match and all its parameter filters hold -/
def propHolds (f : PropFilter) (c : Component) : Bool :=
  match getProp c.props f.name with
  | none => f.isNotDefined
  | some p =>
    !f.isNotDefined && f.paramFilters.all (paramHolds · p) &&
      (if hasRange f.start f.end_ then
        (match p.time with | some t => le f.start t && gt f.end_ t | none => false)
       else match f.textMatch with | some tm => textHolds tm p.value | none => true)

mutual
/-- a component filter against one component: is-not-defined ⇒ the component does not have that name;
    otherwise it has the name and satisfies time range, nested component filters and property filters -/
def holdsF : CompFilter → Component → Bool
  | .mk name ind s e props comps, c =>
    if ind then c.name ≠ name
    else c.name = name && (!hasRange s e || rangeHolds s e c) && (holdsSubs comps c).all id && props.all (propHolds · c)
/-- each nested component filter against the children: some child satisfies it
    (is-not-defined: no child has that name) -/
def holdsSubs : List CompFilter → Component → List Bool
  | [], _ => []
  | cf :: rest, c =>
    (if cf.isNotDefined then c.children.all (fun ch => ch.name ≠ cf.name) else c.children.any (holdsF cf)) :: holdsSubs rest c
end

end GoWebdav.Spec.Caldav
