import GoWebdav.Impl.Webdav
import GoWebdav.Spec.Cond
/-!
The abstract RFC 4918 resource tree of property C01 (DESIGN Appendix A): for a tree and a request, the set of
refusal codes whose precondition holds, and — when none holds — the effect, the success codes and the entity.
`allows` is a relation: an implementation may answer a refused request with any applicable code, so the order in
which two simultaneously failing preconditions are tested is not prescribed; refusing when nothing applies,
succeeding when something applies, or answering with a code whose condition does not hold are violations.

The same tree type and bulk operations (`set`, `removeAll`, `graft`) as the model are used; their pointwise
meaning is stated in `Props/C01.lean` (sentence lemmas), which is what ties them to the property text.
-/
namespace GoWebdav.Spec.Rfc4918
open GoWebdav GoWebdav.Std.Path GoWebdav.Std.Posix GoWebdav.Impl.Webdav

inductive Kind | absent | file | coll
deriving DecidableEq, Repr

def kind (t : FS) (p : FPath) : Kind :=
  match lookup t p with
  | none => .absent
  | some (.file _) => .file
  | some .dir => .coll

/-- the resource a path string addresses: none if it contains NUL or does not clean to a rooted path -/
def target (name : Bytes) : Option FPath :=
  if name.contains 0 || !isAbs name then none else some (rootedSegs name)

def validDepth (s : String) : Bool := s = "" || s = "0" || s = "1" || s = "infinity"
def validOverwrite (s : String) : Bool := s = "" || s = "T" || s = "F"

/-- the conditional headers against the target (C04 table), as a refusal code -/
def condRefusal (exists_ : Bool) (im inm : CondView) : List Nat :=
  match Spec.Cond.verdict asciiUtf8 (if exists_ then some [99] else none) (condChars im) (condChars inm) with
  | .proceed => []
  | .badRequest => [400]
  | .preconditionFailed => [412]

def destTarget (r : Request) : Option FPath :=
  match r.dest with
  | .path d => target d
  | _ => none

/-- codes whose refusal condition holds -/
def refusals (t : FS) (r : Request) : List Nat :=
  let m := r.method
  match target r.path with
  | none =>
    -- an unmappable path; for COPY/MOVE/PROPFIND/PROPPATCH/MKCOL other 4xx conditions may hold as well
    [400] ++ (if m = "MKCOL" ∧ r.ctypeSet then [415] else []) ++ (if m = "PROPPATCH" then [403] else []) ++
      (if m ≠ "OPTIONS" ∧ m ≠ "GET" ∧ m ≠ "HEAD" ∧ m ≠ "PUT" ∧ m ≠ "DELETE" ∧ m ≠ "PROPFIND" ∧ m ≠ "PROPPATCH" ∧ m ≠ "MKCOL" ∧ m ≠ "COPY" ∧ m ≠ "MOVE" then [405] else [])
  | some p =>
    if m = "OPTIONS" then []
    else if m = "GET" ∨ m = "HEAD" then
      (if kind t p = .absent then [404] else []) ++ (if kind t p = .coll then [405] else [])
    else if m = "PUT" then
      (if kind t p = .coll then [405] else []) ++ (if !parentOK t p then [409] else []) ++
        condRefusal (kind t p ≠ .absent) r.ifMatch r.ifNoneMatch
    else if m = "DELETE" then
      (if kind t p = .absent then [404] else []) ++ (if kind t p ≠ .absent then condRefusal true r.ifMatch r.ifNoneMatch else [])
    else if m = "MKCOL" then
      (if r.ctypeSet then [415] else []) ++ (if kind t p ≠ .absent then [405] else []) ++ (if !parentOK t p then [409] else [])
    else if m = "COPY" ∨ m = "MOVE" then
      (if destTarget r = none then [400] else []) ++
      (if !validOverwrite r.overwrite then [400] else []) ++
      (if !validDepth r.depth then [400] else []) ++
      (if m = "COPY" ∧ r.depth = "1" then [400] else []) ++
      (if m = "MOVE" ∧ (r.depth = "0" ∨ r.depth = "1") then [400] else []) ++
      (if kind t p = .absent then [404] else []) ++
      (match destTarget r with
       | none => []
       | some d =>
         (if p = d then [403] else []) ++
         (if p ≠ d ∧ (p.isPrefixOf d ∨ d.isPrefixOf p) then [403, 409] else []) ++
         (if !parentOK t d then [409] else []) ++
         (if kind t d ≠ .absent ∧ r.overwrite = "F" then [412] else []))
    else if m = "PROPFIND" then
      (if !validDepth r.depth then [400] else []) ++
      (if bodyForm r = none ∨ bodyForm r = some .noform then [400] else []) ++   -- the body does not decode to propname | allprop | prop
      (if kind t p = .absent then [404] else [])
    else if m = "PROPPATCH" then [400, 403, 404, 405, 409, 415, 422, 423]   -- unsupported on the file server: any 4xx
    else [405]

/-- the tree after a request none of whose refusal conditions holds -/
def effect (t : FS) (r : Request) : FS :=
  match target r.path with
  | none => t
  | some p =>
    if r.method = "PUT" then set t p (.file r.body)
    else if r.method = "DELETE" then removeAll t p
    else if r.method = "MKCOL" then set t p .dir
    else if r.method = "COPY" ∨ r.method = "MOVE" then
      match destTarget r with
      | none => t
      | some d =>
        let t1 := if kind t d ≠ .absent then removeAll t d else t    -- an existing destination is replaced
        if r.method = "MOVE" then removeAll (graft t1 p d) p
        else if r.depth = "0" ∧ kind t p = .coll then set t1 d .dir   -- Depth 0: the bare collection
        else graft t1 p d
    else t

def successCodes (t : FS) (r : Request) : List Nat :=
  match target r.path with
  | none => []
  | some p =>
    if r.method = "OPTIONS" then [200, 204]
    else if r.method = "GET" ∨ r.method = "HEAD" then [200]
    else if r.method = "PUT" then (if kind t p = .absent then [201] else [200, 204])
    else if r.method = "DELETE" then [200, 204]
    else if r.method = "MKCOL" then [201]
    else if r.method = "COPY" ∨ r.method = "MOVE" then
      (match destTarget r with
       | some d => if kind t d = .absent then [201] else [204]
       | none => [])
    else if r.method = "PROPFIND" then [207]
    else []

/-- the resources in scope of a PROPFIND: the addressed resource, plus its direct members for Depth 1,
    plus all descendants for Depth infinity or no Depth header -/
def scope (t : FS) (p : FPath) (depth : String) : List FPath :=
  if depth = "0" then [p]
  else if depth = "1" then (paths t).filter (fun q => q = p || (q.length = p.length + 1 && p.isPrefixOf q))
  else (paths t).filter (fun q => p.isPrefixOf q)

/-- what a successful read-only request must report about the stored resource -/
def entityOK (t : FS) (r : Request) (resp : Response) : Prop :=
  match target r.path with
  | none => True
  | some p =>
    if r.method = "OPTIONS" then
      resp.dav = true ∧
      (match kind t p with
       | .file => "GET" ∈ resp.allow ∧ "HEAD" ∈ resp.allow ∧ "PUT" ∈ resp.allow
       | .coll => "GET" ∉ resp.allow ∧ "PUT" ∉ resp.allow
       | .absent => "PUT" ∈ resp.allow ∧ "MKCOL" ∈ resp.allow ∧ "GET" ∉ resp.allow ∧ "DELETE" ∉ resp.allow)
    else if r.method = "GET" ∨ r.method = "HEAD" then
      (match lookup t p with
       | some (.file c) => resp.contentLength = some c.length ∧ resp.tagged = true ∧ resp.body = (if r.method = "HEAD" then none else some c)
       | _ => False)
    else if r.method = "PUT" then resp.tagged = true
    else if r.method = "PROPFIND" then
      (match lookup t p with
       | none => False
       | some e =>
         let describe (href : Bytes) (e : Entry) : Bytes × Bool × Option Nat :=
           (href, decide (bodyForm r ≠ some .propname) && isDir e, if bodyForm r ≠ some .propname then sizeOf? e else none)
         if r.depth ≠ "0" ∧ isDir e then
           resp.multi = (scope t p r.depth).filterMap (fun q => (lookup t q).map (fun e' => describe (Impl.Path.externalPath q) e'))
         else resp.multi = [describe r.path e])
    else True

/-- a body that breaks off must be reported as a failure and must not change anything -/
def faulted (r : Request) : Bool := r.method = "PUT" && r.fault.isSome

/-- is `(t', resp)` an acceptable outcome of request `r` on tree `t`? -/
def allows (t : FS) (r : Request) (out : FS × Response) : Prop :=
  if refusals t r ≠ [] then out.2.status ∈ refusals t r ∧ Same out.1 t
  else if faulted r then out.2.status ≥ 400 ∧ Same out.1 t
  else Same out.1 (effect t r) ∧ out.2.status ∈ successCodes t r ∧ entityOK t r out.2

end GoWebdav.Spec.Rfc4918
