import GoWebdav.Impl.Carddav
/-!
RFC 6352 §10.5 as stated by property C07, written with `List.any` / `List.all` / `List.filter` / `List.take`.
-/
namespace GoWebdav.Spec.Carddav
open GoWebdav.Impl.Carddav GoWebdav.Std

def validTest (t : String) : Bool := t = "" ∨ t = "anyof" ∨ t = "allof"
def validMatchType (t : String) : Bool := t = "" ∨ t = "equals" ∨ t = "contains" ∨ t = "starts-with" ∨ t = "ends-with"

def ValidQuery (q : Query) : Prop :=
  validTest q.filterTest = true ∧ ∀ pf ∈ q.propFilters, validTest pf.test = true ∧ ∀ tm ∈ pf.textMatches, validMatchType tm.matchType = true

instance (q : Query) : Decidable (ValidQuery q) := by unfold ValidQuery; infer_instance

/-- one text-match against the property value (absent match type means contains), inverted by negate-condition -/
def textHolds (t : TextMatch) (v : String) : Bool :=
  let raw :=
    if t.matchType = "equals" then t.text == v
    else if t.matchType = "starts-with" then Str.hasPrefix v t.text
    else if t.matchType = "ends-with" then Str.hasSuffix v t.text
    else Str.contains v t.text
  raw != t.negate

def combine (test : String) (l : List Bool) : Bool := if test = "allof" then l.all id else l.any id

/-- a property filter holds iff the property is present (is-not-defined: absent) and its text-matches hold,
    combined by the filter's own test -/
def propHolds (pf : PropFilter) (card : Card) : Bool :=
  match card.get pf.name with
  | none => pf.isNotDefined
  | some v => !pf.isNotDefined && (pf.textMatches.isEmpty || combine pf.test (pf.textMatches.map (textHolds · v)))

def holds (q : Query) (card : Card) : Bool := combine q.filterTest (q.propFilters.map (propHolds · card))

/-- VERSION plus the requested properties (whole card for all-properties or no selection) -/
def keep (q : Query) (k : String) : Bool := q.allProp || q.props.isEmpty || k = "VERSION" || q.props.contains k

/-- cut to the first `limit` matches when `limit` is positive -/
def cut (limit : Int) (l : List α) : List α := if limit ≤ 0 then l else l.take limit.toNat

def selected (q : Query) (aos : List AO) : List AO := cut q.limit (aos.filter (fun ao => holds q ao.card))

end GoWebdav.Spec.Carddav
