import GoWebdav.Impl.Validate
/-!
Specification of RFC 4791 §4.1 as stated by property C19, written without reference to the
single-pass implementation: a calendar is acceptable iff it has no METHOD, every UID can be read,
all components other than VTIMEZONE have one and the same type, and all components that carry a
(non-empty) UID carry the same one.
-/
namespace GoWebdav.Spec.Validate
open GoWebdav.Impl.Validate

/-- the types of the components other than VTIMEZONE, in order -/
def types (cs : List Comp) : List String := (cs.filter (fun c => c.name ≠ vtimezone)).map (·.name)

/-- the UIDs carried by components (a component with an empty UID text carries none) -/
def uids (cs : List Comp) : List String :=
  cs.filterMap (fun c => match c.uid with
    | .text s => if s = "" then none else some s
    | _ => none)

def AllEq (l : List String) : Prop := ∀ a ∈ l, ∀ b ∈ l, a = b

def Valid (hasMethod : Bool) (cs : List Comp) : Prop :=
  hasMethod = false ∧ (∀ c ∈ cs, c.uid ≠ .err) ∧ AllEq (types cs) ∧ AllEq (uids cs)

/-- what an accepted calendar reports: its single component type and its single UID ("" when there is none) -/
def result (cs : List Comp) : String × String :=
  ((types cs).head?.getD "", (uids cs).head?.getD "")

instance (l : List String) : Decidable (AllEq l) := by unfold AllEq; infer_instance
instance (m : Bool) (cs : List Comp) : Decidable (Valid m cs) := by unfold Valid; infer_instance

end GoWebdav.Spec.Validate
