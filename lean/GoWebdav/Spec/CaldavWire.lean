import GoWebdav.Impl.CaldavWire
/-!
An independent, strict reader of RFC 4791 request documents (§9.5 calendar-query, §9.10 calendar-multiget, §9.6
calendar-data, §9.7 filter grammar, §9.9 time-range), over namespace-expanded element trees.

Strict means: every element must be the one the grammar allows at that place — right namespace, right local name,
in the order of the DTD, with only the attributes the DTD declares — and nothing else may be present.  This is the
"independent RFC-based reader" of property C08: what the client sends must be read by it, to the request the caller
expressed.  It shares with the implementation model only the value types and `Std` (tree type, date parsing).

    <!ELEMENT calendar-query ((DAV:allprop | DAV:propname | DAV:prop)?, filter, timezone?)>
    <!ELEMENT calendar-multiget ((DAV:allprop | DAV:propname | DAV:prop)?, DAV:href+)>
    <!ELEMENT calendar-data (comp?, (expand | limit-recurrence-set)?, limit-freebusy-set?)>
    <!ELEMENT comp ((allprop | prop*), (allcomp | comp*))>      name CDATA #REQUIRED
    <!ELEMENT filter (comp-filter)>
    <!ELEMENT comp-filter (is-not-defined | (time-range?, prop-filter*, comp-filter*))>   name CDATA #REQUIRED
    <!ELEMENT prop-filter (is-not-defined | ((time-range | text-match)?, param-filter*))> name CDATA #REQUIRED
    <!ELEMENT param-filter (is-not-defined | text-match?)>      name CDATA #REQUIRED
    <!ELEMENT text-match (#PCDATA)>   collation CDATA "i;ascii-casemap"  negate-condition (yes | no) "no"
    <!ELEMENT time-range EMPTY>       start CDATA #IMPLIED  end CDATA #IMPLIED   (at least one)
    <!ELEMENT expand EMPTY>           start CDATA #REQUIRED end CDATA #REQUIRED
-/
namespace GoWebdav.Spec.CaldavWire
open GoWebdav GoWebdav.Std.Xml GoWebdav.Impl.Caldav GoWebdav.Impl.CaldavWire

/-- the grammar symbol of a child: CalDAV elements by local name, DAV: elements with a `D:` mark -/
def tag : Node → String
  | .elem q _ _ => if q.space = nsCal then q.loc else if q.space = nsDav then "D:" ++ q.loc else "?"
  | _ => "#"

inductive Pat where
  | one (s : String)
  | opt (s : String)
  | star (s : String)

/-- does a child sequence follow a sequential content model? (the symbols of one model are distinct) -/
def seqOK : List Pat → List String → Bool
  | [], ts => ts.isEmpty
  | .one s :: ps, ts => (match ts with | t :: ts' => t == s && seqOK ps ts' | [] => false)
  | .opt s :: ps, ts => (match ts with | t :: ts' => if t == s then seqOK ps ts' else seqOK ps ts | [] => seqOK ps [])
  | .star s :: ps, ts => seqOK ps (ts.dropWhile (· == s))

/-- only declared, un-namespaced attributes -/
def attrsOK (allowed : List String) (attrs : List (QName × String)) : Bool :=
  attrs.all (fun a => a.1.space == "" && allowed.contains a.1.loc)

def named (n : Node) (loc : String) : Bool := tag n == loc

def readTime (attrs : List (QName × String)) (loc : String) : Option (Option Int) :=
  match attr attrs loc with
  | none => some none
  | some v => (Std.Time.parseCal v.toList).map some

/-- time-range: EMPTY, at least one bound; an absent bound is the open bound `Z` -/
def readTimeRange (n : Node) : Option (Int × Int) :=
  match n with
  | .elem _ attrs [] =>
    if !(named n "time-range" && attrsOK ["start", "end"] attrs) then none else do
    let s ← readTime attrs "start"
    let e ← readTime attrs "end"
    if s.isNone ∧ e.isNone then none else pure (s.getD Z, e.getD Z)
  | _ => none

/-- expand: EMPTY, both bounds -/
def readExpand (n : Node) : Option (Int × Int) :=
  match n with
  | .elem _ attrs [] =>
    if !(named n "expand" && attrsOK ["start", "end"] attrs) then none else do
    let s ← readTime attrs "start"
    let e ← readTime attrs "end"
    match s, e with
    | some s, some e => pure (s, e)
    | _, _ => none
  | _ => none

def isText : Node → Bool | .text _ => true | _ => false

def readTextMatch (n : Node) : Option TextMatch :=
  match n with
  | .elem _ attrs cs =>
    if !(named n "text-match" && attrsOK ["collation", "negate-condition"] attrs && cs.all isText) then none else
    match attr attrs "negate-condition" with
    | none => some ⟨chardata cs, false⟩
    | some "yes" => some ⟨chardata cs, true⟩
    | some "no" => some ⟨chardata cs, false⟩
    | some _ => none
  | _ => none

def reqName (attrs : List (QName × String)) : Option String := attr attrs "name"

def readParamFilter (n : Node) : Option ParamFilter :=
  match n with
  | .elem _ attrs cs =>
    if !(named n "param-filter" && attrsOK ["name"] attrs) then none else do
    let name ← reqName attrs
    match cs with
    | [] => pure ⟨name, false, none⟩
    | [c] =>
      if named c "is-not-defined" then (if c matches .elem _ [] [] then pure ⟨name, true, none⟩ else none)
      else do let t ← readTextMatch c; pure ⟨name, false, some t⟩
    | _ => none
  | _ => none

def isEmptyEl (n : Node) (loc : String) : Bool := named n loc && (n matches .elem _ [] [])

/-- the optional time-range child; none = both bounds open -/
def optRange (cs : List Node) : Option (Int × Int) :=
  match cs.find? (named · "time-range") with
  | some t => readTimeRange t
  | none => some (Z, Z)

def optTextMatch (cs : List Node) : Option (Option TextMatch) :=
  match cs.find? (named · "text-match") with
  | some t => (readTextMatch t).map some
  | none => some none

def readPropFilter (n : Node) : Option PropFilter :=
  match n with
  | .elem _ attrs cs =>
    if !(named n "prop-filter" && attrsOK ["name"] attrs) then none else do
    let name ← reqName attrs
    if cs.length = 1 ∧ cs.all (isEmptyEl · "is-not-defined") then pure ⟨name, true, Z, Z, none, []⟩ else
    let tags := cs.map tag
    if !(seqOK [.opt "time-range", .star "param-filter"] tags || seqOK [.opt "text-match", .star "param-filter"] tags) then none else do
    let r ← optRange cs
    let tm ← optTextMatch cs
    let ps ← (cs.filter (named · "param-filter")).mapM readParamFilter
    pure ⟨name, false, r.1, r.2, tm, ps⟩
  | _ => none

mutual
def readCompFilter : Node → Option CompFilter
  | .elem q attrs cs =>
    if !(q.space == nsCal && q.loc == "comp-filter" && attrsOK ["name"] attrs) then none else do
    let name ← reqName attrs
    if cs.length = 1 ∧ cs.all (isEmptyEl · "is-not-defined") then pure (.mk name true Z Z [] []) else
    if !seqOK [.opt "time-range", .star "prop-filter", .star "comp-filter"] (cs.map tag) then none else do
    let r ← optRange cs
    let props ← (cs.filter (named · "prop-filter")).mapM readPropFilter
    let comps ← readCompFilters cs
    pure (.mk name false r.1 r.2 props comps)
  | _ => none
/-- the comp-filter children, strictly read -/
def readCompFilters : List Node → Option (List CompFilter)
  | [] => some []
  | n :: rest =>
    if named n "comp-filter" then do
      let c ← readCompFilter n
      let cs ← readCompFilters rest
      pure (c :: cs)
    else readCompFilters rest
end

/-- an EMPTY element without attributes -/
def isBare (n : Node) : Bool := n matches .elem _ [] []

def readDataProp (n : Node) : Option String :=
  match n with
  | .elem _ attrs [] => if named n "prop" && attrsOK ["name", "novalue"] attrs then reqName attrs else none
  | _ => none

mutual
def readComp : Node → Option CompReq
  | .elem q attrs cs =>
    if !(q.space == nsCal && q.loc == "comp" && attrsOK ["name"] attrs) then none else do
    let name ← reqName attrs
    let tags := cs.map tag
    let ap := tags.contains "allprop"
    let ac := tags.contains "allcomp"
    let pat : List Pat := [if ap then .one "allprop" else .star "prop", if ac then .one "allcomp" else .star "comp"]
    if !seqOK pat tags then none else
    if !((cs.filter (named · "allprop")).all isBare && (cs.filter (named · "allcomp")).all isBare) then none else do
    let props ← (cs.filter (named · "prop")).mapM readDataProp
    let comps ← readComps cs
    pure (.mk name ap props ac comps)
  | _ => none
def readComps : List Node → Option (List CompReq)
  | [] => some []
  | n :: rest =>
    if named n "comp" then do
      let c ← readComp n
      let cs ← readComps rest
      pure (c :: cs)
    else readComps rest
end

/-- calendar-data as a request: `(comp?, expand?)`; no comp = everything -/
def readCalendarData (n : Node) : Option DataReq :=
  match n with
  | .elem _ attrs cs =>
    if !(named n "calendar-data" && attrsOK ["content-type", "version"] attrs) then none else
    if !seqOK [.opt "comp", .opt "expand"] (cs.map tag) then none else do
    let comp ← (match cs.find? (named · "comp") with
      | some c => readComp c
      | none => some (CompReq.mk "" true [] true []))
    let ex ← (match cs.find? (named · "expand") with
      | some e => (readExpand e).map some
      | none => some none)
    pure ⟨comp, ex⟩
  | _ => none

/-- `(DAV:allprop | DAV:propname | DAV:prop)?` at the head of a report: the data request it carries -/
def readPropReq (n : Node) : Option DataReq :=
  match n with
  | .elem q [] cs =>
    if q.space ≠ nsDav then none
    else if q.loc = "allprop" ∨ q.loc = "propname" then (if cs.isEmpty then some zeroReq else none)
    else if q.loc = "prop" then
      if !cs.all (fun c => c matches .elem _ _ _) then none else
      match cs.filter (named · "calendar-data") with
      | [] => some ⟨.mk "" true [] true [], none⟩
      | [cd] => readCalendarData cd
      | _ => none
    else none
  | _ => none

def isPropReq (n : Node) : Bool := tag n == "D:prop" || tag n == "D:allprop" || tag n == "D:propname"

def readFilter (n : Node) : Option CompFilter :=
  match n with
  | .elem _ [] [cf] => if named n "filter" then readCompFilter cf else none
  | _ => none

/-- §9.5 -/
def readQuery (n : Node) : Option Query :=
  match n with
  | .elem q [] cs =>
    if !(q.space == nsCal && q.loc == "calendar-query") then none else
    match cs with
    | [f] => do let cf ← readFilter f; pure ⟨zeroReq, cf⟩
    | [a, b] =>
      if isPropReq a then do let d ← readPropReq a; let cf ← readFilter b; pure ⟨d, cf⟩
      else if named b "timezone" then do let cf ← readFilter a; pure ⟨zeroReq, cf⟩ else none
    | [a, b, c] => if named c "timezone" then do let d ← readPropReq a; let cf ← readFilter b; pure ⟨d, cf⟩ else none
    | _ => none
  | _ => none

def readHref (unescape : String → Option String) (n : Node) : Option String :=
  match n with
  | .elem q [] cs => if q.space = nsDav ∧ q.loc = "href" ∧ cs.all isText then unescape (chardata cs) else none
  | _ => none

/-- §9.10: the property request, then one or more hrefs -/
def readMultiGet (unescape : String → Option String) (n : Node) : Option MultiGet :=
  match n with
  | .elem q [] cs =>
    if !(q.space == nsCal && q.loc == "calendar-multiget") then none else
    match cs with
    | [] => none
    | a :: rest =>
      if isPropReq a then
        (if rest.isEmpty then none else do let d ← readPropReq a; let hs ← rest.mapM (readHref unescape); pure ⟨d, hs⟩)
      else do let hs ← cs.mapM (readHref unescape); pure ⟨zeroReq, hs⟩
  | _ => none

-- which requests are in scope -------------------------------------------------------------------------------------------

/-- instants Go formats with a four-digit year (the zero time `Z` included) -/
def inRangeB (t : Int) : Bool := decide (-62162035200 ≤ t ∧ t ≤ 253402300799)

/-- requests the server accepts: is-not-defined stands alone, allprop/prop and allcomp/comp exclude each other -/
def okParam (p : ParamFilter) : Bool := !(p.isNotDefined && p.textMatch.isSome)
def okProp (p : PropFilter) : Bool :=
  inRangeB p.start && inRangeB p.end_ && p.paramFilters.all okParam &&
    !(p.isNotDefined && (p.start != Z || p.end_ != Z || p.textMatch.isSome || !p.paramFilters.isEmpty))
mutual
def okCF : CompFilter → Bool
  | .mk _ i s e ps cs =>
    inRangeB s && inRangeB e && ps.all okProp && okCFs cs && !(i && (s != Z || e != Z || !ps.isEmpty || !cs.isEmpty))
def okCFs : List CompFilter → Bool
  | [] => true
  | c :: cs => okCF c && okCFs cs
end
mutual
def okCR : CompReq → Bool
  | .mk _ ap ps ac cs => okCRs cs && !(ap && !ps.isEmpty) && !(ac && !cs.isEmpty)
def okCRs : List CompReq → Bool
  | [] => true
  | c :: cs => okCR c && okCRs cs
end
def okData (d : DataReq) : Bool :=
  okCR d.comp && (match d.expand with | some (s, e) => inRangeB s && inRangeB e | none => true)
def Accepted (q : Query) : Bool := okData q.data && okCF q.filter

/-- requests RFC 4791's grammar can express: additionally a prop-filter has a time-range or a text-match, not both,
    and an expansion range has both bounds -/
def rfcProp (p : PropFilter) : Bool := !((p.start != Z || p.end_ != Z) && p.textMatch.isSome)
mutual
def rfcCF : CompFilter → Bool
  | .mk _ _ _ _ ps cs => ps.all rfcProp && rfcCFs cs
def rfcCFs : List CompFilter → Bool
  | [] => true
  | c :: cs => rfcCF c && rfcCFs cs
end
def rfcData (d : DataReq) : Bool := match d.expand with | some (s, e) => s != Z && e != Z | none => true
def Expressible (q : Query) : Bool := Accepted q && rfcCF q.filter && rfcData q.data

end GoWebdav.Spec.CaldavWire
