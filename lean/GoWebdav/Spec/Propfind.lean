import GoWebdav.Impl.Propfind
/-!
What property C11 says about a PROPFIND answer, written over the flat list of (status, property) pairs of one
response and over the exposed hierarchy as a tree.
-/
namespace GoWebdav.Spec.Propfind
open GoWebdav.Impl.Propfind

/-- the properties a resource has: what the server offers plus DAV:resourcetype, which every resource has -/
def has (a : Avail) (n : Name) : Option PropVal :=
  match lookupAvail a n with
  | some v => some v
  | none => if n = resourceType then some (.value "") else none

/-- how one named property must be answered: with its value under 200, empty under the error's status, or empty
    under 404 if the resource does not have it -/
def answerFor (a : Avail) (n : Name) : Nat × Item :=
  match has a n with
  | some (.value v) => (200, (n, some v))
  | some (.error c) => (c, (n, none))
  | none => (404, (n, none))

def names (a : Avail) : List Name :=
  a.map (·.1) ++ (if (lookupAvail a resourceType).isSome then [] else [resourceType])

/-- the answer accounts for exactly the names `ns`: each of them occurs exactly once over all propstats, answered as
    `answer` prescribes, and nothing else is present -/
def Accounts (ns : List Name) (answer : Name → Nat × Item) (items : List (Nat × Item)) : Prop :=
  (∀ n ∈ ns, (items.map (·.2.1)).count n = 1 ∧ answer n ∈ items) ∧ (∀ it ∈ items, it.2.1 ∈ ns ∧ it = answer it.2.1)

/-- what property C11 demands of the (status, property) pairs of one response -/
def Accounted (a : Avail) (form : Form) (items : List (Nat × Item)) : Prop :=
  match form with
  | .propname => Accounts (names a) (fun n => (200, (n, none))) items      -- the available names, without values
  | .allprop => Accounts (names a) (answerFor a) items                      -- all of them, with values
  | .prop ns => Accounts ns (answerFor a) items                             -- every distinct requested name, once
  | .none => False                                                          -- refused with 400

-- scope: the exposed hierarchy as a tree ---------------------------------------------------------------------------------

/-- direct members of an exposed resource -/
def members (h : Hierarchy) (level : Level) (reqPath : String) : List (Level × String) :=
  match level with
  | .root => [(.principal, h.principal)]
  | .principal => [(.homeSet, h.homeSet)]
  | .homeSet => h.collections.map (fun c => (.collection, c.1))
  | .collection => (match h.collections.find? (fun c => c.1 == reqPath) with
      | some c => c.2.map (fun o => (.object, o))
      | none => [])
  | _ => []

/-- is the addressed path an exposed resource (of the current user)? -/
def exposed (h : Hierarchy) (level : Level) (reqPath : String) : Bool :=
  match level with
  | .root => true
  | .principal => reqPath = h.principal
  | .homeSet => reqPath = h.homeSet
  | .collection => h.collections.any (fun c => c.1 == reqPath)
  | .object => h.collections.any (fun c => c.2.contains reqPath)
  | .deeper => false

/-- all descendants of an exposed resource in the layout root ⊃ principal ⊃ home set ⊃ collections ⊃ objects -/
def descendants (h : Hierarchy) (level : Level) (reqPath : String) : List String :=
  let belowHomeSet := h.collections.flatMap (fun c => c.1 :: c.2)
  match level with
  | .root => h.principal :: h.homeSet :: belowHomeSet
  | .principal => h.homeSet :: belowHomeSet
  | .homeSet => belowHomeSet
  | .collection => (members h .collection reqPath).map (·.2)
  | _ => []

/-- the addressed resource for Depth 0, plus its direct members for Depth 1, plus all descendants for infinity -/
def scope (h : Hierarchy) (reqPath : String) (level : Level) (d : DepthV) : List String :=
  if !exposed h level reqPath then []
  else match d with
    | .zero => [reqPath]
    | .one => reqPath :: (members h level reqPath).map (·.2)
    | .infinity => reqPath :: descendants h level reqPath

end GoWebdav.Spec.Propfind
