import GoWebdav.Std.Xml
/-!
Insignificant content of an XML document at tree level: comments anywhere, and white-space-only character data, inside
elements whose content model is element content.  `clean` removes it, leaving elements whose content is character data
(`pcdata`, given by local name) exactly as they are — there every character counts.
-/
namespace GoWebdav.Spec.XmlNoise
open GoWebdav GoWebdav.Std.Xml

def isWs (c : Char) : Bool := c = ' ' || c = '\n' || c = '\t' || c = '\r'

def noise : Node → Bool
  | .text s => s.toList.all isWs
  | .comment _ => true
  | .elem _ _ _ => false

mutual
def clean (pcdata : String → Bool) : Node → Node
  | .elem q a cs => if pcdata q.loc then .elem q a cs else .elem q a (cleanList pcdata cs)
  | n => n
def cleanList (pcdata : String → Bool) : List Node → List Node
  | [] => []
  | c :: cs => if noise c then cleanList pcdata cs else clean pcdata c :: cleanList pcdata cs
end

/-- a predicate that looks at the name of an element only (and is false of non-elements) -/
def ByName (p : Node → Bool) : Prop :=
  (∀ q a cs a' cs', p (.elem q a cs) = p (.elem q a' cs')) ∧ (∀ s, p (.text s) = false) ∧ (∀ s, p (.comment s) = false)

theorem clean_name (pc : String → Bool) (p : Node → Bool) (hp : ByName p) (n : Node) : p (clean pc n) = p n := by
  cases n with
  | elem q a cs =>
    simp only [clean]
    split
    · rfl
    · exact hp.1 q a _ a cs
  | text s => simp [clean]
  | comment s => simp [clean]

theorem noise_not (p : Node → Bool) (hp : ByName p) (n : Node) (h : noise n = true) : p n = false := by
  cases n with
  | elem q a cs => simp [noise] at h
  | text s => exact hp.2.1 s
  | comment s => exact hp.2.2 s

theorem filter_cleanList (pc : String → Bool) (p : Node → Bool) (hp : ByName p) (cs : List Node) :
    (cleanList pc cs).filter p = (cs.filter p).map (clean pc) := by
  induction cs with
  | nil => simp [cleanList]
  | cons c cs ih =>
    simp only [cleanList]
    by_cases hn : noise c = true
    · simp only [hn, if_true, ih, List.filter_cons, noise_not p hp c hn, Bool.false_eq_true, if_false]
    · simp only [hn, Bool.false_eq_true, if_false, List.filter_cons, clean_name pc p hp c, ih]
      by_cases hpc : p c = true <;> simp [hpc]

theorem any_cleanList (pc : String → Bool) (p : Node → Bool) (hp : ByName p) (cs : List Node) :
    (cleanList pc cs).any p = cs.any p := by
  induction cs with
  | nil => simp [cleanList]
  | cons c cs ih =>
    simp only [cleanList]
    by_cases hn : noise c = true
    · simp only [hn, if_true, ih, List.any_cons, noise_not p hp c hn, Bool.false_or]
    · simp only [hn, Bool.false_eq_true, if_false, List.any_cons, clean_name pc p hp c, ih]

theorem find_cleanList (pc : String → Bool) (p : Node → Bool) (hp : ByName p) (cs : List Node) :
    (cleanList pc cs).find? p = (cs.find? p).map (clean pc) := by
  induction cs with
  | nil => simp [cleanList]
  | cons c cs ih =>
    simp only [cleanList]
    by_cases hn : noise c = true
    · simp only [hn, if_true, ih, List.find?_cons, noise_not p hp c hn]
    · simp only [hn, Bool.false_eq_true, if_false, List.find?_cons, clean_name pc p hp c, ih]
      by_cases hpc : p c = true <;> simp [hpc]

theorem byName_localIs (loc : String) : ByName (·.localIs loc) :=
  ⟨fun _ _ _ _ _ => rfl, fun _ => rfl, fun _ => rfl⟩
theorem byName_isElem (space loc : String) : ByName (·.isElem space loc) :=
  ⟨fun _ _ _ _ _ => rfl, fun _ => rfl, fun _ => rfl⟩

theorem getLast_map {α β : Type} (f : α → β) (l : List α) : (l.map f).getLast? = l.getLast?.map f := by
  simp [List.getLast?_map]

end GoWebdav.Spec.XmlNoise
