import GoWebdav.Impl.Cond
/-! The If-Match / If-None-Match table as property C04 words it (RFC 7232 §3.1, §3.2), one header at a time. -/
namespace GoWebdav.Spec.Cond
open GoWebdav GoWebdav.Impl.Cond

variable (utf8 : Char → List UInt8)

inductive HeaderVerdict | holds | fails | malformed
deriving DecidableEq, Repr

/-- If-Match: the resource exists and the tag is equal or `*`; a tag that is not a quoted string is malformed
    whenever there is an existing resource to compare it with -/
def ifMatch (st : Option Bytes) (v : List Char) : HeaderVerdict :=
  match st with
  | none => .fails
  | some e =>
    if v = ['*'] then .holds
    else match etagOf utf8 v with
      | none => .malformed
      | some t => if t = e then .holds else .fails

/-- If-None-Match: the resource is absent, or the tag differs and is not `*` -/
def ifNoneMatch (st : Option Bytes) (v : List Char) : HeaderVerdict :=
  match st with
  | none => .holds
  | some e =>
    if v = ['*'] then .fails
    else match etagOf utf8 v with
      | none => .malformed
      | some t => if t = e then .fails else .holds

def ofHeader : HeaderVerdict → Verdict
  | .holds => .proceed
  | .fails => .preconditionFailed
  | .malformed => .badRequest

/-- carried out iff every header that is set holds; the first one that does not decides between 412 and 400 -/
def verdict (st : Option Bytes) (im inm : List Char) : Verdict :=
  match (if im = [] then HeaderVerdict.holds else ifMatch utf8 st im) with
  | .holds => if inm = [] then .proceed else ofHeader (ifNoneMatch utf8 st inm)
  | v => ofHeader v

end GoWebdav.Spec.Cond
