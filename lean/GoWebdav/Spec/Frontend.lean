import GoWebdav.Impl.Frontend
/-!
Which requests property C13 calls malformed, stated over the request descriptors of `Impl.Frontend` from the
property text alone (not from the handlers' control flow):

* unparseable, empty or wrongly rooted XML where the method takes an XML body (PROPPATCH, REPORT; PROPFIND announced
  as XML; MKCOL with a body), a propfind naming none of the three forms, a mkcol without the collection type;
* a body whose Content-Type does not announce what the method takes (PROPFIND / MKCOL with a non-XML body, PUT with
  a missing, unparsable or foreign media type);
* an unparseable iCalendar / vCard object in a PUT;
* an invalid Depth where Depth is read (PROPFIND on the DAV servers, COPY, MOVE), an invalid Overwrite, a missing or
  unparsable Destination (COPY, MOVE).
Mutually exclusive filter / selection elements, invalid dates, enumeration values and limits are REPORT documents
and live in the wire models of C08 / C09 (their decoders answer `badRequest`).
-/
namespace GoWebdav.Spec.Frontend
open GoWebdav.Impl.Frontend

/-- bodies that are not a well-formed XML document with the root the method expects, or break its content rule -/
def badXml (method : String) (b : Body) : Bool :=
  match b with
  | .valid => false
  | .noform => method = "PROPFIND"
  | .badrt => true
  | _ => true

def knownMethods : List String := ["OPTIONS", "GET", "HEAD", "PUT", "DELETE", "PROPFIND", "PROPPATCH", "MKCOL", "COPY", "MOVE", "REPORT"]

def malformed (r : Req) : Bool :=
  match r.srv with
  | .prin => r.method = "PROPFIND" && r.body != .empty && (badXml r.method r.body || !isXml r.ctype)
  | _ =>
    (r.method = "PROPPATCH" || r.method = "REPORT") && (badXml r.method r.body || !isXml r.ctype) ||
    r.method = "PROPFIND" && (isXml r.ctype && badXml r.method r.body || !isXml r.ctype && r.body != .empty || r.depth = .bad) ||
    r.method = "MKCOL" && r.body != .empty && (badXml r.method r.body || !isXml r.ctype) ||
    r.method = "PUT" && (!(r.ctype = .obj || r.ctype = .objparam) || r.body != .objok) ||
    (r.method = "COPY" || r.method = "MOVE") && (r.dst != .ok || r.ow = .bad || r.depth = .bad)

end GoWebdav.Spec.Frontend
