import GoWebdav.Spec.Carddav
namespace GoWebdav.Lemmas.Carddav
open GoWebdav GoWebdav.Impl.Carddav GoWebdav.Spec.Carddav GoWebdav.Std

theorem anyScan_ok {α} (l : List α) (g : α → Bool) :
    anyScan (l.map (fun x => Except.ok (g x))) = .ok ((l.map g).any id) := by
  induction l with
  | nil => rfl
  | cons a as ih => cases h : g a <;> simp [anyScan, ih, h]

theorem allScan_ok {α} (l : List α) (g : α → Bool) :
    allScan (l.map (fun x => Except.ok (g x))) = .ok ((l.map g).all id) := by
  induction l with
  | nil => rfl
  | cons a as ih => cases h : g a <;> simp [allScan, ih, h]

theorem matchTextMatch_valid (t : TextMatch) (v : String) (h : validMatchType t.matchType = true) :
    matchTextMatch t v = .ok (textHolds t v) := by
  simp only [validMatchType, decide_eq_true_eq] at h
  unfold matchTextMatch textHolds
  rcases h with h | h | h | h | h <;> simp [h] <;> cases t.negate <;> simp

theorem map_congr_ok {α} (l : List α) (f : α → Except Err Bool) (g : α → Bool) (h : ∀ x ∈ l, f x = .ok (g x)) :
    l.map f = l.map (fun x => Except.ok (g x)) := by
  induction l with
  | nil => rfl
  | cons a as ih =>
    simp only [List.map_cons, List.cons.injEq]
    exact ⟨h a (by simp), ih (fun x hx => h x (List.mem_cons_of_mem _ hx))⟩

theorem matchPropFilter_valid (pf : PropFilter) (card : Card)
    (ht : validTest pf.test = true) (hm : ∀ tm ∈ pf.textMatches, validMatchType tm.matchType = true) :
    matchPropFilter pf card = .ok (propHolds pf card) := by
  unfold matchPropFilter propHolds
  cases hg : card.get pf.name with
  | none => rfl
  | some v =>
    simp only
    by_cases hind : pf.isNotDefined = true
    · simp [hind]
    · by_cases hemp : pf.textMatches.isEmpty = true
      · simp [hind, hemp]
      · have hmap := map_congr_ok pf.textMatches (matchTextMatch · v) (textHolds · v)
          (fun tm htm => matchTextMatch_valid tm v (hm tm htm))
        simp only [validTest, decide_eq_true_eq] at ht
        simp only [hind, hemp, hmap, combine, anyScan_ok, allScan_ok]
        rcases ht with h | h | h <;> simp [h]

theorem match_valid (q : Query) (card : Card) (hv : ValidQuery q) : match_ q card = .ok (holds q card) := by
  obtain ⟨ht, hp⟩ := hv
  have hmap := map_congr_ok q.propFilters (matchPropFilter · card) (propHolds · card)
    (fun pf hpf => matchPropFilter_valid pf card (hp pf hpf).1 (hp pf hpf).2)
  simp only [validTest, decide_eq_true_eq] at ht
  unfold match_ holds combine
  rw [hmap, anyScan_ok, allScan_ok]
  rcases ht with h | h | h <;> simp [h]

/-- an unknown query-level test is always an error -/
theorem match_unknown_test (q : Query) (card : Card) (h : validTest q.filterTest = false) :
    match_ q card = .error .unknownQueryTest := by
  simp only [validTest, decide_eq_false_iff_not, not_or] at h
  unfold match_
  simp [h.1, h.2.1, h.2.2]

-- projection ---------------------------------------------------------------------------------

theorem values_insert (c : Card) (k q : String) (v : List String) :
    (c.insert k v).values q = if k = q then v else c.values q := by
  unfold Card.insert Card.values
  by_cases h : k = q
  · simp [h]
  · have : (k == q) = false := by simpa using h
    simp [this, h]

def present (c : Card) (p : String) : Bool := (c.find? (fun kv => kv.1 == p)).isSome

theorem values_of_absent (c : Card) (p : String) (h : present c p = false) : c.values p = [] := by
  unfold present at h
  unfold Card.values
  cases hf : c.find? (fun kv => kv.1 == p) with
  | none => rfl
  | some kv => simp [hf] at h

theorem fold_values (src : Card) (props : List String) (acc : Card) (k : String) :
    (props.foldl (fun (acc : Card) p => if (src.find? (fun kv => kv.1 == p)).isSome then acc.insert p (src.values p) else acc) acc).values k
      = if k ∈ props ∧ present src k = true then src.values k else acc.values k := by
  induction props generalizing acc with
  | nil => simp
  | cons p ps ih =>
    simp only [List.foldl_cons]
    rw [ih]
    by_cases hp : present src k = true
    · by_cases hk : k ∈ ps
      · simp [hk, hp]
      · by_cases hpk : p = k
        · subst hpk
          have : (src.find? (fun kv => kv.1 == p)).isSome = true := hp
          simp [hk, hp, this, values_insert]
        · have hkp : ¬ k = p := fun h => hpk h.symm
          by_cases hpp : (src.find? (fun kv => kv.1 == p)).isSome = true
          · simp [hk, hp, hpp, values_insert, hpk, hkp]
          · simp [hk, hp, hpp, hkp]
    · simp only [hp, and_false, if_false]
      by_cases hpp : (src.find? (fun kv => kv.1 == p)).isSome = true
      · simp only [hpp, if_true, values_insert]
        by_cases hpk : p = k
        · subst hpk; exact absurd hpp hp
        · simp [hpk]
      · simp [hpp]

/-- `x` is `ao` reduced to the requested properties -/
def Projects (q : Query) (ao x : AO) : Prop :=
  x.path = ao.path ∧ ∀ k, x.card.values k = if keep q k = true then ao.card.values k else []

theorem filterProperties_spec (q : Query) (ao : AO) (hne : q.allProp = true ∨ q.props.isEmpty = true ∨ ao.card.isEmpty = false) :
    ∃ x, filterProperties q ao = .ok x ∧ Projects q ao x := by
  unfold filterProperties
  by_cases hall : q.allProp = true ∨ q.props.isEmpty = true
  · refine ⟨ao, by rw [if_pos hall], rfl, ?_⟩
    intro k; rcases hall with h | h <;> simp [keep, h]
  · have hc : ao.card.isEmpty = false := by
      rcases hne with h | h | h
      · exact absurd (Or.inl h) hall
      · exact absurd (Or.inr h) hall
      · exact h
    rw [if_neg hall]
    simp only [hc, Bool.false_eq_true, if_false]
    refine ⟨_, rfl, rfl, ?_⟩
    intro k
    simp only [not_or, Bool.not_eq_true] at hall
    have hkeep : keep q k = (decide (k = "VERSION") || decide (k ∈ q.props)) := by
      simp [keep, hall.1, hall.2]
    rw [fold_values, values_insert, hkeep]
    have hnil : Card.values [] k = [] := rfl
    by_cases hk : k ∈ q.props
    · by_cases hp : present ao.card k = true
      · simp [hk, hp]
      · simp only [Bool.not_eq_true] at hp
        have hv := values_of_absent ao.card k hp
        by_cases hkv : "VERSION" = k
        · subst hkv; simp [hp, hv]
        · simp [hk, hp, hv, hkv, hnil]
    · by_cases hkv : "VERSION" = k
      · subst hkv; simp [hk]
      · have : ¬ k = "VERSION" := fun h => hkv h.symm
        simp [hk, hkv, this, hnil]

-- Filter ------------------------------------------------------------------------------------

def NoPanic (q : Query) (aos : List AO) : Prop :=
  q.allProp = true ∨ q.props.isEmpty = true ∨ ∀ ao ∈ aos, ao.card.isEmpty = false

theorem filterLoop_spec (q : Query) (hv : ValidQuery q) (n : Nat) (l : List AO) (hnp : NoPanic q l) (k : Nat) (hk : k < n) :
    ∃ out, filterLoop q n l k = .ok out ∧
      Forall2 (Projects q) ((l.filter (fun ao => holds q ao.card)).take (n - k)) out := by
  induction l generalizing k with
  | nil => exact ⟨[], rfl, by simpa using Forall2.nil⟩
  | cons ao rest ih =>
    have hnp' : NoPanic q rest := by
      rcases hnp with h | h | h
      · exact Or.inl h
      · exact Or.inr (Or.inl h)
      · exact Or.inr (Or.inr (fun a ha => h a (List.mem_cons_of_mem _ ha)))
    unfold filterLoop
    rw [match_valid q ao.card hv]
    by_cases hh : holds q ao.card = true
    · have hne : q.allProp = true ∨ q.props.isEmpty = true ∨ ao.card.isEmpty = false := by
        rcases hnp with h | h | h
        · exact Or.inl h
        · exact Or.inr (Or.inl h)
        · exact Or.inr (Or.inr (h ao (by simp)))
      obtain ⟨x, hx, hpx⟩ := filterProperties_spec q ao hne
      simp only [hh, hx, List.filter_cons, if_true]
      by_cases hlast : k + 1 ≥ n
      · have : n - k = 1 := by omega
        simp only [hlast, if_true, this, List.take_succ_cons, List.take_zero]
        exact ⟨[x], rfl, Forall2.cons hpx Forall2.nil⟩
      · obtain ⟨out, hout, hfa⟩ := ih hnp' (k + 1) (by omega)
        have : n - k = (n - (k + 1)) + 1 := by omega
        simp only [hlast, if_false, hout, Except.map, this, List.take_succ_cons]
        exact ⟨x :: out, rfl, Forall2.cons hpx hfa⟩
    · simp only [Bool.not_eq_true] at hh
      simp only [hh, List.filter_cons, Bool.false_eq_true, if_false]
      exact ih hnp' k hk

theorem take_effLimit (limit : Int) (l : List AO) (p : AO → Bool) :
    (l.filter p).take (effLimit limit l.length) = cut limit (l.filter p) := by
  unfold effLimit cut
  have hlen := List.length_filter_le p l
  by_cases h1 : limit ≤ 0
  · simp only [h1, true_or, if_true]
    exact List.take_of_length_le hlen
  · by_cases h2 : limit > (l.length : Int)
    · simp only [h1, h2, or_true, if_true, if_false]
      rw [List.take_of_length_le hlen, List.take_of_length_le]
      omega
    · simp [h1, h2]

end GoWebdav.Lemmas.Carddav
