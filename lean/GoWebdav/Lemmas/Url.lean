import GoWebdav.Std.Url
namespace GoWebdav.Lemmas.Url
open GoWebdav GoWebdav.Std.Url

theorem hexValB_hexU (k : Nat) (h : k < 16) : hexValB (hexU k) = some k := by
  have : k = 0 ∨ k = 1 ∨ k = 2 ∨ k = 3 ∨ k = 4 ∨ k = 5 ∨ k = 6 ∨ k = 7 ∨ k = 8 ∨ k = 9 ∨ k = 10 ∨ k = 11 ∨ k = 12 ∨ k = 13 ∨ k = 14 ∨ k = 15 := by omega
  rcases this with rfl|rfl|rfl|rfl|rfl|rfl|rfl|rfl|rfl|rfl|rfl|rfl|rfl|rfl|rfl|rfl <;> decide

/-- a byte that stays literal is not `%` -/
theorem literal_ne_percent (c : UInt8) (h : shouldEscape c = false) : c ≠ 37 := by
  rintro rfl; revert h; decide

theorem unescape_cons_literal (c : UInt8) (rest : Bytes) (h : c ≠ 37) :
    unescape (c :: rest) = (unescape rest).map (c :: ·) := by
  conv => lhs; unfold unescape
  split <;> simp_all

theorem unescape_escapeByte (c : UInt8) (rest : Bytes) :
    unescape (escapeByte c ++ rest) = (unescape rest).map (c :: ·) := by
  unfold escapeByte
  by_cases h : shouldEscape c = true
  · simp only [h, if_true, List.cons_append, List.nil_append]
    conv => lhs; unfold unescape
    have hlt := c.toNat_lt
    simp only [hexValB_hexU (c.toNat / 16) (by omega), hexValB_hexU (c.toNat % 16) (by omega)]
    have : 16 * (c.toNat / 16) + c.toNat % 16 = c.toNat := by omega
    rw [this, UInt8.ofNat_toNat]
  · simp only [Bool.not_eq_true] at h
    simp only [h, Bool.false_eq_true, if_false, List.cons_append, List.nil_append]
    exact unescape_cons_literal c rest (literal_ne_percent c h)

/-- `unescape(escape(p)) = p` for every byte string -/
theorem unescape_escapePath (p : Bytes) : unescape (escapePath p) = some p := by
  induction p with
  | nil => simp [escapePath, unescape]
  | cons c cs ih => simp [escapePath, unescape_escapeByte, ih]

end GoWebdav.Lemmas.Url

namespace GoWebdav.Lemmas.Url
open GoWebdav GoWebdav.Std.Url

/-- bytes that neither end the path part of a reference nor are refused as control characters -/
def Safe (b : UInt8) : Prop := b ≠ 35 ∧ b ≠ 63 ∧ isCTL b = false
instance (b : UInt8) : Decidable (Safe b) := by unfold Safe; infer_instance

theorem literal_safe_all : ∀ n, n < 256 → (shouldEscape (UInt8.ofNat n) = false → Safe (UInt8.ofNat n)) := by decide +kernel
theorem hexU_safe_all : ∀ k, k < 16 → Safe (hexU k) := by decide

theorem literal_safe (c : UInt8) (h : shouldEscape c = false) : Safe c := by
  have := literal_safe_all c.toNat c.toNat_lt
  rw [UInt8.ofNat_toNat] at this
  exact this h

theorem escapeByte_safe (c : UInt8) : ∀ b ∈ escapeByte c, Safe b := by
  unfold escapeByte
  have hlt := c.toNat_lt
  by_cases h : shouldEscape c = true
  · simp only [h, if_true, List.mem_cons, List.not_mem_nil, or_false]
    rintro b (rfl | rfl | rfl)
    · decide
    · exact hexU_safe_all _ (by omega)
    · exact hexU_safe_all _ (by omega)
  · simp only [Bool.not_eq_true] at h
    simp only [h, Bool.false_eq_true, if_false, List.mem_singleton]
    rintro b rfl; exact literal_safe b h

theorem escapePath_safe (p : Bytes) : ∀ b ∈ escapePath p, Safe b := by
  induction p with
  | nil => intro b hb; cases hb
  | cons c cs ih =>
    intro b hb
    simp only [escapePath, List.mem_append] at hb
    rcases hb with hb | hb
    · exact escapeByte_safe c b hb
    · exact ih b hb

theorem cutAt_not_mem (sep : UInt8) (s : Bytes) (h : ∀ b ∈ s, b ≠ sep) : cutAt sep s = (s, none) := by
  induction s with
  | nil => rfl
  | cons c cs ih =>
    have hc : c ≠ sep := h c (by simp)
    simp only [cutAt, hc, if_false, ih (fun b hb => h b (List.mem_cons_of_mem _ hb))]

theorem escapeByte_head_ne_slash (c : UInt8) (h : c ≠ 47) : ∀ b rest, escapeByte c = b :: rest → b ≠ 47 := by
  unfold escapeByte
  intro b rest hb
  by_cases hs : shouldEscape c = true
  · simp only [hs, if_true, List.cons.injEq] at hb; rw [← hb.1]; decide
  · simp only [hs, Bool.false_eq_true, if_false, List.cons.injEq] at hb; rw [← hb.1]; exact h

/-- an absolute path whose first segment is non-empty survives `Href.String` followed by `url.Parse`, byte for byte -/
theorem parseRef_escapePath (q : Bytes) (h2 : q.head? ≠ some 47) :
    parseRef (escapePath (47 :: q)) = .path (47 :: q) := by
  have hsafe := escapePath_safe (47 :: q)
  have hun := unescape_escapePath (47 :: q)
  have hesc : escapePath (47 :: q) = 47 :: escapePath q := by
    simp [escapePath, escapeByte, show shouldEscape 47 = false by decide]
  unfold parseRef
  simp only [cutAt_not_mem 35 _ (fun b hb => (hsafe b hb).1), Bool.not_true]
  have hctl : (escapePath (47 :: q)).any isCTL = false := by
    rw [List.any_eq_false]; intro b hb; simp [(hsafe b hb).2.2]
  simp only [hctl, Bool.false_eq_true, if_false]
  simp only [cutAt_not_mem 63 _ (fun b hb => (hsafe b hb).2.1)]
  rw [hesc] at hun ⊢
  have hne : (47 :: escapePath q : Bytes) ≠ [42] := by simp
  simp only [hne, if_false]
  have hscan : schemeScan (47 :: escapePath q) 0 = some false := by
    simp [schemeScan, isLetter]
  simp only [hscan]
  cases hq : escapePath q with
  | nil => simp [hq] at hun ⊢; simp [hun]
  | cons b rest =>
    have hb : b ≠ 47 := by
      cases q with
      | nil => simp [escapePath] at hq
      | cons c cs =>
        have hc : c ≠ 47 := by intro hc; apply h2; simp [hc]
        simp only [escapePath] at hq
        cases he : escapeByte c with
        | nil => unfold escapeByte at he; split at he <;> simp at he
        | cons b' rest' =>
          rw [he] at hq
          simp only [List.cons_append, List.cons.injEq] at hq
          rw [← hq.1]; exact escapeByte_head_ne_slash c hc b' rest' he
    rw [hq] at hun
    simp only [hun]
    split
    · next heq => simp at heq; exact absurd heq.1 hb
    · next heq => simp at heq; exact absurd heq.1 hb
    · rfl
    · next hno => exact absurd rfl (hno _)

end GoWebdav.Lemmas.Url
