import GoWebdav.Lemmas.CarddavRead
/-!
Helper lemmas for C09, wire → backend: on EVERY document the strict RFC 6352 reader accepts (not only those the
library's client writes) the server's decoder yields the query the reader reads.
-/
namespace GoWebdav.Lemmas.CarddavAgree
open GoWebdav GoWebdav.Std.Xml GoWebdav.Impl.CarddavWire GoWebdav.Spec.CarddavWire GoWebdav.Generated
open GoWebdav.Lemmas.CarddavWire GoWebdav.Lemmas.CarddavRead

theorem rfc_matchTypes_gen (v : String) (h : matchTypes.contains v = true) : carddavMatchTypes.contains v = true := by
  simp only [matchTypes, List.contains_eq_mem, List.mem_cons, List.not_mem_nil, or_false, decide_eq_true_eq] at h
  rcases h with rfl | rfl | rfl | rfl <;> decide

theorem rfc_tests_gen (v : String) (h : tests.contains v = true) : carddavFilterTests.contains v = true := by
  simp only [tests, List.contains_eq_mem, List.mem_cons, List.not_mem_nil, or_false, decide_eq_true_eq] at h
  rcases h with rfl | rfl <;> decide

theorem isC_space (loc : String) (n : Node) (h : isC loc n = true) : n.space? = some nsCard ∧ n.localIs loc = true := by
  cases n with
  | elem q a c =>
    simp only [isC, Bool.and_eq_true, beq_iff_eq] at h
    simp [Node.space?, Node.localIs, h.1, h.2, nsC, nsCard]
  | text s => simp [isC] at h
  | comment s => simp [isC] at h

theorem isC_localIs_ne (loc loc' : String) (n : Node) (h : isC loc n = true) (hne : loc ≠ loc') : n.localIs loc' = false := by
  cases n with
  | elem q a c =>
    simp only [isC, Bool.and_eq_true, beq_iff_eq] at h
    simp [Node.localIs, h.2, hne]
  | text s => simp [isC] at h
  | comment s => simp [isC] at h

theorem decNegate_of_read (attrs : List (QName × String)) (b : Bool) (h : readNegate attrs = some b) : decNegate attrs = .ok b := by
  unfold readNegate at h
  unfold decNegate carddavNegateParse
  cases ha : attr attrs "negate-condition" with
  | none => simp [ha] at h; simp [h]
  | some v =>
    simp only [ha] at h ⊢
    by_cases hy : v = "yes"
    · simp [hy] at h ⊢; exact h
    · by_cases hn : v = "no"
      · simp [hn] at h ⊢; exact h
      · simp [hy, hn] at h

theorem decEnum_of_read (rfc gen : List String) (hsub : ∀ v, rfc.contains v = true → gen.contains v = true)
    (attrs : List (QName × String)) (loc v : String) (h : readEnum rfc attrs loc = some v) : decEnum gen attrs loc = .ok v := by
  unfold readEnum at h
  unfold decEnum
  cases ha : attr attrs loc with
  | none => simp [ha] at h; simp [h]
  | some w =>
    simp only [ha] at h ⊢
    by_cases hc : rfc.contains w = true
    · simp only [hc, if_true, Option.some.injEq] at h
      subst h
      have := hsub w hc
      simp only [this, if_true]
    · simp only [hc, Bool.false_eq_true, if_false] at h
      cases h

theorem decTextMatch_of_read (n : Node) (t : TextMatch) (h : readTextMatch n = some t) : decTextMatch n = .ok t := by
  cases n with
  | text s => simp [readTextMatch] at h
  | comment s => simp [readTextMatch] at h
  | elem q attrs cs =>
    unfold readTextMatch at h
    simp only at h
    split at h
    · cases h
    · rename_i hc
      simp only [Bool.not_eq_true, Bool.not_eq_false', Bool.and_eq_true] at hc
      obtain ⟨⟨hC, _⟩, _⟩ := hc
      cases hneg : readNegate attrs with
      | none => simp [hneg] at h
      | some neg =>
        cases hmt : readEnum matchTypes attrs "match-type" with
        | none => simp [hneg, hmt] at h
        | some mt =>
          simp only [hneg, hmt, bind, Option.bind, pure, Option.some.injEq] at h
          subst h
          unfold decTextMatch
          have hs := (isC_space _ _ hC).1
          simp only [checkNs, hs, if_true, bind, Except.bind, decNegate_of_read attrs neg hneg,
            decEnum_of_read matchTypes carddavMatchTypes rfc_matchTypes_gen attrs "match-type" mt hmt, pure, Except.pure]

theorem emptyC_isC (loc : String) (n : Node) (h : emptyC loc n = true) : isC loc n = true := by
  cases n with
  | elem q a c =>
    simp only [emptyC, Bool.and_eq_true] at h
    simp [isC, h.1.1.1, h.1.1.2]
  | text s => simp [emptyC] at h
  | comment s => simp [emptyC] at h

theorem readTextMatch_isC (n : Node) (t : TextMatch) (h : readTextMatch n = some t) : isC "text-match" n = true := by
  cases n with
  | text s => simp [readTextMatch] at h
  | comment s => simp [readTextMatch] at h
  | elem q attrs cs =>
    unfold readTextMatch at h
    simp only at h
    split at h
    · cases h
    · rename_i hc
      simp only [Bool.not_eq_true, Bool.not_eq_false', Bool.and_eq_true] at hc
      exact hc.1.1

theorem decParamFilter_of_read (n : Node) (p : ParamFilter) (h : readParamFilter n = some p) : decParamFilter n = .ok p := by
  cases n with
  | text s => simp [readParamFilter] at h
  | comment s => simp [readParamFilter] at h
  | elem q attrs cs =>
    unfold readParamFilter at h
    simp only at h
    split at h
    · cases h
    · rename_i hc
      simp only [Bool.not_eq_true, Bool.not_eq_false', Bool.and_eq_true] at hc
      obtain ⟨hC, _⟩ := hc
      have hs := (isC_space _ _ hC).1
      cases hname : attr attrs "name" with
      | none => simp [hname] at h
      | some name =>
        cases hb : readParamBody cs with
        | none => simp [hname, hb] at h
        | some b =>
          simp only [hname, hb, bind, Option.bind, pure, Option.some.injEq] at h
          subst h
          unfold decParamFilter
          simp only [checkNs, hs, if_true, bind, Except.bind, hname, Option.getD_some]
          -- the three shapes of the content
          unfold readParamBody at hb
          match cs, hb with
          | [], hb =>
            simp only [Option.some.injEq] at hb; subst hb
            simp [pure, Except.pure]
          | [c], hb =>
            simp only at hb
            by_cases hind : emptyC "is-not-defined" c = true
            · simp only [hind, if_true, Option.some.injEq] at hb; subst hb
              have hi := emptyC_isC _ _ hind
              have h1 := (isC_space _ _ hi).2
              have h2 := isC_localIs_ne "is-not-defined" "text-match" c hi (by decide)
              simp [List.filter_cons, h1, h2, pure, Except.pure]
            · simp only [hind, Bool.false_eq_true, if_false] at hb
              cases ht : readTextMatch c with
              | none => simp [ht] at hb
              | some t =>
                simp only [ht, Option.map_some, Option.some.injEq] at hb; subst hb
                have hi := readTextMatch_isC c t ht
                have h1 := (isC_space _ _ hi).2
                have h2 := isC_localIs_ne "text-match" "is-not-defined" c hi (by decide)
                simp [List.filter_cons, h1, h2, decTextMatch_of_read c t ht, pure, Except.pure, Except.map]
          | _ :: _ :: _, hb => simp at hb

-- lists ------------------------------------------------------------------------------------------------------------------------------

theorem mapM_agree {α : Type} (read : Node → Option α) (dec : Node → Except Err α)
    (hag : ∀ n x, read n = some x → dec n = .ok x) (l : List Node) (xs : List α) (h : l.mapM read = some xs) :
    l.mapM dec = .ok xs := by
  induction l generalizing xs with
  | nil => simp at h; subst h; rfl
  | cons n ns ih =>
    rw [List.mapM_cons] at h ⊢
    cases hn : read n with
    | none => simp [hn] at h
    | some x =>
      cases hns : ns.mapM read with
      | none => simp [hn, hns] at h
      | some ys =>
        simp only [hn, hns, bind, Option.bind, pure, Option.some.injEq] at h
        subst h
        simp only [hag n x hn, ih ys hns, bind, Except.bind, pure, Except.pure]

theorem filter_all_true (p : Node → Bool) (l : List Node) (h : ∀ x ∈ l, p x = true) : l.filter p = l := by
  induction l with
  | nil => rfl
  | cons x xs ih => simp [List.filter_cons, h x (by simp), ih (fun y hy => h y (by simp [hy]))]

theorem filter_all_false (p : Node → Bool) (l : List Node) (h : ∀ x ∈ l, p x = false) : l.filter p = [] := by
  induction l with
  | nil => rfl
  | cons x xs ih => simp [List.filter_cons, h x (by simp), ih (fun y hy => h y (by simp [hy]))]

theorem any_all_false (p : Node → Bool) (l : List Node) (h : ∀ x ∈ l, p x = false) : l.any p = false := by
  induction l with
  | nil => rfl
  | cons x xs ih => simp [List.any_cons, h x (by simp), ih (fun y hy => h y (by simp [hy]))]

theorem mem_takeWhile_sat (p : Node → Bool) (l : List Node) : ∀ x ∈ l.takeWhile p, p x = true := by
  induction l with
  | nil => intro x hx; simp at hx
  | cons a as ih =>
    intro x hx
    rw [List.takeWhile_cons] at hx
    by_cases ha : p a = true
    · simp only [ha, if_true, List.mem_cons] at hx
      rcases hx with rfl | hx
      · exact ha
      · exact ih x hx
    · simp [ha] at hx

/-- the two-star content model: text-matches, then param-filters, and nothing else -/
theorem split_two (cs : List Node)
    (h : (((cs.dropWhile (isC "text-match")).dropWhile (isC "param-filter")).isEmpty) = true) :
    cs = cs.takeWhile (isC "text-match") ++ (cs.dropWhile (isC "text-match")).takeWhile (isC "param-filter") := by
  have h1 := (List.takeWhile_append_dropWhile (p := isC "text-match") (l := cs)).symm
  have h2 := (List.takeWhile_append_dropWhile (p := isC "param-filter") (l := cs.dropWhile (isC "text-match"))).symm
  have h3 : (cs.dropWhile (isC "text-match")).dropWhile (isC "param-filter") = [] := by simpa using h
  rw [h3, List.append_nil] at h2
  rw [← h2]; exact h1

theorem readParamFilter_isC (n : Node) (p : ParamFilter) (h : readParamFilter n = some p) : isC "param-filter" n = true := by
  cases n with
  | text s => simp [readParamFilter] at h
  | comment s => simp [readParamFilter] at h
  | elem q attrs cs =>
    unfold readParamFilter at h
    simp only at h
    split at h
    · cases h
    · rename_i hc
      simp only [Bool.not_eq_true, Bool.not_eq_false', Bool.and_eq_true] at hc
      exact hc.1

theorem decPropFilter_of_read (n : Node) (p : PropFilter) (h : readPropFilter n = some p) : decPropFilter n = .ok p := by
  cases n with
  | text s => simp [readPropFilter] at h
  | comment s => simp [readPropFilter] at h
  | elem q attrs cs =>
    unfold readPropFilter at h
    simp only at h
    split at h
    · cases h
    · rename_i hc
      simp only [Bool.not_eq_true, Bool.not_eq_false', Bool.and_eq_true] at hc
      obtain ⟨hC, _⟩ := hc
      have hs := (isC_space _ _ hC).1
      cases hname : attr attrs "name" with
      | none => simp [hname] at h
      | some name =>
        cases htest : readEnum tests attrs "test" with
        | none => simp [hname, htest] at h
        | some test =>
          cases hb : readPropBody cs with
          | none => simp [hname, htest, hb] at h
          | some b =>
            simp only [hname, htest, hb, bind, Option.bind, pure, Option.some.injEq] at h
            subst h
            unfold decPropFilter
            simp only [checkNs, hs, if_true, bind, Except.bind, hname, Option.getD_some,
              decEnum_of_read tests carddavFilterTests rfc_tests_gen attrs "test" test htest]
            unfold readPropBody at hb
            by_cases hone : cs.length = 1 ∧ cs.all (emptyC "is-not-defined") = true
            · simp only [hone, and_self, if_true, Option.some.injEq] at hb
              subst hb
              obtain ⟨hl, ha⟩ := hone
              match cs, hl, ha with
              | [c], _, ha =>
                have hind : emptyC "is-not-defined" c = true := by simpa using ha
                have hi := emptyC_isC _ _ hind
                have h1 := (isC_space _ _ hi).2
                have h2 := isC_localIs_ne "is-not-defined" "text-match" c hi (by decide)
                have h3 := isC_localIs_ne "is-not-defined" "param-filter" c hi (by decide)
                simp [List.filter_cons, h1, h2, h3, pure, Except.pure]
            · simp only [hone, if_false] at hb
              by_cases hrest : ((cs.dropWhile (isC "text-match")).dropWhile (isC "param-filter")).isEmpty = true
              · simp only [hrest, Bool.not_true, Bool.false_eq_true, if_false] at hb
                cases htm : (cs.takeWhile (isC "text-match")).mapM readTextMatch with
                | none => simp [htm] at hb
                | some tms =>
                  cases hpm : ((cs.dropWhile (isC "text-match")).takeWhile (isC "param-filter")).mapM readParamFilter with
                  | none => simp [htm, hpm] at hb
                  | some pms =>
                    simp only [htm, hpm, bind, Option.bind, pure, Option.some.injEq] at hb
                    subst hb
                    have hsplit := split_two cs hrest
                    generalize hA : cs.takeWhile (isC "text-match") = A at hsplit htm
                    generalize hB : (cs.dropWhile (isC "text-match")).takeWhile (isC "param-filter") = B at hsplit hpm
                    have hAall : ∀ x ∈ A, isC "text-match" x = true := by rw [← hA]; exact mem_takeWhile_sat _ _
                    have hBall : ∀ x ∈ B, isC "param-filter" x = true := by rw [← hB]; exact mem_takeWhile_sat _ _
                    rw [hsplit]
                    have f1 : (A ++ B).filter (·.localIs "text-match") = A := by
                      rw [List.filter_append, filter_all_true _ A (fun x hx => (isC_space _ _ (hAall x hx)).2),
                        filter_all_false _ B (fun x hx => isC_localIs_ne _ _ x (hBall x hx) (by decide)), List.append_nil]
                    have f2 : (A ++ B).filter (·.localIs "param-filter") = B := by
                      rw [List.filter_append, filter_all_false _ A (fun x hx => isC_localIs_ne _ _ x (hAall x hx) (by decide)),
                        filter_all_true _ B (fun x hx => (isC_space _ _ (hBall x hx)).2), List.nil_append]
                    have f3 : (A ++ B).any (·.localIs "is-not-defined") = false := by
                      rw [List.any_append, any_all_false _ A (fun x hx => isC_localIs_ne _ _ x (hAall x hx) (by decide)),
                        any_all_false _ B (fun x hx => isC_localIs_ne _ _ x (hBall x hx) (by decide))]; rfl
                    simp only [f1, f2, f3, mapM_agree readTextMatch decTextMatch decTextMatch_of_read A tms htm,
                      mapM_agree readParamFilter decParamFilter decParamFilter_of_read B pms hpm, Bool.false_eq_true, false_and,
                      if_false, pure, Except.pure]
              · simp [hrest] at hb

-- filter, data request, limit ----------------------------------------------------------------------------------------------------------

theorem readPropFilter_isC (n : Node) (p : PropFilter) (h : readPropFilter n = some p) : isC "prop-filter" n = true := by
  cases n with
  | text s => simp [readPropFilter] at h
  | comment s => simp [readPropFilter] at h
  | elem q attrs cs =>
    unfold readPropFilter at h
    simp only at h
    split at h
    · cases h
    · rename_i hc
      simp only [Bool.not_eq_true, Bool.not_eq_false', Bool.and_eq_true] at hc
      exact hc.1

theorem mapM_all {α : Type} (read : Node → Option α) (P : Node → Prop) (hP : ∀ n x, read n = some x → P n)
    (l : List Node) (xs : List α) (h : l.mapM read = some xs) : ∀ n ∈ l, P n := by
  induction l generalizing xs with
  | nil => intro n hn; simp at hn
  | cons a as ih =>
    rw [List.mapM_cons] at h
    cases ha : read a with
    | none => simp [ha] at h
    | some x =>
      cases has : as.mapM read with
      | none => simp [ha, has] at h
      | some ys =>
        intro n hn
        simp only [List.mem_cons] at hn
        rcases hn with rfl | hn
        · exact hP _ x ha
        · exact ih ys has n hn

theorem readDigits_all_digits (acc : Nat) (l : List Char) (v : Nat) (h : Std.Decimal.readDigits acc l = some v) :
    ∀ c ∈ l, (Std.Decimal.digitVal c).isSome = true := by
  induction l generalizing acc with
  | nil => intro c hc; simp at hc
  | cons a as ih =>
    simp only [Std.Decimal.readDigits] at h
    cases ha : Std.Decimal.digitVal a with
    | none => simp [ha] at h
    | some d =>
      simp only [ha] at h
      intro c hc
      simp only [List.mem_cons] at hc
      rcases hc with rfl | hc
      · simp [ha]
      · exact ih _ h c hc

theorem trim_of_digits (l : List Char) (h : ∀ c ∈ l, (Std.Decimal.digitVal c).isSome = true) : trimAscii l = l := by
  have hns : ∀ c ∈ l, isSp c = false := fun c hc => GoWebdav.Props.C09.isSp_digit c (h c hc)
  unfold trimAscii
  rw [GoWebdav.Props.C09.dropWhile_none _ hns, GoWebdav.Props.C09.dropWhile_none _ (fun c hc => hns c (List.mem_reverse.mp hc))]
  simp

/-- the limit element: the decoder reads the number the strict reader reads (below 2^63) -/
theorem decLimit_of_read (l : Node) (k : Int) (h : readLimit l = some k) (hk : k < 9223372036854775808) :
    ∃ v : Nat, k = (v : Int) ∧ v ≠ 0 ∧ decLimit [l] = .ok (some v) := by
  unfold readLimit at h
  split at h
  · rename_i q c
    by_cases hC : isC "limit" (Node.elem q [] [c]) = true
    · simp only [hC, if_true] at h
      unfold readNResults at h
      split at h
      · rename_i q2 tc
        split at h
        · cases h
        · rename_i hc2
          simp only [Bool.not_eq_true, Bool.not_eq_false', Bool.and_eq_true] at hc2
          obtain ⟨hC2, _⟩ := hc2
          simp only at h
          by_cases hemp : (chardata tc).toList.isEmpty = true
          · simp [hemp] at h
          · simp only [hemp, Bool.false_eq_true, if_false] at h
            cases hd : Std.Decimal.readDigits 0 (chardata tc).toList with
            | none => simp [hd] at h
            | some v =>
              simp only [hd] at h
              by_cases hv : v = 0
              · simp [hv] at h
              · simp only [hv, if_false, Option.some.injEq] at h
                refine ⟨v, h.symm, hv, ?_⟩
                have hvk : (v : Int) < 9223372036854775808 := by
                  have : (v : Int) = k := h
                  omega
                have h1 : ¬ v ≥ 18446744073709551616 := by omega
                have h2 : ¬ v ≥ 9223372036854775808 := by omega
                have hsl := (isC_space _ _ hC)
                have hsn := (isC_space _ _ hC2)
                unfold decLimit
                have hdig := readDigits_all_digits 0 _ v hd
                simp only [List.filter_cons, hsl.2, if_true, List.filter_nil, List.getLast?_singleton, hsl.1, ne_eq,
                  not_true_eq_false, if_false, hsn.2, trim_of_digits _ hdig, hemp, Bool.false_eq_true, hd, h1, h2]
      · cases h
    · simp [hC] at h
  · cases h

-- node facts ------------------------------------------------------------------------------------------------------------------------------

theorem isD_facts (loc : String) (n : Node) (h : isD loc n = true) :
    (∀ loc', n.isElem nsDav loc' = (loc == loc')) ∧ (∀ loc', n.localIs loc' = (loc == loc')) ∧ (∀ loc', isC loc' n = false) := by
  cases n with
  | elem q a c =>
    simp only [isD, Bool.and_eq_true, beq_iff_eq] at h
    refine ⟨fun loc' => ?_, fun loc' => ?_, fun loc' => ?_⟩
    · simp [Node.isElem, h.1, h.2, nsD, nsDav]
    · simp [Node.localIs, h.2]
    · simp [isC, h.1, nsD, nsC]
  | text s => simp [isD] at h
  | comment s => simp [isD] at h

theorem isC_facts (loc : String) (n : Node) (h : isC loc n = true) :
    (∀ loc', n.isElem nsDav loc' = false) ∧ (∀ loc', n.localIs loc' = (loc == loc')) ∧ (∀ loc', n.isElem nsCard loc' = (loc == loc')) := by
  cases n with
  | elem q a c =>
    simp only [isC, Bool.and_eq_true, beq_iff_eq] at h
    refine ⟨fun loc' => ?_, fun loc' => ?_, fun loc' => ?_⟩
    · simp [Node.isElem, h.1, nsC, nsDav]
    · simp [Node.localIs, h.2]
    · simp [Node.isElem, h.1, h.2, nsC, nsCard]
  | text s => simp [isC] at h
  | comment s => simp [isC] at h

-- the data request ----------------------------------------------------------------------------------------------------------------------

theorem readProp_facts (n : Node) (name : String) (h : readProp n = some name) :
    isC "prop" n = true ∧ propNameOf n = name := by
  cases n with
  | text s => simp [readProp] at h
  | comment s => simp [readProp] at h
  | elem q attrs cs =>
    cases cs with
    | nil =>
      simp only [readProp] at h
      by_cases hc2 : (isC "prop" (Node.elem q attrs []) && attrsOK ["name", "novalue"] attrs) = true
      · simp only [hc2, if_true] at h
        simp only [Bool.and_eq_true] at hc2
        exact ⟨hc2.1, by simp [propNameOf, h]⟩
      · simp [hc2] at h
    | cons c cs => simp [readProp] at h

theorem map_propNameOf (cs : List Node) (ps : List String) (hm : cs.mapM readProp = some ps) : cs.map propNameOf = ps := by
  induction cs generalizing ps with
  | nil => simp at hm; subst hm; rfl
  | cons a as ih =>
    rw [List.mapM_cons] at hm
    cases ha : readProp a with
    | none => simp [ha] at hm
    | some x =>
      cases has : as.mapM readProp with
      | none => simp [ha, has] at hm
      | some ys =>
        simp only [ha, has, bind, Option.bind, pure, Option.some.injEq] at hm
        subst hm
        rw [List.map_cons, (readProp_facts a x ha).2, ih ys has]

theorem decDataChildren_of_read (n : Node) (d : Bool × List String) (h : readAddressData n = some d) :
    ∃ attrs cs q, n = .elem q attrs cs ∧ isC "address-data" n = true ∧ decDataChildren cs = .ok d := by
  cases n with
  | text s => simp [readAddressData] at h
  | comment s => simp [readAddressData] at h
  | elem q attrs cs =>
    refine ⟨attrs, cs, q, rfl, ?_⟩
    unfold readAddressData at h
    simp only at h
    split at h
    · cases h
    · rename_i hc
      simp only [Bool.not_eq_true, Bool.not_eq_false', Bool.and_eq_true] at hc
      refine ⟨hc.1, ?_⟩
      by_cases hone : cs.length = 1 ∧ cs.all (emptyC "allprop") = true
      · simp only [hone, and_self, if_true, Option.some.injEq] at h
        subst h
        obtain ⟨hl, ha⟩ := hone
        match cs, hl, ha with
        | [c], _, ha =>
          have hall : emptyC "allprop" c = true := by simpa using ha
          have hi := emptyC_isC _ _ hall
          have f := isC_facts _ _ hi
          unfold decDataChildren
          simp [List.filter_cons, f.2.1]
      · simp only [hone, if_false] at h
        cases hm : cs.mapM readProp with
        | none => simp [hm] at h
        | some ps =>
          simp only [hm, Option.map_some, Option.some.injEq] at h
          subst h
          have hall : ∀ n ∈ cs, isC "prop" n = true :=
            mapM_all readProp (fun n => isC "prop" n = true) (fun n x hx => (readProp_facts n x hx).1) cs ps hm
          unfold decDataChildren
          have f1 : cs.any (·.localIs "allprop") = false :=
            any_all_false _ cs (fun x hx => by rw [(isC_facts _ _ (hall x hx)).2.1]; decide)
          have f2 : cs.filter (·.localIs "prop") = cs :=
            filter_all_true _ cs (fun x hx => by rw [(isC_facts _ _ (hall x hx)).2.1]; decide)
          have f3 : cs.any (fun p => decide (p.space? ≠ some nsCard)) = false :=
            any_all_false _ cs (fun x hx => by simp [(isC_space _ _ (hall x hx)).1])
          have f4 : cs.map propNameOf = ps := map_propNameOf cs ps hm
          simp only [f1, f2, f3, f4, Bool.false_eq_true, if_false, false_and]

theorem isC_eq_isElem (loc : String) (n : Node) : isC loc n = n.isElem nsCard loc := by
  cases n <;> simp [isC, Node.isElem, nsC, nsCard]

theorem find_head_filter (p : Node → Bool) (l : List Node) : l.find? p = (l.filter p).head? := by
  induction l with
  | nil => rfl
  | cons a as ih =>
    rw [List.find?_cons, List.filter_cons]
    cases ha : p a
    · simp only [Bool.false_eq_true, if_false]; exact ih
    · simp

theorem decDataReq_of_read (pc : List Node) (d : Bool × List String)
    (h : dataOf (pc.filter (isC "address-data")) = some d) : decDataReq pc = .ok d := by
  unfold decDataReq
  have hf : (fun n : Node => n.isElem nsCard "address-data") = isC "address-data" := by
    funext n; exact (isC_eq_isElem _ n).symm
  rw [hf, find_head_filter]
  cases hl : pc.filter (isC "address-data") with
  | nil =>
    rw [hl] at h
    simp only [dataOf, Option.some.injEq] at h
    subst h; rfl
  | cons a rest =>
    rw [hl] at h
    cases rest with
    | nil =>
      simp only [dataOf] at h
      obtain ⟨attrs, cs, q, rfl, _, hd⟩ := decDataChildren_of_read a d h
      simp only [List.head?_cons]
      exact hd
    | cons b rest' => simp [dataOf] at h

/-- what the decoder's "last DAV:prop child" lookup finds -/
def DataPart (children : List Node) (d : Bool × List String) : Prop :=
  (children.filter (·.isElem nsDav "prop") = [] ∧ d = (false, [])) ∨
  (∃ q a pc, children.filter (·.isElem nsDav "prop") = [.elem q a pc] ∧ decDataReq pc = .ok d)

/-- the property request element: what the decoder takes from it is what the strict reader reads -/
theorem propReq_of_read (p : Node) (d : Bool × List String) (hp : isPropReq p = true) (h : readPropReq p = some d) :
    DataPart [p] d := by
  cases p with
  | text s => simp [isPropReq, isD] at hp
  | comment s => simp [isPropReq, isD] at hp
  | elem q attrs cs =>
    unfold readPropReq at h
    simp only at h
    by_cases hap : (isD "allprop" (Node.elem q attrs cs) || isD "propname" (Node.elem q attrs cs)) = true
    · simp only [hap, if_true] at h
      have hnot : (Node.elem q attrs cs).isElem nsDav "prop" = false := by
        simp only [Bool.or_eq_true] at hap
        rcases hap with h1 | h1
        · rw [(isD_facts _ _ h1).1]; decide
        · rw [(isD_facts _ _ h1).1]; decide
      by_cases he : (attrs.isEmpty && cs.isEmpty) = true
      · simp only [he, if_true, Option.some.injEq] at h
        subst h
        exact Or.inl ⟨by simp [List.filter_cons, hnot], rfl⟩
      · simp [he] at h
    · simp only [hap, Bool.false_eq_true, if_false] at h
      split at h
      · cases h
      · rename_i hc
        simp only [Bool.not_eq_true, Bool.not_eq_false', Bool.and_eq_true] at hc
        have hD := hc.1.1
        have hyes : (Node.elem q attrs cs).isElem nsDav "prop" = true := by rw [(isD_facts _ _ hD).1]; decide
        exact Or.inr ⟨q, attrs, cs, by simp [List.filter_cons, hyes], decDataReq_of_read cs d h⟩

-- the query ------------------------------------------------------------------------------------------------------------------------------

theorem readFilter_facts (f : Node) (test : String) (pfs : List PropFilter) (h : readFilter f = some (test, pfs)) :
    ∃ fq fattrs fc, f = .elem fq fattrs fc ∧ isC "filter" f = true ∧ decEnum carddavFilterTests fattrs "test" = .ok test ∧
      (fc.filter (·.localIs "prop-filter")).mapM decPropFilter = .ok pfs := by
  cases f with
  | text s => simp [readFilter] at h
  | comment s => simp [readFilter] at h
  | elem fq fattrs fc =>
    refine ⟨fq, fattrs, fc, rfl, ?_⟩
    unfold readFilter at h
    simp only at h
    split at h
    · cases h
    · rename_i hc
      simp only [Bool.not_eq_true, Bool.not_eq_false', Bool.and_eq_true] at hc
      refine ⟨hc.1, ?_⟩
      cases ht : readEnum tests fattrs "test" with
      | none => simp [ht] at h
      | some t =>
        cases hm : fc.mapM readPropFilter with
        | none => simp [ht, hm] at h
        | some ps =>
          simp only [ht, hm, bind, Option.bind, pure, Option.some.injEq, Prod.mk.injEq] at h
          obtain ⟨rfl, rfl⟩ := h
          refine ⟨decEnum_of_read tests carddavFilterTests rfc_tests_gen fattrs "test" t ht, ?_⟩
          have hall : ∀ n ∈ fc, isC "prop-filter" n = true :=
            mapM_all readPropFilter (fun n => isC "prop-filter" n = true) (fun n x hx => readPropFilter_isC n x hx) fc ps hm
          rw [filter_all_true _ fc (fun x hx => (isC_space _ _ (hall x hx)).2)]
          exact mapM_agree readPropFilter decPropFilter decPropFilter_of_read fc ps hm

def limOf : Option Nat → Int
  | some k => (k : Int)
  | none => 0

theorem decodeQuery_parts (name : QName) (attrs : List (QName × String)) (children : List Node)
    (hroot : (name.space == nsCard && name.loc == "addressbook-query") = true)
    (d : Bool × List String)
    (hd : DataPart children d)
    (f : Node) (hf : children.filter (·.localIs "filter") = [f]) (test : String) (pfs : List PropFilter)
    (hrf : readFilter f = some (test, pfs))
    (lim : Option Nat) (hl : decLimit children = .ok lim) (hl0 : lim ≠ some 0) :
    decodeQuery (.elem name attrs children) =
      .ok (some ⟨d.1, d.2, test, pfs, limOf lim⟩) := by
  obtain ⟨fq, fattrs, fc, rfl, hC, htest, hpfs⟩ := readFilter_facts f test pfs hrf
  have hsp : fq.space = nsCard := by
    have := (isC_space _ _ hC).1
    simpa [Node.space?] using this
  unfold decodeQuery dataReqOf filterOf
  rcases hd with ⟨hd1, rfl⟩ | ⟨q, a, pc, hd1, hd2⟩
  · simp only [hroot, Bool.not_true, Bool.false_eq_true, if_false, hd1, List.getLast?_nil, hf, List.getLast?_singleton, hsp, ne_eq,
      not_true_eq_false, htest, hpfs, hl, bind, Except.bind, pure, Except.pure]
    cases lim with
    | none => rfl
    | some k =>
      cases k with
      | zero => exact absurd rfl hl0
      | succ k => rfl
  · simp only [hroot, Bool.not_true, Bool.false_eq_true, if_false, hd1, hd2, hf, List.getLast?_singleton, hsp, ne_eq,
      not_true_eq_false, htest, hpfs, hl, bind, Except.bind, pure, Except.pure]
    cases lim with
    | none => rfl
    | some k =>
      cases k with
      | zero => exact absurd rfl hl0
      | succ k => rfl

theorem readLimit_isC (l : Node) (k : Int) (h : readLimit l = some k) : isC "limit" l = true := by
  unfold readLimit at h
  split at h
  · rename_i q c
    by_cases hC : isC "limit" (Node.elem q [] [c]) = true
    · exact hC
    · simp [hC] at h
  · cases h

/-- filter, then an optional limit: the three lookups of the decoder over `pre ++ tail` where `pre` holds no CardDAV
    element -/
theorem tail_parts (pre tail : List Node) (test : String) (pfs : List PropFilter) (k : Int)
    (hpreF : pre.filter (·.localIs "filter") = []) (hpreL : pre.filter (·.localIs "limit") = [])
    (ht : readTail tail = some (test, pfs, k)) (hk : k < 9223372036854775808) :
    (tail.filter (·.isElem nsDav "prop") = []) ∧
    ∃ f, (pre ++ tail).filter (·.localIs "filter") = [f] ∧ readFilter f = some (test, pfs) ∧
      ∃ lim : Option Nat, decLimit (pre ++ tail) = .ok lim ∧ lim ≠ some 0 ∧ k = limOf lim := by
  unfold readTail at ht
  match tail, ht with
  | [f], ht =>
    cases hf : readFilter f with
    | none => simp [hf] at ht
    | some x =>
      simp only [hf, Option.map_some, Option.some.injEq, Prod.mk.injEq] at ht
      obtain ⟨rfl, rfl, rfl⟩ := ht
      obtain ⟨fq, fattrs, fc, rfl, hC, _, _⟩ := readFilter_facts f x.1 x.2 (by rw [hf])
      have fC := isC_facts _ _ hC
      refine ⟨by simp [List.filter_cons, fC.1], Node.elem fq fattrs fc, ?_, by rw [hf], none, ?_, by simp, rfl⟩
      · rw [List.filter_append, hpreF]; simp [List.filter_cons, fC.2.1]
      · rw [decLimit_pick, pick, List.filter_append, hpreL]
        simp [List.filter_cons, fC.2.1, decLimit]
  | [f, l], ht =>
    cases hf : readFilter f with
    | none => simp [hf] at ht
    | some x =>
      cases hlm : readLimit l with
      | none => simp [hf, hlm] at ht
      | some k' =>
        simp only [hf, hlm, bind, Option.bind, pure, Option.some.injEq, Prod.mk.injEq] at ht
        obtain ⟨rfl, rfl, rfl⟩ := ht
        obtain ⟨fq, fattrs, fc, rfl, hC, _, _⟩ := readFilter_facts f x.1 x.2 (by rw [hf])
        have fC := isC_facts _ _ hC
        have hL := readLimit_isC l k' hlm
        have fL := isC_facts _ _ hL
        obtain ⟨v, hv, hv0, hdl⟩ := decLimit_of_read l k' hlm hk
        refine ⟨by simp [List.filter_cons, fC.1, fL.1], Node.elem fq fattrs fc, ?_, by rw [hf], some v, ?_, by simpa using hv0, hv⟩
        · rw [List.filter_append, hpreF]; simp [List.filter_cons, fC.2.1, fL.2.1]
        · rw [decLimit_pick, pick, List.filter_append, hpreL]
          have : [Node.elem fq fattrs fc, l].filter (·.localIs "limit") = [l] := by simp [List.filter_cons, fC.2.1, fL.2.1]
          rw [this, List.nil_append]
          exact hdl
  | [], ht => simp at ht
  | _ :: _ :: _ :: _, ht => simp at ht

/-- wire → backend for EVERY document the strict RFC 6352 reader accepts: the server hands the backend the query the
    reader reads (limits below 2^63, which is every limit a Go `int` can hold) -/
theorem decodeQuery_of_read (n : Node) (q : Query) (h : readQuery n = some q) (hk : q.limit < 9223372036854775808) :
    decodeQuery n = .ok (some q) := by
  cases n with
  | text s => simp [readQuery] at h
  | comment s => simp [readQuery] at h
  | elem name attrs cs =>
    unfold readQuery at h
    simp only at h
    split at h
    · cases h
    · rename_i hc
      simp only [Bool.not_eq_true, Bool.not_eq_false', Bool.and_eq_true, beq_iff_eq] at hc
      have hroot : (name.space == nsCard && name.loc == "addressbook-query") = true := by
        simp [hc.1.1, hc.1.2, nsC, nsCard]
      cases hd : (leadProp cs).1 with
      | none => simp [hd] at h
      | some d =>
        cases ht : readTail (leadProp cs).2 with
        | none => simp [hd, ht] at h
        | some t =>
          simp only [hd, ht, bind, Option.bind, pure, Option.some.injEq] at h
          subst h
          simp only at hk
          -- the two shapes of the front
          unfold leadProp at hd ht
          match cs, hd, ht with
          | [], hd, ht => simp [readTail] at ht
          | c :: rest, hd, ht =>
            simp only at hd ht
            by_cases hp : isPropReq c = true
            · simp only [hp, if_true] at hd ht
              have hdp := propReq_of_read c d hp hd
              have hcF : [c].filter (·.localIs "filter") = [] := by
                simp only [isPropReq, Bool.or_eq_true] at hp
                rcases hp with (h1 | h1) | h1 <;> simp [List.filter_cons, (isD_facts _ _ h1).2.1]
              have hcL : [c].filter (·.localIs "limit") = [] := by
                simp only [isPropReq, Bool.or_eq_true] at hp
                rcases hp with (h1 | h1) | h1 <;> simp [List.filter_cons, (isD_facts _ _ h1).2.1]
              obtain ⟨hrestP, f, hf, hrf, lim, hl, hl0, hkk⟩ := tail_parts [c] rest t.1 t.2.1 t.2.2 hcF hcL (by simpa using ht) hk
              have hdata : DataPart (c :: rest) d := by
                have e : (c :: rest).filter (·.isElem nsDav "prop") = [c].filter (·.isElem nsDav "prop") := by
                  have : c :: rest = [c] ++ rest := rfl
                  rw [this, List.filter_append, hrestP, List.append_nil]
                unfold DataPart at hdp ⊢
                rw [e]; exact hdp
              have := decodeQuery_parts name attrs (c :: rest) hroot d hdata f hf t.1 t.2.1 hrf lim hl hl0
              rw [this, ← hkk]
            · simp only [hp, Bool.false_eq_true, if_false, Option.some.injEq] at hd ht
              subst hd
              obtain ⟨hrestP, f, hf, hrf, lim, hl, hl0, hkk⟩ := tail_parts [] (c :: rest) t.1 t.2.1 t.2.2 rfl rfl (by simpa using ht) hk
              have hdata : DataPart (c :: rest) (false, []) := Or.inl ⟨hrestP, rfl⟩
              have := decodeQuery_parts name attrs (c :: rest) hroot (false, []) hdata f (by simpa using hf) t.1 t.2.1 hrf lim
                (by simpa using hl) hl0
              rw [this, ← hkk]

-- multiget -------------------------------------------------------------------------------------------------------------------------------

theorem readHref_facts (unescape : String → Option String) (n : Node) (p : String) (h : readHref unescape n = some p) :
    isD "href" n = true ∧ (∃ q cs, n = .elem q [] cs ∧ unescape (chardata cs) = some p) := by
  unfold readHref at h
  split at h
  · rename_i q cs
    by_cases hc : (isD "href" (Node.elem q [] cs) && cs.all isText) = true
    · simp only [hc, if_true] at h
      simp only [Bool.and_eq_true] at hc
      exact ⟨hc.1, q, cs, rfl, h⟩
    · simp [hc] at h
  · cases h

theorem hrefs_agree (unescape : String → Option String) (l : List Node) (ps : List String)
    (h : l.mapM (readHref unescape) = some ps) :
    l.filter (·.isElem nsDav "href") = l ∧
    l.mapM (decHref unescape) = .ok ps := by
  induction l generalizing ps with
  | nil => simp at h; subst h; exact ⟨rfl, rfl⟩
  | cons a as ih =>
    rw [List.mapM_cons] at h
    cases ha : readHref unescape a with
    | none => simp [ha] at h
    | some p =>
      cases has : as.mapM (readHref unescape) with
      | none => simp [ha, has] at h
      | some ps' =>
        simp only [ha, has, bind, Option.bind, pure, Option.some.injEq] at h
        subst h
        obtain ⟨hD, q, cs, rfl, hu⟩ := readHref_facts unescape a p ha
        obtain ⟨i1, i2⟩ := ih ps' has
        have hi : (Node.elem q [] cs).isElem nsDav "href" = true := by rw [(isD_facts _ _ hD).1]; decide
        refine ⟨by simp [List.filter_cons, hi, i1], ?_⟩
        rw [List.mapM_cons]
        simp only [decHref, hu, i2, bind, Except.bind, pure, Except.pure]

theorem dataReqOf_of (children : List Node) (d : Bool × List String) (h : DataPart children d) : dataReqOf children = .ok d := by
  unfold dataReqOf
  rcases h with ⟨h1, rfl⟩ | ⟨q, a, pc, h1, h2⟩
  · rw [h1]; rfl
  · rw [h1]; simpa using h2

/-- every addressbook-multiget document the strict reader accepts reaches the backend as the request it denotes -/
theorem decodeMultiGet_of_read (unescape : String → Option String) (n : Node) (m : MultiGet)
    (h : readMultiGet unescape n = some m) : decodeMultiGet unescape n = .ok m := by
  cases n with
  | text s => simp [readMultiGet] at h
  | comment s => simp [readMultiGet] at h
  | elem name attrs cs =>
    unfold readMultiGet at h
    simp only at h
    split at h
    · cases h
    · rename_i hc
      simp only [Bool.not_eq_true, Bool.not_eq_false', Bool.and_eq_true, beq_iff_eq] at hc
      have hroot : (name.space == nsCard && name.loc == "addressbook-multiget") = true := by
        simp [hc.1.1, hc.1.2, nsC, nsCard]
      cases hd : (leadProp cs).1 with
      | none => simp [hd] at h
      | some d =>
        cases hh : (leadProp cs).2.mapM (readHref unescape) with
        | none => simp [hd, hh] at h
        | some hs =>
          simp only [hd, hh, bind, Option.bind] at h
          by_cases he : hs.isEmpty = true
          · simp [he] at h
          · simp only [he, Bool.false_eq_true, if_false, pure, Option.some.injEq] at h
            subst h
            unfold leadProp at hd hh
            unfold decodeMultiGet
            simp only [hroot, Bool.not_true, Bool.false_eq_true, if_false]
            match cs, hd, hh with
            | [], hd, hh => simp at hh; subst hh; simp at he
            | c :: rest, hd, hh =>
              simp only at hd hh
              by_cases hp : isPropReq c = true
              · simp only [hp, if_true] at hd hh
                have hdp := propReq_of_read c d hp hd
                obtain ⟨i1, i2⟩ := hrefs_agree unescape rest hs hh
                have hrestP : rest.filter (·.isElem nsDav "prop") = [] := by
                  rw [← i1]
                  rw [List.filter_filter]
                  apply List.filter_eq_nil_iff.mpr
                  intro x _ hx
                  cases x with
                  | elem q a k => simp [Node.isElem] at hx; obtain ⟨⟨_, h1⟩, ⟨_, h2⟩⟩ := hx; rw [h1] at h2; exact absurd h2 (by decide)
                  | text s => simp [Node.isElem] at hx
                  | comment s => simp [Node.isElem] at hx
                have hdata : DataPart (c :: rest) d := by
                  have e : (c :: rest).filter (·.isElem nsDav "prop") = [c].filter (·.isElem nsDav "prop") := by
                    have : c :: rest = [c] ++ rest := rfl
                    rw [this, List.filter_append, hrestP, List.append_nil]
                  unfold DataPart at hdp ⊢
                  rw [e]; exact hdp
                have hcH : c.isElem nsDav "href" = false := by
                  simp only [isPropReq, Bool.or_eq_true] at hp
                  rcases hp with (h1 | h1) | h1 <;> (rw [(isD_facts _ _ h1).1]; decide)
                have hfil : (c :: rest).filter (·.isElem nsDav "href") = rest := by
                  simp [List.filter_cons, hcH, i1]
                simp only [dataReqOf_of _ d hdata, hfil, i2, bind, Except.bind, pure, Except.pure]
              · simp only [hp, Bool.false_eq_true, if_false, Option.some.injEq] at hd hh
                subst hd
                obtain ⟨i1, i2⟩ := hrefs_agree unescape (c :: rest) hs hh
                have hP : (c :: rest).filter (·.isElem nsDav "prop") = [] := by
                  rw [← i1]
                  rw [List.filter_filter]
                  apply List.filter_eq_nil_iff.mpr
                  intro x _ hx
                  cases x with
                  | elem q a k => simp [Node.isElem] at hx; obtain ⟨⟨_, h1⟩, ⟨_, h2⟩⟩ := hx; rw [h1] at h2; exact absurd h2 (by decide)
                  | text s => simp [Node.isElem] at hx
                  | comment s => simp [Node.isElem] at hx
                have hdata : DataPart (c :: rest) (false, []) := Or.inl ⟨hP, rfl⟩
                simp only [dataReqOf_of _ _ hdata, i1, i2, bind, Except.bind, pure, Except.pure]

end GoWebdav.Lemmas.CarddavAgree
