import GoWebdav.Std.Quote
namespace GoWebdav.Lemmas.Quote
open GoWebdav.Std.Quote

theorem unquote_plain (c : Char) (rest : List Char) (h1 : c ≠ '\\') (h2 : c ≠ '"') (h3 : c ≠ '\n') :
    unquoteBody (c :: rest) = (unquoteBody rest).map (Out.rune c :: ·) := by
  conv => lhs; unfold unquoteBody
  split <;> simp_all

theorem unquote_short (e c : Char) (rest : List Char)
    (h : (e, c) = ('a', '\x07') ∨ (e, c) = ('b', '\x08') ∨ (e, c) = ('f', '\x0c') ∨ (e, c) = ('n', '\n') ∨
         (e, c) = ('r', '\r') ∨ (e, c) = ('t', '\t') ∨ (e, c) = ('v', '\x0b')) :
    unquoteBody ('\\' :: e :: rest) = (unquoteBody rest).map (Out.rune c :: ·) := by
  rcases h with h | h | h | h | h | h | h <;> (cases h; conv => lhs; unfold unquoteBody)
  all_goals simp

theorem unquote_x (a b : Char) (n : Nat) (rest : List Char) (h : val2 a b = some n) :
    unquoteBody ('\\' :: 'x' :: a :: b :: rest) = (unquoteBody rest).map (Out.byte (UInt8.ofNat n) :: ·) := by
  conv => lhs; unfold unquoteBody
  simp [h]

theorem unquote_u (a b c d : Char) (o : Out) (rest : List Char) (h : (val4 a b c d).bind mkRune = some o) :
    unquoteBody ('\\' :: 'u' :: a :: b :: c :: d :: rest) = (unquoteBody rest).map (o :: ·) := by
  conv => lhs; unfold unquoteBody
  simp [h]

theorem unquote_U (a b c d e f g h : Char) (hi lo : Nat) (o : Out) (rest : List Char)
    (h1 : val4 a b c d = some hi) (h2 : val4 e f g h = some lo) (h3 : mkRune (65536 * hi + lo) = some o) :
    unquoteBody ('\\' :: 'U' :: a :: b :: c :: d :: e :: f :: g :: h :: rest) = (unquoteBody rest).map (o :: ·) := by
  conv => lhs; unfold unquoteBody
  simp [h1, h2, h3]

/-- the per-rune lemma: unquoting what quoteRune produced, in front of any rest -/
theorem unquote_quoteRune (p : Char → Bool) (hp : p '\n' = false) (r : GoRune) (rest : List Char) :
    unquoteBody (quoteRune p r ++ rest) = (unquoteBody rest).map (expect p r :: ·) := by
  cases r with
  | bad b =>
    obtain ⟨a, c, h1, h2⟩ := val2_hex2 b.toNat (by have := b.toNat_lt; omega)
    simp only [quoteRune, expect, h1, List.cons_append, List.nil_append]
    rw [unquote_x a c _ rest h2]; simp
  | valid c =>
    simp only [quoteRune, expect]
    by_cases hq : c = '"' ∨ c = '\\'
    · rcases hq with rfl | rfl
      · simp; conv => lhs; unfold unquoteBody
        simp
      · simp; conv => lhs; unfold unquoteBody
        simp
    · simp only [hq, if_false]
      have hq1 : c ≠ '"' := fun h => hq (Or.inl h)
      have hq2 : c ≠ '\\' := fun h => hq (Or.inr h)
      by_cases hpc : p c = true
      · have hn : c ≠ '\n' := by intro h; subst h; simp [hp] at hpc
        simp only [hpc, if_true, List.cons_append, List.nil_append]
        exact unquote_plain c rest hq2 hq1 hn
      · simp only [hpc, Bool.false_eq_true, if_false, escapeCtl, isShortCtl]
        by_cases h1 : c = '\x07'
        · subst h1; simp; exact unquote_short 'a' _ rest (by simp)
        by_cases h2 : c = '\x08'
        · subst h2; simp; exact unquote_short 'b' _ rest (by simp)
        by_cases h3 : c = '\x0c'
        · subst h3; simp; exact unquote_short 'f' _ rest (by simp)
        by_cases h4 : c = '\n'
        · subst h4; simp; exact unquote_short 'n' _ rest (by simp)
        by_cases h5 : c = '\r'
        · subst h5; simp; exact unquote_short 'r' _ rest (by simp)
        by_cases h6 : c = '\t'
        · subst h6; simp; exact unquote_short 't' _ rest (by simp)
        by_cases h7 : c = '\x0b'
        · subst h7; simp; exact unquote_short 'v' _ rest (by simp)
        simp only [h1, h2, h3, h4, h5, h6, h7, if_false, decide_false, Bool.or_false, Bool.false_eq_true]
        by_cases h8 : c.toNat < 128
        · obtain ⟨a, b, e1, e2⟩ := val2_hex2 c.toNat (by omega)
          simp only [h8, if_true, e1, List.cons_append, List.nil_append]
          rw [unquote_x a b _ rest e2]
        · by_cases h9 : c.toNat < 65536
          · obtain ⟨a, b, c', d, e1, e2⟩ := val4_hex4 c.toNat h9
            simp only [h8, h9, if_true, if_false, e1, List.cons_append, List.nil_append]
            rw [unquote_u a b c' d (Out.rune c) rest (by simp [e2, mkRune_char])]
          · have hlt : c.toNat < 1114112 := by
              have hv : c.toNat.isValidChar := c.valid
              unfold Nat.isValidChar at hv; omega
            obtain ⟨a1, b1, c1, d1, e1, e2⟩ := val4_hex4 (c.toNat / 65536) (by omega)
            obtain ⟨a2, b2, c2, d2, e3, e4⟩ := val4_hex4 (c.toNat % 65536) (by omega)
            simp only [h8, h9, if_false, e1, e3, List.cons_append, List.nil_append]
            rw [unquote_U a1 b1 c1 d1 a2 b2 c2 d2 _ _ (Out.rune c) rest e2 e4
              (by rw [show 65536 * (c.toNat / 65536) + c.toNat % 65536 = c.toNat by omega]; exact mkRune_char c)]

theorem unquoteBody_quoteBody (p : Char → Bool) (hp : p '\n' = false) (rs : List GoRune) :
    unquoteBody (quoteBody p rs) = some (rs.map (expect p)) := by
  induction rs with
  | nil => simp [quoteBody, unquoteBody]
  | cons r rs ih =>
    simp only [quoteBody]
    rw [unquote_quoteRune p hp r _, ih]
    simp

/-- `Unquote(Quote(s))` recovers `s`, for every byte string and every printability table -/
theorem unquote_quote (p : Char → Bool) (hp : p '\n' = false) (rs : List GoRune) :
    unquote (quote p rs) = some (rs.map (expect p)) := by
  unfold unquote quote
  simp [unquoteBody_quoteBody p hp rs]

end GoWebdav.Lemmas.Quote
