import GoWebdav.Lemmas.CarddavAgree
import GoWebdav.Spec.XmlNoise
/-!
The CardDAV query decoder does not see insignificant content: comments, and white space between the elements of an
element-content model, anywhere in an addressbook-query document (`decodeQuery (clean n) = decodeQuery n` for EVERY
tree `n`).  The character data of text-match, nresults and href is left alone — there white space is data.
-/
namespace GoWebdav.Lemmas.CarddavNoise
open GoWebdav GoWebdav.Std.Xml GoWebdav.Impl.CarddavWire GoWebdav.Spec.XmlNoise

/-- the elements whose content is character data -/
def pc (loc : String) : Bool := loc = "text-match" || loc = "nresults" || loc = "href"

theorem clean_pcdata (n : Node) (loc : String) (hl : n.localIs loc = true) (hp : pc loc = true) : clean pc n = n := by
  cases n with
  | elem q a cs =>
    have : q.loc = loc := by simpa [Node.localIs] using hl
    simp [clean, this, hp]
  | text s => rfl
  | comment s => rfl

theorem clean_elem (q : QName) (a : List (QName × String)) (cs : List Node) (h : pc q.loc = false) :
    clean pc (.elem q a cs) = .elem q a (cleanList pc cs) := by
  simp [clean, h]

theorem map_clean_id (l : List Node) (h : ∀ x ∈ l, clean pc x = x) : l.map (clean pc) = l := by
  induction l with
  | nil => rfl
  | cons x xs ih => rw [List.map_cons, h x (by simp), ih (fun y hy => h y (by simp [hy]))]

theorem pick_pcdata (loc : String) (hp : pc loc = true) (cs : List Node) :
    (cleanList pc cs).filter (·.localIs loc) = cs.filter (·.localIs loc) := by
  rw [filter_cleanList pc _ (byName_localIs loc)]
  apply map_clean_id
  intro x hx
  exact clean_pcdata x loc (List.mem_filter.mp hx).2 hp

theorem mapM_map_congr {α : Type} (f : Node → Except Err α) (l : List Node) (h : ∀ x ∈ l, f (clean pc x) = f x) :
    (l.map (clean pc)).mapM f = l.mapM f := by
  induction l with
  | nil => rfl
  | cons x xs ih =>
    rw [List.map_cons, List.mapM_cons, List.mapM_cons, h x (by simp), ih (fun y hy => h y (by simp [hy]))]

theorem decParamFilter_clean (n : Node) : decParamFilter (clean pc n) = decParamFilter n := by
  cases n with
  | text s => rfl
  | comment s => rfl
  | elem q a cs =>
    by_cases hp : pc q.loc = true
    · simp [clean, hp]
    · have hp' : pc q.loc = false := by simpa using hp
      rw [clean_elem q a cs hp']
      unfold decParamFilter
      simp only [checkNs, Node.space?, any_cleanList pc _ (byName_localIs "is-not-defined"), pick_pcdata "text-match" (by decide)]
      rfl

theorem decPropFilter_clean (n : Node) : decPropFilter (clean pc n) = decPropFilter n := by
  cases n with
  | text s => rfl
  | comment s => rfl
  | elem q a cs =>
    by_cases hp : pc q.loc = true
    · simp [clean, hp]
    · have hp' : pc q.loc = false := by simpa using hp
      rw [clean_elem q a cs hp']
      unfold decPropFilter
      simp only [checkNs, Node.space?, any_cleanList pc _ (byName_localIs "is-not-defined"), pick_pcdata "text-match" (by decide),
        filter_cleanList pc _ (byName_localIs "param-filter"),
        mapM_map_congr decParamFilter _ (fun x _ => decParamFilter_clean x)]
      rfl

theorem propNameOf_clean (n : Node) : propNameOf (clean pc n) = propNameOf n := by
  cases n with
  | text s => rfl
  | comment s => rfl
  | elem q a cs => simp only [clean]; split <;> rfl

theorem space_clean (n : Node) : (clean pc n).space? = n.space? := by
  cases n with
  | text s => rfl
  | comment s => rfl
  | elem q a cs => simp only [clean]; split <;> rfl

theorem decDataChildren_clean (cs : List Node) : decDataChildren (cleanList pc cs) = decDataChildren cs := by
  unfold decDataChildren
  have h1 := any_cleanList pc (·.localIs "allprop") (byName_localIs "allprop") cs
  have h2 := filter_cleanList pc (·.localIs "prop") (byName_localIs "prop") cs
  simp only [h1, h2, List.map_map, List.any_map]
  have e1 : (propNameOf ∘ clean pc) = propNameOf := by funext x; exact propNameOf_clean x
  have e2 : ((fun p : Node => decide (p.space? ≠ some nsCard)) ∘ clean pc) = (fun p : Node => decide (p.space? ≠ some nsCard)) := by
    funext x; simp [space_clean x]
  rw [e1, e2]

theorem decDataReq_clean (pcs : List Node) : decDataReq (cleanList pc pcs) = decDataReq pcs := by
  unfold decDataReq
  rw [find_cleanList pc _ (byName_isElem nsCard "address-data")]
  cases hf : pcs.find? (·.isElem nsCard "address-data") with
  | none => rfl
  | some n =>
    cases n with
    | text s => rfl
    | comment s => rfl
    | elem q a cs =>
      have hloc : q.loc = "address-data" := by
        have := List.find?_some hf
        simp only [Node.isElem, Bool.and_eq_true, beq_iff_eq] at this
        exact this.2
      have hp : pc q.loc = false := by rw [hloc]; decide
      simp only [Option.map_some, clean_elem q a cs hp]
      exact decDataChildren_clean cs

theorem decLimit_clean (cs : List Node) : decLimit (cleanList pc cs) = decLimit cs := by
  unfold decLimit
  rw [filter_cleanList pc _ (byName_localIs "limit"), getLast_map]
  cases hl : (cs.filter (·.localIs "limit")).getLast? with
  | none => rfl
  | some l =>
    cases l with
    | text s => rfl
    | comment s => rfl
    | elem q a lc =>
      have hmem := List.mem_of_getLast? hl
      have hloc : q.loc = "limit" := by
        have := (List.mem_filter.mp hmem).2
        simpa [Node.localIs] using this
      have hp : pc q.loc = false := by rw [hloc]; decide
      simp only [Option.map_some, clean_elem q a lc hp, Node.space?, pick_pcdata "nresults" (by decide)]
      rfl

theorem dataReqOf_clean (cs : List Node) : dataReqOf (cleanList pc cs) = dataReqOf cs := by
  unfold dataReqOf
  rw [filter_cleanList pc _ (byName_isElem nsDav "prop"), getLast_map]
  cases hl : (cs.filter (·.isElem nsDav "prop")).getLast? with
  | none => rfl
  | some l =>
    cases l with
    | text s => rfl
    | comment s => rfl
    | elem q a pcs =>
      have hmem := List.mem_of_getLast? hl
      have hloc : q.loc = "prop" := by
        have := (List.mem_filter.mp hmem).2
        simp only [Node.isElem, Bool.and_eq_true, beq_iff_eq] at this
        exact this.2
      have hq : pc q.loc = false := by rw [hloc]; decide
      simp only [Option.map_some, clean_elem q a pcs hq]
      exact decDataReq_clean pcs

theorem filterOf_clean (cs : List Node) : filterOf (cleanList pc cs) = filterOf cs := by
  unfold filterOf
  rw [filter_cleanList pc _ (byName_localIs "filter"), getLast_map]
  cases hl : (cs.filter (·.localIs "filter")).getLast? with
  | none => rfl
  | some l =>
    cases l with
    | text s => rfl
    | comment s => rfl
    | elem q a fc =>
      have hmem := List.mem_of_getLast? hl
      have hloc : q.loc = "filter" := by
        have := (List.mem_filter.mp hmem).2
        simpa [Node.localIs] using this
      have hq : pc q.loc = false := by rw [hloc]; decide
      simp only [Option.map_some, clean_elem q a fc hq, filter_cleanList pc _ (byName_localIs "prop-filter"),
        mapM_map_congr decPropFilter _ (fun x _ => decPropFilter_clean x)]

/-- the decoder does not see insignificant content, whatever the document -/
theorem decodeQuery_clean (n : Node) : decodeQuery (clean pc n) = decodeQuery n := by
  cases n with
  | text s => rfl
  | comment s => rfl
  | elem name attrs cs =>
    by_cases hp : pc name.loc = true
    · simp [clean, hp]
    · have hp' : pc name.loc = false := by simpa using hp
      rw [clean_elem name attrs cs hp']
      unfold decodeQuery
      simp only [decLimit_clean, dataReqOf_clean, filterOf_clean]

/-- wire → backend for every document that is RFC-conformant once its insignificant content (comments, white space
    between elements) is set aside: the backend receives the query it denotes -/
theorem decodeQuery_of_read_clean (n : Node) (q : Query) (h : Spec.CarddavWire.readQuery (clean pc n) = some q)
    (hk : q.limit < 9223372036854775808) : decodeQuery n = .ok (some q) := by
  rw [← decodeQuery_clean n]
  exact GoWebdav.Lemmas.CarddavAgree.decodeQuery_of_read (clean pc n) q h hk

theorem hrefs_clean (cs : List Node) :
    (cleanList pc cs).filter (·.isElem nsDav "href") = cs.filter (·.isElem nsDav "href") := by
  rw [filter_cleanList pc _ (byName_isElem nsDav "href")]
  apply map_clean_id
  intro x hx
  have := (List.mem_filter.mp hx).2
  cases x with
  | elem q a k =>
    simp only [Node.isElem, Bool.and_eq_true, beq_iff_eq] at this
    exact clean_pcdata _ "href" (by simp [Node.localIs, this.2]) (by decide)
  | text s => rfl
  | comment s => rfl

/-- the multiget decoder does not see insignificant content either -/
theorem decodeMultiGet_clean (unescape : String → Option String) (n : Node) :
    decodeMultiGet unescape (clean pc n) = decodeMultiGet unescape n := by
  cases n with
  | text s => rfl
  | comment s => rfl
  | elem name attrs cs =>
    by_cases hp : pc name.loc = true
    · simp [clean, hp]
    · have hp' : pc name.loc = false := by simpa using hp
      rw [clean_elem name attrs cs hp']
      unfold decodeMultiGet
      simp only [dataReqOf_clean, hrefs_clean]

end GoWebdav.Lemmas.CarddavNoise
