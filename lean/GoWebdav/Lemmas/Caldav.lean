import GoWebdav.Spec.Caldav
namespace GoWebdav.Lemmas.Caldav
open GoWebdav GoWebdav.Impl.Caldav GoWebdav.Spec.Caldav GoWebdav.Std

/-- the implementation's interval test is the RFC rule on `[s, e)` (zero-length when `e ≤ s`) -/
theorem intervalOverlaps_spec (rs re s e : Int) :
    intervalOverlaps rs re s e = (if s < e then lt rs e && gt re s else le rs s && gt re s) := by
  unfold intervalOverlaps lt le gt
  by_cases h1 : re = Z <;> by_cases h2 : rs = Z <;> by_cases h3 : s < re <;> by_cases h4 : s < e <;>
    simp [h1, h2, h3, h4] <;> (try omega) <;>
    (by_cases h5 : s < rs <;> simp [h5] <;> omega)

theorem intervalOverlaps_at (rs re t dur : Int) (hd : 0 ≤ dur) :
    intervalOverlaps rs re t (t + dur) = overlapAt rs re t dur := by
  rw [intervalOverlaps_spec]
  unfold overlapAt
  by_cases h : 0 < dur
  · have : t < t + dur := by omega
    simp [h, this]
  · have : ¬ t < t + dur := by omega
    simp [h, this]

def Ascending : List Int → Prop
  | [] => True
  | t :: rest => (∀ t' ∈ rest, t ≤ t') ∧ Ascending rest

theorem instances_ge (first step : Int) (hs : 0 ≤ step) (n : Nat) : ∀ t ∈ instances first step n, first ≤ t := by
  induction n generalizing first with
  | zero => intro t ht; cases ht
  | succ n ih =>
    intro t ht
    simp only [instances, List.mem_cons] at ht
    rcases ht with rfl | ht
    · exact Int.le_refl _
    · have := ih (first + step) t ht; omega

theorem instances_ascending (first step : Int) (hs : 0 ≤ step) (n : Nat) : Ascending (instances first step n) := by
  induction n generalizing first with
  | zero => trivial
  | succ n ih =>
    refine ⟨?_, ih _⟩
    intro t ht
    have := instances_ge (first + step) step hs n t ht; omega

/-- the early-exit loop over sorted instances = "some instance overlaps" -/
theorem instanceLoop_eq_any (rs re dur : Int) (hd : 0 ≤ dur) (l : List Int) (hl : Ascending l) :
    instanceLoop rs re dur l = l.any (fun t => overlapAt rs re t dur) := by
  induction l with
  | nil => rfl
  | cons t rest ih =>
    unfold instanceLoop
    rw [intervalOverlaps_at rs re t dur hd, ih hl.2]
    by_cases hstop : (re ≠ Z && !(t < re)) = true
    · simp only [hstop, if_true]
      simp only [Bool.and_eq_true, Bool.not_eq_true', decide_eq_true_eq, decide_eq_false_iff_not] at hstop
      have hall : ∀ t' ∈ t :: rest, overlapAt rs re t' dur = false := by
        intro t' ht'
        have hge : t ≤ t' := by
          rcases List.mem_cons.mp ht' with rfl | h
          · exact Int.le_refl _
          · exact hl.1 t' h
        have : gt re t' = false := by
          unfold gt; simp [hstop.1]; omega
        unfold overlapAt; split <;> simp [this]
      symm
      rw [List.any_eq_false]
      intro x hx; simp [hall x hx]
    · simp only [hstop, Bool.false_eq_true, if_false, List.any_cons]
      cases overlapAt rs re t dur <;> simp

/-- "whenever the implementation answers `x`, `x` is the specification's value" -/
def Sound (r : Except Err Bool) (b : Bool) : Prop := ∀ x, r = .ok x → x = b

theorem sound_ok (b : Bool) : Sound (.ok b) b := by intro x h; cases h; rfl
theorem sound_error (e : Err) (b : Bool) : Sound (.error e) b := by intro x h; cases h

theorem allScan_sound {l : List (Except Err Bool)} {s : List Bool} (h : Forall2 Sound l s) :
    Sound (allScan l) (s.all id) := by
  induction h with
  | nil => exact sound_ok true
  | @cons r b rs bs hrb _ ih =>
    cases r with
    | error e => exact sound_error _ _
    | ok x =>
      have := hrb x rfl; subst this
      cases x
      · simp only [allScan]; simpa using sound_ok false
      · simp only [allScan]; simpa using ih

theorem anyScan_sound {l : List (Except Err Bool)} {s : List Bool} (h : Forall2 Sound l s) :
    Sound (anyScan l) (s.any id) := by
  induction h with
  | nil => exact sound_ok false
  | @cons r b rs bs hrb _ ih =>
    cases r with
    | error e => exact sound_error _ _
    | ok x =>
      have := hrb x rfl; subst this
      cases x
      · simp only [anyScan]; simpa using ih
      · simp only [anyScan]; simpa using sound_ok true

theorem forall2_append {α β} {R : α → β → Prop} {a₁ a₂ : List α} {b₁ b₂ : List β}
    (h₁ : Forall2 R a₁ b₁) (h₂ : Forall2 R a₂ b₂) : Forall2 R (a₁ ++ a₂) (b₁ ++ b₂) := by
  induction h₁ with
  | nil => exact h₂
  | cons h _ ih => exact Forall2.cons h ih

theorem forall2_map {α β γ} {R : β → γ → Prop} (l : List α) (f : α → β) (g : α → γ) (h : ∀ x ∈ l, R (f x) (g x)) :
    Forall2 R (l.map f) (l.map g) := by
  induction l with
  | nil => exact Forall2.nil
  | cons a as ih => exact Forall2.cons (h a (by simp)) (ih (fun x hx => h x (List.mem_cons_of_mem _ hx)))

theorem matchTextMatch_eq (t : TextMatch) (v : String) : matchTextMatch t v = textHolds t v := by
  unfold matchTextMatch textHolds; cases t.negate <;> simp

theorem matchParamFilter_eq (f : ParamFilter) (p : IProp) : matchParamFilter f p = paramHolds f p := by
  unfold matchParamFilter paramHolds
  cases paramValues p f.name with
  | nil => rfl
  | cons v vs =>
    cases hi : f.isNotDefined <;> cases f.textMatch <;> simp [matchTextMatch_eq]

theorem matchPropTimeRange_sound (rs re : Int) (p : IProp) :
    Sound (matchPropTimeRange rs re p) (match p.time with | some t => le rs t && gt re t | none => false) := by
  unfold matchPropTimeRange
  cases p.time with
  | none => exact sound_error _ _
  | some t =>
    simp only [intervalOverlaps_spec, Int.lt_irrefl, if_false]
    exact sound_ok _

theorem matchPropFilter_sound (f : PropFilter) (c : Component) : Sound (matchPropFilter f c) (propHolds f c) := by
  unfold matchPropFilter propHolds
  cases getProp c.props f.name with
  | none => exact sound_ok _
  | some p =>
    simp only
    cases hi : f.isNotDefined
    · simp only [Bool.false_eq_true, if_false, Bool.not_false, Bool.true_and]
      have hpar : f.paramFilters.all (matchParamFilter · p) = f.paramFilters.all (paramHolds · p) := by
        congr 1; funext x; exact matchParamFilter_eq x p
      rw [hpar]
      cases hp : f.paramFilters.all (paramHolds · p)
      · simpa using sound_ok false
      · simp only [Bool.not_true, Bool.false_eq_true, if_false, Bool.true_and]
        cases hr : hasRange f.start f.end_
        · simp only [Bool.false_eq_true, if_false]
          cases f.textMatch with
          | none => exact sound_ok _
          | some tm => simp only [matchTextMatch_eq]; exact sound_ok _
        · simp only [if_true]
          exact matchPropTimeRange_sound _ _ _
    · simpa using sound_ok false

end GoWebdav.Lemmas.Caldav

namespace GoWebdav.Lemmas.Caldav
open GoWebdav GoWebdav.Impl.Caldav GoWebdav.Spec.Caldav GoWebdav.Std

theorem durationOf_nonneg (s : Int) (d : Bool) (es : EndSpec) : 0 ≤ durationOf s d es := by
  unfold durationOf
  split <;> (try split) <;> omega

/-- `matchCompTimeRange` on a non-recurring VEVENT with a readable DTSTART is the §9.9 table -/
theorem timeRange_event (rs re s : Int) (isDate : Bool) (es : EndSpec) (props : List IProp) (ch : List Component) :
    Sound (matchCompTimeRange rs re (.mk "VEVENT" props ⟨.none, some (some s, isDate), es⟩ ch))
      (overlapTable rs re s isDate es) := by
  unfold matchCompTimeRange
  simp only [Component.timing, Component.name, dateTimeStart, dateTimeEnd, if_true]
  cases es with
  | dtend e =>
    cases e with
    | none => exact sound_error _ _
    | some e => simp only [intervalOverlaps_spec, overlapTable]; exact sound_ok _
  | duration d =>
    cases d with
    | none => exact sound_error _ _
    | some d =>
      simp only [intervalOverlaps_spec, overlapTable]
      have : (s < s + d) = (0 < d) := by apply propext; constructor <;> intro h <;> omega
      simp only [this]
      exact sound_ok _
  | none =>
    simp only [intervalOverlaps_spec, overlapTable]
    cases isDate
    · simp only [Bool.false_eq_true, if_false, Int.lt_irrefl]; exact sound_ok _
    · have : s < s + 86400 := by omega
      simp only [if_true, this]; exact sound_ok _

theorem dur_eq (recur : Recur) (s : Int) (isDate : Bool) (es : EndSpec) (e : Int)
    (h : dateTimeEnd ⟨recur, some (some s, isDate), es⟩ = .ok e) :
    (if e > s then e - s else 0) = durationOf s isDate es ∧ es ≠ .dtend none ∧ es ≠ .duration none := by
  unfold dateTimeEnd at h
  cases es with
  | dtend x =>
    cases x with
    | none => simp at h
    | some x => simp at h; subst h; simp [durationOf]
  | duration d =>
    cases d with
    | none => simp at h
    | some d =>
      simp at h; subst h
      simp only [durationOf, ne_eq, reduceCtorEq, not_false_eq_true, and_self, and_true]
      by_cases hd : 0 < d
      · have : s + d > s := by omega
        simp [hd, this]; omega
      · have : ¬ s + d > s := by omega
        simp [hd, this]
  | none =>
    simp at h; subst h
    cases isDate
    · simp [durationOf]
    · have : s + 86400 > s := by omega
      simp [durationOf, this]; omega

theorem timeRange_sound (rs re : Int) (c : Component) (hwf : localWF c = true) :
    Sound (matchCompTimeRange rs re c) (rangeHolds rs re c) := by
  obtain ⟨name, props, ⟨recur, dtstart, es⟩, ch⟩ := c
  simp only [localWF, Component.name, Component.timing, Bool.and_eq_true, Bool.or_eq_true, decide_eq_true_eq] at hwf
  by_cases hn : name = "VEVENT"
  · subst hn
    have hds : dtstart.isSome = true := by
      rcases hwf.1 with h | h
      · simp at h
      · exact h
    cases dtstart with
    | none => simp at hds
    | some ds =>
      obtain ⟨s, isDate⟩ := ds
      cases s with
      | none =>
        unfold matchCompTimeRange
        simp only [Component.timing, Component.name, dateTimeStart, if_true]
        cases recur <;> exact sound_error _ _
      | some s =>
        cases recur with
        | none =>
          have := timeRange_event rs re s isDate es props ch
          simpa [rangeHolds, Component.name, Component.timing] using this
        | err => unfold matchCompTimeRange; exact sound_error _ _
        | rule first step count =>
          have hstep : 0 ≤ step := by simpa using hwf.2
          have hasc := instances_ascending first step hstep count
          unfold matchCompTimeRange rangeHolds
          simp only [Component.timing, Component.name, dateTimeStart, if_true, ne_eq, not_true_eq_false, if_false]
          cases hde : dateTimeEnd ⟨Recur.rule first step count, some (some s, isDate), es⟩ with
          | error err => exact sound_error _ _
          | ok e =>
            obtain ⟨h1, h2, h3⟩ := dur_eq (Recur.rule first step count) s isDate es e hde
            simp only []
            rw [h1, instanceLoop_eq_any rs re _ (durationOf_nonneg s isDate es) _ hasc]
            simpa [h2, h3] using sound_ok _
  · cases recur with
    | none => unfold matchCompTimeRange rangeHolds; simpa [Component.name, Component.timing, hn] using sound_ok false
    | err => unfold matchCompTimeRange; exact sound_error _ _
    | rule first step count =>
      have hstep : 0 ≤ step := by simpa using hwf.2
      have hasc := instances_ascending first step hstep count
      unfold matchCompTimeRange rangeHolds
      simp only [Component.timing, Component.name, hn, if_false, ne_eq, not_false_eq_true, if_true]
      rw [instanceLoop_eq_any rs re 0 (Int.le_refl _) _ hasc]
      exact sound_ok _

theorem wf_local (c : Component) (h : wf c = true) : localWF c = true := by
  obtain ⟨n, p, t, ch⟩ := c
  simp only [wf, Bool.and_eq_true] at h; exact h.1

theorem wfL_mem (l : List Component) (h : wfL l = true) : ∀ c ∈ l, wf c = true := by
  induction l with
  | nil => intro c hc; cases hc
  | cons a as ih =>
    simp only [wfL, Bool.and_eq_true] at h
    intro c hc
    rcases List.mem_cons.mp hc with rfl | hc
    · exact h.1
    · exact ih h.2 c hc

theorem wf_children (c : Component) (h : wf c = true) : ∀ ch ∈ c.children, wf ch = true := by
  obtain ⟨n, p, t, ch⟩ := c
  simp only [wf, Bool.and_eq_true] at h
  exact wfL_mem ch h.2

/-- an is-not-defined filter against a component only looks at the name -/
theorem holdsF_ind (cf : CompFilter) (c : Component) (h : cf.isNotDefined = true) :
    holdsF cf c = decide (c.name ≠ cf.name) := by
  obtain ⟨n, i, s, e, p, k⟩ := cf
  simp only [CompFilter.isNotDefined] at h
  unfold holdsF
  simp only [h, if_true, CompFilter.name]
  congr

mutual
/-- whenever `match` answers, it answers what RFC 4791 prescribes — for every filter tree and every well-formed component -/
theorem matchF_sound : ∀ (f : CompFilter) (c : Component), wf c = true → Sound (matchF f c) (holdsF f c)
  | .mk name ind s e props comps, c, hwf => by
    have ihs := matchSubs_sound comps c hwf
    unfold matchF gate holdsF
    by_cases hn : c.name = name
    · cases ind
      · simp only [hn, ne_eq, not_true_eq_false, if_false, Bool.false_eq_true, decide_true, Bool.true_and]
        have hprops : Forall2 Sound (props.map (matchPropFilter · c)) (props.map (propHolds · c)) :=
          forall2_map props _ _ (fun pf _ => matchPropFilter_sound pf c)
        cases hr : hasRange s e
        · have := allScan_sound (forall2_append (forall2_append Forall2.nil ihs) hprops)
          simpa [List.all_append, Bool.and_assoc] using this
        · have htr : Forall2 Sound [matchCompTimeRange s e c] [rangeHolds s e c] :=
            Forall2.cons (timeRange_sound s e c (wf_local c hwf)) Forall2.nil
          have := allScan_sound (forall2_append (forall2_append htr ihs) hprops)
          simpa [List.all_append, Bool.and_assoc] using this
      · simpa [hn] using sound_ok false
    · cases ind <;> simpa [hn] using sound_ok _
theorem matchSubs_sound : ∀ (l : List CompFilter) (c : Component), wf c = true →
    Forall2 Sound (matchSubs l c) (holdsSubs l c)
  | [], _, _ => by unfold matchSubs holdsSubs; exact Forall2.nil
  | cf :: rest, c, hwf => by
    have ih := matchSubs_sound rest c hwf
    have ihc : ∀ ch ∈ c.children, Sound (matchF cf ch) (holdsF cf ch) :=
      fun ch hch => matchF_sound cf ch (wf_children c hwf ch hch)
    have hmap := forall2_map c.children (matchF cf) (holdsF cf) ihc
    unfold matchSubs holdsSubs
    refine Forall2.cons ?_ ih
    unfold childGate
    cases hi : cf.isNotDefined
    · simpa [List.any_map] using anyScan_sound hmap
    · have := allScan_sound hmap
      have heq : (c.children.map (holdsF cf)).all id = c.children.all (fun ch => decide (ch.name ≠ cf.name)) := by
        rw [List.all_map]; congr 1; funext ch; simp [holdsF_ind cf ch hi]
      simpa [heq] using this
end

end GoWebdav.Lemmas.Caldav
