import GoWebdav.Props.C09
/-!
Helper lemmas for the general C09 round trip: how `Impl.CarddavWire.dec*` sees what `enc*` writes.
-/
namespace GoWebdav.Lemmas.CarddavWire
open GoWebdav GoWebdav.Std.Xml GoWebdav.Impl.CarddavWire GoWebdav.Generated GoWebdav.Props.C09

def pick (loc : String) (cs : List Node) : List Node := cs.filter (·.localIs loc)

theorem pick_append (loc : String) (a b : List Node) : pick loc (a ++ b) = pick loc a ++ pick loc b := by
  unfold pick; exact List.filter_append ..

@[simp] theorem pick_nil (loc : String) : pick loc [] = [] := rfl

theorem pick_el (loc l : String) (a : List (QName × String)) (c : List Node) (rest : List Node) :
    pick loc (el l a c :: rest) = if l = loc then el l a c :: pick loc rest else pick loc rest := by
  unfold pick el
  by_cases h : l = loc <;> simp [List.filter_cons, Node.localIs, h]

theorem pick_map_el (loc l : String) {α : Type} (xs : List α) (a : α → List (QName × String)) (c : α → List Node) :
    pick loc (xs.map (fun x => el l (a x) (c x))) = if l = loc then xs.map (fun x => el l (a x) (c x)) else [] := by
  induction xs with
  | nil => simp
  | cons x xs ih => rw [List.map_cons, pick_el, ih]; by_cases h : l = loc <;> simp [h]

theorem pick_textMatches (loc : String) (ts : List TextMatch) :
    pick loc (ts.map encTextMatch) = if "text-match" = loc then ts.map encTextMatch else [] := by
  have h : encTextMatch = fun t => el "text-match" (negAttr t.negate ++ atOpt "match-type" t.matchType) (textNodes t.text) := by
    funext t; rfl
  rw [h]; exact pick_map_el loc "text-match" ts _ _

theorem pick_ind (loc : String) (b : Bool) : pick loc (indNodes b) = if "is-not-defined" = loc then indNodes b else [] := by
  unfold indNodes; cases b <;> simp [pick_el]

theorem any_eq_pick (loc : String) (cs : List Node) : cs.any (·.localIs loc) = !(pick loc cs).isEmpty := by
  unfold pick
  induction cs with
  | nil => rfl
  | cons c cs ih => simp only [List.any_cons, List.filter_cons]; cases h : c.localIs loc <;> simp [ih]

theorem mapM_ok {α β : Type} (f : α → Except Err β) (g : α → β) (l : List α) (h : ∀ x ∈ l, f x = .ok (g x)) :
    l.mapM f = .ok (l.map g) := by
  induction l with
  | nil => rfl
  | cons x xs ih =>
    rw [List.mapM_cons, h x (by simp), ih (fun y hy => h y (by simp [hy]))]
    rfl

theorem mapM_map_ok {α β : Type} (enc : α → β) (dec : β → Except Err α) (l : List α)
    (h : ∀ x ∈ l, dec (enc x) = .ok x) : (l.map enc).mapM dec = .ok l := by
  induction l with
  | nil => rfl
  | cons x xs ih =>
    rw [List.map_cons, List.mapM_cons, h x (by simp), ih (fun y hy => h y (by simp [hy]))]
    rfl

-- param-filter -------------------------------------------------------------------------------------------------------------

theorem pick_optTM (loc : String) (t : Option TextMatch) : pick loc (optTM t) = if "text-match" = loc then optTM t else [] := by
  cases t <;> simp [optTM, encTextMatch, pick_el]

/-- the node `encParamFilter` produces for an acceptable param-filter -/
def paramNode (p : ParamFilter) : Node :=
  el "param-filter" [att "name" p.name] (indNodes p.isNotDefined ++ optTM p.textMatch)

theorem encParamFilter_ok (p : ParamFilter) (h : Paramok p) : encParamFilter p = .ok (paramNode p) := by
  unfold encParamFilter paramNode
  have : ¬ (p.isNotDefined = true ∧ p.textMatch.isSome = true) := by
    intro ⟨h1, h2⟩; rw [h.1 h1] at h2; cases h2
  simp [this]

theorem decParamFilter_node (p : ParamFilter) (h : Paramok p) : decParamFilter (paramNode p) = .ok p := by
  obtain ⟨name, i, tm⟩ := p
  unfold paramNode decParamFilter
  simp only [el, checkNs, Node.space?, if_true, bind, Except.bind]
  have hpick : ∀ loc, (indNodes i ++ optTM tm).filter (·.localIs loc) = pick loc (indNodes i ++ optTM tm) := fun _ => rfl
  rw [any_eq_pick, hpick]
  cases tm with
  | none =>
    cases i <;> simp +decide [pick_append, pick_ind, pick_optTM, optTM, indNodes, pick_el, attr, att, pure, Except.pure]
  | some t =>
    have ht := textMatch_roundtrip t (h.2 t rfl)
    have hi : i = false := by
      cases hi : i
      · rfl
      · have := h.1 hi; cases this
    subst hi
    have hl : pick "text-match" [encTextMatch t] = [encTextMatch t] := by
      unfold encTextMatch; rw [pick_el]; simp
    have hl2 : pick "is-not-defined" [encTextMatch t] = [] := by
      unfold encTextMatch; rw [pick_el]; simp
    simp [pick_append, pick_ind, pick_optTM, optTM, indNodes, hl, hl2, ht, attr, att, pure, Except.pure, Except.map]

end GoWebdav.Lemmas.CarddavWire
