import GoWebdav.Props.C09
/-!
Helper lemmas for the general C09 round trip: how `Impl.CarddavWire.dec*` sees what `enc*` writes.
-/
namespace GoWebdav.Lemmas.CarddavWire
open GoWebdav GoWebdav.Std.Xml GoWebdav.Impl.CarddavWire GoWebdav.Generated GoWebdav.Props.C09

def pick (loc : String) (cs : List Node) : List Node := cs.filter (·.localIs loc)

theorem pick_append (loc : String) (a b : List Node) : pick loc (a ++ b) = pick loc a ++ pick loc b := by
  unfold pick; exact List.filter_append ..

@[simp] theorem pick_nil (loc : String) : pick loc [] = [] := rfl

theorem pick_el (loc l : String) (a : List (QName × String)) (c : List Node) (rest : List Node) :
    pick loc (el l a c :: rest) = if l = loc then el l a c :: pick loc rest else pick loc rest := by
  unfold pick el
  by_cases h : l = loc <;> simp [List.filter_cons, Node.localIs, h]

theorem pick_map_el (loc l : String) {α : Type} (xs : List α) (a : α → List (QName × String)) (c : α → List Node) :
    pick loc (xs.map (fun x => el l (a x) (c x))) = if l = loc then xs.map (fun x => el l (a x) (c x)) else [] := by
  induction xs with
  | nil => simp
  | cons x xs ih => rw [List.map_cons, pick_el, ih]; by_cases h : l = loc <;> simp [h]

theorem pick_textMatches (loc : String) (ts : List TextMatch) :
    pick loc (ts.map encTextMatch) = if "text-match" = loc then ts.map encTextMatch else [] := by
  have h : encTextMatch = fun t => el "text-match" (negAttr t.negate ++ atOpt "match-type" t.matchType) (textNodes t.text) := by
    funext t; rfl
  rw [h]; exact pick_map_el loc "text-match" ts _ _

theorem pick_ind (loc : String) (b : Bool) : pick loc (indNodes b) = if "is-not-defined" = loc then indNodes b else [] := by
  unfold indNodes; cases b <;> simp [pick_el]

theorem any_eq_pick (loc : String) (cs : List Node) : cs.any (·.localIs loc) = !(pick loc cs).isEmpty := by
  unfold pick
  induction cs with
  | nil => rfl
  | cons c cs ih => simp only [List.any_cons, List.filter_cons]; cases h : c.localIs loc <;> simp [ih]

theorem mapM_ok {α β : Type} (f : α → Except Err β) (g : α → β) (l : List α) (h : ∀ x ∈ l, f x = .ok (g x)) :
    l.mapM f = .ok (l.map g) := by
  induction l with
  | nil => rfl
  | cons x xs ih =>
    rw [List.mapM_cons, h x (by simp), ih (fun y hy => h y (by simp [hy]))]
    rfl

theorem mapM_map_ok {α β : Type} (enc : α → β) (dec : β → Except Err α) (l : List α)
    (h : ∀ x ∈ l, dec (enc x) = .ok x) : (l.map enc).mapM dec = .ok l := by
  induction l with
  | nil => rfl
  | cons x xs ih =>
    rw [List.map_cons, List.mapM_cons, h x (by simp), ih (fun y hy => h y (by simp [hy]))]
    rfl

-- param-filter -------------------------------------------------------------------------------------------------------------

theorem pick_optTM (loc : String) (t : Option TextMatch) : pick loc (optTM t) = if "text-match" = loc then optTM t else [] := by
  cases t <;> simp [optTM, encTextMatch, pick_el]

/-- the node `encParamFilter` produces for an acceptable param-filter -/
def paramNode (p : ParamFilter) : Node :=
  el "param-filter" [att "name" p.name] (indNodes p.isNotDefined ++ optTM p.textMatch)

theorem encParamFilter_ok (p : ParamFilter) (h : Paramok p) : encParamFilter p = .ok (paramNode p) := by
  unfold encParamFilter paramNode
  have : ¬ (p.isNotDefined = true ∧ p.textMatch.isSome = true) := by
    intro ⟨h1, h2⟩; rw [h.1 h1] at h2; cases h2
  simp [this]

theorem decParamFilter_node (p : ParamFilter) (h : Paramok p) : decParamFilter (paramNode p) = .ok p := by
  obtain ⟨name, i, tm⟩ := p
  unfold paramNode decParamFilter
  simp only [el, checkNs, Node.space?, if_true, bind, Except.bind]
  have hpick : ∀ loc, (indNodes i ++ optTM tm).filter (·.localIs loc) = pick loc (indNodes i ++ optTM tm) := fun _ => rfl
  rw [any_eq_pick, hpick]
  cases tm with
  | none =>
    cases i <;> simp +decide [pick_append, pick_ind, pick_optTM, optTM, indNodes, pick_el, attr, att, pure, Except.pure]
  | some t =>
    have ht := textMatch_roundtrip t (h.2 t rfl)
    have hi : i = false := by
      cases hi : i
      · rfl
      · have := h.1 hi; cases this
    subst hi
    have hl : pick "text-match" [encTextMatch t] = [encTextMatch t] := by
      unfold encTextMatch; rw [pick_el]; simp
    have hl2 : pick "is-not-defined" [encTextMatch t] = [] := by
      unfold encTextMatch; rw [pick_el]; simp
    simp [pick_append, pick_ind, pick_optTM, optTM, indNodes, hl, hl2, ht, attr, att, pure, Except.pure, Except.map]

theorem pick_paramNodes (loc : String) (ps : List ParamFilter) :
    pick loc (ps.map paramNode) = if "param-filter" = loc then ps.map paramNode else [] := by
  have h : paramNode = fun p => el "param-filter" [att "name" p.name] (indNodes p.isNotDefined ++ optTM p.textMatch) := by
    funext p; rfl
  rw [h]; exact pick_map_el loc "param-filter" ps _ _

-- prop-filter --------------------------------------------------------------------------------------------------------------

def propNode (p : PropFilter) : Node :=
  el "prop-filter" ([att "name" p.name] ++ atOpt "test" p.test)
    (indNodes p.isNotDefined ++ p.textMatches.map encTextMatch ++ p.params.map paramNode)

theorem encPropFilter_ok (p : PropFilter) (h : PFok p) : encPropFilter p = .ok (propNode p) := by
  obtain ⟨_, hind, _, hpar⟩ := h
  have hm : p.params.mapM encParamFilter = .ok (p.params.map paramNode) :=
    mapM_ok _ _ _ (fun x hx => encParamFilter_ok x (hpar x hx))
  have hc : ¬ (p.isNotDefined = true ∧ ((!p.textMatches.isEmpty) = true ∨ (!p.params.isEmpty) = true)) := by
    intro ⟨h1, h2⟩
    obtain ⟨ht, hp⟩ := hind h1
    rcases h2 with h2 | h2 <;> simp [ht, hp] at h2
  unfold encPropFilter propNode
  simp only [hc, if_false, hm]

theorem decEnum_test (name t : String) (h : validTest t = true) :
    decEnum carddavFilterTests ([att "name" name] ++ atOpt "test" t) "test" = .ok t := by
  unfold validTest at h
  unfold decEnum atOpt
  by_cases ht : t = ""
  · subst ht; simp [attr, att]
  · have hv : carddavFilterTests.contains t = true := by simpa [ht] using h
    have hat : attr ([att "name" name] ++ [att "test" t]) "test" = some t := by
      simp [attr, att, List.find?_cons]
    simp only [ht, if_false, hat, hv, if_true]

theorem decEnum_filterTest (t : String) (h : validTest t = true) :
    decEnum carddavFilterTests (atOpt "test" t) "test" = .ok t := by
  unfold validTest at h
  unfold decEnum atOpt
  by_cases ht : t = ""
  · subst ht; simp [attr]
  · have hv : carddavFilterTests.contains t = true := by simpa [ht] using h
    have hm : t ∈ carddavFilterTests := by simpa using hv
    simp [ht, attr, att, hm]

theorem decPropFilter_node (p : PropFilter) (h : PFok p) : decPropFilter (propNode p) = .ok p := by
  obtain ⟨name, test, i, tms, params⟩ := p
  obtain ⟨htest, hind, htm, hpar⟩ := h
  simp only at htest hind htm hpar
  unfold propNode decPropFilter
  simp only [el, checkNs, Node.space?, if_true, bind, Except.bind]
  rw [decEnum_test name test htest]
  simp only []
  generalize hcs : indNodes i ++ tms.map encTextMatch ++ params.map paramNode = cs
  have hpick : ∀ loc, cs.filter (·.localIs loc) = pick loc cs := fun _ => rfl
  rw [any_eq_pick, hpick, hpick]
  have h1 : pick "text-match" cs = tms.map encTextMatch := by
    simp [← hcs, pick_append, pick_ind, pick_textMatches, pick_paramNodes]
  have h2 : pick "param-filter" cs = params.map paramNode := by
    simp [← hcs, pick_append, pick_ind, pick_textMatches, pick_paramNodes]
  have h3 : pick "is-not-defined" cs = indNodes i := by
    simp [← hcs, pick_append, pick_ind, pick_textMatches, pick_paramNodes]
  rw [h1, h2, h3]
  rw [mapM_map_ok encTextMatch decTextMatch tms (fun t ht => textMatch_roundtrip t (htm t ht))]
  simp only []
  rw [mapM_map_ok paramNode decParamFilter params (fun x hx => decParamFilter_node x (hpar x hx))]
  simp only []
  cases i
  · simp [indNodes, attr, att, pure, Except.pure]
  · obtain ⟨ht, hp⟩ := hind rfl
    subst ht hp
    simp [indNodes, attr, att, pure, Except.pure]

theorem pick_propNodes (loc : String) (ps : List PropFilter) :
    pick loc (ps.map propNode) = if "prop-filter" = loc then ps.map propNode else [] := by
  have h : propNode = fun p => el "prop-filter" ([att "name" p.name] ++ atOpt "test" p.test)
      (indNodes p.isNotDefined ++ p.textMatches.map encTextMatch ++ p.params.map paramNode) := by
    funext p; rfl
  rw [h]; exact pick_map_el loc "prop-filter" ps _ _

-- the query -----------------------------------------------------------------------------------------------------------------

def queryNode (q : Query) : Node :=
  el "addressbook-query" []
    ([encPropReq q.allProp q.props, el "filter" (atOpt "test" q.filterTest) (q.propFilters.map propNode)] ++ encLimit q.limit)

theorem encodeQuery_ok (q : Query) (h : Expressible q) : encodeQuery q = .ok (queryNode q) := by
  have hm : q.propFilters.mapM encPropFilter = .ok (q.propFilters.map propNode) :=
    mapM_ok _ _ _ (fun x hx => encPropFilter_ok x (h.2 x hx))
  unfold encodeQuery queryNode
  simp only [hm]

/-- `decLimit` looks at the limit children only -/
theorem decLimit_pick (cs : List Node) : decLimit cs = decLimit (pick "limit" cs) := by
  unfold decLimit pick
  rw [List.filter_filter]
  simp

def dataChildren (allProp : Bool) (props : List String) : List Node :=
  if allProp then [el "allprop" [] []] else props.map (fun n => el "prop" [att "name" n] [])

theorem props_ns (props : List String) :
    (props.map (fun n => el "prop" [att "name" n] [])).any (fun p => decide (p.space? ≠ some nsCard)) = false := by
  induction props with
  | nil => rfl
  | cons x xs ih => rw [List.map_cons, List.any_cons, ih]; simp [el, Node.space?]

theorem props_names (props : List String) : (props.map (fun n => el "prop" [att "name" n] [])).map propNameOf = props := by
  induction props with
  | nil => rfl
  | cons x xs ih => rw [List.map_cons, List.map_cons, ih]; simp [el, propNameOf, attr, att]

theorem decDataChildren_enc (allProp : Bool) (props : List String) :
    decDataChildren (dataChildren allProp props) = .ok (allProp, if allProp then [] else props) := by
  unfold decDataChildren dataChildren
  cases allProp
  · simp only [Bool.false_eq_true, if_false]
    have hp : ∀ loc, (props.map (fun n => el "prop" [att "name" n] [])).filter (·.localIs loc) =
        pick loc (props.map (fun n => el "prop" [att "name" n] [])) := fun _ => rfl
    rw [any_eq_pick, hp, pick_map_el, pick_map_el]
    simp only [show ¬ ("prop" = "allprop") by decide, if_false, if_true, List.isEmpty_nil, Bool.not_true]
    rw [props_ns, props_names]
    simp
  · simp +decide [el, Node.localIs, Node.space?]

theorem decDataReq_enc (allProp : Bool) (props : List String) :
    decDataReq [el "address-data" [] (dataChildren allProp props), dav "getlastmodified" [], dav "getetag" []]
      = .ok (allProp, if allProp then [] else props) := by
  have := decDataChildren_enc allProp props
  unfold decDataReq
  simp only [List.find?_cons, el, Node.isElem, beq_self_eq_true, Bool.and_self]
  simpa [el] using this

/-- the backend receives the caller's query: general round trip, for every expressible query (any number of prop
    filters, text matches and param filters, any strings) and every limit a Go `int` can hold -/
theorem decodeQuery_queryNode (q : Query) (h : Expressible q) (hlim : q.limit < 9223372036854775808) :
    decodeQuery (queryNode q) = .ok (some (denotes q)) := by
  obtain ⟨allProp, props, ft, pfs, limit⟩ := q
  obtain ⟨hft, hpf⟩ := h
  simp only at hft hpf hlim
  unfold queryNode decodeQuery dataReqOf filterOf
  simp only [el, beq_self_eq_true, Bool.and_self, Bool.not_true, Bool.false_eq_true, if_false, bind, Except.bind]
  generalize hcs : ([encPropReq allProp props, Node.elem ⟨nsCard, "filter"⟩ (atOpt "test" ft) (pfs.map propNode)] ++ encLimit limit) = cs
  have hlimitNodes : ∀ n ∈ encLimit limit, n.isElem nsDav "prop" = false ∧ n.localIs "filter" = false := by
    intro n hn; unfold encLimit at hn; split at hn
    · simp at hn; subst hn; simp [el, Node.isElem, Node.localIs, nsCard, nsDav]
    · cases hn
  have hprop : cs.filter (·.isElem nsDav "prop") = [encPropReq allProp props] := by
    rw [← hcs, List.filter_append]
    have : (encLimit limit).filter (·.isElem nsDav "prop") = [] := by
      rw [List.filter_eq_nil_iff]; intro n hn; simp [(hlimitNodes n hn).1]
    rw [this]; simp [List.filter_cons, encPropReq, dav, Node.isElem, nsCard, nsDav]
  have hfil : cs.filter (·.localIs "filter") = [Node.elem ⟨nsCard, "filter"⟩ (atOpt "test" ft) (pfs.map propNode)] := by
    rw [← hcs, List.filter_append]
    have : (encLimit limit).filter (·.localIs "filter") = [] := by
      rw [List.filter_eq_nil_iff]; intro n hn; simp [(hlimitNodes n hn).2]
    rw [this]; simp [List.filter_cons, encPropReq, dav, Node.localIs]
  have hlimit : decLimit cs = decLimit (encLimit limit) := by
    rw [decLimit_pick cs, decLimit_pick (encLimit limit)]
    congr 1
    rw [← hcs, pick_append]
    simp [pick, List.filter_cons, encPropReq, dav, Node.localIs]
  rw [hprop, hfil]
  simp only [List.getLast?_singleton, encPropReq, dav]
  have hdr := decDataReq_enc allProp props
  simp only [dataChildren, dav] at hdr
  rw [hdr]
  simp only [ne_eq, not_true_eq_false, if_false]
  rw [decEnum_filterTest ft hft]
  simp only []
  have hpick : (pfs.map propNode).filter (·.localIs "prop-filter") = pfs.map propNode := by
    have := pick_propNodes "prop-filter" pfs
    simpa [pick] using this
  rw [hpick, mapM_map_ok propNode decPropFilter pfs (fun x hx => decPropFilter_node x (hpf x hx))]
  simp only [hlimit]
  by_cases hpos : limit > 0
  · have hk : ∃ k : Nat, limit = (k : Int) ∧ k ≠ 0 ∧ k < 9223372036854775808 := ⟨limit.toNat, by omega, by omega, by omega⟩
    obtain ⟨k, rfl, hk0, hkm⟩ := hk
    rw [C09_limit k hk0 hkm]
    cases k with
    | zero => exact absurd rfl hk0
    | succ k => simp [denotes, pure, Except.pure]
  · have : encLimit limit = [] := by unfold encLimit; simp [hpos]
    rw [this]
    simp [decLimit, denotes, hpos, pure, Except.pure]

end GoWebdav.Lemmas.CarddavWire
