import GoWebdav.Std.Path
namespace GoWebdav.Lemmas.Path
open GoWebdav GoWebdav.Std.Path

/-- rooted: everything that ever sits on the stack, hence everything in the result, is a normal segment -/
theorem cleanSegs_rooted_normal (st inp : List Seg) (hst : ∀ s ∈ st, Normal s) (hin : ∀ s ∈ inp, slash ∉ s) :
    ∀ s ∈ cleanSegs true st inp, Normal s := by
  induction inp generalizing st with
  | nil => intro s hs; simp [cleanSegs] at hs; exact hst s hs
  | cons a rest ih =>
    have hrest : ∀ s ∈ rest, slash ∉ s := fun s h => hin s (List.mem_cons_of_mem _ h)
    unfold cleanSegs
    by_cases h1 : a = [] ∨ a = dot
    · simp only [h1, if_true]; exact ih st hst hrest
    · simp only [h1, if_false]
      by_cases h2 : a = dotdot
      · simp only [h2, if_true]
        cases st with
        | nil => simp; exact ih [] (by simp) hrest
        | cons top st' =>
          have htop : top ≠ dotdot := (hst top (by simp)).2.2.1
          simp only [htop, if_false]
          exact ih st' (fun s h => hst s (List.mem_cons_of_mem _ h)) hrest
      · simp only [h2, if_false]
        apply ih (a :: st) _ hrest
        intro s hs
        rcases List.mem_cons.mp hs with rfl | h
        · exact ⟨fun h => h1 (Or.inl h), fun h => h1 (Or.inr h), h2, hin _ (by simp)⟩
        · exact hst s h

/-- already-normal input is left alone -/
theorem cleanSegs_of_normal (rooted : Bool) (st inp : List Seg) (hin : ∀ s ∈ inp, Normal s) :
    cleanSegs rooted st inp = st.reverse ++ inp := by
  induction inp generalizing st with
  | nil => simp [cleanSegs]
  | cons a rest ih =>
    have ha := hin a (by simp)
    unfold cleanSegs
    have h1 : ¬ (a = [] ∨ a = dot) := fun h => h.elim ha.1 ha.2.1
    simp only [h1, if_false, ha.2.2.1]
    rw [ih (a :: st) (fun s h => hin s (List.mem_cons_of_mem _ h))]
    simp

theorem splitSlash_noslash (l : Bytes) : ∀ s ∈ splitSlash l, slash ∉ s := by
  induction l with
  | nil => simp [splitSlash]
  | cons c cs ih =>
    unfold splitSlash
    by_cases hc : c = slash
    · simp only [hc, if_true]; intro s hs
      rcases List.mem_cons.mp hs with rfl | h
      · simp
      · exact ih s h
    · simp only [hc, if_false]
      cases hsp : splitSlash cs with
      | nil => intro s hs; simp at hs; subst hs; simp [Ne.symm hc]
      | cons s0 ss =>
        intro s hs
        rw [hsp] at ih
        rcases List.mem_cons.mp hs with rfl | h
        · have := ih s0 (by simp); simp [Ne.symm hc, this]
        · exact ih s (List.mem_cons_of_mem _ h)

/-- C03 core: for EVERY request-path byte string, the segments below the root are normal:
    no "", ".", "..", no separator -/
theorem rootedSegs_normal (name : Bytes) : ∀ s ∈ rootedSegs name, Normal s :=
  cleanSegs_rooted_normal [] _ (by simp) (splitSlash_noslash name)

theorem splitSlash_seg_append (s : Seg) (hs : slash ∉ s) (rest : Bytes) :
    splitSlash (s ++ slash :: rest) = s :: splitSlash rest := by
  induction s with
  | nil => simp [splitSlash]
  | cons c cs ih =>
    have hc : c ≠ slash := fun h => hs (by simp [h])
    have hcs : slash ∉ cs := fun h => hs (List.mem_cons_of_mem _ h)
    simp only [List.cons_append, splitSlash, hc, if_false, ih hcs]

theorem splitSlash_seg (s : Seg) (hs : slash ∉ s) : splitSlash s = [s] := by
  induction s with
  | nil => simp [splitSlash]
  | cons c cs ih =>
    have hc : c ≠ slash := fun h => hs (by simp [h])
    have hcs : slash ∉ cs := fun h => hs (List.mem_cons_of_mem _ h)
    simp only [splitSlash, hc, if_false, ih hcs]

/-- `strings.Split(render segs ++ tail, "/") = "" :: segs ++ …` with an optional trailing slash -/
theorem splitSlash_render (segs : List Seg) (h : ∀ s ∈ segs, slash ∉ s) (hne : segs ≠ []) (trailing : Bool) :
    splitSlash (renderSegs segs ++ (if trailing then [slash] else [])) = [] :: segs ++ (if trailing then [[]] else []) := by
  induction segs with
  | nil => exact absurd rfl hne
  | cons s ss ih =>
    have hs := h s (by simp)
    cases ss with
    | nil =>
      cases trailing
      · simp [renderSegs, splitSlash, splitSlash_seg s hs]
      · simp only [renderSegs, List.append_nil, if_true, List.cons_append, splitSlash]
        rw [splitSlash_seg_append s hs]; simp [splitSlash]
    | cons t ts =>
      have := ih (fun x hx => h x (List.mem_cons_of_mem _ hx)) (by simp)
      simp only [renderSegs, List.cons_append, List.append_assoc] at this ⊢
      simp only [splitSlash, if_true]
      rw [splitSlash_seg_append s hs]
      simp only [splitSlash, if_true] at this
      simp at this
      rw [this]

theorem render_append (pre below : List Seg) : renderSegs (pre ++ below) = renderSegs pre ++ renderSegs below := by
  induction pre with
  | nil => simp [renderSegs]
  | cons s ss ih => simp [renderSegs, ih]

/-- cleaning a rendered normal path (with or without trailing slash) gives back its segments -/
theorem rootedSegs_render (segs : List Seg) (h : ∀ s ∈ segs, Normal s) (hne : segs ≠ []) (trailing : Bool) :
    rootedSegs (renderSegs segs ++ (if trailing then [slash] else [])) = segs := by
  unfold rootedSegs
  rw [splitSlash_render segs (fun s hs => (h s hs).2.2.2) hne trailing]
  simp only [List.cons_append]
  unfold cleanSegs
  simp only [true_or, if_true]
  cases trailing
  · simp only [Bool.false_eq_true, if_false, List.append_nil]
    rw [cleanSegs_of_normal true [] segs h]; simp
  · simp only [if_true]
    -- the empty last segment is dropped
    have : ∀ (st : List Seg) (l : List Seg), (∀ s ∈ l, Normal s) → cleanSegs true st (l ++ [[]]) = st.reverse ++ l := by
      intro st l hl
      induction l generalizing st with
      | nil => simp [cleanSegs]
      | cons a rest ih =>
        have ha := hl a (by simp)
        simp only [List.cons_append]
        unfold cleanSegs
        have h1 : ¬ (a = [] ∨ a = dot) := fun h => h.elim ha.1 ha.2.1
        simp only [h1, if_false, ha.2.2.1]
        rw [ih (a :: st) (fun s hs => hl s (List.mem_cons_of_mem _ hs))]; simp
    rw [this [] segs h]; simp

end GoWebdav.Lemmas.Path

namespace GoWebdav.Lemmas.Path
open GoWebdav GoWebdav.Std.Path

theorem renderSegs_head (segs : List Seg) (hne : segs ≠ []) : ∃ t, renderSegs segs = slash :: t := by
  cases segs with
  | nil => exact absurd rfl hne
  | cons s ss => exact ⟨_, rfl⟩

theorem clean_render (segs : List Seg) (h : ∀ s ∈ segs, Normal s) (hne : segs ≠ []) (trailing : Bool) :
    clean (renderSegs segs ++ (if trailing then [slash] else [])) = renderSegs segs := by
  obtain ⟨t, ht⟩ := renderSegs_head segs hne
  have hrs := rootedSegs_render segs h hne trailing
  unfold clean
  have hne' : renderSegs segs ++ (if trailing then [slash] else []) ≠ [] := by rw [ht]; simp
  have habs : isAbs (renderSegs segs ++ (if trailing then [slash] else [])) = true := by rw [ht]; simp [isAbs]
  simp only [hne', if_false, habs, if_true]
  unfold rootedSegs at hrs
  rw [hrs]
  cases segs with
  | nil => exact absurd rfl hne
  | cons s ss => rfl

theorem trimPrefix_append (a b : Bytes) : trimPrefix (a ++ b) a = b := by
  unfold trimPrefix
  have : a.isPrefixOf (a ++ b) = true := by
    rw [List.isPrefixOf_iff_prefix]; exact List.prefix_append a b
  simp [this]

theorem joinSegs_render (below : List Seg) (hne : below ≠ []) : slash :: joinSegs below = renderSegs below := by
  induction below with
  | nil => exact absurd rfl hne
  | cons s ss ih =>
    cases ss with
    | nil => simp [joinSegs, renderSegs]
    | cons t ts =>
      have := ih (by simp)
      simp only [joinSegs, renderSegs] at this ⊢
      rw [this]

/-- a rooted string stays rooted under `Clean`, an unrooted one stays unrooted -/
theorem cleanSegs_unrooted_heads (st inp : List Seg) (hst : ∀ s ∈ st, s ≠ [] ∧ slash ∉ s) (hin : ∀ s ∈ inp, slash ∉ s) :
    ∀ s ∈ cleanSegs false st inp, s ≠ [] ∧ slash ∉ s := by
  induction inp generalizing st with
  | nil => intro s hs; simp [cleanSegs] at hs; exact hst s hs
  | cons a rest ih =>
    have hrest : ∀ s ∈ rest, slash ∉ s := fun s h => hin s (List.mem_cons_of_mem _ h)
    have hdd : dotdot ≠ [] ∧ slash ∉ dotdot := by decide
    unfold cleanSegs
    by_cases h1 : a = [] ∨ a = dot
    · simp only [h1, if_true]; exact ih st hst hrest
    · simp only [h1, if_false]
      by_cases h2 : a = dotdot
      · simp only [h2, if_true]
        cases st with
        | nil =>
          simp only [Bool.false_eq_true, if_false]
          exact ih [dotdot] (by intro s hs; simp at hs; subst hs; exact hdd) hrest
        | cons top st' =>
          by_cases htop : top = dotdot
          · simp only [htop, if_true]
            apply ih _ _ hrest
            intro s hs
            rcases List.mem_cons.mp hs with rfl | hs
            · exact hdd
            · rw [← htop] at hs; exact hst s hs
          · simp only [htop, if_false]
            exact ih st' (fun s h => hst s (List.mem_cons_of_mem _ h)) hrest
      · simp only [h2, if_false]
        apply ih (a :: st) _ hrest
        intro s hs
        rcases List.mem_cons.mp hs with rfl | h
        · exact ⟨fun h => h1 (Or.inl h), hin _ (by simp)⟩
        · exact hst s h

theorem isAbs_clean (s : Bytes) : isAbs (clean s) = isAbs s := by
  unfold clean
  by_cases he : s = []
  · simp [he, isAbs, dot, slash]
  · by_cases ha : isAbs s = true
    · simp only [he, if_false, ha, if_true]
      cases hc : cleanSegs true [] (splitSlash s) with
      | nil => simp [isAbs]
      | cons a as => simp [isAbs, renderSegs]
    · simp only [Bool.not_eq_true] at ha
      simp only [he, if_false, ha, Bool.false_eq_true]
      cases hc : cleanSegs false [] (splitSlash s) with
      | nil => simp [isAbs, dot, slash]
      | cons a as =>
        have := cleanSegs_unrooted_heads [] (splitSlash s) (by simp) (splitSlash_noslash s) a (by rw [hc]; simp)
        cases a with
        | nil => exact absurd rfl this.1
        | cons c cs =>
          have hc' : c ≠ slash := fun h => this.2 (by simp [h])
          cases as <;> simp [joinSegs, isAbs, hc']

-- the spelling of a prefix does not matter -----------------------------------------------------------------------------------------

theorem splitSlash_append_slash (a b : Bytes) : splitSlash (a ++ slash :: b) = splitSlash a ++ splitSlash b := by
  induction a with
  | nil => simp [splitSlash]
  | cons c cs ih =>
    simp only [List.cons_append, splitSlash]
    by_cases hc : c = slash
    · simp [hc, ih]
    · simp only [hc, if_false, ih]
      cases h : splitSlash cs with
      | nil => 
        -- splitSlash never returns []
        exfalso
        cases cs with
        | nil => simp [splitSlash] at h
        | cons d ds =>
          simp only [splitSlash] at h
          split at h
          · simp at h
          · split at h <;> simp at h
      | cons s ss => simp

theorem cleanSegs_append (r : Bool) (st xs ys : List Seg) :
    cleanSegs r st (xs ++ ys) = cleanSegs r (cleanSegs r st xs).reverse ys := by
  induction xs generalizing st with
  | nil => simp [cleanSegs]
  | cons x xs ih =>
    simp only [List.cons_append, cleanSegs]
    by_cases h1 : x = [] ∨ x = dot
    · simp only [h1, if_true]; exact ih st
    · simp only [h1, if_false]
      by_cases h2 : x = dotdot
      · simp only [h2, if_true]
        cases st with
        | nil => cases r <;> simp [ih]
        | cons top st' =>
          by_cases h3 : top = dotdot
          · simp only [h3, if_true]; exact ih _
          · simp only [h3, if_false]; exact ih _
      · simp only [h2, if_false]; exact ih _

/-- `Clean(prefix + "/" + name)` for a clean name = the cleaned prefix followed by the name's segments, whatever the
    spelling of the prefix (trailing slashes, `/./`, `//`, `x/..`) -/
theorem rootedSegs_join (spelled : Bytes) (below : List Seg) (hb : ∀ s ∈ below, Normal s) (hne : below ≠ []) :
    rootedSegs (spelled ++ slash :: joinSegs below) = rootedSegs spelled ++ below := by
  have hns : ∀ s ∈ below, slash ∉ s := fun s hs => (hb s hs).2.2.2
  have hsplit : splitSlash (joinSegs below) = below := by
    have := splitSlash_render below hns hne false
    simp only [Bool.false_eq_true, if_false, List.append_nil] at this
    rw [← joinSegs_render below hne] at this
    simp only [splitSlash, if_true, List.cons.injEq, true_and] at this
    exact this
  unfold rootedSegs
  rw [splitSlash_append_slash, hsplit, cleanSegs_append, cleanSegs_of_normal true _ below hb]
  simp

end GoWebdav.Lemmas.Path
