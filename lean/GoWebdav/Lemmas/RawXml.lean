import GoWebdav.Impl.RawXml
namespace GoWebdav.Lemmas.RawXml
open GoWebdav.Impl.RawXml

-- capture ∘ replay -----------------------------------------------------------------------------------------

theorem parseChildren_mono (f k : Nat) (l : List Tok) (x : List Raw × List Tok) (h : parseChildren f l = some x) :
    parseChildren (f + k) l = some x := by
  induction f generalizing l x with
  | zero => simp [parseChildren] at h
  | succ n ih =>
    have e : n + 1 + k = (n + k) + 1 := by omega
    rw [e]
    cases l with
    | nil => simp [parseChildren] at h
    | cons tk rest =>
      cases tk with
      | stop t => simpa [parseChildren] using h
      | leaf lf =>
        simp only [parseChildren] at h ⊢
        cases h1 : parseChildren n rest with
        | none => simp [h1] at h
        | some y => rw [ih rest y h1]; simpa [h1] using h
      | start t =>
        simp only [parseChildren] at h ⊢
        cases h1 : parseChildren n rest with
        | none => simp [h1] at h
        | some y =>
          rw [ih rest y h1]
          simp only [h1] at h ⊢
          cases h2 : parseChildren n y.2 with
          | none => simp [h2] at h
          | some z => rw [ih y.2 z h2]; simpa [h2] using h

mutual
theorem parse_prepend : ∀ (r : Raw) (more : List Tok) (res : List Raw × List Tok) (f : Nat),
    parseChildren f more = some res →
    parseChildren (f + (flatten r).length) (flatten r ++ more) = some (r :: res.1, res.2)
  | .leaf l, more, res, f, h => by
    simp only [flatten, List.length_singleton, List.singleton_append, parseChildren, h]
  | .elem t inner, more, res, f, h => by
    have hin := parse_prependL inner (Tok.stop t :: more) ([], more) 1 (by simp [parseChildren])
    simp only [flatten, List.length_cons, List.length_append, List.length_nil, List.cons_append, List.append_assoc, List.nil_append] at hin ⊢
    have e : f + ((flattenL inner).length + (0 + 1) + 1) = (f + (flattenL inner).length + 1) + 1 := by omega
    rw [e]
    simp only [parseChildren]
    have h1 : parseChildren (f + (flattenL inner).length + 1) (flattenL inner ++ Tok.stop t :: more) = some (inner ++ [], more) := by
      have := parseChildren_mono (1 + (flattenL inner).length) f _ _ hin
      rw [show 1 + (flattenL inner).length + f = f + (flattenL inner).length + 1 by omega] at this
      exact this
    have h2 : parseChildren (f + (flattenL inner).length + 1) more = some res := by
      have := parseChildren_mono f ((flattenL inner).length + 1) more res h
      rw [show f + ((flattenL inner).length + 1) = f + (flattenL inner).length + 1 by omega] at this
      exact this
    simp [h1, h2]
theorem parse_prependL : ∀ (cs : List Raw) (more : List Tok) (res : List Raw × List Tok) (f : Nat),
    parseChildren f more = some res →
    parseChildren (f + (flattenL cs).length) (flattenL cs ++ more) = some (cs ++ res.1, res.2)
  | [], more, res, f, h => by simpa [flattenL] using h
  | c :: cs, more, res, f, h => by
    have h1 := parse_prependL cs more res f h
    have h2 := parse_prepend c (flattenL cs ++ more) (cs ++ res.1, res.2) (f + (flattenL cs).length) h1
    simp only [flattenL, List.length_append, List.append_assoc, List.cons_append] at h2 ⊢
    rw [show f + ((flatten c).length + (flattenL cs).length) = f + (flattenL cs).length + (flatten c).length by omega]
    exact h2
end

/-- a captured element written out again and captured once more is the same tree; nothing after it is consumed -/
theorem parse_flatten (t : Tag) (cs : List Raw) (rest : List Tok) :
    parseElem (flatten (.elem t cs) ++ rest) = some (.elem t cs, rest) := by
  unfold parseElem
  simp only [flatten, List.cons_append, List.append_assoc, List.singleton_append, List.nil_append]
  have h := parse_prependL cs (Tok.stop t :: rest) ([], rest) 1 (by simp [parseChildren])
  have hm := parseChildren_mono (1 + (flattenL cs).length) (rest.length + 1) _ _ h
  have e : (flattenL cs ++ Tok.stop t :: rest).length + 1 = 1 + (flattenL cs).length + (rest.length + 1) := by
    simp; omega
  rw [e, hm]; simp

-- balanced ---------------------------------------------------------------------------------------------------

mutual
theorem balanced_flatten : ∀ (r : Raw) (st : List Tag) (rest : List Tok),
    balanced st (flatten r ++ rest) = balanced st rest
  | .leaf l, st, rest => by simp [flatten, balanced]
  | .elem t cs, st, rest => by
    simp only [flatten, List.cons_append, List.append_assoc, List.nil_append, balanced]
    rw [balanced_flattenL cs (t :: st) (Tok.stop t :: rest)]
    simp [balanced]
theorem balanced_flattenL : ∀ (cs : List Raw) (st : List Tag) (rest : List Tok),
    balanced st (flattenL cs ++ rest) = balanced st rest
  | [], st, rest => by simp [flattenL]
  | c :: cs, st, rest => by
    simp only [flattenL, List.append_assoc]
    rw [balanced_flatten c st _, balanced_flattenL cs st rest]
end

-- the token reader --------------------------------------------------------------------------------------------

/-- tokens still to be produced by a reader in a consistent state -/
def remaining : Reader → List Tok
  | .mk _ _ true _ _ => []
  | .mk (.leaf t) _ false _ _ => [.leaf t]
  | .mk (.elem n cs) false false _ _ => flatten (.elem n cs)
  | .mk (.elem n cs) true false c none => flattenL (cs.drop c) ++ [.stop n]
  | .mk (.elem n cs) true false c (some r) => remaining r ++ flattenL (cs.drop (c + 1)) ++ [.stop n]

def valOf : Reader → Raw | .mk v _ _ _ _ => v
/-- consistency: an existing child reader reads children[child] -/
def Consistent : Reader → Prop
  | .mk _ s _ c none => s = false → c = 0
  | .mk (.leaf _) _ _ _ (some _) => False
  | .mk (.elem _ cs) s e c (some r) => s = true ∧ e = false ∧ cs[c]? = some (valOf r) ∧ Consistent r

theorem remaining_fresh (v : Raw) : remaining (fresh v) = flatten v := by
  cases v <;> simp [fresh, remaining, flatten]

theorem firstToken_spec (v : Raw) :
    remaining (fresh v) = (firstToken v).1 :: remaining (firstToken v).2 ∧ Consistent (firstToken v).2 ∧ valOf (firstToken v).2 = v := by
  cases v with
  | leaf t => simp [fresh, remaining, firstToken, Consistent, valOf]
  | elem n cs => simp [fresh, remaining, firstToken, Consistent, valOf, flatten]

theorem drop_cons_get {α} (l : List α) (i : Nat) (x : α) (h : l[i]? = some x) : l.drop i = x :: l.drop (i + 1) := by
  induction l generalizing i with
  | nil => simp at h
  | cons a as ih =>
    cases i with
    | zero => simp at h; simp [h]
    | succ j => simp at h; simp [ih j h]

theorem drop_of_none {α} (l : List α) (i : Nat) (h : l[i]? = none) : l.drop i = [] := by
  simp at h; exact List.drop_eq_nil_of_le h

/-- one step of the state machine emits the head of `remaining` and leaves a consistent reader with the tail remaining -/
theorem next_spec : ∀ r : Reader, Consistent r →
    (remaining r = [] → (next r).1 = none) ∧
    (∀ t ts, remaining r = t :: ts → (next r).1 = some t ∧ remaining (next r).2 = ts ∧ Consistent (next r).2 ∧ valOf (next r).2 = valOf r)
  | .mk val s e c none, hc0 => by
    simp only [Consistent] at hc0
    cases e
    · cases val with
      | leaf t => simp [next, stepR, remaining, Consistent, valOf]; exact hc0
      | elem n cs =>
        cases s
        · have := hc0 rfl; subst this
          simp [next, stepR, remaining, Consistent, valOf, flatten]
        · simp only [next, stepR, remaining]
          cases hc : cs[c]? with
          | none =>
            simp [drop_of_none cs c hc, flattenL, remaining, Consistent, valOf]
          | some ch =>
            have hf := firstToken_spec ch
            rw [remaining_fresh] at hf
            simp only [drop_cons_get cs c ch hc, flattenL]
            constructor
            · intro h; simp [hf.1] at h
            · intro t ts h
              rw [hf.1] at h
              simp at h
              have hv := hf.2.2; simp only [valOf] at hv
              simp [remaining, Consistent, valOf, h.1, ← h.2, hf.2.1, hv, hc]
    · simp [next, stepR, remaining]
  | .mk val s e c (some r), hcons => by
    cases val with
    | leaf t => simp [Consistent] at hcons
    | elem n cs =>
      obtain ⟨hs, he, hget, hr⟩ := hcons
      subst hs; subst he
      have ih := next_spec r hr
      simp only [next, stepR, remaining]
      cases hrem : remaining r with
      | nil =>
        have h1 := ih.1 hrem
        cases hn : next r with
        | mk a b =>
          rw [hn] at h1; simp at h1; subst h1
          simp only [Bool.false_eq_true, if_false, Bool.not_true]
          cases hc : cs[c + 1]? with
          | none => simp [drop_of_none cs (c+1) hc, flattenL, remaining, Consistent, valOf]
          | some ch =>
            have hf := firstToken_spec ch
            rw [remaining_fresh] at hf
            simp only [drop_cons_get cs (c+1) ch hc, flattenL, List.nil_append]
            constructor
            · intro h; simp [hf.1] at h
            · intro t ts h
              rw [hf.1] at h
              simp at h
              have hv := hf.2.2; simp only [valOf] at hv
              simp [remaining, Consistent, valOf, h.1, ← h.2, hf.2.1, hv, hc]
      | cons t ts =>
        obtain ⟨h1, h2, h3, h4⟩ := ih.2 t ts hrem
        cases hn : next r with
        | mk a b =>
          rw [hn] at h1 h2 h3 h4; simp at h1 h2 h3 h4; subst h1
          simp [remaining, Consistent, valOf, h2, h3, h4, hget]
          exact h4.symm

/-- reading a consistent reader to EOF yields exactly its remaining tokens, in at most `length + 1` calls -/
theorem drain_spec (r : Reader) (hc : Consistent r) (fuel : Nat) (hf : (remaining r).length < fuel) :
    drain fuel r = remaining r := by
  induction fuel generalizing r with
  | zero => omega
  | succ n ih =>
    unfold drain
    have hs := next_spec r hc
    cases hrem : remaining r with
    | nil =>
      have := hs.1 hrem
      cases hn : next r with
      | mk a b => rw [hn] at this; simp at this; subst this; rfl
    | cons t ts =>
      obtain ⟨h1, h2, h3, _⟩ := hs.2 t ts hrem
      cases hn : next r with
      | mk a b =>
        rw [hn] at h1 h2 h3; simp at h1 h2 h3; subst h1
        simp only
        rw [ih b h3 (by rw [h2]; rw [hrem] at hf; simp at hf; omega), h2]

end GoWebdav.Lemmas.RawXml
