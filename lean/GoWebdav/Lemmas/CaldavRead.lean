import GoWebdav.Lemmas.CaldavWire
/-!
Helper lemmas for C08, client → wire: the strict RFC 4791 reader (`Spec.CaldavWire.read*`) reads what the encoder
writes, to the value that was encoded.
-/
namespace GoWebdav.Lemmas.CaldavRead
open GoWebdav GoWebdav.Std.Xml GoWebdav.Std.Time GoWebdav.Impl.Caldav GoWebdav.Impl.CaldavWire GoWebdav.Spec.CaldavWire
open GoWebdav.Lemmas.CaldavWire

/-- lists made of CalDAV-namespace elements only -/
def AllCal (cs : List Node) : Prop := ∀ n ∈ cs, ∃ l a c, n = el l a c

theorem allCal_nil : AllCal [] := fun _ h => by cases h
theorem allCal_cons (l : String) (a : List (QName × String)) (c rest : List Node) (h : AllCal rest) : AllCal (el l a c :: rest) := by
  intro n hn
  cases hn with
  | head => exact ⟨l, a, c, rfl⟩
  | tail _ h' => exact h n h'
theorem allCal_append (a b : List Node) (ha : AllCal a) (hb : AllCal b) : AllCal (a ++ b) := by
  intro n hn
  rcases List.mem_append.mp hn with h | h
  · exact ha n h
  · exact hb n h
theorem allCal_ind (b : Bool) : AllCal (ind b) := by
  cases b
  · exact allCal_nil
  · exact allCal_cons _ _ _ _ allCal_nil
theorem allCal_flag (l : String) (b : Bool) : AllCal (flag l b) := by
  cases b
  · exact allCal_nil
  · exact allCal_cons _ _ _ _ allCal_nil
theorem allCal_timeRange (s e : Int) : AllCal (encTimeRange s e) := by
  unfold encTimeRange; split
  · exact allCal_nil
  · exact allCal_cons _ _ _ _ allCal_nil
theorem allCal_encTM (t : Option TextMatch) : AllCal (encTM t) := by
  cases t
  · exact allCal_nil
  · exact allCal_cons _ _ _ _ allCal_nil
theorem allCal_map {α : Type} (xs : List α) (f : α → Node) (h : ∀ x, ∃ l a c, f x = el l a c) : AllCal (xs.map f) := by
  intro n hn
  obtain ⟨x, _, rfl⟩ := List.mem_map.mp hn
  exact h x
theorem allCal_props (ps : List PropFilter) : AllCal (ps.map encPropFilter) :=
  allCal_map _ _ (fun _ => ⟨_, _, _, rfl⟩)
theorem allCal_params (ps : List ParamFilter) : AllCal (ps.map encParamFilter) :=
  allCal_map _ _ (fun _ => ⟨_, _, _, rfl⟩)
theorem allCal_compFilters (cs : List CompFilter) : AllCal (encCompFilters cs) := by
  induction cs with
  | nil => exact allCal_nil
  | cons c cs ih =>
    obtain ⟨a, k, h⟩ := encCompFilter_local c
    rw [encCompFilters, h]; exact allCal_cons _ _ _ _ ih
theorem allCal_comps (cs : List CompReq) : AllCal (encComps cs) := by
  induction cs with
  | nil => exact allCal_nil
  | cons c cs ih =>
    obtain ⟨a, k, h⟩ := encComp_local c
    rw [encComps, h]; exact allCal_cons _ _ _ _ ih

@[simp] theorem tag_el (l : String) (a : List (QName × String)) (c : List Node) : tag (el l a c) = l := by
  simp [tag, el]
@[simp] theorem named_el (l loc : String) (a : List (QName × String)) (c : List Node) : named (el l a c) loc = (l == loc) := by
  simp [named]
theorem localIs_el (l loc : String) (a : List (QName × String)) (c : List Node) : (el l a c).localIs loc = (l == loc) := by
  simp [Node.localIs, el]

theorem named_eq_localIs (cs : List Node) (h : AllCal cs) (loc : String) : ∀ n ∈ cs, named n loc = n.localIs loc := by
  intro n hn
  obtain ⟨l, a, c, rfl⟩ := h n hn
  rw [named_el, localIs_el]

theorem filter_named (cs : List Node) (h : AllCal cs) (loc : String) : cs.filter (named · loc) = pick loc cs := by
  unfold pick
  apply List.filter_congr
  intro n hn
  exact named_eq_localIs cs h loc n hn

theorem find_named (cs : List Node) (h : AllCal cs) (loc : String) : cs.find? (named · loc) = (pick loc cs).head? := by
  rw [← filter_named cs h loc]
  induction cs with
  | nil => rfl
  | cons c cs ih =>
    rw [List.find?_cons, List.filter_cons]
    cases hc : named c loc
    · simp only [Bool.false_eq_true, if_false]
      exact ih (fun n hn => h n (List.mem_cons_of_mem _ hn))
    · simp

-- tags and the content model ---------------------------------------------------------------------------------------------

theorem dropWhile_replicate (s : String) (m : Nat) (rest : List String) (h : ∀ x ∈ rest.head?, x ≠ s) :
    (List.replicate m s ++ rest).dropWhile (· == s) = rest := by
  induction m with
  | zero =>
    cases rest with
    | nil => rfl
    | cons r rs =>
      have : r ≠ s := h r (by simp)
      simp [List.dropWhile_cons, this]
  | succ m ih => simp [List.replicate_succ, List.dropWhile_cons, ih]

theorem tags_map {α : Type} (xs : List α) (f : α → Node) (l : String) (h : ∀ x, tag (f x) = l) :
    (xs.map f).map tag = List.replicate xs.length l := by
  induction xs with
  | nil => rfl
  | cons x xs ih => simp [List.replicate_succ, h x, ih]

theorem tags_compFilters (cs : List CompFilter) : (encCompFilters cs).map tag = List.replicate cs.length "comp-filter" := by
  induction cs with
  | nil => rfl
  | cons c cs ih =>
    obtain ⟨a, k, h⟩ := encCompFilter_local c
    rw [encCompFilters, List.map_cons, ih, h]; simp [List.replicate_succ]

theorem tags_comps (cs : List CompReq) : (encComps cs).map tag = List.replicate cs.length "comp" := by
  induction cs with
  | nil => rfl
  | cons c cs ih =>
    obtain ⟨a, k, h⟩ := encComp_local c
    rw [encComps, List.map_cons, ih, h]; simp [List.replicate_succ]

theorem seq_star2 (a b : String) (hab : a ≠ b) (m k : Nat) :
    seqOK [.star a, .star b] (List.replicate m a ++ List.replicate k b) = true := by
  have h1 : (List.replicate m a ++ List.replicate k b).dropWhile (· == a) = List.replicate k b :=
    dropWhile_replicate a m _ (by
      intro x hx
      cases k with
      | zero => simp at hx
      | succ k => simp [List.replicate_succ] at hx; rw [← hx]; exact fun h => hab h.symm)
  have h2 : (List.replicate k b).dropWhile (· == b) = [] := by
    have := dropWhile_replicate b k [] (by simp)
    simpa using this
  simp [seqOK, h1, h2]

-- the leaves -------------------------------------------------------------------------------------------------------------

theorem attrsOK_name (n : String) : attrsOK ["name"] [att "name" n] = true := by simp [attrsOK, att]
@[simp] theorem reqName_att (n : String) : reqName [att "name" n] = some n := by simp [reqName, attr, att]

theorem attrsOK_time (s e : Int) : attrsOK ["start", "end"] (timeAttr "start" s ++ timeAttr "end" e) = true := by
  unfold timeAttr attrsOK att
  by_cases hs : s = Z <;> by_cases he : e = Z <;> simp [hs, he]

theorem readTime_start (s e : Int) (hs : InRange s) :
    readTime (timeAttr "start" s ++ timeAttr "end" e) "start" = some (if s = Z then none else some s) := by
  unfold readTime; rw [attr_timeAttrs_start]
  by_cases h : s = Z
  · simp [h]
  · simp [h, parse_fmt s hs]

theorem readTime_end (s e : Int) (he : InRange e) :
    readTime (timeAttr "start" s ++ timeAttr "end" e) "end" = some (if e = Z then none else some e) := by
  unfold readTime; rw [attr_timeAttrs_end]
  by_cases h : e = Z
  · simp [h]
  · simp [h, parse_fmt e he]

theorem readTimeRange_enc (s e : Int) (hs : InRange s) (he : InRange e) (hne : ¬ (s = Z ∧ e = Z)) :
    readTimeRange (el "time-range" (timeAttr "start" s ++ timeAttr "end" e) []) = some (s, e) := by
  have h1 := readTime_start s e hs
  have h2 := readTime_end s e he
  have hn : named (el "time-range" (timeAttr "start" s ++ timeAttr "end" e) []) "time-range" = true := by simp
  unfold readTimeRange
  simp only [el] at hn ⊢
  simp only [hn, attrsOK_time, Bool.and_self, Bool.not_true, Bool.false_eq_true, if_false, h1, h2, bind, Option.bind, pure]
  by_cases hs' : s = Z <;> by_cases he' : e = Z <;> simp_all

theorem readExpand_enc (s e : Int) (hs : InRange s) (he : InRange e) (hs' : s ≠ Z) (he' : e ≠ Z) :
    readExpand (el "expand" (timeAttr "start" s ++ timeAttr "end" e) []) = some (s, e) := by
  have h1 := readTime_start s e hs
  have h2 := readTime_end s e he
  have hn : named (el "expand" (timeAttr "start" s ++ timeAttr "end" e) []) "expand" = true := by simp
  unfold readExpand
  simp only [el] at hn ⊢
  simp only [hn, attrsOK_time, Bool.and_self, Bool.not_true, Bool.false_eq_true, if_false, h1, h2, bind, Option.bind, pure]
  simp [hs', he']

theorem readTextMatch_enc (t : TextMatch) : readTextMatch (encTextMatch t) = some t := by
  obtain ⟨text, neg⟩ := t
  have hn : named (encTextMatch ⟨text, neg⟩) "text-match" = true := by simp [encTextMatch]
  have ht : (textNodes text).all isText = true := by
    unfold textNodes; split <;> simp [isText]
  unfold readTextMatch
  simp only [encTextMatch, el] at hn ⊢
  simp only [hn, ht]
  cases neg <;>
    simp [negAttr, Generated.caldavNegateFormat, attrsOK, att, attr, chardata_textNodes]

theorem readParamFilter_enc (p : ParamFilter) (h : okParam p = true) : readParamFilter (encParamFilter p) = some p := by
  obtain ⟨name, i, tm⟩ := p
  unfold okParam at h
  have hn : named (encParamFilter ⟨name, i, tm⟩) "param-filter" = true := by simp [encParamFilter]
  unfold readParamFilter
  simp only [encParamFilter, el] at hn ⊢
  simp only [hn, attrsOK_name, Bool.and_self, Bool.not_true, Bool.false_eq_true, if_false, reqName_att, bind, Option.bind, pure]
  cases i <;> cases tm
  · simp [ind, encTM]
  · rename_i t
    have := readTextMatch_enc t
    simp [ind, encTM, encTextMatch, el] at this ⊢
    simp [named, tag, this]
  · simp [ind, encTM, el, named, tag]
  · simp at h

theorem isEmptyEl_ind : isEmptyEl (el "is-not-defined" [] []) "is-not-defined" = true := by
  simp [isEmptyEl, el, named, tag]

/-- a child list without an is-not-defined element does not take the is-not-defined branch -/
theorem not_ind_branch (cs : List Node) (h : AllCal cs) (hp : pick "is-not-defined" cs = []) :
    ¬ (cs.length = 1 ∧ cs.all (isEmptyEl · "is-not-defined") = true) := by
  intro ⟨hl, ha⟩
  match cs, hl with
  | [n], _ =>
    obtain ⟨l, a, c, rfl⟩ := h n (by simp)
    rw [pick_el] at hp
    by_cases hli : l = "is-not-defined"
    · simp [hli] at hp
    · simp [isEmptyEl, hli] at ha

theorem mapM_map_some {α β : Type} (enc : α → β) (dec : β → Option α) (l : List α)
    (h : ∀ x ∈ l, dec (enc x) = some x) : (l.map enc).mapM dec = some l := by
  induction l with
  | nil => rfl
  | cons x xs ih =>
    rw [List.map_cons, List.mapM_cons, h x (by simp), ih (fun y hy => h y (by simp [hy]))]
    rfl

theorem readParams_enc (ps : List ParamFilter) (h : ps.all okParam = true) : (ps.map encParamFilter).mapM readParamFilter = some ps :=
  mapM_map_some _ _ _ (fun x hx => readParamFilter_enc x (by simpa using (List.all_eq_true.mp h) x hx))

theorem seq_opt_star (a b : String) (hab : a ≠ b) (pre : List String) (hpre : pre = [] ∨ pre = [a]) (k : Nat) :
    seqOK [.opt a, .star b] (pre ++ List.replicate k b) = true := by
  have h2 : (List.replicate k b).dropWhile (· == b) = [] := by
    have := dropWhile_replicate b k [] (by simp)
    simpa using this
  rcases hpre with rfl | rfl
  · cases k with
    | zero => simp [seqOK]
    | succ k =>
      have : (b == a) = false := by simpa using fun h => hab h.symm
      simp only [List.nil_append, List.replicate_succ, seqOK, this, Bool.false_eq_true, if_false]
      have h3 := h2
      simp only [List.replicate_succ] at h3
      simp [h3]
  · simp [seqOK, h2]

theorem optRange_of (cs : List Node) (hall : AllCal cs) (s e : Int) (hs : InRange s) (he : InRange e)
    (h : pick "time-range" cs = encTimeRange s e) : optRange cs = some (s, e) := by
  unfold optRange
  rw [find_named cs hall, h]
  unfold encTimeRange
  by_cases hz : s = Z ∧ e = Z
  · simp [hz, hz.1, hz.2]
  · simp [hz, readTimeRange_enc s e hs he hz]

theorem optTextMatch_of (cs : List Node) (hall : AllCal cs) (tm : Option TextMatch)
    (h : pick "text-match" cs = encTM tm) : optTextMatch cs = some tm := by
  unfold optTextMatch
  rw [find_named cs hall, h]
  cases tm with
  | none => simp [encTM]
  | some t => simp [encTM, readTextMatch_enc]

def tmTags : Option TextMatch → List String
  | some _ => ["text-match"]
  | none => []
def trTags (s e : Int) : List String := if s = Z ∧ e = Z then [] else ["time-range"]

theorem tags_timeRange (s e : Int) : (encTimeRange s e).map tag = trTags s e := by
  unfold encTimeRange trTags; split <;> simp
theorem tags_encTM (tm : Option TextMatch) : (encTM tm).map tag = tmTags tm := by
  cases tm <;> simp [encTM, encTextMatch, tmTags]

theorem readPropFilter_enc (p : PropFilter) (h : okProp p = true) (hr : rfcProp p = true) :
    readPropFilter (encPropFilter p) = some p := by
  obtain ⟨name, i, s, e, tm, params⟩ := p
  unfold okProp at h
  unfold rfcProp at hr
  simp only [Bool.and_eq_true] at h
  obtain ⟨⟨⟨hs, he⟩, hps⟩, hex⟩ := h
  have hs := inRange_of s hs
  have he := inRange_of e he
  have hn : named (encPropFilter ⟨name, i, s, e, tm, params⟩) "prop-filter" = true := by simp [encPropFilter]
  unfold readPropFilter
  simp only [encPropFilter, el] at hn ⊢
  simp only [hn, attrsOK_name, Bool.and_self, Bool.not_true, Bool.false_eq_true, if_false, reqName_att, bind, Option.bind, pure]
  cases i
  · -- not is-not-defined
    generalize hcs : ind false ++ encTimeRange s e ++ encTM tm ++ params.map encParamFilter = cs
    have hall : AllCal cs := by
      rw [← hcs]
      exact allCal_append _ _ (allCal_append _ _ (allCal_append _ _ (allCal_ind _) (allCal_timeRange _ _)) (allCal_encTM _))
        (allCal_map _ _ (fun x => ⟨_, _, _, rfl⟩))
    have hnb := not_ind_branch cs hall (by simp [← hcs, ind, pick_append, pick_encTimeRange, pick_encTM, pick_params])
    have htr := optRange_of cs hall s e hs he (by simp [← hcs, pick_append, pick_ind, pick_encTimeRange, pick_encTM, pick_params])
    have htm := optTextMatch_of cs hall tm (by simp [← hcs, pick_append, pick_ind, pick_encTimeRange, pick_encTM, pick_params])
    have hpar : (cs.filter (named · "param-filter")).mapM readParamFilter = some params := by
      rw [filter_named cs hall]
      have : pick "param-filter" cs = params.map encParamFilter := by
        simp [← hcs, pick_append, pick_ind, pick_encTimeRange, pick_encTM, pick_params]
      rw [this]; exact readParams_enc params hps
    have htags : cs.map tag = trTags s e ++ tmTags tm ++ List.replicate params.length "param-filter" := by
      rw [← hcs]
      simp only [List.map_append, ind, List.map_nil, List.nil_append, tags_timeRange, tags_encTM]
      rw [tags_map params encParamFilter "param-filter" (fun x => by simp [encParamFilter])]
      simp
    have hseq : (seqOK [.opt "time-range", .star "param-filter"] (cs.map tag) || seqOK [.opt "text-match", .star "param-filter"] (cs.map tag)) = true := by
      rw [htags]
      by_cases hz : s = Z ∧ e = Z
      · cases tm with
        | none =>
          have := seq_opt_star "time-range" "param-filter" (by decide) [] (Or.inl rfl) params.length
          simp only [trTags, hz, and_self, if_true, tmTags, List.nil_append] at this ⊢
          rw [this]; rfl
        | some t =>
          have := seq_opt_star "text-match" "param-filter" (by decide) ["text-match"] (Or.inr rfl) params.length
          simp only [trTags, hz, and_self, if_true, tmTags, List.nil_append] at this ⊢
          rw [this]; simp
      · have htm' : tm = none := by
          cases tm with
          | none => rfl
          | some t =>
            exfalso; apply hz
            by_cases h1 : s = Z <;> by_cases h2 : e = Z <;> simp_all
        subst htm'
        have := seq_opt_star "time-range" "param-filter" (by decide) ["time-range"] (Or.inr rfl) params.length
        simp only [trTags, hz, if_false, tmTags, List.append_nil] at this ⊢
        rw [this]; rfl
    simp only [hnb, if_false, hseq, Bool.not_true, Bool.false_eq_true, htr, htm, hpar]
  · -- is-not-defined alone
    simp at hex
    obtain ⟨⟨⟨h1, h2⟩, h3⟩, h4⟩ := hex
    subst h1 h2 h3 h4
    simp [ind, encTimeRange, encTM, isEmptyEl_ind]

theorem allCal_tail (n : Node) (cs : List Node) (h : AllCal (n :: cs)) : AllCal cs :=
  fun m hm => h m (List.mem_cons_of_mem _ hm)

theorem readCompFilters_skip (pre rest : List Node) (hall : AllCal pre) (h : pick "comp-filter" pre = []) :
    readCompFilters (pre ++ rest) = readCompFilters rest := by
  induction pre with
  | nil => rfl
  | cons n pre ih =>
    obtain ⟨l, a, c, rfl⟩ := hall n (by simp)
    rw [pick_el] at h
    by_cases hl : l = "comp-filter"
    · simp [hl] at h
    · simp only [hl, if_false] at h
      rw [List.cons_append, readCompFilters]
      simp only [named_el, beq_iff_eq, hl, if_false]
      exact ih (allCal_tail _ _ hall) h

theorem readComps_skip (pre rest : List Node) (hall : AllCal pre) (h : pick "comp" pre = []) :
    readComps (pre ++ rest) = readComps rest := by
  induction pre with
  | nil => rfl
  | cons n pre ih =>
    obtain ⟨l, a, c, rfl⟩ := hall n (by simp)
    rw [pick_el] at h
    by_cases hl : l = "comp"
    · simp [hl] at h
    · simp only [hl, if_false] at h
      rw [List.cons_append, readComps]
      simp only [named_el, beq_iff_eq, hl, if_false]
      exact ih (allCal_tail _ _ hall) h

theorem seq_opt_star2 (a b c : String) (hab : a ≠ b) (hac : a ≠ c) (hbc : b ≠ c) (pre : List String) (hpre : pre = [] ∨ pre = [a]) (m k : Nat) :
    seqOK [.opt a, .star b, .star c] (pre ++ (List.replicate m b ++ List.replicate k c)) = true := by
  have hs := seq_star2 b c hbc m k
  rcases hpre with rfl | rfl
  · simp only [List.nil_append]
    cases hl : List.replicate m b ++ List.replicate k c with
    | nil => rw [hl] at hs; simpa [seqOK] using hs
    | cons t ts =>
      have : (t == a) = false := by
        cases m with
        | zero =>
          cases k with
          | zero => simp at hl
          | succ k => simp [List.replicate_succ] at hl; rw [← hl.1]; simpa using fun h => hac h.symm
        | succ m => simp [List.replicate_succ] at hl; rw [← hl.1]; simpa using fun h => hab h.symm
      rw [hl] at hs
      simp only [seqOK, this, Bool.false_eq_true, if_false] at hs ⊢
      exact hs
  · simpa [seqOK] using hs

mutual
theorem readCompFilter_enc : ∀ (f : CompFilter), okCF f = true → rfcCF f = true → readCompFilter (encCompFilter f) = some f
  | .mk name i s e props comps, h, hr => by
    unfold okCF at h
    unfold rfcCF at hr
    simp only [Bool.and_eq_true] at h hr
    obtain ⟨⟨⟨⟨hs, he⟩, hps⟩, hcs'⟩, hex⟩ := h
    have ihc := readCompFilters_enc comps hcs' hr.2
    have hs := inRange_of s hs
    have he := inRange_of e he
    simp only [readCompFilter, encCompFilter, el, beq_self_eq_true, attrsOK_name, Bool.and_self, Bool.not_true,
      Bool.false_eq_true, if_false, reqName_att, bind, Option.bind, pure]
    cases i
    · generalize hcs : ind false ++ encTimeRange s e ++ props.map encPropFilter ++ encCompFilters comps = cs
      have hall : AllCal cs := by
        rw [← hcs]
        exact allCal_append _ _ (allCal_append _ _ (allCal_append _ _ (allCal_ind _) (allCal_timeRange _ _))
          (allCal_map _ _ (fun x => ⟨_, _, _, rfl⟩))) (allCal_compFilters _)
      have hnb := not_ind_branch cs hall (by simp [← hcs, ind, pick_append, pick_encTimeRange, pick_props, pick_compFilters])
      have htr := optRange_of cs hall s e hs he (by simp [← hcs, pick_append, pick_ind, pick_encTimeRange, pick_props, pick_compFilters])
      have hpr : (cs.filter (named · "prop-filter")).mapM readPropFilter = some props := by
        rw [filter_named cs hall]
        have : pick "prop-filter" cs = props.map encPropFilter := by
          simp [← hcs, pick_append, pick_ind, pick_encTimeRange, pick_props, pick_compFilters]
        rw [this]
        exact mapM_map_some _ _ _ (fun x hx => readPropFilter_enc x (by simpa using (List.all_eq_true.mp hps) x hx)
          (by simpa using (List.all_eq_true.mp hr.1) x hx))
      have hco : readCompFilters cs = some comps := by
        rw [← hcs, readCompFilters_skip _ _
          (allCal_append _ _ (allCal_append _ _ (allCal_ind false) (allCal_timeRange s e)) (allCal_props props))
          (by simp [pick_append, pick_ind, pick_encTimeRange, pick_props])]
        exact ihc
      have htags : cs.map tag = trTags s e ++ (List.replicate props.length "prop-filter" ++ List.replicate comps.length "comp-filter") := by
        rw [← hcs]
        simp only [List.map_append, ind, tags_timeRange, tags_compFilters]
        rw [tags_map props encPropFilter "prop-filter" (fun x => by simp [encPropFilter])]
        simp
      have hseq : seqOK [.opt "time-range", .star "prop-filter", .star "comp-filter"] (cs.map tag) = true := by
        rw [htags]
        apply seq_opt_star2 _ _ _ (by decide) (by decide) (by decide)
        unfold trTags; split <;> simp
      simp only [hnb, if_false, hseq, Bool.not_true, Bool.false_eq_true, htr, hpr, hco]
    · simp at hex
      obtain ⟨⟨⟨h1, h2⟩, h3⟩, h4⟩ := hex
      subst h1 h2 h3 h4
      simp [ind, encTimeRange, encCompFilters, isEmptyEl_ind]
theorem readCompFilters_enc : ∀ (fs : List CompFilter), okCFs fs = true → rfcCFs fs = true →
    readCompFilters (encCompFilters fs) = some fs
  | [], _, _ => by simp [encCompFilters, readCompFilters]
  | f :: fs, h, hr => by
    unfold okCFs at h
    unfold rfcCFs at hr
    simp only [Bool.and_eq_true] at h hr
    have h1 := readCompFilter_enc f h.1 hr.1
    have h2 := readCompFilters_enc fs h.2 hr.2
    obtain ⟨a, k, hf⟩ := encCompFilter_local f
    rw [encCompFilters, readCompFilters]
    have hn : named (encCompFilter f) "comp-filter" = true := by rw [hf]; simp
    simp [hn, h1, h2]
end

theorem readDataProp_enc (p : String) : readDataProp (el "prop" [att "name" p] []) = some p := by
  have hn : named (el "prop" [att "name" p] []) "prop" = true := by simp
  unfold readDataProp
  simp only [el] at hn ⊢
  simp only [hn]
  simp [attrsOK, att, reqName, attr]

theorem tags_flag (l : String) (b : Bool) : (flag l b).map tag = if b then [l] else [] := by
  cases b <;> simp [flag]

theorem flag_all_bare (l : String) (b : Bool) : (flag l b).all isBare = true := by
  cases b <;> simp [flag, isBare, el]

theorem seq_one_star (a b : String) (k : Nat) : seqOK [.one a, .star b] (a :: List.replicate k b) = true := by
  have h2 : (List.replicate k b).dropWhile (· == b) = [] := by
    have := dropWhile_replicate b k [] (by simp)
    simpa using this
  simp [seqOK, h2]

theorem seq_star_one (a b : String) (hab : a ≠ b) (m : Nat) : seqOK [.star a, .one b] (List.replicate m a ++ [b]) = true := by
  have h1 : (List.replicate m a ++ [b]).dropWhile (· == a) = [b] :=
    dropWhile_replicate a m [b] (by simpa using fun h => hab h.symm)
  simp [seqOK, h1]

mutual
theorem readComp_enc : ∀ (c : CompReq), okCR c = true → readComp (encComp c) = some c
  | .mk name ap props ac comps, h => by
    unfold okCR at h
    simp only [Bool.and_eq_true] at h
    obtain ⟨⟨hcs', hap⟩, hac⟩ := h
    have ihc := readComps_enc comps hcs'
    simp only [readComp, encComp, el, beq_self_eq_true, attrsOK_name, Bool.and_self, Bool.not_true,
      Bool.false_eq_true, if_false, reqName_att, bind, Option.bind, pure]
    generalize hcs : flag "allprop" ap ++ props.map (fun p => Node.elem ⟨nsCal, "prop"⟩ [att "name" p] []) ++ flag "allcomp" ac ++ encComps comps = cs
    have hcs2 : flag "allprop" ap ++ props.map (fun p => el "prop" [att "name" p] []) ++ flag "allcomp" ac ++ encComps comps = cs := hcs
    have hall : AllCal cs := by
      rw [← hcs2]
      exact allCal_append _ _ (allCal_append _ _ (allCal_append _ _ (allCal_flag _ _) (allCal_map _ _ (fun _ => ⟨_, _, _, rfl⟩)))
        (allCal_flag _ _)) (allCal_comps _)
    have hpr : (cs.filter (named · "prop")).mapM readDataProp = some props := by
      rw [filter_named cs hall]
      have : pick "prop" cs = props.map (fun p => el "prop" [att "name" p] []) := by
        simp [← hcs2, pick_append, pick_flag, pick_dataProps, pick_comps]
      rw [this]
      exact mapM_map_some _ _ _ (fun x _ => readDataProp_enc x)
    have hco : readComps cs = some comps := by
      rw [← hcs2, readComps_skip _ _
        (allCal_append _ _ (allCal_append _ _ (allCal_flag "allprop" ap) (allCal_map props _ (fun _ => ⟨_, _, _, rfl⟩))) (allCal_flag "allcomp" ac))
        (by simp [pick_append, pick_flag, pick_dataProps])]
      exact ihc
    have hb1 : (cs.filter (named · "allprop")).all isBare = true := by
      rw [filter_named cs hall]
      have : pick "allprop" cs = flag "allprop" ap := by simp [← hcs2, pick_append, pick_flag, pick_dataProps, pick_comps]
      rw [this]; exact flag_all_bare _ _
    have hb2 : (cs.filter (named · "allcomp")).all isBare = true := by
      rw [filter_named cs hall]
      have : pick "allcomp" cs = flag "allcomp" ac := by simp [← hcs2, pick_append, pick_flag, pick_dataProps, pick_comps]
      rw [this]; exact flag_all_bare _ _
    have htags : cs.map tag = (if ap then ["allprop"] else []) ++ List.replicate props.length "prop" ++ (if ac then ["allcomp"] else [])
        ++ List.replicate comps.length "comp" := by
      rw [← hcs2]
      simp only [List.map_append, tags_flag, tags_comps]
      rw [tags_map props (fun p => el "prop" [att "name" p] []) "prop" (fun x => by simp)]
    simp only [hb1, hb2, hpr, hco, htags]
    cases ap <;> cases ac
    · have hs := seq_star2 "prop" "comp" (by decide) props.length comps.length
      simp [List.mem_replicate, hs]
    · have hc : comps = [] := by simpa using hac
      subst hc
      have hs := seq_star_one "prop" "allcomp" (by decide) props.length
      simp [List.mem_replicate, hs]
    · have hp : props = [] := by simpa using hap
      subst hp
      have hs := seq_one_star "allprop" "comp" comps.length
      simp [List.mem_replicate, hs]
    · have hc : comps = [] := by simpa using hac
      have hp : props = [] := by simpa using hap
      subst hc hp
      simp [seqOK]
theorem readComps_enc : ∀ (cs : List CompReq), okCRs cs = true → readComps (encComps cs) = some cs
  | [], _ => by simp [encComps, readComps]
  | c :: cs, h => by
    unfold okCRs at h
    simp only [Bool.and_eq_true] at h
    have h1 := readComp_enc c h.1
    have h2 := readComps_enc cs h.2
    obtain ⟨a, k, hf⟩ := encComp_local c
    rw [encComps, readComps]
    have hn : named (encComp c) "comp" = true := by rw [hf]; simp
    simp [hn, h1, h2]
end

theorem readCalendarData_enc (d : DataReq) (h : okData d = true) (hr : rfcData d = true) :
    readCalendarData (el "calendar-data" [] (encComp d.comp :: encExpand d.expand)) = some d := by
  obtain ⟨c, ex⟩ := d
  unfold okData at h
  unfold rfcData at hr
  simp only [Bool.and_eq_true] at h
  obtain ⟨a, k, hc⟩ := encComp_local c
  have hrc := readComp_enc c h.1
  have hn : named (el "calendar-data" [] (encComp c :: encExpand ex)) "calendar-data" = true := by simp
  unfold readCalendarData
  simp only [el] at hn ⊢
  simp only [hn, attrsOK, List.all_nil, Bool.and_self, Bool.not_true, Bool.false_eq_true, if_false]
  cases ex with
  | none =>
    simp only [encExpand, List.map_cons, List.map_nil, List.find?_cons]
    rw [hc] at hrc ⊢
    simp [seqOK, hrc]
  | some se =>
    obtain ⟨s, e⟩ := se
    simp only [Bool.and_eq_true, bne_iff_ne, ne_eq] at h hr
    have hex := readExpand_enc s e (inRange_of s h.2.1) (inRange_of e h.2.2) hr.1 hr.2
    simp only [encExpand, List.map_cons, List.map_nil, List.find?_cons]
    rw [hc] at hrc ⊢
    simp [seqOK, hrc, hex]

theorem readPropReq_enc (d : DataReq) (h : okData d = true) (hr : rfcData d = true) : readPropReq (encDataReq d) = some d := by
  have hcd := readCalendarData_enc d h hr
  unfold readPropReq encDataReq dav
  simp only [el] at hcd
  simp [nsDav, nsCal, el, named, tag, List.filter_cons]
  simpa [nsCal] using hcd

theorem isPropReq_enc (d : DataReq) : isPropReq (encDataReq d) = true := by
  simp [isPropReq, encDataReq, dav, tag, nsDav, nsCal]

theorem readFilter_enc (f : CompFilter) (h : okCF f = true) (hr : rfcCF f = true) :
    readFilter (el "filter" [] [encCompFilter f]) = some f := by
  have hn : named (el "filter" [] [encCompFilter f]) "filter" = true := by simp
  unfold readFilter
  simp only [el] at hn ⊢
  simp only [hn, if_true]
  exact readCompFilter_enc f h hr

/-- the strict RFC 4791 reader reads what the client sends, to the caller's query -/
theorem readQuery_encodeQuery (q : Query) (h : Expressible q = true) : readQuery (encodeQuery q) = some q := by
  obtain ⟨d, f⟩ := q
  unfold Expressible Accepted at h
  simp only [Bool.and_eq_true] at h
  obtain ⟨⟨⟨hd, hf⟩, hrf⟩, hrd⟩ := h
  have h1 := readPropReq_enc d hd hrd
  have h2 := readFilter_enc f hf hrf
  have h3 := isPropReq_enc d
  unfold readQuery encodeQuery
  simp only [el] at h2 ⊢
  simp [h1, h2, h3]

theorem readHref_enc (escape : String → String) (unescape : String → Option String) (p : String)
    (h : unescape (escape p) = some p) : readHref unescape (dav "href" [Node.text (escape p)]) = some p := by
  simp [readHref, dav, isText, chardata, h]

theorem readMultiGet_encodeMultiGet (rp : String) (escape : String → String) (unescape : String → Option String)
    (m : MultiGet) (h : okData m.data = true) (hr : rfcData m.data = true)
    (hesc : ∀ p ∈ (if m.paths.isEmpty then [rp] else m.paths), unescape (escape p) = some p) :
    readMultiGet unescape (encodeMultiGet rp escape m) = some ⟨m.data, if m.paths.isEmpty then [rp] else m.paths⟩ := by
  have hne : (if m.paths.isEmpty then [rp] else m.paths) ≠ [] := by
    cases hp : m.paths <;> simp
  unfold encodeMultiGet
  generalize (if m.paths.isEmpty then [rp] else m.paths) = paths at hesc hne ⊢
  have h1 := readPropReq_enc m.data h hr
  have h3 := isPropReq_enc m.data
  have hh : (paths.map (fun p => dav "href" [Node.text (escape p)])).mapM (readHref unescape) = some paths :=
    mapM_map_some _ _ _ (fun x hx => readHref_enc escape unescape x (hesc x hx))
  unfold readMultiGet
  simp only [el]
  simp [h1, h3, hh, hne]

end GoWebdav.Lemmas.CaldavRead
