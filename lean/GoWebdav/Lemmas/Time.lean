import GoWebdav.Std.Time
namespace GoWebdav.Lemmas.Time
open GoWebdav.Std.Time GoWebdav.Std.Decimal

def leapNext (my : Nat) : Prop := (my + 1) % 4 = 0 ∧ ((my + 1) % 100 ≠ 0 ∨ (my + 1) % 400 = 0)

/-- the cascade inverts `daysOf`, the day of year is in range, and day 365 only occurs when the
    March-based year ends in a leap February -/
theorem split_spec (d : Nat) :
    daysOf (split d).1 (split d).2 = d ∧ (split d).2 ≤ 365 ∧ ((split d).2 = 365 → leapNext (split d).1) := by
  unfold split daysOf leapNext
  simp only []
  generalize hq : d / 146097 = q
  generalize hr : d % 146097 = r
  have hd : d = 146097 * q + r := by omega
  have hr' : r < 146097 := by omega
  clear hq hr
  subst hd
  generalize hh : r / 36524 = h
  have h5 : h = 0 ∨ h = 1 ∨ h = 2 ∨ h = 3 ∨ h = 4 := by omega
  rcases h5 with rfl | rfl | rfl | rfl | rfl <;>
  · generalize hc : (r - 36524 * _) / 1461 = c
    have hc' : c ≤ 24 := by omega
    generalize hk : (r - 36524 * _ - 1461 * c) / 365 = k
    have h5 : k = 0 ∨ k = 1 ∨ k = 2 ∨ k = 3 ∨ k = 4 := by omega
    rcases h5 with rfl | rfl | rfl | rfl | rfl <;> omega

theorem doy_roundtrip (doy : Nat) (_h : doy < 366) : doyFrom (mpOf doy) (domOf doy) = doy := by
  unfold doyFrom domOf mpOf; omega
theorem mp_lt (doy : Nat) (h : doy < 366) : mpOf doy < 12 := by unfold mpOf; omega

end GoWebdav.Lemmas.Time

namespace GoWebdav.Lemmas.Time
open GoWebdav.Std.Time GoWebdav.Std.Decimal

theorem num2_pad2 (n : Nat) (h : n < 100) : ∀ a b, pad2 n = [a, b] → num2 a b = some n := by
  intro a b hab
  simp only [pad2, List.cons.injEq, and_true] at hab
  obtain ⟨rfl, rfl⟩ := hab
  simp only [num2, digitVal_digitChar (n / 10 % 10) (by omega), digitVal_digitChar (n % 10) (by omega), bind, Option.bind, pure]
  congr 1; omega

theorem num4_pad4 (n : Nat) (h : n < 10000) : ∀ a b c d, pad4 n = [a, b, c, d] → num4 a b c d = some n := by
  intro a b c d hab
  simp only [pad4, List.cons.injEq, and_true] at hab
  obtain ⟨rfl, rfl, rfl, rfl⟩ := hab
  simp only [num4, digitVal_digitChar (n / 1000 % 10) (by omega), digitVal_digitChar (n / 100 % 10) (by omega),
    digitVal_digitChar (n / 10 % 10) (by omega), digitVal_digitChar (n % 10) (by omega), bind, Option.bind, pure]
  congr 1; omega

theorem isDay3_dayName3 (w : Nat) : isDay3 (dayName3 w).1 (dayName3 w).2.1 (dayName3 w).2.2 = true := by
  unfold dayName3
  split <;> decide

theorem monthOf3_monthName3 (m : Nat) (h1 : 1 ≤ m) (h2 : m ≤ 12) :
    monthOf3 (monthName3 m).1 (monthName3 m).2.1 (monthName3 m).2.2 = some m := by
  have : m = 1 ∨ m = 2 ∨ m = 3 ∨ m = 4 ∨ m = 5 ∨ m = 6 ∨ m = 7 ∨ m = 8 ∨ m = 9 ∨ m = 10 ∨ m = 11 ∨ m = 12 := by omega
  rcases this with rfl|rfl|rfl|rfl|rfl|rfl|rfl|rfl|rfl|rfl|rfl|rfl <;> decide

/-- the calendar fields of an in-range instant are valid and denote the instant -/
theorem civil_spec (t : Int) (h : InRange t) :
    let c := civil t
    1 ≤ c.month ∧ c.month ≤ 12 ∧ 1 ≤ c.day ∧ c.day ≤ daysInMonth c.year c.month ∧ c.hour < 24 ∧ c.minute < 60 ∧
    c.second < 60 ∧ c.year < 10000 ∧ unixOf c.year c.month c.day c.hour c.minute c.second = t := by
  unfold InRange at h
  simp only [civil]
  generalize hdays : t / 86400 = days
  generalize hsecs : t % 86400 = secs
  have ht : t = 86400 * days + secs := by omega
  have hs0 : 0 ≤ secs := by omega
  have hs1 : secs < 86400 := by omega
  have hd0 : -719468 ≤ days := by omega
  have hd1 : days ≤ 2932896 := by omega
  obtain ⟨sn, rfl⟩ : ∃ sn : Nat, secs = sn := ⟨secs.toNat, by omega⟩
  obtain ⟨zz, hzz⟩ : ∃ zz : Nat, days + epochShift = zz := ⟨(days + epochShift).toNat, by unfold epochShift; omega⟩
  rw [hzz]
  simp only [Int.toNat_natCast]
  have hzz1 : zz ≤ 3652364 := by unfold epochShift at hzz; omega
  obtain ⟨hsp1, hsp2, hsp3⟩ := split_spec zz
  generalize hmy : (split zz).1 = my at hsp1 hsp3
  generalize hyd : (split zz).2 = yd at hsp1 hsp2 hsp3
  have hmp := mp_lt yd (by omega)
  have hdoy := doy_roundtrip yd (by omega)
  have hmybound : my < 10000 := by
    unfold daysOf at hsp1; omega
  unfold leapNext at hsp3
  generalize hmpv : mpOf yd = mp at hmp hdoy
  have hmpdef : mp = (5 * yd + 2) / 153 := by rw [← hmpv]; rfl
  have hdom : domOf yd = yd - (153 * mp + 2) / 5 := by unfold domOf; rw [hmpv]
  rw [hdom]
  unfold doyFrom at hdoy
  rw [hdom] at hdoy
  unfold daysOf at hsp1
  have h12 : mp = 0 ∨ mp = 1 ∨ mp = 2 ∨ mp = 3 ∨ mp = 4 ∨ mp = 5 ∨ mp = 6 ∨ mp = 7 ∨ mp = 8 ∨ mp = 9 ∨ mp = 10 ∨ mp = 11 := by omega
  unfold daysInMonth unixOf doyFrom daysOf epochShift
  unfold epochShift at hzz
  rcases h12 with rfl|rfl|rfl|rfl|rfl|rfl|rfl|rfl|rfl|rfl|rfl|rfl <;> simp <;> (try omega)
  -- February: the 29th exists only when the cascade says the March-based year ends in a leap day
  by_cases hy : yd = 365
  · have hl := hsp3 hy
    have hl' : (my + 1) % 4 = 0 ∧ (¬ (my + 1) % 100 = 0 ∨ (my + 1) % 400 = 0) := hl
    simp only [hl', and_self, if_true]
    omega
  · split <;> omega

end GoWebdav.Lemmas.Time

namespace GoWebdav.Lemmas.Time
open GoWebdav.Std.Time GoWebdav.Std.Decimal

theorem parseHttp_fmtHttp (t : Int) (h : InRange t) : parseHttp (fmtHttp t) = some t := by
  obtain ⟨h1, h2, h3, h4, h5, h6, h7, h8, h9⟩ := civil_spec t h
  generalize hc : civil t = c at h1 h2 h3 h4 h5 h6 h7 h8 h9
  have hday : c.day < 100 := by
    have : daysInMonth c.year c.month ≤ 31 := by unfold daysInMonth; split <;> (try split) <;> omega
    omega
  unfold fmtHttp parseHttp
  simp only [hc, pad2, pad4, List.cons_append, List.nil_append, isDay3_dayName3, if_true,
    num2_pad2 c.day hday _ _ rfl, monthOf3_monthName3 c.month h1 h2, num4_pad4 c.year h8 _ _ _ _ rfl,
    num2_pad2 c.hour (by omega) _ _ rfl, num2_pad2 c.minute (by omega) _ _ rfl, num2_pad2 c.second (by omega) _ _ rfl,
    bind, Option.bind, mkTime]
  simp [h1, h2, h3, h4, h5, h6, h7, h9]

theorem parseCal_fmtCal (t : Int) (h : InRange t) : parseCal (fmtCal t) = some t := by
  obtain ⟨h1, h2, h3, h4, h5, h6, h7, h8, h9⟩ := civil_spec t h
  generalize hc : civil t = c at h1 h2 h3 h4 h5 h6 h7 h8 h9
  have hday : c.day < 100 := by
    have : daysInMonth c.year c.month ≤ 31 := by unfold daysInMonth; split <;> (try split) <;> omega
    omega
  unfold fmtCal parseCal
  simp only [hc, pad2, pad4, List.cons_append, List.nil_append,
    num2_pad2 c.day hday _ _ rfl, num2_pad2 c.month (by omega) _ _ rfl, num4_pad4 c.year h8 _ _ _ _ rfl,
    num2_pad2 c.hour (by omega) _ _ rfl, num2_pad2 c.minute (by omega) _ _ rfl, num2_pad2 c.second (by omega) _ _ rfl,
    bind, Option.bind, mkTime]
  simp [h1, h2, h3, h4, h5, h6, h7, h9]

end GoWebdav.Lemmas.Time
