import GoWebdav.Spec.Validate
namespace GoWebdav.Lemmas.Validate
open GoWebdav.Impl.Validate GoWebdav.Spec.Validate

theorem allEq_cons (a : String) (l : List String) : AllEq (a :: l) ↔ ∀ b ∈ l, b = a := by
  unfold AllEq
  constructor
  · intro h b hb; exact h b (List.mem_cons_of_mem _ hb) a (by simp)
  · intro h x hx y hy
    have hx' : x = a := by rcases List.mem_cons.mp hx with rfl | hx; rfl; exact h x hx
    have hy' : y = a := by rcases List.mem_cons.mp hy with rfl | hy; rfl; exact h y hy
    rw [hx', hy']

/-- a state string seen as the list of values absorbed so far -/
def pre (s : String) : List String := if s = "" then [] else [s]
def hd (l : List String) : String := l.head?.getD ""

/-- absorbing a non-empty value `n` into state `s` (`if s == "" { s = n }; if s != n { error }`) -/
theorem absorb (s n : String) (hn : n ≠ "") (rest : List String) :
    (AllEq (pre s ++ n :: rest) ↔ (if s = "" then n else s) = n ∧ AllEq (pre (if s = "" then n else s) ++ rest)) ∧
    ((if s = "" then n else s) = n → hd (pre s ++ n :: rest) = hd (pre (if s = "" then n else s) ++ rest)) := by
  by_cases hs : s = ""
  · simp [hs, pre, hn, hd]
  · simp only [hs, if_false, pre, List.singleton_append, allEq_cons, hd]
    constructor
    · constructor
      · intro h; exact ⟨(h n (by simp)).symm, fun b hb => h b (List.mem_cons_of_mem _ hb)⟩
      · rintro ⟨h1, h2⟩ b hb
        rcases List.mem_cons.mp hb with rfl | hb
        · exact h1.symm
        · exact h2 b hb
    · intro _; simp

def typeStep (t n : String) : Option String :=
  if n = vtimezone then some t
  else if (if t = "" then n else t) = n then some (if t = "" then n else t) else none

def uidStep (u : String) : Uid → Except Err String
  | .none => .ok u
  | .err => .error .uidErr
  | .text s => if s = "" then .ok u else if (if u = "" then s else u) = s then .ok (if u = "" then s else u) else .error .uids

theorem ite_empty_self (u : String) : (if u = "" then "" else u) = u := by
  by_cases h : u = "" <;> simp [h]

theorem step_eq (t u : String) (c : Comp) :
    step (t, u) c =
      match typeStep t c.name with
      | none => .error .types
      | some t' => match uidStep u c.uid with
        | .error e => .error e
        | .ok u' => .ok (t', u') := by
  obtain ⟨n, uid⟩ := c
  unfold step typeStep
  by_cases htz : n = vtimezone
  · cases uid with
    | none => simp [htz, Uid.asText, uidStep, ite_empty_self]
    | err => simp [htz, Uid.asText, uidStep]
    | text s =>
      by_cases hs : s = ""
      · simp [htz, Uid.asText, uidStep, hs, ite_empty_self]
      · by_cases hus : (if u = "" then s else u) = s <;> simp [htz, Uid.asText, uidStep, hs, hus]
  · by_cases htn : (if t = "" then n else t) = n
    · cases uid with
      | none => simp [htz, htn, Uid.asText, uidStep, ite_empty_self]
      | err => simp [htz, htn, Uid.asText, uidStep]
      | text s =>
        by_cases hs : s = ""
        · simp [htz, htn, Uid.asText, uidStep, hs, ite_empty_self]
        · by_cases hus : (if u = "" then s else u) = s <;> simp [htz, htn, Uid.asText, uidStep, hs, hus]
    · simp [htz, htn]

theorem type_some (t n t' : String) (uid : Uid) (cs : List Comp) (hn : n ≠ "") (h : typeStep t n = some t') :
    (AllEq (pre t ++ types (⟨n, uid⟩ :: cs)) ↔ AllEq (pre t' ++ types cs)) ∧
    hd (pre t ++ types (⟨n, uid⟩ :: cs)) = hd (pre t' ++ types cs) := by
  unfold typeStep at h
  by_cases htz : n = vtimezone
  · simp [htz] at h; subst h; simp [types, htz]
  · have hty : types (⟨n, uid⟩ :: cs) = n :: types cs := by simp [types, htz]
    rw [hty]
    have hab := absorb t n hn (types cs)
    by_cases htn : (if t = "" then n else t) = n
    · simp [htz, htn] at h
      rw [htn] at hab
      rw [← h]
      exact ⟨by rw [hab.1]; simp, hab.2 rfl⟩
    · simp [htz, htn] at h

theorem type_none (t n : String) (uid : Uid) (cs : List Comp) (hn : n ≠ "") (h : typeStep t n = none) :
    ¬ AllEq (pre t ++ types (⟨n, uid⟩ :: cs)) := by
  unfold typeStep at h
  by_cases htz : n = vtimezone
  · simp [htz] at h
  · have hty : types (⟨n, uid⟩ :: cs) = n :: types cs := by simp [types, htz]
    rw [hty]
    by_cases htn : (if t = "" then n else t) = n
    · simp [htz, htn] at h
    · rw [(absorb t n hn (types cs)).1]; intro hc; exact htn hc.1

theorem uid_ok (u u' n : String) (uid : Uid) (cs : List Comp) (h : uidStep u uid = .ok u') :
    uid ≠ .err ∧ (AllEq (pre u ++ uids (⟨n, uid⟩ :: cs)) ↔ AllEq (pre u' ++ uids cs)) ∧
    hd (pre u ++ uids (⟨n, uid⟩ :: cs)) = hd (pre u' ++ uids cs) := by
  cases uid with
  | none => simp [uidStep] at h; subst h; simp [uids]
  | err => simp [uidStep] at h
  | text s =>
    by_cases hs : s = ""
    · simp [uidStep, hs] at h; subst h; simp [uids, hs]
    · have hu : uids (⟨n, Uid.text s⟩ :: cs) = s :: uids cs := by simp [uids, hs]
      rw [hu]
      have hab := absorb u s hs (uids cs)
      by_cases hus : (if u = "" then s else u) = s
      · simp [uidStep, hs, hus] at h
        rw [hus] at hab
        rw [← h]
        exact ⟨by simp, by rw [hab.1]; simp, hab.2 rfl⟩
      · simp [uidStep, hs, hus] at h

theorem uid_error (u n : String) (uid : Uid) (cs : List Comp) (e : Err) (h : uidStep u uid = .error e) :
    uid = .err ∨ ¬ AllEq (pre u ++ uids (⟨n, uid⟩ :: cs)) := by
  cases uid with
  | none => simp [uidStep] at h
  | err => exact Or.inl rfl
  | text s =>
    right
    by_cases hs : s = ""
    · simp [uidStep, hs] at h
    · have hu : uids (⟨n, Uid.text s⟩ :: cs) = s :: uids cs := by simp [uids, hs]
      rw [hu]
      by_cases hus : (if u = "" then s else u) = s
      · simp [uidStep, hs, hus] at h
      · rw [(absorb u s hs (uids cs)).1]; intro hc; exact hus hc.1

/-- Loop invariant: starting from state `(t, u)` the loop accepts iff the rest of the list is readable and
homogeneous together with what the state already holds, and then reports the common values. -/
theorem loop_spec (cs : List Comp) (hn : ∀ c ∈ cs, c.name ≠ "") (t u : String) (r : String × String) :
    loop (t, u) cs = .ok r ↔
      (∀ c ∈ cs, c.uid ≠ .err) ∧ AllEq (pre t ++ types cs) ∧ AllEq (pre u ++ uids cs)
        ∧ r = (hd (pre t ++ types cs), hd (pre u ++ uids cs)) := by
  induction cs generalizing t u with
  | nil =>
    have h1 : ∀ s, AllEq (pre s ++ []) := by
      intro s; unfold pre; by_cases h : s = "" <;> simp [h, AllEq]
    have h2 : ∀ s, hd (pre s ++ []) = s := by
      intro s; unfold pre hd; by_cases h : s = "" <;> simp [h]
    simp only [loop, types, uids, List.filter_nil, List.map_nil, List.filterMap_nil, h1, h2]
    simp
    exact ⟨fun h => h.symm, fun h => h.symm⟩
  | cons c cs ih =>
    have hcn : c.name ≠ "" := hn c (by simp)
    have hn' : ∀ c ∈ cs, c.name ≠ "" := fun x hx => hn x (List.mem_cons_of_mem _ hx)
    unfold loop
    rw [step_eq]
    obtain ⟨n, uid⟩ := c
    simp only at hcn ⊢
    cases hts : typeStep t n with
    | none =>
      have := type_none t n uid cs hcn hts
      simp [this]
    | some t' =>
      obtain ⟨hty1, hty2⟩ := type_some t n t' uid cs hcn hts
      cases hus : uidStep u uid with
      | error e =>
        simp only [reduceCtorEq, false_iff]
        rcases uid_error u n uid cs e hus with h | h
        · intro hc; exact hc.1 ⟨n, uid⟩ (by simp) h
        · intro hc; exact h hc.2.2.1
      | ok u' =>
        obtain ⟨hu0, hu1, hu2⟩ := uid_ok u u' n uid cs hus
        simp only [ih hn', hty1, hty2, hu1, hu2]
        constructor
        · rintro ⟨h1, h2⟩
          refine ⟨?_, h2⟩
          intro c hc
          rcases List.mem_cons.mp hc with rfl | hc
          · exact hu0
          · exact h1 c hc
        · rintro ⟨h1, h2⟩
          exact ⟨fun c hc => h1 c (List.mem_cons_of_mem _ hc), h2⟩

end GoWebdav.Lemmas.Validate
