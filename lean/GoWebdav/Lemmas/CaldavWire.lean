import GoWebdav.Spec.CaldavWire
import GoWebdav.Lemmas.Time
/-!
Helper lemmas for C08: how the lenient decoder (`Impl.CaldavWire.dec*`) and the strict RFC reader
(`Spec.CaldavWire.read*`) see the pieces the encoder writes.
-/
namespace GoWebdav.Lemmas.CaldavWire
open GoWebdav GoWebdav.Std.Xml GoWebdav.Std.Time GoWebdav.Impl.Caldav GoWebdav.Impl.CaldavWire GoWebdav.Spec.CaldavWire

theorem inRange_of (t : Int) (h : inRangeB t = true) : InRange t := by
  unfold inRangeB at h; unfold InRange; simpa using h

-- `pick` over the encoder's pieces ------------------------------------------------------------------------------------

theorem pick_append (loc : String) (a b : List Node) : pick loc (a ++ b) = pick loc a ++ pick loc b := by
  unfold pick; exact List.filter_append ..

@[simp] theorem pick_nil (loc : String) : pick loc [] = [] := rfl

theorem pick_el (loc l : String) (a : List (QName × String)) (c : List Node) (rest : List Node) :
    pick loc (el l a c :: rest) = if l = loc then el l a c :: pick loc rest else pick loc rest := by
  unfold pick el
  by_cases h : l = loc <;> simp [List.filter_cons, Node.localIs, h]

theorem pick_ind (loc : String) (b : Bool) : pick loc (ind b) = if "is-not-defined" = loc then ind b else [] := by
  unfold ind; cases b <;> simp [pick_el]

theorem pick_flag (loc l : String) (b : Bool) : pick loc (flag l b) = if l = loc then flag l b else [] := by
  unfold flag; cases b <;> simp [pick_el]

theorem pick_encTimeRange (loc : String) (s e : Int) :
    pick loc (encTimeRange s e) = if "time-range" = loc then encTimeRange s e else [] := by
  unfold encTimeRange; split <;> simp [pick_el]

theorem pick_encTM (loc : String) (t : Option TextMatch) : pick loc (encTM t) = if "text-match" = loc then encTM t else [] := by
  cases t <;> simp [encTM, encTextMatch, pick_el]

theorem pick_map_el (loc l : String) {α : Type} (xs : List α) (a : α → List (QName × String)) (c : α → List Node) :
    pick loc (xs.map (fun x => el l (a x) (c x))) = if l = loc then xs.map (fun x => el l (a x) (c x)) else [] := by
  induction xs with
  | nil => simp
  | cons x xs ih => rw [List.map_cons, pick_el, ih]; by_cases h : l = loc <;> simp [h]

theorem pick_params (loc : String) (ps : List ParamFilter) :
    pick loc (ps.map encParamFilter) = if "param-filter" = loc then ps.map encParamFilter else [] := by
  have h : encParamFilter = fun p => el "param-filter" [att "name" p.name] (ind p.isNotDefined ++ encTM p.textMatch) := by
    funext p; rfl
  rw [h]; exact pick_map_el loc "param-filter" ps _ _

theorem pick_props (loc : String) (ps : List PropFilter) :
    pick loc (ps.map encPropFilter) = if "prop-filter" = loc then ps.map encPropFilter else [] := by
  have h : encPropFilter = fun p => el "prop-filter" [att "name" p.name]
      (ind p.isNotDefined ++ encTimeRange p.start p.end_ ++ encTM p.textMatch ++ p.paramFilters.map encParamFilter) := by
    funext p; rfl
  rw [h]; exact pick_map_el loc "prop-filter" ps _ _

theorem pick_compFilters (loc : String) (cs : List CompFilter) :
    pick loc (encCompFilters cs) = if "comp-filter" = loc then encCompFilters cs else [] := by
  induction cs with
  | nil => simp [encCompFilters]
  | cons c cs ih =>
    cases c with
    | mk n i s e ps cc =>
      rw [encCompFilters, encCompFilter, pick_el, ih]; by_cases h : "comp-filter" = loc <;> simp [h]

theorem pick_comps (loc : String) (cs : List CompReq) :
    pick loc (encComps cs) = if "comp" = loc then encComps cs else [] := by
  induction cs with
  | nil => simp [encComps]
  | cons c cs ih =>
    cases c with
    | mk n ap ps ac cc =>
      rw [encComps, encComp, pick_el, ih]; by_cases h : "comp" = loc <;> simp [h]

theorem hasInd_eq (cs : List Node) : hasInd cs = !(pick "is-not-defined" cs).isEmpty := by
  unfold hasInd pick
  induction cs with
  | nil => rfl
  | cons c cs ih => simp only [List.any_cons, List.filter_cons]; cases h : c.localIs "is-not-defined" <;> simp [ih]

theorem any_eq_pick (loc : String) (cs : List Node) : cs.any (·.localIs loc) = !(pick loc cs).isEmpty := by
  unfold pick
  induction cs with
  | nil => rfl
  | cons c cs ih => simp only [List.any_cons, List.filter_cons]; cases h : c.localIs loc <;> simp [ih]

-- attributes ------------------------------------------------------------------------------------------------------------

@[simp] theorem nameAttr_att (n : String) : nameAttr [att "name" n] = n := by
  simp [nameAttr, attr, att]

theorem attr_timeAttrs_start (s e : Int) :
    attr (timeAttr "start" s ++ timeAttr "end" e) "start" = if s = Z then none else some (fmt s) := by
  unfold timeAttr attr att
  by_cases hs : s = Z <;> by_cases he : e = Z <;> simp [hs, he]

theorem attr_timeAttrs_end (s e : Int) :
    attr (timeAttr "start" s ++ timeAttr "end" e) "end" = if e = Z then none else some (fmt e) := by
  unfold timeAttr attr att
  by_cases hs : s = Z <;> by_cases he : e = Z <;> simp [hs, he]

theorem parse_fmt (t : Int) (h : InRange t) : parseCal (fmt t).toList = some t := by
  unfold fmt; simp [GoWebdav.Lemmas.Time.parseCal_fmtCal t h]

theorem decTime_start (s e : Int) (hs : InRange s) : decTime (timeAttr "start" s ++ timeAttr "end" e) "start" = .ok s := by
  unfold decTime; rw [attr_timeAttrs_start]
  by_cases h : s = Z
  · simp [h]
  · simp [h, parse_fmt s hs]

theorem decTime_end (s e : Int) (he : InRange e) : decTime (timeAttr "start" s ++ timeAttr "end" e) "end" = .ok e := by
  unfold decTime; rw [attr_timeAttrs_end]
  by_cases h : e = Z
  · simp [h]
  · simp [h, parse_fmt e he]

theorem decRange_enc (loc : String) (s e : Int) (hs : InRange s) (he : InRange e) :
    decRange (el loc (timeAttr "start" s ++ timeAttr "end" e) []) = .ok (s, e) := by
  simp [decRange, el, checkNs, decTime_start s e hs, decTime_end s e he, bind, Except.bind, pure, Except.pure]

-- the lenient decoder on the encoder's output ---------------------------------------------------------------------------

theorem decNegate_negAttr (b : Bool) : decNegate (negAttr b) = .ok b := by
  cases b <;> simp [decNegate, negAttr, Generated.caldavNegateFormat, Generated.caldavNegateParse, attr, att]

theorem decTextMatch_enc (t : TextMatch) : decTextMatch (encTextMatch t) = .ok t := by
  simp [decTextMatch, encTextMatch, el, checkNs, decNegate_negAttr, chardata_textNodes, bind, Except.bind, pure, Except.pure]

theorem decOptTextMatch_of (cs : List Node) (tm : Option TextMatch) (h : pick "text-match" cs = encTM tm) :
    decOptTextMatch cs = .ok tm := by
  unfold decOptTextMatch single
  rw [h]
  cases tm with
  | none => simp [encTM, bind, Except.bind, pure, Except.pure]
  | some t => simp [encTM, decTextMatch_enc, bind, Except.bind, pure, Except.pure]

def rangeOf (s e : Int) : Option (Int × Int) := if s = Z ∧ e = Z then none else some (s, e)

theorem rangeOf_fst (s e : Int) : ((rangeOf s e).getD (Z, Z)).1 = s := by
  unfold rangeOf; split <;> simp_all
theorem rangeOf_snd (s e : Int) : ((rangeOf s e).getD (Z, Z)).2 = e := by
  unfold rangeOf; split <;> simp_all
theorem rangeOf_isSome (s e : Int) : (rangeOf s e).isSome = (s != Z || e != Z) := by
  unfold rangeOf; by_cases hs : s = Z <;> by_cases he : e = Z <;> simp [hs, he]

theorem decOptRange_of (cs : List Node) (s e : Int) (hs : InRange s) (he : InRange e)
    (h : pick "time-range" cs = encTimeRange s e) : decOptRange "time-range" cs = .ok (rangeOf s e) := by
  unfold decOptRange single rangeOf
  rw [h]; unfold encTimeRange
  by_cases hz : s = Z ∧ e = Z
  · simp [hz, bind, Except.bind, pure, Except.pure]
  · simp [hz, decRange_enc "time-range" s e hs he, bind, Except.bind, pure, Except.pure]

theorem mapM_map_ok {α β : Type} (enc : α → β) (dec : β → Except Impl.CaldavWire.Err α) (l : List α)
    (h : ∀ x ∈ l, dec (enc x) = .ok x) : (l.map enc).mapM dec = .ok l := by
  induction l with
  | nil => rfl
  | cons x xs ih =>
    rw [List.map_cons, List.mapM_cons, h x (by simp), ih (fun y hy => h y (by simp [hy]))]
    rfl

theorem ind_isEmpty (b : Bool) : (ind b).isEmpty = !b := by cases b <;> rfl

theorem decParamFilter_enc (p : ParamFilter) (h : okParam p = true) : decParamFilter (encParamFilter p) = .ok p := by
  obtain ⟨name, i, tm⟩ := p
  have htm : decOptTextMatch (ind i ++ encTM tm) = .ok tm :=
    decOptTextMatch_of _ tm (by simp [pick_append, pick_ind, pick_encTM])
  have hind : hasInd (ind i ++ encTM tm) = i := by
    rw [hasInd_eq]; simp [pick_append, pick_ind, pick_encTM, ind_isEmpty]
  unfold okParam at h
  simp only [decParamFilter, encParamFilter, el, checkNs, htm, hind, nameAttr_att, bind, Except.bind, pure, Except.pure, if_true]
  cases i <;> cases tm <;> simp_all

theorem decPropFilter_enc (p : PropFilter) (h : okProp p = true) : decPropFilter (encPropFilter p) = .ok p := by
  obtain ⟨name, i, s, e, tm, params⟩ := p
  unfold okProp at h
  simp only [Bool.and_eq_true] at h
  obtain ⟨⟨⟨hs, he⟩, hps⟩, hex⟩ := h
  have hs := inRange_of s hs
  have he := inRange_of e he
  simp only [decPropFilter, encPropFilter, el, checkNs, nameAttr_att, bind, Except.bind, pure, Except.pure, if_true]
  generalize hcs : ind i ++ encTimeRange s e ++ encTM tm ++ params.map encParamFilter = cs
  have htr : decOptRange "time-range" cs = .ok (rangeOf s e) :=
    decOptRange_of _ s e hs he (by simp [← hcs, pick_append, pick_ind, pick_encTM, pick_encTimeRange, pick_params])
  have htm : decOptTextMatch cs = .ok tm :=
    decOptTextMatch_of _ tm (by simp [← hcs, pick_append, pick_ind, pick_encTM, pick_encTimeRange, pick_params])
  have hpar : (pick "param-filter" cs).mapM decParamFilter = .ok params := by
    have : pick "param-filter" cs = params.map encParamFilter := by
      simp [← hcs, pick_append, pick_ind, pick_encTM, pick_encTimeRange, pick_params]
    rw [this]
    exact mapM_map_ok _ _ _ (fun x hx => decParamFilter_enc x (by simpa using (List.all_eq_true.mp hps) x hx))
  have hind : hasInd cs = i := by
    rw [hasInd_eq]; simp [← hcs, pick_append, pick_ind, pick_encTM, pick_encTimeRange, pick_params, ind_isEmpty]
  rw [htr]; simp only []
  rw [htm]; simp only []
  rw [hpar]
  simp only [hind, rangeOf_fst, rangeOf_snd, rangeOf_isSome]
  cases i
  · simp
  · simp at hex ⊢
    obtain ⟨⟨⟨h1, h2⟩, h3⟩, h4⟩ := hex
    simp [h1, h2, h3, h4]

theorem decCompFilters_skip (pre rest : List Node) (h : pick "comp-filter" pre = []) :
    decCompFilters (pre ++ rest) = decCompFilters rest := by
  induction pre with
  | nil => rfl
  | cons n pre ih =>
    unfold pick at h ih
    rw [List.filter_cons] at h
    cases hn : n.localIs "comp-filter" with
    | true => simp [hn] at h
    | false =>
      simp only [hn, Bool.false_eq_true, if_false] at h
      rw [List.cons_append, decCompFilters]
      simp only [hn, Bool.false_eq_true, if_false]
      exact ih h

theorem decComps_skip (pre rest : List Node) (h : pick "comp" pre = []) :
    decComps (pre ++ rest) = decComps rest := by
  induction pre with
  | nil => rfl
  | cons n pre ih =>
    unfold pick at h ih
    rw [List.filter_cons] at h
    cases hn : n.localIs "comp" with
    | true => simp [hn] at h
    | false =>
      simp only [hn, Bool.false_eq_true, if_false] at h
      rw [List.cons_append, decComps]
      simp only [hn, Bool.false_eq_true, if_false]
      exact ih h

theorem encCompFilters_isEmpty (cs : List CompFilter) : (encCompFilters cs).isEmpty = cs.isEmpty := by
  cases cs <;> simp [encCompFilters]

mutual
theorem decCompFilter_enc : ∀ (f : CompFilter), okCF f = true → decCompFilter (encCompFilter f) = .ok f
  | .mk name i s e props comps, h => by
    unfold okCF at h
    simp only [Bool.and_eq_true] at h
    obtain ⟨⟨⟨⟨hs, he⟩, hps⟩, hcs'⟩, hex⟩ := h
    have ihc := decCompFilters_enc comps hcs'
    have hs := inRange_of s hs
    have he := inRange_of e he
    simp only [decCompFilter, encCompFilter, el, checkNs, nameAttr_att, bind, Except.bind, pure, Except.pure, if_true]
    generalize hcs : ind i ++ encTimeRange s e ++ props.map encPropFilter ++ encCompFilters comps = cs
    have htr : decOptRange "time-range" cs = .ok (rangeOf s e) :=
      decOptRange_of _ s e hs he (by simp [← hcs, pick_append, pick_ind, pick_encTimeRange, pick_props, pick_compFilters])
    have hpr : (pick "prop-filter" cs).mapM decPropFilter = .ok props := by
      have : pick "prop-filter" cs = props.map encPropFilter := by
        simp [← hcs, pick_append, pick_ind, pick_encTimeRange, pick_props, pick_compFilters]
      rw [this]
      exact mapM_map_ok _ _ _ (fun x hx => decPropFilter_enc x (by simpa using (List.all_eq_true.mp hps) x hx))
    have hco : decCompFilters cs = .ok comps := by
      rw [← hcs, decCompFilters_skip _ _ (by simp [pick_append, pick_ind, pick_encTimeRange, pick_props])]
      exact ihc
    have hind : hasInd cs = i := by
      rw [hasInd_eq]; simp [← hcs, pick_append, pick_ind, pick_encTimeRange, pick_props, pick_compFilters, ind_isEmpty]
    rw [htr]; simp only []
    rw [hpr]; simp only []
    rw [hco]
    simp only [hind, rangeOf_fst, rangeOf_snd, rangeOf_isSome]
    cases i
    · simp
    · simp at hex ⊢
      obtain ⟨⟨⟨h1, h2⟩, h3⟩, h4⟩ := hex
      simp [h1, h2, h3, h4]
theorem decCompFilters_enc : ∀ (fs : List CompFilter), okCFs fs = true → decCompFilters (encCompFilters fs) = .ok fs
  | [], _ => by simp [encCompFilters, decCompFilters]
  | f :: fs, h => by
    unfold okCFs at h
    simp only [Bool.and_eq_true] at h
    have h1 := decCompFilter_enc f h.1
    have h2 := decCompFilters_enc fs h.2
    have hl : (encCompFilter f).localIs "comp-filter" = true := by
      cases f; simp [encCompFilter, el, Node.localIs]
    rw [encCompFilters, decCompFilters]
    simp [hl, h1, h2, bind, Except.bind, pure, Except.pure]
end

theorem flag_isEmpty (l : String) (b : Bool) : (flag l b).isEmpty = !b := by cases b <;> rfl

def encDataProp (p : String) : Node := el "prop" [att "name" p] []

theorem pick_dataProps (loc : String) (ps : List String) :
    pick loc (ps.map (fun p => el "prop" [att "name" p] [])) = if "prop" = loc then ps.map (fun p => el "prop" [att "name" p] []) else [] :=
  pick_map_el loc "prop" ps (fun p => [att "name" p]) (fun _ => [])

theorem decPropName_enc (p : String) : decPropName (el "prop" [att "name" p] []) = .ok p := by
  simp [decPropName, el, checkNs, bind, Except.bind, pure, Except.pure]

mutual
theorem decComp_enc : ∀ (c : CompReq), okCR c = true → decComp (encComp c) = .ok c
  | .mk name ap props ac comps, h => by
    unfold okCR at h
    simp only [Bool.and_eq_true] at h
    obtain ⟨⟨hcs', hap⟩, hac⟩ := h
    have ihc := decComps_enc comps hcs'
    simp only [decComp, encComp, el, checkNs, nameAttr_att, bind, Except.bind, pure, Except.pure, if_true]
    generalize hcs : flag "allprop" ap ++ props.map (fun p => Node.elem ⟨nsCal, "prop"⟩ [att "name" p] []) ++ flag "allcomp" ac ++ encComps comps = cs
    have hcs2 : flag "allprop" ap ++ props.map (fun p => el "prop" [att "name" p] []) ++ flag "allcomp" ac ++ encComps comps = cs := hcs
    have hpr : (pick "prop" cs).mapM decPropName = .ok props := by
      have : pick "prop" cs = props.map (fun p => el "prop" [att "name" p] []) := by
        simp [← hcs2, pick_append, pick_flag, pick_dataProps, pick_comps]
      rw [this]
      exact mapM_map_ok _ _ _ (fun x _ => decPropName_enc x)
    have hco : decComps cs = .ok comps := by
      rw [← hcs2, decComps_skip _ _ (by simp [pick_append, pick_flag, pick_dataProps])]
      exact ihc
    have hap' : cs.any (·.localIs "allprop") = ap := by
      rw [any_eq_pick]; simp [← hcs2, pick_append, pick_flag, pick_dataProps, pick_comps, flag_isEmpty]
    have hac' : cs.any (·.localIs "allcomp") = ac := by
      rw [any_eq_pick]; simp [← hcs2, pick_append, pick_flag, pick_dataProps, pick_comps, flag_isEmpty]
    rw [hpr]; simp only []
    rw [hco]
    simp only [hap', hac']
    cases ap <;> cases ac <;> simp_all
theorem decComps_enc : ∀ (cs : List CompReq), okCRs cs = true → decComps (encComps cs) = .ok cs
  | [], _ => by simp [encComps, decComps]
  | c :: cs, h => by
    unfold okCRs at h
    simp only [Bool.and_eq_true] at h
    have h1 := decComp_enc c h.1
    have h2 := decComps_enc cs h.2
    have hl : (encComp c).localIs "comp" = true := by
      cases c; simp [encComp, el, Node.localIs]
    rw [encComps, decComps]
    simp [hl, h1, h2, bind, Except.bind, pure, Except.pure]
end

theorem encComp_local (c : CompReq) : ∃ a cs, encComp c = el "comp" a cs := by
  cases c; exact ⟨_, _, by rw [encComp]⟩

theorem encCompFilter_local (f : CompFilter) : ∃ a cs, encCompFilter f = el "comp-filter" a cs := by
  cases f; exact ⟨_, _, by rw [encCompFilter]⟩

theorem decExpand_enc (pre : List Node) (ex : Option (Int × Int)) (hp : pick "expand" pre = [])
    (h : (match ex with | some (s, e) => inRangeB s && inRangeB e | none => true) = true) :
    decOptRange "expand" (pre ++ encExpand ex) = .ok ex := by
  unfold decOptRange single
  rw [pick_append, hp]
  cases ex with
  | none => simp [encExpand, bind, Except.bind, pure, Except.pure]
  | some se =>
    obtain ⟨s, e⟩ := se
    simp only [Bool.and_eq_true] at h
    simp [encExpand, pick_el, decRange_enc "expand" s e (inRange_of s h.1) (inRange_of e h.2), bind, Except.bind, pure, Except.pure]

theorem decDataReq_enc (d : DataReq) (h : okData d = true) :
    decDataReq [el "calendar-data" [] (encComp d.comp :: encExpand d.expand), dav "getlastmodified" [], dav "getetag" []] = .ok d := by
  obtain ⟨c, ex⟩ := d
  unfold okData at h
  simp only [Bool.and_eq_true] at h
  obtain ⟨a, cs, hc⟩ := encComp_local c
  have hcomp : single "comp" (encComp c :: encExpand ex) = .ok (some (encComp c)) := by
    unfold single
    have : pick "comp" (encComp c :: encExpand ex) = [encComp c] := by
      rw [hc, pick_el]; cases ex with
      | none => simp [encExpand]
      | some se => simp [encExpand, pick_el]
    rw [this]
  have hex : decOptRange "expand" (encComp c :: encExpand ex) = .ok ex := by
    have := decExpand_enc [encComp c] ex (by rw [hc, pick_el]; simp) h.2
    simpa using this
  simp only [decDataReq, List.find?_cons, el, dav, Node.isElem, beq_self_eq_true, Bool.and_self]
  change (do
    let comp ← (do match ← single "comp" (encComp c :: encExpand ex) with
      | none => pure (CompReq.mk "" true [] true [])
      | some n => decComp n)
    let ex' ← decOptRange "expand" (encComp c :: encExpand ex)
    pure (⟨comp, ex'⟩ : DataReq)) = _
  rw [hcomp, hex]
  simp [decComp_enc c h.1, bind, Except.bind, pure, Except.pure]

theorem decPropReq_enc (d : DataReq) (rest : List Node) (h : okData d = true)
    (hr : rest.filter (·.isElem nsDav "prop") = []) : decPropReq (encDataReq d :: rest) = .ok d := by
  unfold decPropReq
  have : (encDataReq d :: rest).filter (·.isElem nsDav "prop") =
      [dav "prop" [el "calendar-data" [] (encComp d.comp :: encExpand d.expand), dav "getlastmodified" [], dav "getetag" []]] := by
    rw [List.filter_cons, hr]; simp [encDataReq, dav, Node.isElem]
  rw [this]
  simp only [dav]
  exact decDataReq_enc d h

/-- the server hands the backend the caller's query -/
theorem decodeQuery_encodeQuery (q : Query) (h : Accepted q = true) : decodeQuery (encodeQuery q) = .ok q := by
  obtain ⟨d, f⟩ := q
  unfold Accepted at h
  simp only [Bool.and_eq_true] at h
  obtain ⟨a, cs, hf⟩ := encCompFilter_local f
  have hfil : single "filter" [encDataReq d, el "filter" [] [encCompFilter f]] = .ok (some (el "filter" [] [encCompFilter f])) := by
    unfold single
    have : pick "filter" [encDataReq d, el "filter" [] [encCompFilter f]] = [el "filter" [] [encCompFilter f]] := by
      simp [pick, encDataReq, dav, el, Node.localIs, List.filter_cons]
    rw [this]
  have hcf : single "comp-filter" [encCompFilter f] = .ok (some (encCompFilter f)) := by
    unfold single; rw [hf, pick_el]; simp
  have hprop : decPropReq [encDataReq d, el "filter" [] [encCompFilter f]] = .ok d :=
    decPropReq_enc d _ h.1 (by simp [el, Node.isElem, nsCal, nsDav])
  simp only [decodeQuery, encodeQuery, el]
  simp only [el] at hfil hprop
  simp only [beq_self_eq_true, Bool.and_self, Bool.not_true, Bool.false_eq_true, if_false]
  rw [hfil]
  simp only [bind, Except.bind, checkNs, if_true, pure, Except.pure]
  rw [hcf]
  simp only [decCompFilter_enc f h.2, hprop]

theorem decodeMultiGet_encodeMultiGet (rp : String) (escape : String → String) (unescape : String → Option String)
    (m : MultiGet) (h : okData m.data = true)
    (hesc : ∀ p ∈ (if m.paths.isEmpty then [rp] else m.paths), unescape (escape p) = some p) :
    decodeMultiGet unescape (encodeMultiGet rp escape m) = .ok ⟨m.data, if m.paths.isEmpty then [rp] else m.paths⟩ := by
  unfold encodeMultiGet
  generalize (if m.paths.isEmpty then [rp] else m.paths) = paths at hesc ⊢
  have hh : ∀ (l : List String), (l.map (fun p => dav "href" [Node.text (escape p)])).filter (·.isElem nsDav "href")
      = l.map (fun p => dav "href" [Node.text (escape p)]) := by
    intro l; induction l with
    | nil => rfl
    | cons x xs ih => simp [List.filter_cons, dav, Node.isElem] at ih ⊢
  have hp : ∀ (l : List String), (l.map (fun p => dav "href" [Node.text (escape p)])).filter (·.isElem nsDav "prop") = [] := by
    intro l; induction l with
    | nil => rfl
    | cons x xs ih => simp [dav, Node.isElem]
  have hhref : ((encDataReq m.data :: paths.map (fun p => dav "href" [Node.text (escape p)])).filter (·.isElem nsDav "href")).mapM
      (decHref unescape) = .ok paths := by
    rw [List.filter_cons, hh]
    have : (encDataReq m.data).isElem nsDav "href" = false := by simp [encDataReq, dav, Node.isElem]
    simp only [this, Bool.false_eq_true, if_false]
    apply mapM_map_ok
    intro x hx
    simp [decHref, dav, chardata, hesc x hx]
  have hprop := decPropReq_enc m.data (paths.map (fun p => dav "href" [Node.text (escape p)])) h (hp paths)
  simp only [decodeMultiGet, el, beq_self_eq_true, Bool.and_self, Bool.not_true, Bool.false_eq_true, if_false]
  simp only [bind, Except.bind]
  rw [hhref]
  simp only [hprop, pure, Except.pure]

end GoWebdav.Lemmas.CaldavWire
