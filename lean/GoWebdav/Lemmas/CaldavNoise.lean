import GoWebdav.Lemmas.CaldavAgree
import GoWebdav.Spec.XmlNoise
/-!
The CalDAV query decoder does not see insignificant content: comments, and white space between the elements of an
element-content model, anywhere in a calendar-query document (`decodeQuery (clean n) = decodeQuery n` for EVERY tree
`n`, at any nesting depth).  The character data of text-match, href and timezone is left alone.
-/
namespace GoWebdav.Lemmas.CaldavNoise
open GoWebdav GoWebdav.Std.Xml GoWebdav.Impl.Caldav GoWebdav.Impl.CaldavWire GoWebdav.Spec.XmlNoise

/-- the elements whose content is character data -/
def pc (loc : String) : Bool := loc = "text-match" || loc = "href" || loc = "timezone"

theorem clean_pcdata (n : Node) (loc : String) (hl : n.localIs loc = true) (hp : pc loc = true) : clean pc n = n := by
  cases n with
  | elem q a cs =>
    have : q.loc = loc := by simpa [Node.localIs] using hl
    simp [clean, this, hp]
  | text s => rfl
  | comment s => rfl

theorem clean_elem (q : QName) (a : List (QName × String)) (cs : List Node) (h : pc q.loc = false) :
    clean pc (.elem q a cs) = .elem q a (cleanList pc cs) := by
  simp [clean, h]

theorem pick_clean (loc : String) (cs : List Node) : pick loc (cleanList pc cs) = (pick loc cs).map (clean pc) := by
  unfold pick; exact filter_cleanList pc _ (byName_localIs loc) cs

theorem mapM_map_congr {α : Type} (f : Node → Except Impl.CaldavWire.Err α) (l : List Node) (h : ∀ x ∈ l, f (clean pc x) = f x) :
    (l.map (clean pc)).mapM f = l.mapM f := by
  induction l with
  | nil => rfl
  | cons x xs ih =>
    rw [List.map_cons, List.mapM_cons, List.mapM_cons, h x (by simp), ih (fun y hy => h y (by simp [hy]))]

/-- a singular field: the same occurrence count, the occurrence cleaned -/
theorem single_clean (loc : String) (cs : List Node) :
    single loc (cleanList pc cs) = (match single loc cs with
      | .ok (some n) => .ok (some (clean pc n))
      | .ok none => .ok none
      | .error e => .error e) := by
  unfold single
  rw [pick_clean]
  match pick loc cs with
  | [] => rfl
  | [n] => rfl
  | _ :: _ :: _ => rfl

theorem single_mem (loc : String) (cs : List Node) (n : Node) (h : single loc cs = .ok (some n)) : n.localIs loc = true := by
  unfold single at h
  match hp : pick loc cs, h with
  | [m], h =>
    simp only [Except.ok.injEq, Option.some.injEq] at h
    subst h
    have : m ∈ pick loc cs := by rw [hp]; simp
    exact (List.mem_filter.mp this).2

theorem decRange_clean (n : Node) : decRange (clean pc n) = decRange n := by
  cases n with
  | text s => rfl
  | comment s => rfl
  | elem q a cs => simp only [clean]; split <;> rfl

theorem decOptRange_clean (loc : String) (cs : List Node) : decOptRange loc (cleanList pc cs) = decOptRange loc cs := by
  unfold decOptRange
  rw [single_clean]
  cases h : single loc cs with
  | error e => rfl
  | ok o =>
    cases o with
    | none => rfl
    | some n => simp only [bind, Except.bind, decRange_clean]

theorem decOptTextMatch_clean (cs : List Node) : decOptTextMatch (cleanList pc cs) = decOptTextMatch cs := by
  unfold decOptTextMatch
  rw [single_clean]
  cases h : single "text-match" cs with
  | error e => rfl
  | ok o =>
    cases o with
    | none => rfl
    | some n => simp only [bind, Except.bind, clean_pcdata n "text-match" (single_mem _ _ _ h) (by decide)]

theorem hasInd_clean (cs : List Node) : hasInd (cleanList pc cs) = hasInd cs := by
  unfold hasInd; exact any_cleanList pc _ (byName_localIs "is-not-defined") cs

theorem nameAttr_irrelevant : True := trivial

theorem decParamFilter_clean (n : Node) : decParamFilter (clean pc n) = decParamFilter n := by
  cases n with
  | text s => rfl
  | comment s => rfl
  | elem q a cs =>
    by_cases hp : pc q.loc = true
    · simp [clean, hp]
    · have hp' : pc q.loc = false := by simpa using hp
      rw [clean_elem q a cs hp']
      unfold decParamFilter
      simp only [decOptTextMatch_clean, hasInd_clean]

theorem decPropFilter_clean (n : Node) : decPropFilter (clean pc n) = decPropFilter n := by
  cases n with
  | text s => rfl
  | comment s => rfl
  | elem q a cs =>
    by_cases hp : pc q.loc = true
    · simp [clean, hp]
    · have hp' : pc q.loc = false := by simpa using hp
      rw [clean_elem q a cs hp']
      unfold decPropFilter
      simp only [decOptRange_clean, decOptTextMatch_clean, hasInd_clean, pick_clean,
        mapM_map_congr decParamFilter _ (fun x _ => decParamFilter_clean x)]

mutual
theorem decCompFilter_clean : ∀ (n : Node), decCompFilter (clean pc n) = decCompFilter n
  | .text s => rfl
  | .comment s => rfl
  | .elem q a cs => by
    by_cases hp : pc q.loc = true
    · simp [clean, hp]
    · have hp' : pc q.loc = false := by simpa using hp
      rw [clean_elem q a cs hp']
      simp only [decCompFilter, decOptRange_clean, hasInd_clean, pick_clean,
        mapM_map_congr decPropFilter _ (fun x _ => decPropFilter_clean x), decCompFilters_clean cs]
theorem decCompFilters_clean : ∀ (l : List Node), decCompFilters (cleanList pc l) = decCompFilters l
  | [] => by simp [cleanList]
  | c :: cs => by
    simp only [cleanList]
    by_cases hn : noise c = true
    · have hl : c.localIs "comp-filter" = false := noise_not _ (byName_localIs "comp-filter") c hn
      simp only [hn, if_true, decCompFilters, hl, Bool.false_eq_true, if_false]
      exact decCompFilters_clean cs
    · simp only [hn, Bool.false_eq_true, if_false, decCompFilters, clean_name pc _ (byName_localIs "comp-filter") c,
        decCompFilter_clean c, decCompFilters_clean cs]
end

theorem decPropName_clean (n : Node) : decPropName (clean pc n) = decPropName n := by
  cases n with
  | text s => rfl
  | comment s => rfl
  | elem q a cs => simp only [clean]; split <;> rfl

mutual
theorem decComp_clean : ∀ (n : Node), decComp (clean pc n) = decComp n
  | .text s => rfl
  | .comment s => rfl
  | .elem q a cs => by
    by_cases hp : pc q.loc = true
    · simp [clean, hp]
    · have hp' : pc q.loc = false := by simpa using hp
      rw [clean_elem q a cs hp']
      simp only [decComp, pick_clean, mapM_map_congr decPropName _ (fun x _ => decPropName_clean x), decComps_clean cs,
        any_cleanList pc _ (byName_localIs "allprop"), any_cleanList pc _ (byName_localIs "allcomp")]
theorem decComps_clean : ∀ (l : List Node), decComps (cleanList pc l) = decComps l
  | [] => by simp [cleanList]
  | c :: cs => by
    simp only [cleanList]
    by_cases hn : noise c = true
    · have hl : c.localIs "comp" = false := noise_not _ (byName_localIs "comp") c hn
      simp only [hn, if_true, decComps, hl, Bool.false_eq_true, if_false]
      exact decComps_clean cs
    · simp only [hn, Bool.false_eq_true, if_false, decComps, clean_name pc _ (byName_localIs "comp") c,
        decComp_clean c, decComps_clean cs]
end

theorem decDataReq_clean (pcs : List Node) : decDataReq (cleanList pc pcs) = decDataReq pcs := by
  unfold decDataReq
  rw [find_cleanList pc _ (byName_isElem nsCal "calendar-data")]
  cases hf : pcs.find? (·.isElem nsCal "calendar-data") with
  | none => rfl
  | some n =>
    cases n with
    | text s => rfl
    | comment s => rfl
    | elem q a cs =>
      have hloc : q.loc = "calendar-data" := by
        have := List.find?_some hf
        simp only [Node.isElem, Bool.and_eq_true, beq_iff_eq] at this
        exact this.2
      have hp : pc q.loc = false := by rw [hloc]; decide
      simp only [Option.map_some, clean_elem q a cs hp, single_clean, decOptRange_clean]
      cases hs : single "comp" cs with
      | error e => rfl
      | ok o =>
        cases o with
        | none => rfl
        | some c => simp only [bind, Except.bind, decComp_clean]

theorem decPropReq_clean (cs : List Node) : decPropReq (cleanList pc cs) = decPropReq cs := by
  unfold decPropReq
  rw [filter_cleanList pc _ (byName_isElem nsDav "prop")]
  have hall : ∀ x ∈ cs.filter (·.isElem nsDav "prop"), x.isElem nsDav "prop" = true := fun x hx => (List.mem_filter.mp hx).2
  generalize cs.filter (·.isElem nsDav "prop") = l at hall
  match l, hall with
  | [], _ => rfl
  | [.text s], _ => rfl
  | [.comment s], _ => rfl
  | [.elem q a pcs], hall =>
    have hloc : q.loc = "prop" := by
      have := hall (Node.elem q a pcs) (by simp)
      simp only [Node.isElem, Bool.and_eq_true, beq_iff_eq] at this
      exact this.2
    have hq : pc q.loc = false := by rw [hloc]; decide
    simp only [List.map_cons, List.map_nil, clean_elem q a pcs hq]
    exact decDataReq_clean pcs
  | x :: y :: rest, _ =>
    simp only [List.map_cons]
    cases clean pc x <;> rfl

/-- the decoder does not see insignificant content, whatever the document -/
theorem decodeQuery_clean (n : Node) : decodeQuery (clean pc n) = decodeQuery n := by
  cases n with
  | text s => rfl
  | comment s => rfl
  | elem name attrs cs =>
    by_cases hp : pc name.loc = true
    · simp [clean, hp]
    · have hp' : pc name.loc = false := by simpa using hp
      rw [clean_elem name attrs cs hp']
      unfold decodeQuery
      simp only [decPropReq_clean, single_clean]
      cases hs : single "filter" cs with
      | error e => rfl
      | ok o =>
        cases o with
        | none => rfl
        | some f =>
          cases f with
          | text s => rfl
          | comment s => rfl
          | elem fq fa fc =>
            have hloc : fq.loc = "filter" := by
              have := single_mem _ _ _ hs
              simpa [Node.localIs] using this
            have hq : pc fq.loc = false := by rw [hloc]; decide
            simp only [clean_elem fq fa fc hq, bind, Except.bind, single_clean]
            cases hs2 : single "comp-filter" fc with
            | error e => rfl
            | ok o2 =>
              cases o2 with
              | none => rfl
              | some c => simp only [decCompFilter_clean]

/-- wire → backend for every document that is RFC-conformant once its insignificant content is set aside -/
theorem decodeQuery_of_read_clean (n : Node) (q : Query) (h : Spec.CaldavWire.readQuery (clean pc n) = some q) :
    decodeQuery n = .ok q := by
  rw [← decodeQuery_clean n]
  exact GoWebdav.Lemmas.CaldavAgree.decodeQuery_of_read (clean pc n) q h

theorem map_clean_id (l : List Node) (h : ∀ x ∈ l, clean pc x = x) : l.map (clean pc) = l := by
  induction l with
  | nil => rfl
  | cons x xs ih => rw [List.map_cons, h x (by simp), ih (fun y hy => h y (by simp [hy]))]

theorem hrefs_clean (cs : List Node) :
    (cleanList pc cs).filter (·.isElem nsDav "href") = cs.filter (·.isElem nsDav "href") := by
  rw [filter_cleanList pc _ (byName_isElem nsDav "href")]
  apply map_clean_id
  intro x hx
  have := (List.mem_filter.mp hx).2
  cases x with
  | elem q a k =>
    simp only [Node.isElem, Bool.and_eq_true, beq_iff_eq] at this
    exact clean_pcdata _ "href" (by simp [Node.localIs, this.2]) (by decide)
  | text s => rfl
  | comment s => rfl

/-- the multiget decoder does not see insignificant content either -/
theorem decodeMultiGet_clean (unescape : String → Option String) (n : Node) :
    decodeMultiGet unescape (clean pc n) = decodeMultiGet unescape n := by
  cases n with
  | text s => rfl
  | comment s => rfl
  | elem name attrs cs =>
    by_cases hp : pc name.loc = true
    · simp [clean, hp]
    · have hp' : pc name.loc = false := by simpa using hp
      rw [clean_elem name attrs cs hp']
      unfold decodeMultiGet
      simp only [decPropReq_clean, hrefs_clean]

end GoWebdav.Lemmas.CaldavNoise
