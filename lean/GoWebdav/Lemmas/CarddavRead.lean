import GoWebdav.Lemmas.CarddavWire
import GoWebdav.Spec.CarddavWire
/-!
Helper lemmas for C09, client → wire: the strict RFC 6352 reader (`Spec.CarddavWire.read*`) reads what the encoder
writes, to the value that was encoded.
-/
namespace GoWebdav.Lemmas.CarddavRead
open GoWebdav GoWebdav.Std.Xml GoWebdav.Impl.CarddavWire GoWebdav.Spec.CarddavWire GoWebdav.Generated
open GoWebdav.Props.C09 GoWebdav.Lemmas.CarddavWire

-- generic ------------------------------------------------------------------------------------------------------------------

theorem takeWhile_append {α : Type} (p : α → Bool) (a b : List α) (ha : ∀ x ∈ a, p x = true) (hb : ∀ x ∈ b.head?, p x = false) :
    (a ++ b).takeWhile p = a ∧ (a ++ b).dropWhile p = b := by
  induction a with
  | nil =>
    cases b with
    | nil => exact ⟨rfl, rfl⟩
    | cons y ys =>
      have : p y = false := hb y (by simp)
      simp [List.takeWhile_cons, List.dropWhile_cons, this]
  | cons x xs ih =>
    have hx : p x = true := ha x (by simp)
    have := ih (fun y hy => ha y (by simp [hy]))
    simp only [List.cons_append, List.takeWhile_cons, List.dropWhile_cons, hx, if_true]
    exact ⟨by rw [this.1], this.2⟩

theorem mapM_map_some {α β : Type} (enc : α → β) (dec : β → Option α) (l : List α)
    (h : ∀ x ∈ l, dec (enc x) = some x) : (l.map enc).mapM dec = some l := by
  induction l with
  | nil => rfl
  | cons x xs ih =>
    rw [List.map_cons, List.mapM_cons, h x (by simp), ih (fun y hy => h y (by simp [hy]))]
    rfl

-- element recognisers on what the encoder writes ---------------------------------------------------------------------------------

@[simp] theorem isC_elem (loc l : String) (a : List (QName × String)) (c : List Node) :
    isC loc (Node.elem ⟨nsCard, l⟩ a c) = (l == loc) := by
  simp [isC, nsC, nsCard]
@[simp] theorem isD_elem (loc l : String) (a : List (QName × String)) (c : List Node) :
    isD loc (Node.elem ⟨nsDav, l⟩ a c) = (l == loc) := by
  simp [isD, nsD, nsDav]
@[simp] theorem isC_elemD (loc l : String) (a : List (QName × String)) (c : List Node) :
    isC loc (Node.elem ⟨nsDav, l⟩ a c) = false := by
  simp [isC, nsC, nsDav]
@[simp] theorem isC_el (loc l : String) (a : List (QName × String)) (c : List Node) : isC loc (el l a c) = (l == loc) := by
  simp [isC, el, nsC, nsCard]
@[simp] theorem isD_el (loc l : String) (a : List (QName × String)) (c : List Node) : isD loc (el l a c) = false := by
  simp [isD, el, nsD, nsCard]
@[simp] theorem isD_dav (loc l : String) (c : List Node) : isD loc (dav l c) = (l == loc) := by
  simp [isD, dav, nsD, nsDav]
@[simp] theorem isC_dav (loc l : String) (c : List Node) : isC loc (dav l c) = false := by
  simp [isC, dav, nsC, nsDav]
@[simp] theorem emptyC_elem (loc l : String) (a : List (QName × String)) (c : List Node) :
    emptyC loc (Node.elem ⟨nsCard, l⟩ a c) = (l == loc && a.isEmpty && c.isEmpty) := by
  simp [emptyC, nsC, nsCard]
@[simp] theorem emptyC_el (loc l : String) (a : List (QName × String)) (c : List Node) :
    emptyC loc (el l a c) = (l == loc && a.isEmpty && c.isEmpty) := by
  simp [el]

theorem all_isText_textNodes (s : String) : (textNodes s).all isText = true := by
  unfold textNodes; by_cases h : s = "" <;> simp [h, isText]

theorem gen_matchTypes_rfc (v : String) (h : carddavMatchTypes.contains v = true) : matchTypes.contains v = true := by
  simp only [carddavMatchTypes, List.contains_eq_mem, List.mem_cons, List.not_mem_nil, or_false, decide_eq_true_eq] at h
  rcases h with rfl | rfl | rfl | rfl <;> decide

theorem gen_tests_rfc (v : String) (h : carddavFilterTests.contains v = true) : tests.contains v = true := by
  simp only [carddavFilterTests, List.contains_eq_mem, List.mem_cons, List.not_mem_nil, or_false, decide_eq_true_eq] at h
  rcases h with rfl | rfl <;> decide

-- text-match ---------------------------------------------------------------------------------------------------------------------

theorem readTextMatch_enc (t : TextMatch) (h : TMok t) : readTextMatch (encTextMatch t) = some t := by
  obtain ⟨text, neg, mt⟩ := t
  unfold TMok validMatchType at h
  simp only at h
  unfold encTextMatch readTextMatch el
  by_cases hm : mt = ""
  · subst hm
    cases neg <;>
      simp [all_isText_textNodes, negAttr, carddavNegateFormat, atOpt, attrsOK, att, readNegate, readEnum, attr,
        chardata_textNodes]
  · have hv : carddavMatchTypes.contains mt = true := by simpa [hm] using h
    have hr : mt ∈ matchTypes := by simpa using gen_matchTypes_rfc mt hv
    cases neg <;>
      simp [all_isText_textNodes, negAttr, carddavNegateFormat, atOpt, hm, attrsOK, att, readNegate, readEnum, attr,
        chardata_textNodes, hr, List.find?_cons]

-- param-filter -------------------------------------------------------------------------------------------------------------------

theorem readParamFilter_node (p : ParamFilter) (h : Paramok p) : readParamFilter (paramNode p) = some p := by
  obtain ⟨name, i, tm⟩ := p
  obtain ⟨h1, h2⟩ := h
  simp only at h1 h2
  unfold paramNode readParamFilter el
  simp only [isC_elem, beq_self_eq_true, attrsOK, att, List.all_cons, List.all_nil, Bool.and_true, Bool.true_and]
  cases i with
  | true =>
    have : tm = none := h1 rfl
    subst this
    simp [indNodes, optTM, readParamBody, attr, el, emptyC, nsC, nsCard]
  | false =>
    cases tm with
    | none => simp [indNodes, optTM, readParamBody, attr]
    | some t =>
      have ht := readTextMatch_enc t (h2 t rfl)
      have hne : emptyC "is-not-defined" (encTextMatch t) = false := by simp [encTextMatch]
      simp [indNodes, optTM, readParamBody, attr, ht, hne]

-- prop-filter --------------------------------------------------------------------------------------------------------------------

theorem readEnum_test (name t : String) (h : validTest t = true) :
    readEnum tests ([att "name" name] ++ atOpt "test" t) "test" = some t := by
  unfold validTest at h
  unfold readEnum atOpt
  by_cases ht : t = ""
  · subst ht; simp [attr, att]
  · have hv : carddavFilterTests.contains t = true := by simpa [ht] using h
    have hr := gen_tests_rfc t hv
    have hr' : t ∈ tests := by simpa using hr
    simp [ht, attr, att, List.find?_cons, hr']

theorem readEnum_filterTest (t : String) (h : validTest t = true) : readEnum tests (atOpt "test" t) "test" = some t := by
  unfold validTest at h
  unfold readEnum atOpt
  by_cases ht : t = ""
  · subst ht; simp [attr]
  · have hv : carddavFilterTests.contains t = true := by simpa [ht] using h
    have hr := gen_tests_rfc t hv
    have hr' : t ∈ tests := by simpa using hr
    simp [ht, attr, att, hr']

theorem all_textMatch (ts : List TextMatch) : ∀ x ∈ ts.map encTextMatch, isC "text-match" x = true := by
  intro x hx
  obtain ⟨t, _, rfl⟩ := List.mem_map.mp hx
  simp [encTextMatch]

theorem all_paramNode (ps : List ParamFilter) : ∀ x ∈ ps.map paramNode, isC "param-filter" x = true := by
  intro x hx
  obtain ⟨t, _, rfl⟩ := List.mem_map.mp hx
  simp [paramNode]

theorem head_paramNode (ps : List ParamFilter) : ∀ x ∈ (ps.map paramNode).head?, isC "text-match" x = false := by
  intro x hx
  cases ps with
  | nil => simp at hx
  | cons p ps => simp at hx; subst hx; simp [paramNode]

theorem readPropBody_enc (tms : List TextMatch) (params : List ParamFilter)
    (htm : ∀ t ∈ tms, TMok t) (hpar : ∀ pm ∈ params, Paramok pm) :
    readPropBody (tms.map encTextMatch ++ params.map paramNode) = some (false, tms, params) := by
  unfold readPropBody
  have hnot : ¬ ((tms.map encTextMatch ++ params.map paramNode).length = 1 ∧
      (tms.map encTextMatch ++ params.map paramNode).all (emptyC "is-not-defined") = true) := by
    intro ⟨hl, ha⟩
    cases tms with
    | cons t ts => simp [encTextMatch] at ha
    | nil =>
      cases params with
      | cons p ps => simp [paramNode] at ha
      | nil => simp at hl
  obtain ⟨h1, h2⟩ := takeWhile_append (isC "text-match") _ _ (all_textMatch tms) (head_paramNode params)
  obtain ⟨h3, h4⟩ := takeWhile_append (isC "param-filter") (params.map paramNode) [] (all_paramNode params) (by simp)
  simp only [List.append_nil] at h3 h4
  simp only [hnot, if_false, h1, h2, h3, h4, List.isEmpty_nil, Bool.not_true, Bool.false_eq_true,
    mapM_map_some encTextMatch readTextMatch tms (fun t ht => readTextMatch_enc t (htm t ht)),
    mapM_map_some paramNode readParamFilter params (fun p hp => readParamFilter_node p (hpar p hp))]
  rfl

theorem readPropFilter_node (p : PropFilter) (h : PFok p) : readPropFilter (propNode p) = some p := by
  obtain ⟨name, test, i, tms, params⟩ := p
  obtain ⟨htest, hind, htm, hpar⟩ := h
  simp only at htest hind htm hpar
  unfold propNode readPropFilter el
  have hattrs : attrsOK ["name", "test"] ([att "name" name] ++ atOpt "test" test) = true := by
    unfold atOpt; by_cases ht : test = "" <;> simp [ht, attrsOK, att]
  have hname : attr ([att "name" name] ++ atOpt "test" test) "name" = some name := by simp [attr, att]
  simp only [isC_elem, beq_self_eq_true, hattrs, Bool.and_self, Bool.not_true, Bool.false_eq_true, if_false, hname,
    readEnum_test name test htest, bind, Option.bind, pure]
  cases i with
  | true =>
    obtain ⟨ht, hp⟩ := hind rfl
    subst ht; subst hp
    simp [indNodes, readPropBody, el, emptyC, nsC, nsCard]
  | false =>
    simp only [indNodes, Bool.false_eq_true, if_false, List.nil_append, readPropBody_enc tms params htm hpar]

theorem readFilter_enc (t : String) (pfs : List PropFilter) (ht : validTest t = true) (hpf : ∀ pf ∈ pfs, PFok pf) :
    readFilter (el "filter" (atOpt "test" t) (pfs.map propNode)) = some (t, pfs) := by
  unfold readFilter el
  have hattrs : attrsOK ["test"] (atOpt "test" t) = true := by
    unfold atOpt; by_cases h : t = "" <;> simp [h, attrsOK, att]
  simp only [isC_elem, beq_self_eq_true, hattrs, Bool.and_self, Bool.not_true, Bool.false_eq_true, if_false,
    readEnum_filterTest t ht, bind, Option.bind,
    mapM_map_some propNode readPropFilter pfs (fun p hp => readPropFilter_node p (hpf p hp)), pure]

-- the property request -------------------------------------------------------------------------------------------------------------

theorem readProps_enc (props : List String) :
    (props.map (fun n => el "prop" [att "name" n] [])).mapM readProp = some props :=
  mapM_map_some _ readProp props (fun n _ => by simp [readProp, el, attrsOK, att, attr])

theorem readAddressData_enc (allProp : Bool) (props : List String) :
    readAddressData (el "address-data" [] (dataChildren allProp props)) = some (allProp, if allProp then [] else props) := by
  unfold readAddressData el dataChildren
  cases allProp
  · have hnot : ¬ ((props.map (fun n => el "prop" [att "name" n] [])).length = 1 ∧
        (props.map (fun n => el "prop" [att "name" n] [])).all (emptyC "allprop") = true) := by
      intro ⟨hl, ha⟩
      cases props with
      | nil => simp at hl
      | cons p ps => simp at ha
    simp only [isC_elem, beq_self_eq_true, attrsOK, List.all_nil, Bool.and_self, Bool.not_true, Bool.false_eq_true, if_false,
      hnot, readProps_enc, Option.map_some]
  · simp [attrsOK]

theorem readPropReq_enc (allProp : Bool) (props : List String) :
    readPropReq (encPropReq allProp props) = some (allProp, if allProp then [] else props) := by
  have hd : (if allProp then [el "allprop" [] []] else props.map (fun n => el "prop" [att "name" n] [])) = dataChildren allProp props := rfl
  unfold encPropReq
  rw [hd]
  unfold readPropReq dav
  have h1 : ("prop" == "allprop") = false := by decide
  have h2 : ("prop" == "propname") = false := by decide
  have h3 : ("getlastmodified" == "address-data") = false := by decide
  have hf : [el "address-data" [] (dataChildren allProp props), Node.elem ⟨nsDav, "getlastmodified"⟩ [] [], Node.elem ⟨nsDav, "getetag"⟩ [] []].filter (isC "address-data")
      = [el "address-data" [] (dataChildren allProp props)] := by
    simp [List.filter_cons]
  have hall : [el "address-data" [] (dataChildren allProp props), Node.elem ⟨nsDav, "getlastmodified"⟩ [] [], Node.elem ⟨nsDav, "getetag"⟩ [] []].all isElemNode = true := by
    simp [isElemNode, el]
  simp only [isD_elem, h1, h2, Bool.or_self, Bool.false_eq_true, if_false, beq_self_eq_true, List.isEmpty_nil, hall, Bool.and_self,
    Bool.not_true, hf, dataOf]
  exact readAddressData_enc allProp props

-- the limit ------------------------------------------------------------------------------------------------------------------------

theorem readLimit_enc (limit : Int) (h : limit > 0) : (encLimit limit).map readLimit = [some limit] := by
  unfold encLimit
  simp only [h, if_true, List.map_cons, List.map_nil]
  unfold readLimit el
  simp only [isC_elem, beq_self_eq_true, if_true]
  unfold readNResults
  have hd : (String.ofList (Std.Decimal.natDigits limit.toNat)).toList = Std.Decimal.natDigits limit.toNat := by simp
  have hemp : (Std.Decimal.natDigits limit.toNat).isEmpty = false := by
    cases hh : Std.Decimal.natDigits limit.toNat with
    | nil => exact absurd hh (Std.Decimal.natDigits_ne_nil _)
    | cons a as => rfl
  have hk : ((limit.toNat : Nat) : Int) = limit := by omega
  have hne : ¬ limit.toNat = 0 := by omega
  simp [isText, chardata, hd, hemp, Std.Decimal.readDigits_natDigits, hk, hne]

-- the query --------------------------------------------------------------------------------------------------------------------------

theorem readQuery_queryNode (q : Query) (h : Expressible q) : readQuery (queryNode q) = some (denotes q) := by
  obtain ⟨allProp, props, ft, pfs, limit⟩ := q
  obtain ⟨hft, hpf⟩ := h
  simp only at hft hpf
  unfold queryNode readQuery el
  have hlead : leadProp ([encPropReq allProp props, Node.elem ⟨nsCard, "filter"⟩ (atOpt "test" ft) (pfs.map propNode)] ++ encLimit limit)
      = (some (allProp, if allProp then [] else props), [Node.elem ⟨nsCard, "filter"⟩ (atOpt "test" ft) (pfs.map propNode)] ++ encLimit limit) := by
    have : isPropReq (encPropReq allProp props) = true := by simp [isPropReq, encPropReq]
    simp only [List.cons_append, leadProp, this, if_true, readPropReq_enc]
  have hfilter := readFilter_enc ft pfs hft hpf
  unfold el at hfilter
  have hroot : (nsCard == nsC && "addressbook-query" == "addressbook-query" && ([] : List (QName × String)).isEmpty) = true := by
    simp [nsC, nsCard]
  simp only [hroot, Bool.not_true, Bool.false_eq_true, if_false]
  rw [hlead]
  by_cases hl : limit > 0
  · have hlim := readLimit_enc limit hl
    unfold encLimit at hlim ⊢
    simp only [hl, if_true, List.map_cons, List.map_nil, List.cons.injEq, and_true] at hlim ⊢
    simp [readTail, hfilter, hlim, denotes, hl]
  · unfold encLimit
    simp [hl, readTail, hfilter, denotes]

-- multiget ---------------------------------------------------------------------------------------------------------------------------

theorem readMultiGet_enc (reqPath : String) (escape : String → String) (unescape : String → Option String) (m : MultiGet)
    (hesc : ∀ p ∈ (if m.paths.isEmpty then [reqPath] else m.paths), unescape (escape p) = some p) :
    readMultiGet unescape (encodeMultiGet reqPath escape m) =
      some ⟨m.allProp, if m.allProp then [] else m.props, if m.paths.isEmpty then [reqPath] else m.paths⟩ := by
  obtain ⟨allProp, props, paths⟩ := m
  simp only at hesc
  unfold encodeMultiGet readMultiGet el
  generalize hps : (if paths.isEmpty then [reqPath] else paths) = ps at hesc ⊢
  have hne : ps ≠ [] := by
    rw [← hps]
    cases paths with
    | nil => simp
    | cons a as => simp
  have hlead : leadProp (encPropReq allProp props :: ps.map (fun p => dav "href" [.text (escape p)]))
      = (some (allProp, if allProp then [] else props), ps.map (fun p => dav "href" [.text (escape p)])) := by
    have : isPropReq (encPropReq allProp props) = true := by simp [isPropReq, encPropReq]
    simp only [leadProp, this, if_true, readPropReq_enc]
  have hhrefs : (ps.map (fun p => dav "href" [.text (escape p)])).mapM (readHref unescape) = some ps :=
    mapM_map_some _ (readHref unescape) ps (fun p hp => by
      simp [readHref, dav, isD, nsD, nsDav, isText, chardata, hesc p hp])
  have hroot : (nsCard == nsC && "addressbook-multiget" == "addressbook-multiget" && ([] : List (QName × String)).isEmpty) = true := by
    simp [nsC, nsCard]
  simp only [hroot, Bool.not_true, Bool.false_eq_true, if_false]
  rw [hlead]
  simp only [hhrefs, bind, Option.bind]
  cases ps with
  | nil => exact absurd rfl hne
  | cons a as => rfl

end GoWebdav.Lemmas.CarddavRead
