import GoWebdav.Lemmas.Webdav
namespace GoWebdav.Lemmas.Refine
open GoWebdav GoWebdav.Std.Path GoWebdav.Std.Posix GoWebdav.Impl.Path GoWebdav.Impl.Webdav GoWebdav.Spec.Rfc4918 GoWebdav.Lemmas.Webdav

theorem cond_link (ex : Bool) (im inm : CondView) :
    condRefusal ex im inm = match checkCond ex im inm with
      | .proceed => [] | .badRequest => [400] | .preconditionFailed => [412] := by
  unfold condRefusal checkCond
  have hwf : Props.C04.WFState (if ex = true then some [99] else none) := by
    intro e he; cases ex <;> simp at he; subst he; simp
  rw [Props.C04.C04_check_eq_spec asciiUtf8 _ hwf]
  cases Spec.Cond.verdict asciiUtf8 (if ex = true then some [99] else none) (condChars im) (condChars inm) <;> rfl

theorem overwrite_link (s : String) :
    (if s = "" then some true else Generated.parseOverwrite s) =
      if validOverwrite s then some (decide (s ≠ "F")) else none := by
  unfold Generated.parseOverwrite validOverwrite
  by_cases h0 : s = ""
  · subst h0; decide
  · by_cases h1 : s = "T"
    · subst h1; decide
    · by_cases h2 : s = "F"
      · subst h2; decide
      · simp [h0, h1, h2]

theorem depth_link (s : String) :
    (if s = "" then some (-1) else Generated.parseDepth s) =
      if validDepth s then some (if s = "0" then 0 else if s = "1" then 1 else -1) else none := by
  unfold Generated.parseDepth validDepth
  by_cases h0 : s = ""
  · subst h0; decide
  · by_cases h1 : s = "0"
    · subst h1; decide
    · by_cases h2 : s = "1"
      · subst h2; decide
      · by_cases h3 : s = "infinity"
        · subst h3; decide
        · simp [h0, h1, h2, h3]

theorem kind_absent_iff (t : FS) (p : FPath) : kind t p = .absent ↔ lookup t p = none := by
  unfold kind; cases lookup t p with
  | none => simp
  | some e => cases e <;> simp
theorem kind_coll_iff (t : FS) (p : FPath) : kind t p = .coll ↔ lookup t p = some .dir := by
  unfold kind; cases lookup t p with
  | none => simp
  | some e => cases e <;> simp
theorem kind_file_iff (t : FS) (p : FPath) : kind t p = .file ↔ ∃ c, lookup t p = some (.file c) := by
  unfold kind; cases lookup t p with
  | none => simp
  | some e => cases e <;> simp

-- OPTIONS ----------------------------------------------------------------------------------------
theorem allows_options (t : FS) (r : Request) (hm : r.method = "OPTIONS") : allows t r (options t r) := by
  unfold allows options
  cases ht : target r.path with
  | none =>
    obtain ⟨e, he⟩ := localPath_none r.path ht
    have hr : refusals t r = [400] := by unfold refusals; simp +decide [ht, hm]
    rw [hr, if_pos (by simp)]
    exact ⟨by simp [optionsResp, he, err], same_refl t⟩
  | some p =>
    have hlp := localPath_some r.path p ht
    have hr : refusals t r = [] := by unfold refusals; simp +decide [ht, hm]
    have hf : faulted r = false := by simp +decide [faulted, hm]
    simp only [hr, ne_eq, not_true_eq_false, if_false, hf, Bool.false_eq_true]
    refine ⟨?_, ?_, ?_⟩
    · have : effect t r = t := by unfold effect; simp +decide [ht, hm]
      rw [this]; exact same_refl t
    · unfold successCodes optionsResp; simp +decide [ht, hm, hlp]
      cases lookup t p <;> simp
    · unfold entityOK optionsResp kind
      simp only [ht, hm, if_true, hlp]
      cases hl : lookup t p with
      | none => simp
      | some e => cases e <;> simp [isDir]

end GoWebdav.Lemmas.Refine

namespace GoWebdav.Lemmas.Refine
open GoWebdav GoWebdav.Std.Path GoWebdav.Std.Posix GoWebdav.Impl.Path GoWebdav.Impl.Webdav GoWebdav.Spec.Rfc4918 GoWebdav.Lemmas.Webdav

/-- shape of `allows` when some refusal condition holds -/
theorem allows_refused (t : FS) (r : Request) (out : FS × Response) (hne : refusals t r ≠ [])
    (hs : out.2.status ∈ refusals t r) (ht : out.1 = t) : allows t r out := by
  unfold allows; rw [if_pos hne]; exact ⟨hs, ht ▸ same_refl t⟩

theorem mem_ne_nil {α} {a : α} {l : List α} (h : a ∈ l) : l ≠ [] := by
  intro hl; rw [hl] at h; cases h

-- GET / HEAD ------------------------------------------------------------------------------------
theorem allows_headGet (t : FS) (r : Request) (hm : r.method = "GET" ∨ r.method = "HEAD") : allows t r (headGet t r) := by
  have hno : r.method ≠ "OPTIONS" := by rcases hm with h | h <;> rw [h] <;> decide
  cases ht : target r.path with
  | none =>
    obtain ⟨e, he⟩ := localPath_none r.path ht
    have hmem : 400 ∈ refusals t r := by unfold refusals; simp [ht]
    exact allows_refused t r _ (mem_ne_nil hmem) (by simpa [headGet, headGetResp, he, err] using hmem) rfl
  | some p =>
    have hlp := localPath_some r.path p ht
    have hr : refusals t r = (if kind t p = .absent then [404] else []) ++ (if kind t p = .coll then [405] else []) := by
      unfold refusals; simp only [ht, hno, if_false, hm, if_true]
    cases hl : lookup t p with
    | none =>
      have hk : kind t p = .absent := (kind_absent_iff t p).mpr hl
      have hmem : 404 ∈ refusals t r := by rw [hr]; simp [hk]
      exact allows_refused t r _ (mem_ne_nil hmem) (by simpa [headGet, headGetResp, hlp, hl, err] using hmem) rfl
    | some e =>
      cases e with
      | dir =>
        have hk : kind t p = .coll := (kind_coll_iff t p).mpr hl
        have hmem : 405 ∈ refusals t r := by rw [hr]; simp [hk]
        exact allows_refused t r _ (mem_ne_nil hmem) (by simpa [headGet, headGetResp, hlp, hl, err] using hmem) rfl
      | file c =>
        have hk : kind t p = .file := (kind_file_iff t p).mpr ⟨c, hl⟩
        have hr0 : refusals t r = [] := by rw [hr]; simp [hk]
        have hf : faulted r = false := by
          unfold faulted; rcases hm with h | h <;> simp +decide [h]
        unfold allows
        rw [hr0]
        simp only [ne_eq, not_true_eq_false, if_false, hf, Bool.false_eq_true]
        refine ⟨?_, ?_, ?_⟩
        · have : effect t r = t := by
            unfold effect; rcases hm with h | h <;> simp +decide [ht, h]
          rw [this]; exact same_refl t
        · unfold successCodes; simp only [ht, hno, if_false, hm, if_true]
          simp [headGet, headGetResp, hlp, hl]
        · unfold entityOK; simp only [ht, hno, if_false, hm, if_true, hl]
          simp [headGet, headGetResp, hlp, hl]

-- DELETE -----------------------------------------------------------------------------------------
theorem allows_delete (t : FS) (r : Request) (hm : r.method = "DELETE") : allows t r (delete t r) := by
  cases ht : target r.path with
  | none =>
    obtain ⟨e, he⟩ := localPath_none r.path ht
    have hmem : 400 ∈ refusals t r := by unfold refusals; simp [ht]
    exact allows_refused t r _ (mem_ne_nil hmem) (by simpa [delete, he, err] using hmem) (by simp [delete, he])
  | some p =>
    have hlp := localPath_some r.path p ht
    have hr : refusals t r = (if kind t p = .absent then [404] else []) ++
        (if kind t p ≠ .absent then condRefusal true r.ifMatch r.ifNoneMatch else []) := by
      unfold refusals; simp +decide only [ht, hm, if_false, if_true]
    cases hl : lookup t p with
    | none =>
      have hk : kind t p = .absent := (kind_absent_iff t p).mpr hl
      have hmem : 404 ∈ refusals t r := by rw [hr]; simp [hk]
      exact allows_refused t r _ (mem_ne_nil hmem) (by simpa [delete, hlp, hl, err] using hmem) (by simp [delete, hlp, hl])
    | some e =>
      have hk : kind t p ≠ .absent := by rw [Ne, kind_absent_iff, hl]; simp
      have hr' : refusals t r = condRefusal true r.ifMatch r.ifNoneMatch := by rw [hr]; simp [hk]
      rw [cond_link] at hr'
      cases hc : checkCond true r.ifMatch r.ifNoneMatch with
      | badRequest =>
        rw [hc] at hr'
        exact allows_refused t r _ (by rw [hr']; simp) (by rw [hr']; simp [delete, hlp, hl, hc, err]) (by simp [delete, hlp, hl, hc])
      | preconditionFailed =>
        rw [hc] at hr'
        exact allows_refused t r _ (by rw [hr']; simp) (by rw [hr']; simp [delete, hlp, hl, hc, err]) (by simp [delete, hlp, hl, hc])
      | proceed =>
        rw [hc] at hr'
        have hf : faulted r = false := by simp +decide [faulted, hm]
        unfold allows
        rw [hr']
        simp only [ne_eq, not_true_eq_false, if_false, hf, Bool.false_eq_true]
        refine ⟨?_, ?_, ?_⟩
        · have : effect t r = removeAll t p := by unfold effect; simp +decide [ht, hm]
          rw [this]; simp [delete, hlp, hl, hc]; exact same_refl _
        · unfold successCodes; simp +decide [ht, hm, delete, hlp, hl, hc]
        · unfold entityOK; simp +decide [ht, hm]

-- MKCOL ------------------------------------------------------------------------------------------
theorem allows_mkcol (t : FS) (r : Request) (hm : r.method = "MKCOL") : allows t r (mkcol t r) := by
  by_cases hct : r.ctypeSet = true
  · have hmem : 415 ∈ refusals t r := by
      unfold refusals
      cases ht : target r.path with
      | none => simp [hm, hct]
      | some p => simp +decide [hm, hct]
    exact allows_refused t r _ (mem_ne_nil hmem) (by simpa [mkcol, hct, err] using hmem) (by simp [mkcol, hct])
  · simp only [Bool.not_eq_true] at hct
    cases ht : target r.path with
    | none =>
      obtain ⟨e, he⟩ := localPath_none r.path ht
      have hmem : 400 ∈ refusals t r := by unfold refusals; simp [ht]
      exact allows_refused t r _ (mem_ne_nil hmem) (by simpa [mkcol, hct, he, err] using hmem) (by simp [mkcol, hct, he])
    | some p =>
      have hlp := localPath_some r.path p ht
      have hr : refusals t r = (if kind t p ≠ .absent then [405] else []) ++ (if !parentOK t p then [409] else []) := by
        unfold refusals; simp +decide [ht, hm, hct]
      cases hl : lookup t p with
      | some e =>
        have hk : kind t p ≠ .absent := by rw [Ne, kind_absent_iff, hl]; simp
        have hmem : 405 ∈ refusals t r := by rw [hr]; simp [hk]
        exact allows_refused t r _ (mem_ne_nil hmem) (by simpa [mkcol, hct, hlp, hl, err] using hmem) (by simp [mkcol, hct, hlp, hl])
      | none =>
        have hk : kind t p = .absent := (kind_absent_iff t p).mpr hl
        by_cases hpar : parentOK t p = true
        · have hr0 : refusals t r = [] := by rw [hr]; simp [hk, hpar]
          have hf : faulted r = false := by simp +decide [faulted, hm]
          unfold allows
          rw [hr0]
          simp only [ne_eq, not_true_eq_false, if_false, hf, Bool.false_eq_true]
          refine ⟨?_, ?_, ?_⟩
          · have : effect t r = set t p .dir := by unfold effect; simp +decide [ht, hm]
            rw [this]; simp [mkcol, hct, hlp, hl, hpar]; exact same_refl _
          · unfold successCodes; simp +decide [ht, hm, mkcol, hct, hlp, hl, hpar]
          · unfold entityOK; simp +decide [ht, hm]
        · simp only [Bool.not_eq_true] at hpar
          have hmem : 409 ∈ refusals t r := by rw [hr]; simp [hk, hpar]
          exact allows_refused t r _ (mem_ne_nil hmem) (by simpa [mkcol, hct, hlp, hl, hpar, err] using hmem) (by simp [mkcol, hct, hlp, hl, hpar])

-- PROPPATCH and unknown methods ------------------------------------------------------------------
theorem allows_proppatch (t : FS) (r : Request) (hm : r.method = "PROPPATCH") : allows t r (proppatch t r) := by
  have h400 : 400 ∈ refusals t r := by unfold refusals; cases target r.path <;> simp +decide [hm]
  have h403 : 403 ∈ refusals t r := by unfold refusals; cases target r.path <;> simp +decide [hm]
  have hst : (proppatch t r).2.status = 400 ∨ (proppatch t r).2.status = 403 := by
    unfold proppatch proppatchResp; simp only; split
    · left; rfl
    · split
      · left; rfl
      · right; rfl
  refine allows_refused t r _ (mem_ne_nil h400) ?_ rfl
  rcases hst with h | h <;> rw [h] <;> assumption

theorem allows_other (t : FS) (r : Request)
    (h : r.method ≠ "OPTIONS" ∧ r.method ≠ "GET" ∧ r.method ≠ "HEAD" ∧ r.method ≠ "PUT" ∧ r.method ≠ "DELETE" ∧
      r.method ≠ "PROPFIND" ∧ r.method ≠ "PROPPATCH" ∧ r.method ≠ "MKCOL" ∧ r.method ≠ "COPY" ∧ r.method ≠ "MOVE") :
    allows t r (t, err 405 (.text "unsupported method")) := by
  obtain ⟨h1, h2, h3, h4, h5, h6, h7, h8, h9, h10⟩ := h
  have hmem : 405 ∈ refusals t r := by
    unfold refusals; cases target r.path <;> simp [h1, h2, h3, h4, h5, h6, h7, h8, h9, h10]
  exact allows_refused t r _ (mem_ne_nil hmem) hmem rfl

end GoWebdav.Lemmas.Refine

namespace GoWebdav.Lemmas.Refine
open GoWebdav GoWebdav.Std.Path GoWebdav.Std.Posix GoWebdav.Impl.Path GoWebdav.Impl.Webdav GoWebdav.Spec.Rfc4918 GoWebdav.Lemmas.Webdav

theorem isSome_kind (t : FS) (p : FPath) : (lookup t p).isSome = decide (kind t p ≠ .absent) := by
  unfold kind; cases lookup t p with
  | none => simp
  | some e => cases e <;> simp

/-- a PUT whose body reader fails, addressed to an existing file (the open finding's region) -/
def FaultRegion (t : FS) (r : Request) : Prop :=
  r.method = "PUT" ∧ r.fault.isSome = true ∧ ∃ p c, localPath [] r.path = .ok p ∧ lookup t p = some (.file c)

-- PUT --------------------------------------------------------------------------------------------
theorem allows_put (t : FS) (hwf : WF t) (r : Request) (hm : r.method = "PUT") (hnr : ¬ FaultRegion t r) :
    allows t r (put t r) := by
  cases ht : target r.path with
  | none =>
    obtain ⟨e, he⟩ := localPath_none r.path ht
    have hmem : 400 ∈ refusals t r := by unfold refusals; simp [ht]
    exact allows_refused t r _ (mem_ne_nil hmem) (by simpa [put, he, err] using hmem) (by simp [put, he])
  | some p =>
    have hlp := localPath_some r.path p ht
    have hr : refusals t r = (if kind t p = .coll then [405] else []) ++ (if !parentOK t p then [409] else []) ++
        condRefusal (kind t p ≠ .absent) r.ifMatch r.ifNoneMatch := by
      unfold refusals; simp +decide only [ht, hm, if_false, if_true]
    by_cases hdir : lookup t p = some .dir
    · have hk : kind t p = .coll := (kind_coll_iff t p).mpr hdir
      have hmem : 405 ∈ refusals t r := by rw [hr]; simp [hk]
      exact allows_refused t r _ (mem_ne_nil hmem) (by simpa [put, hlp, hdir, err] using hmem) (by simp [put, hlp, hdir])
    · have hk : kind t p ≠ .coll := by rw [Ne, kind_coll_iff]; exact hdir
      rw [cond_link, ← isSome_kind] at hr
      cases hc : checkCond (lookup t p).isSome r.ifMatch r.ifNoneMatch with
      | badRequest =>
        rw [hc] at hr
        have hmem : 400 ∈ refusals t r := by rw [hr]; simp
        exact allows_refused t r _ (mem_ne_nil hmem) (by simpa [put, hlp, hdir, hc, err] using hmem) (by simp [put, hlp, hdir, hc])
      | preconditionFailed =>
        rw [hc] at hr
        have hmem : 412 ∈ refusals t r := by rw [hr]; simp
        exact allows_refused t r _ (mem_ne_nil hmem) (by simpa [put, hlp, hdir, hc, err] using hmem) (by simp [put, hlp, hdir, hc])
      | proceed =>
        rw [hc] at hr
        by_cases hpar : parentOK t p = true
        · have hr0 : refusals t r = [] := by rw [hr]; simp [hk, hpar]
          unfold allows
          rw [hr0]
          simp only [ne_eq, not_true_eq_false, if_false]
          cases hfa : r.fault with
          | some n =>
            have hf : faulted r = true := by simp [faulted, hm, hfa]
            have hrb : readBody r = .error () := by simp [readBody, hfa]
            rw [if_pos hf]
            have hput : put t r = (removeAll t p, err 500 (.text "body read error")) := by
              simp [put, hlp, hdir, hc, hpar, hrb]
            rw [hput]
            refine ⟨by simp [err], ?_⟩
            cases hl : lookup t p with
            | none => exact same_removeAll_absent t hwf p hl
            | some e =>
              cases e with
              | dir => exact absurd hl hdir
              | file c => exact absurd ⟨hm, by simp [hfa], p, c, hlp, hl⟩ hnr
          | none =>
            have hf : faulted r = false := by simp [faulted, hfa]
            have hrb : readBody r = .ok r.body := by simp [readBody, hfa]
            simp only [hf, Bool.false_eq_true, if_false]
            have hput : put t r = (set t p (.file r.body), { status := if (lookup t p).isSome then 204 else 201, tagged := true }) := by
              simp [put, hlp, hdir, hc, hpar, hrb]
            rw [hput]
            refine ⟨?_, ?_, ?_⟩
            · have : effect t r = set t p (.file r.body) := by unfold effect; simp +decide [ht, hm]
              rw [this]; exact same_refl _
            · unfold successCodes; simp +decide only [ht, hm, if_false, if_true]
              cases hl : lookup t p with
              | none => simp [(kind_absent_iff t p).mpr hl]
              | some e =>
                have : kind t p ≠ .absent := by rw [Ne, kind_absent_iff, hl]; simp
                simp [this]
            · unfold entityOK; simp +decide [ht, hm]
        · simp only [Bool.not_eq_true] at hpar
          have hmem : 409 ∈ refusals t r := by rw [hr]; simp [hpar]
          exact allows_refused t r _ (mem_ne_nil hmem) (by simpa [put, hlp, hdir, hc, hpar, err] using hmem) (by simp [put, hlp, hdir, hc, hpar])

-- PROPFIND ---------------------------------------------------------------------------------------
theorem allows_propfind (t : FS) (r : Request) (hm : r.method = "PROPFIND") : allows t r (propfind t r) := by
  cases ht : target r.path with
  | none =>
    have hmem : 400 ∈ refusals t r := by unfold refusals; simp [ht]
    obtain ⟨e, he⟩ := localPath_none r.path ht
    refine allows_refused t r _ (mem_ne_nil hmem) ?_ rfl
    have : (propfind t r).2.status = 400 := by
      unfold propfind propfindResp; simp only [depth_link, he]
      repeat' split
      all_goals rfl
    rw [this]; exact hmem
  | some p =>
    have hlp := localPath_some r.path p ht
    have hr : refusals t r = (if !validDepth r.depth then [400] else []) ++
        (if bodyForm r = none ∨ bodyForm r = some .noform then [400] else []) ++ (if kind t p = .absent then [404] else []) := by
      unfold refusals; simp +decide only [ht, hm, if_false, if_true]
    cases hform : bodyForm r with
    | none =>
      have hmem : 400 ∈ refusals t r := by rw [hr]; simp [hform]
      refine allows_refused t r _ (mem_ne_nil hmem) ?_ rfl
      have : (propfind t r).2.status = 400 := by unfold propfind propfindResp; simp only [hform]; rfl
      rw [this]; exact hmem
    | some form =>
      by_cases hvd : validDepth r.depth = true
      · cases hl : lookup t p with
        | none =>
          have hmem : 404 ∈ refusals t r := by rw [hr]; simp [(kind_absent_iff t p).mpr hl]
          refine allows_refused t r _ (mem_ne_nil hmem) ?_ rfl
          have : (propfind t r).2.status = 404 := by
            unfold propfind propfindResp; simp only [hform, depth_link, hvd, if_true, hlp, hl]; rfl
          rw [this]; exact hmem
        | some e =>
          by_cases hnf : form = .noform
          · have hmem : 400 ∈ refusals t r := by rw [hr]; simp [hform, hnf]
            refine allows_refused t r _ (mem_ne_nil hmem) ?_ rfl
            have : (propfind t r).2.status = 400 := by
              unfold propfind propfindResp; simp only [hform, depth_link, hvd, if_true, hlp, hl, hnf]; rfl
            rw [this]; exact hmem
          · have hk : kind t p ≠ .absent := by rw [Ne, kind_absent_iff, hl]; simp
            have hr0 : refusals t r = [] := by rw [hr]; simp [hvd, hform, hnf, hk]
            have hf : faulted r = false := by simp +decide [faulted, hm]
            unfold allows
            rw [hr0]
            simp only [ne_eq, not_true_eq_false, if_false, hf, Bool.false_eq_true]
            refine ⟨?_, ?_, ?_⟩
            · have : effect t r = t := by unfold effect; simp +decide [ht, hm]
              rw [this]; exact same_refl t
            · unfold successCodes; simp +decide only [ht, hm, if_false, if_true]
              unfold propfind propfindResp
              simp only [hform, depth_link, hvd, if_true, hlp, hl, hnf, if_false]
              cases hd : isDir e <;> simp [hd] <;> (repeat' split) <;> simp
            · unfold entityOK propfind propfindResp
              simp +decide only [ht, hm, if_false, if_true, hl, hform, depth_link, hvd, hlp, hnf]
              simp only [validDepth, Bool.or_eq_true, decide_eq_true_eq] at hvd
              unfold scope hrefOf
              by_cases h0 : r.depth = "0"
              · simp [h0]
              · by_cases h1 : r.depth = "1"
                · cases hd : isDir e <;> simp +decide [h1, hd]
                · cases hd : isDir e <;> simp [h0, h1, hd]
      · simp only [Bool.not_eq_true] at hvd
        have hmem : 400 ∈ refusals t r := by rw [hr]; simp [hvd]
        refine allows_refused t r _ (mem_ne_nil hmem) ?_ rfl
        have : (propfind t r).2.status = 400 := by
          unfold propfind propfindResp; simp only [hform, depth_link, hvd, Bool.false_eq_true, if_false]; rfl
        rw [this]; exact hmem

end GoWebdav.Lemmas.Refine

namespace GoWebdav.Lemmas.Refine
open GoWebdav GoWebdav.Std.Path GoWebdav.Std.Posix GoWebdav.Impl.Path GoWebdav.Impl.Webdav GoWebdav.Spec.Rfc4918 GoWebdav.Lemmas.Webdav

-- COPY / MOVE ------------------------------------------------------------------------------------

/-- everything `handleCopyMove` decides from the headers alone, in terms of the specification's predicates -/
theorem copyMoveHandler_eq (t : FS) (r : Request) (hm : r.method = "COPY" ∨ r.method = "MOVE") :
    copyMoveHandler t r =
      match r.dest with
      | .absent => (t, err 400 (.text "missing Destination header"))
      | .unparsable => (t, err 400 (.text "malformed Destination header"))
      | .path dn =>
        if validOverwrite r.overwrite = false then (t, err 400 (.text "invalid Overwrite value"))
        else if validDepth r.depth = false then (t, err 400 (.text "invalid Depth value"))
        else if r.method = "COPY" then
          (if r.depth = "1" then (t, err 400 (.text "Depth: 1 is not supported in COPY request"))
           else copyMove t false r.path dn (decide (r.depth ≠ "0")) (decide (r.overwrite ≠ "F")))
        else
          (if r.depth = "0" ∨ r.depth = "1" then (t, err 400 (.text "only Depth: infinity is accepted in MOVE request"))
           else copyMove t true r.path dn true (decide (r.overwrite ≠ "F"))) := by
  unfold copyMoveHandler
  cases r.dest with
  | absent => rfl
  | unparsable => rfl
  | path dn =>
    simp only [overwrite_link, depth_link]
    by_cases hvo : validOverwrite r.overwrite = true
    · by_cases hvd : validDepth r.depth = true
      · simp only [hvo, hvd, if_true, Bool.true_eq_false, if_false]
        by_cases hc : r.method = "COPY"
        · simp only [hc, if_true]
          by_cases h1 : r.depth = "1"
          · simp +decide [h1]
          · by_cases h0 : r.depth = "0"
            · simp +decide [h0]
            · simp +decide [h0, h1]
        · simp only [hc, if_false]
          by_cases h1 : r.depth = "1"
          · simp +decide [h1]
          · by_cases h0 : r.depth = "0"
            · simp +decide [h0]
            · simp +decide [h0, h1]
      · simp only [Bool.not_eq_true] at hvd
        simp [hvo, hvd]
    · simp only [Bool.not_eq_true] at hvo
      simp [hvo]

theorem overlap_cases (p d : FPath) : overlap p d = true ↔ p = d ∨ (p ≠ d ∧ (p.isPrefixOf d = true ∨ d.isPrefixOf p = true)) := by
  unfold overlap
  by_cases h : p = d
  · subst h; simp
  · simp [h]

theorem allows_copyMove (t : FS) (hwf : WF t) (r : Request) (hm : r.method = "COPY" ∨ r.method = "MOVE") :
    allows t r (copyMoveHandler t r) := by
  have hnm : r.method ≠ "OPTIONS" ∧ r.method ≠ "GET" ∧ r.method ≠ "HEAD" ∧ r.method ≠ "PUT" ∧ r.method ≠ "DELETE" ∧ r.method ≠ "MKCOL" ∧ r.method ≠ "PROPFIND" ∧ r.method ≠ "PROPPATCH" := by
    rcases hm with h | h <;> rw [h] <;> decide
  obtain ⟨n1, n2, n3, n4, n5, n6, n7, n8⟩ := hnm
  rw [copyMoveHandler_eq t r hm]
  cases ht : target r.path with
  | none =>
    obtain ⟨e, he⟩ := localPath_none r.path ht
    have hmem : 400 ∈ refusals t r := by unfold refusals; simp [ht]
    refine allows_refused t r _ (mem_ne_nil hmem) ?_ ?_
    · have : ∀ m dn rec ow, (copyMove t m r.path dn rec ow).2.status = 400 := by
        intro m dn rec ow; simp [copyMove, he, err]
      cases r.dest <;> simp only [err] <;> (try exact hmem)
      repeat' split
      all_goals first | exact hmem | (rw [this]; exact hmem)
    · have : ∀ m dn rec ow, (copyMove t m r.path dn rec ow).1 = t := by
        intro m dn rec ow; simp [copyMove, he]
      cases r.dest <;> simp only [] <;> (try rfl)
      repeat' split
      all_goals first | rfl | exact this _ _ _ _
  | some p =>
    have hlp := localPath_some r.path p ht
    have hr : refusals t r =
        (if destTarget r = none then [400] else []) ++
        (if !validOverwrite r.overwrite then [400] else []) ++
        (if !validDepth r.depth then [400] else []) ++
        (if r.method = "COPY" ∧ r.depth = "1" then [400] else []) ++
        (if r.method = "MOVE" ∧ (r.depth = "0" ∨ r.depth = "1") then [400] else []) ++
        (if kind t p = .absent then [404] else []) ++
        (match destTarget r with
         | none => []
         | some d =>
           (if p = d then [403] else []) ++
           (if p ≠ d ∧ (p.isPrefixOf d ∨ d.isPrefixOf p) then [403, 409] else []) ++
           (if !parentOK t d then [409] else []) ++
           (if kind t d ≠ .absent ∧ r.overwrite = "F" then [412] else [])) := by
      unfold refusals; simp only [ht, n1, n2, n3, n4, n5, n6, if_false, false_or, hm, if_true]
      rfl
    cases hdst : r.dest with
    | absent =>
      have hmem : 400 ∈ refusals t r := by rw [hr]; simp [destTarget, hdst]
      exact allows_refused t r _ (mem_ne_nil hmem) hmem rfl
    | unparsable =>
      have hmem : 400 ∈ refusals t r := by rw [hr]; simp [destTarget, hdst]
      exact allows_refused t r _ (mem_ne_nil hmem) hmem rfl
    | path dn =>
      simp only
      by_cases hvo : validOverwrite r.overwrite = false
      · have hmem : 400 ∈ refusals t r := by rw [hr]; simp [hvo]
        rw [if_pos hvo]; exact allows_refused t r _ (mem_ne_nil hmem) hmem rfl
      rw [if_neg hvo]
      by_cases hvd : validDepth r.depth = false
      · have hmem : 400 ∈ refusals t r := by rw [hr]; simp [hvd]
        rw [if_pos hvd]; exact allows_refused t r _ (mem_ne_nil hmem) hmem rfl
      rw [if_neg hvd]
      simp only [Bool.not_eq_false] at hvo hvd
      -- the depth rules of the two methods
      have hdepthrule : (r.method = "COPY" ∧ r.depth = "1") ∨ (r.method = "MOVE" ∧ (r.depth = "0" ∨ r.depth = "1")) → 400 ∈ refusals t r := by
        intro h; rw [hr]; rcases h with h | h <;> simp [h]
      by_cases hbadDepth : (r.method = "COPY" ∧ r.depth = "1") ∨ (r.method = "MOVE" ∧ (r.depth = "0" ∨ r.depth = "1"))
      · have hmem := hdepthrule hbadDepth
        rcases hbadDepth with ⟨hc, h1⟩ | ⟨hmv, h01⟩
        · rw [if_pos hc, if_pos h1]
          exact allows_refused t r _ (mem_ne_nil hmem) hmem rfl
        · have hnc : r.method ≠ "COPY" := by rw [hmv]; decide
          rw [if_neg hnc, if_pos h01]
          exact allows_refused t r _ (mem_ne_nil hmem) hmem rfl
      -- the request reaches LocalFileSystem.Copy / Move
      have hreach : ∃ isMove rec, (isMove = true ↔ r.method = "MOVE") ∧ (rec = false ↔ (r.method = "COPY" ∧ r.depth = "0")) ∧
          (if r.method = "COPY" then
            (if r.depth = "1" then (t, err 400 (.text "Depth: 1 is not supported in COPY request"))
             else copyMove t false r.path dn (decide (r.depth ≠ "0")) (decide (r.overwrite ≠ "F")))
          else
            (if r.depth = "0" ∨ r.depth = "1" then (t, err 400 (.text "only Depth: infinity is accepted in MOVE request"))
             else copyMove t true r.path dn true (decide (r.overwrite ≠ "F"))))
          = copyMove t isMove r.path dn rec (decide (r.overwrite ≠ "F")) := by
        by_cases hc : r.method = "COPY"
        · have h1 : r.depth ≠ "1" := fun h => hbadDepth (Or.inl ⟨hc, h⟩)
          refine ⟨false, decide (r.depth ≠ "0"), by simp [hc], by simp [hc], by simp [hc, h1]⟩
        · have hmv : r.method = "MOVE" := by rcases hm with h | h; exact absurd h hc; exact h
          have h01 : ¬ (r.depth = "0" ∨ r.depth = "1") := fun h => hbadDepth (Or.inr ⟨hmv, h⟩)
          refine ⟨true, true, by simp [hmv], by simp [hc], by simp [hc, h01]⟩
      obtain ⟨isMove, rec, hmove, hrec, heq⟩ := hreach
      rw [heq]
      have hdt : destTarget r = target dn := by simp [destTarget, hdst]
      cases htd : target dn with
      | none =>
        obtain ⟨e, he⟩ := localPath_none dn htd
        have hmem : 400 ∈ refusals t r := by rw [hr]; simp [hdt, htd]
        exact allows_refused t r _ (mem_ne_nil hmem) (by simpa [copyMove, hlp, he, err] using hmem) (by simp [copyMove, hlp, he])
      | some d =>
        have hld := localPath_some dn d htd
        cases hl : lookup t p with
        | none =>
          have hmem : 404 ∈ refusals t r := by rw [hr]; simp [(kind_absent_iff t p).mpr hl]
          exact allows_refused t r _ (mem_ne_nil hmem) (by simpa [copyMove, hlp, hld, hl, err] using hmem) (by simp [copyMove, hlp, hld, hl])
        | some srcEntry =>
          have hkp : kind t p ≠ .absent := by rw [Ne, kind_absent_iff, hl]; simp
          by_cases hov : overlap p d = true
          · have hmem : 403 ∈ refusals t r := by
              rw [hr, hdt, htd]
              rcases (overlap_cases p d).mp hov with h | h
              · simp [h]
              · simp only []; rw [if_neg h.1, if_pos h]; simp
            exact allows_refused t r _ (mem_ne_nil hmem) (by simpa [copyMove, hlp, hld, hl, hov, err] using hmem) (by simp [copyMove, hlp, hld, hl, hov])
          · simp only [Bool.not_eq_true] at hov
            have hnov : ¬ (p = d) ∧ ¬ (p ≠ d ∧ (p.isPrefixOf d = true ∨ d.isPrefixOf p = true)) := by
              have this : ¬ (overlap p d = true) := by simp [hov]
              exact ⟨fun h => this ((overlap_cases p d).mpr (Or.inl h)), fun h => this ((overlap_cases p d).mpr (Or.inr h))⟩
            by_cases hpre : ((lookup t d).isSome && !decide (r.overwrite ≠ "F")) = true
            · simp only [Bool.and_eq_true, Bool.not_eq_true', decide_eq_false_iff_not, Decidable.not_not] at hpre
              have hkd : kind t d ≠ .absent := by rw [Ne, kind_absent_iff]; intro h; simp [h] at hpre
              have hmem : 412 ∈ refusals t r := by rw [hr, hdt, htd]; simp [hkd, hpre.2]
              refine allows_refused t r _ (mem_ne_nil hmem) ?_ ?_
              · simpa [copyMove, hlp, hld, hl, hov, hpre.1, hpre.2, err] using hmem
              · simp [copyMove, hlp, hld, hl, hov, hpre.1, hpre.2]
            · have hnopre : ¬ (kind t d ≠ .absent ∧ r.overwrite = "F") := by
                intro ⟨h1, h2⟩
                apply hpre
                have : (lookup t d).isSome = true := by rw [isSome_kind]; simpa using h1
                simp [this, h2]
              cases hex : (lookup t d).isSome with
              | false =>
                have hkd : kind t d = .absent := by
                  rw [kind_absent_iff]; cases h : lookup t d <;> simp [h] at hex ⊢
                by_cases hpar : parentOK t d = true
                · -- nothing refuses: the destination is created
                  have hr0 : refusals t r = [] := by
                    have c1 : ¬ (r.method = "COPY" ∧ r.depth = "1") := fun h => hbadDepth (Or.inl h)
                    have c2 : ¬ (r.method = "MOVE" ∧ (r.depth = "0" ∨ r.depth = "1")) := fun h => hbadDepth (Or.inr h)
                    rw [hr, hdt, htd, if_neg c1, if_neg c2, if_neg hkp]
                    simp only []
                    rw [if_neg hnopre, if_neg hnov.2, if_neg hnov.1]
                    simp [hvo, hvd, hpar]
                  have hf : faulted r = false := by unfold faulted; rcases hm with h | h <;> simp +decide [h]
                  unfold allows
                  rw [hr0]
                  simp only [ne_eq, not_true_eq_false, if_false, hf, Bool.false_eq_true]
                  have hout : copyMove t isMove r.path dn rec (decide (r.overwrite ≠ "F")) =
                      ((if isMove then removeAll (graft t p d) p else if rec || !isDir srcEntry then graft t p d else set t d .dir), { status := 201 }) := by
                    simp [copyMove, hlp, hld, hl, hov, hex, hpar]
                  rw [hout]
                  refine ⟨?_, ?_, ?_⟩
                  · have : effect t r = (if isMove then removeAll (graft t p d) p else if rec || !isDir srcEntry then graft t p d else set t d .dir) := by
                      unfold effect
                      simp only [ht, n4, n5, n6, if_false, hm, if_true, hdt, htd, hkd, ne_eq, not_true_eq_false]
                      by_cases hmv : r.method = "MOVE"
                      · simp [hmv, hmove.mpr hmv]
                      · have hcp : r.method = "COPY" := by rcases hm with h | h; exact h; exact absurd h hmv
                        have him : isMove = false := by cases isMove <;> simp_all
                        simp only [hmv, if_false, him, Bool.false_eq_true]
                        by_cases h0 : r.depth = "0"
                        · have hrf : rec = false := hrec.mpr ⟨hcp, h0⟩
                          cases srcEntry with
                          | dir => simp [h0, hrf, (kind_coll_iff t p).mpr hl, isDir]
                          | file c =>
                            have : kind t p ≠ .coll := by rw [Ne, kind_coll_iff, hl]; simp
                            simp [h0, hrf, this, isDir]
                        · have hrt : rec = true := by
                            cases hr' : rec with
                            | true => rfl
                            | false => exact absurd (hrec.mp hr').2 h0
                          simp [h0, hrt]
                    rw [this]; exact same_refl _
                  · unfold successCodes; simp only [ht, n1, n2, n3, n4, n5, n6, if_false, false_or, hm, if_true, hdt, htd, hkd]; simp
                  · unfold entityOK; simp only [ht, n1, n2, n3, n4, n7, if_false, false_or]
                · simp only [Bool.not_eq_true] at hpar
                  have hmem : 409 ∈ refusals t r := by rw [hr, hdt, htd]; simp [hpar]
                  refine allows_refused t r _ (mem_ne_nil hmem) ?_ ?_
                  · simpa [copyMove, hlp, hld, hl, hov, hex, hpar, err] using hmem
                  · simp [copyMove, hlp, hld, hl, hov, hex, hpar]
              | true =>
                obtain ⟨de, hde⟩ := Option.isSome_iff_exists.mp hex
                have hkd : kind t d ≠ .absent := by rw [Ne, kind_absent_iff, hde]; simp
                have hpar0 : parentOK t d = true := parentOK_of_exists t hwf d de hde
                have hpar : parentOK (removeAll t d) d = true := by rw [parentOK_removeAll]; exact hpar0
                have how : decide (r.overwrite ≠ "F") = true := by
                  cases h : decide (r.overwrite ≠ "F") with
                  | true => rfl
                  | false => simp [hex, h] at hpre
                have hr0 : refusals t r = [] := by
                  have c1 : ¬ (r.method = "COPY" ∧ r.depth = "1") := fun h => hbadDepth (Or.inl h)
                  have c2 : ¬ (r.method = "MOVE" ∧ (r.depth = "0" ∨ r.depth = "1")) := fun h => hbadDepth (Or.inr h)
                  rw [hr, hdt, htd, if_neg c1, if_neg c2, if_neg hkp]
                  simp only []
                  rw [if_neg hnopre, if_neg hnov.2, if_neg hnov.1]
                  simp [hvo, hvd, hpar0]
                have hf : faulted r = false := by unfold faulted; rcases hm with h | h <;> simp +decide [h]
                unfold allows
                rw [hr0]
                simp only [ne_eq, not_true_eq_false, if_false, hf, Bool.false_eq_true]
                have hout : copyMove t isMove r.path dn rec (decide (r.overwrite ≠ "F")) =
                    ((if isMove then removeAll (graft (removeAll t d) p d) p else if rec || !isDir srcEntry then graft (removeAll t d) p d else set (removeAll t d) d .dir), { status := 204 }) := by
                  simp [copyMove, hlp, hld, hl, hov, hex, hpar, how]
                rw [hout]
                refine ⟨?_, ?_, ?_⟩
                · have : effect t r = (if isMove then removeAll (graft (removeAll t d) p d) p else if rec || !isDir srcEntry then graft (removeAll t d) p d else set (removeAll t d) d .dir) := by
                    unfold effect
                    simp only [ht, n4, n5, n6, if_false, hm, if_true, hdt, htd, hkd, ne_eq, not_false_eq_true]
                    by_cases hmv : r.method = "MOVE"
                    · simp [hmv, hmove.mpr hmv]
                    · have hcp : r.method = "COPY" := by rcases hm with h | h; exact h; exact absurd h hmv
                      have him : isMove = false := by cases isMove <;> simp_all
                      simp only [hmv, if_false, him, Bool.false_eq_true]
                      by_cases h0 : r.depth = "0"
                      · have hrf : rec = false := hrec.mpr ⟨hcp, h0⟩
                        cases srcEntry with
                        | dir => simp [h0, hrf, (kind_coll_iff t p).mpr hl, isDir]
                        | file c =>
                          have : kind t p ≠ .coll := by rw [Ne, kind_coll_iff, hl]; simp
                          simp [h0, hrf, this, isDir]
                      · have hrt : rec = true := by
                          cases hr' : rec with
                          | true => rfl
                          | false => exact absurd (hrec.mp hr').2 h0
                        simp [h0, hrt]
                  rw [this]; exact same_refl _
                · unfold successCodes; simp only [ht, n1, n2, n3, n4, n5, n6, if_false, false_or, hm, if_true, hdt, htd]; simp [hkd]
                · unfold entityOK; simp only [ht, n1, n2, n3, n4, n7, if_false, false_or]

end GoWebdav.Lemmas.Refine
