import GoWebdav.Spec.Rfc4918
import GoWebdav.Props.C03
import GoWebdav.Props.C04
namespace GoWebdav.Lemmas.Webdav
open GoWebdav GoWebdav.Std.Path GoWebdav.Std.Posix GoWebdav.Impl.Path GoWebdav.Impl.Webdav GoWebdav.Spec.Rfc4918

theorem same_refl (t : FS) : Same t t := fun _ => rfl

/-- the model's path mapping is the specification's `target` -/
theorem localPath_target (name : Bytes) :
    localPath [] name = match target name with
      | none => (if name.contains 0 then .error .invalidChar else .error .notAbs)
      | some p => .ok p := by
  unfold localPath target
  by_cases h0 : name.contains 0 = true
  · rw [if_pos h0]; simp only [h0, Bool.true_or, if_true]
  · rw [if_neg h0]
    simp only [Bool.not_eq_true] at h0
    by_cases ha : isAbs name = true
    · simp only [h0, Lemmas.Path.isAbs_clean, ha, Bool.not_true, Bool.false_eq_true, if_false, Bool.or_self, List.nil_append]
    · simp only [Bool.not_eq_true] at ha
      simp only [h0, Lemmas.Path.isAbs_clean, ha, Bool.not_false, if_true, Bool.or_true, Bool.false_eq_true, if_false]

theorem localPath_none (name : Bytes) (h : target name = none) : ∃ e, localPath [] name = .error e := by
  rw [localPath_target, h]
  simp only
  split
  · exact ⟨_, rfl⟩
  · exact ⟨_, rfl⟩

theorem localPath_some (name : Bytes) (p : FPath) (h : target name = some p) : localPath [] name = .ok p := by
  rw [localPath_target, h]

/-- below an absent path nothing is visible -/
theorem wf_absent_below (t : FS) (hwf : WF t) (p : FPath) (hp : lookup t p = none) :
    ∀ q, p.isPrefixOf q = true → lookup t q = none := by
  intro q hq
  rw [List.isPrefixOf_iff_prefix] at hq
  obtain ⟨r, rfl⟩ := hq
  generalize hn : r.length = n
  induction n generalizing r with
  | zero =>
    have : r = [] := List.length_eq_zero_iff.mp hn
    subst this; simpa using hp
  | succ n ih =>
    rcases List.eq_nil_or_concat r with rfl | ⟨r', x, rfl⟩
    · simp at hn
    · have hlen : r'.length = n := by simp at hn; exact hn
      rw [List.concat_eq_append]
      cases hl : lookup t (p ++ (r' ++ [x])) with
      | none => rfl
      | some e =>
        have hne : p ++ (r' ++ [x]) ≠ [] := by simp
        have := hwf _ e hl hne
        have hd : (p ++ (r' ++ [x])).dropLast = p ++ r' := by
          rw [← List.append_assoc, List.dropLast_concat]
        rw [hd, ih r' hlen] at this
        cases this

theorem same_removeAll_absent (t : FS) (hwf : WF t) (p : FPath) (hp : lookup t p = none) : Same (removeAll t p) t := by
  intro q
  rw [lookup_removeAll]
  by_cases hq : p.isPrefixOf q = true
  · simp [hq, wf_absent_below t hwf p hp q hq]
  · simp [hq]

theorem not_prefix_dropLast (d : FPath) (hne : d ≠ []) : d.isPrefixOf d.dropLast = false := by
  cases h : d.isPrefixOf d.dropLast with
  | false => rfl
  | true =>
    rw [List.isPrefixOf_iff_prefix] at h
    have := h.length_le
    simp [List.length_dropLast] at this
    have : d.length ≥ 1 := by cases d <;> simp_all
    omega

theorem parentOK_removeAll (t : FS) (d : FPath) : parentOK (removeAll t d) d = parentOK t d := by
  cases d with
  | nil => rfl
  | cons a as =>
    simp only [parentOK]
    rw [lookup_removeAll, not_prefix_dropLast (a :: as) (by simp)]
    simp

theorem parentOK_of_exists (t : FS) (hwf : WF t) (d : FPath) (e : Entry) (h : lookup t d = some e) : parentOK t d = true := by
  cases d with
  | nil => rfl
  | cons a as =>
    simp only [parentOK]
    simpa using hwf _ e h (by simp)

end GoWebdav.Lemmas.Webdav

namespace GoWebdav.Lemmas.Webdav
open GoWebdav GoWebdav.Std.Path GoWebdav.Std.Posix GoWebdav.Impl.Path GoWebdav.Impl.Webdav GoWebdav.Spec.Rfc4918

/-- the regenerated dispatch table routes each method to its handler -/
theorem step_eq (t : FS) (r : Request) : step t r =
    if r.method = "OPTIONS" then options t r
    else if r.method = "GET" ∨ r.method = "HEAD" then headGet t r
    else if r.method = "PUT" then put t r
    else if r.method = "DELETE" then delete t r
    else if r.method = "PROPFIND" then propfind t r
    else if r.method = "PROPPATCH" then proppatch t r
    else if r.method = "MKCOL" then mkcol t r
    else if r.method = "COPY" ∨ r.method = "MOVE" then copyMoveHandler t r
    else (t, err 405 (.text "unsupported method")) := by
  unfold step Generated.dispatch
  by_cases h1 : r.method = "OPTIONS"; · simp +decide [h1]
  by_cases h2 : r.method = "GET"; · simp +decide [h2]
  by_cases h3 : r.method = "HEAD"; · simp +decide [h3]
  by_cases h4 : r.method = "PUT"; · simp +decide [h4]
  by_cases h5 : r.method = "DELETE"; · simp +decide [h5]
  by_cases h6 : r.method = "PROPFIND"; · simp +decide [h6]
  by_cases h7 : r.method = "PROPPATCH"; · simp +decide [h7]
  by_cases h8 : r.method = "MKCOL"; · simp +decide [h8]
  by_cases h9 : r.method = "COPY"; · simp +decide [h9]
  by_cases h10 : r.method = "MOVE"; · simp +decide [h10]
  have e1 : ("OPTIONS" == r.method) = false := by simpa using Ne.symm h1
  have e2 : ("GET" == r.method) = false := by simpa using Ne.symm h2
  have e3 : ("HEAD" == r.method) = false := by simpa using Ne.symm h3
  have e4 : ("PUT" == r.method) = false := by simpa using Ne.symm h4
  have e5 : ("DELETE" == r.method) = false := by simpa using Ne.symm h5
  have e6 : ("PROPFIND" == r.method) = false := by simpa using Ne.symm h6
  have e7 : ("PROPPATCH" == r.method) = false := by simpa using Ne.symm h7
  have e8 : ("MKCOL" == r.method) = false := by simpa using Ne.symm h8
  have e9 : ("COPY" == r.method) = false := by simpa using Ne.symm h9
  have e10 : ("MOVE" == r.method) = false := by simpa using Ne.symm h10
  simp only [List.find?_cons, e1, e2, e3, e4, e5, e6, e7, e8, e9, e10, h1, h2, h3, h4, h5, h6, h7, h8, h9, h10, or_self, if_false]
  by_cases hs : ("*" == r.method) = true
  · simp +decide [hs]
  · simp +decide [hs]

end GoWebdav.Lemmas.Webdav
