import GoWebdav.Lemmas.CaldavRead
/-!
Helper lemmas for C08, wire → backend: on EVERY filter element the strict RFC 4791 reader accepts (not only those the
library's client writes) the server's decoder yields the filter the reader reads.
-/
namespace GoWebdav.Lemmas.CaldavAgree
open GoWebdav GoWebdav.Std.Xml GoWebdav.Std.Time GoWebdav.Impl.Caldav GoWebdav.Impl.CaldavWire GoWebdav.Spec.CaldavWire
open GoWebdav.Lemmas.CaldavWire GoWebdav.Lemmas.CaldavRead

-- tags ------------------------------------------------------------------------------------------------------------------------------

theorem noD (loc : String) (h : loc.toList.head? ≠ some 'D') : ∀ x : String, "D:" ++ x ≠ loc := by
  intro x hx
  apply h
  rw [← hx]
  simp [String.toList_append]

theorem tag_eq_cal (n : Node) (loc : String) (h : tag n = loc) (hq : loc ≠ "?") (hh : loc ≠ "#")
    (hD : ∀ x : String, "D:" ++ x ≠ loc) : ∃ a c, n = el loc a c := by
  cases n with
  | text s => simp [tag] at h; exact absurd h.symm hh
  | comment s => simp [tag] at h; exact absurd h.symm hh
  | elem q a c =>
    unfold tag at h
    by_cases h1 : q.space = nsCal
    · simp only [h1, if_true] at h
      refine ⟨a, c, ?_⟩
      cases q; simp_all [el]
    · simp only [h1, if_false] at h
      by_cases h2 : q.space = nsDav
      · simp only [h2, if_true] at h; exact absurd h (hD _)
      · simp only [h2, if_false] at h; exact absurd h.symm hq

/-- the symbols of a content model -/
def sym : Pat → String
  | .one s => s
  | .opt s => s
  | .star s => s

theorem mem_takeWhile_sat {α : Type} (p : α → Bool) (l : List α) : ∀ x ∈ l.takeWhile p, p x = true := by
  induction l with
  | nil => intro x hx; simp at hx
  | cons a as ih =>
    intro x hx
    rw [List.takeWhile_cons] at hx
    by_cases ha : p a = true
    · simp only [ha, if_true, List.mem_cons] at hx
      rcases hx with rfl | hx
      · exact ha
      · exact ih x hx
    · simp [ha] at hx

/-- a sequence accepted by a content model uses only the model's symbols -/
theorem seqOK_mem (ps : List Pat) (ts : List String) (h : seqOK ps ts = true) : ∀ t ∈ ts, t ∈ ps.map sym := by
  induction ps generalizing ts with
  | nil =>
    simp only [seqOK, List.isEmpty_iff] at h
    subst h; intro t ht; cases ht
  | cons p ps ih =>
    cases p with
    | one s =>
      cases ts with
      | nil => intro t ht; cases ht
      | cons t ts' =>
        simp only [seqOK, Bool.and_eq_true, beq_iff_eq] at h
        intro x hx
        simp only [List.mem_cons] at hx
        rcases hx with rfl | hx
        · simp [sym, h.1]
        · exact List.mem_cons_of_mem _ (ih ts' h.2 x hx)
    | opt s =>
      cases ts with
      | nil => intro t ht; cases ht
      | cons t ts' =>
        simp only [seqOK] at h
        by_cases hts : (t == s) = true
        · simp only [hts, if_true] at h
          intro x hx
          simp only [List.mem_cons] at hx
          rcases hx with rfl | hx
          · have : x = s := by simpa using hts
            simp [sym, this]
          · exact List.mem_cons_of_mem _ (ih ts' h x hx)
        · simp only [hts, Bool.false_eq_true, if_false] at h
          intro x hx
          exact List.mem_cons_of_mem _ (ih (t :: ts') h x hx)
    | star s =>
      simp only [seqOK] at h
      intro x hx
      have hsplit := (List.takeWhile_append_dropWhile (p := (· == s)) (l := ts)).symm
      rw [hsplit] at hx
      rcases List.mem_append.mp hx with hx | hx
      · have : (x == s) = true := mem_takeWhile_sat (· == s) ts x hx
        have : x = s := by simpa using this
        simp [sym, this]
      · exact List.mem_cons_of_mem _ (ih _ h x hx)

/-- …and an optional symbol that no later part of the model uses occurs at most once, in front -/
theorem seqOK_opt_front (a : String) (ps : List Pat) (ts : List String) (ha : a ∉ ps.map sym)
    (h : seqOK (.opt a :: ps) ts = true) : (ts.filter (· == a) = [] ∧ a ∉ ts) ∨ (∃ rest, ts = a :: rest ∧ a ∉ rest) := by
  cases ts with
  | nil => exact Or.inl ⟨rfl, by simp⟩
  | cons t ts' =>
    simp only [seqOK] at h
    by_cases hts : (t == a) = true
    · simp only [hts, if_true] at h
      have hta : t = a := by simpa using hts
      subst hta
      exact Or.inr ⟨ts', rfl, fun hm => ha (seqOK_mem ps ts' h _ hm)⟩
    · simp only [hts, Bool.false_eq_true, if_false] at h
      have hn : a ∉ (t :: ts') := fun hm => ha (seqOK_mem ps (t :: ts') h _ hm)
      refine Or.inl ⟨?_, hn⟩
      apply List.filter_eq_nil_iff.mpr
      intro x hx hxa
      have : x = a := by simpa using hxa
      subst this; exact hn hx

-- leaves --------------------------------------------------------------------------------------------------------------------------------

theorem named_cal (n : Node) (loc : String) (h : named n loc = true) (hq : loc ≠ "?") (hh : loc ≠ "#")
    (hD : ∀ x : String, "D:" ++ x ≠ loc) : ∃ a c, n = el loc a c :=
  tag_eq_cal n loc (by simpa [named] using h) hq hh hD

theorem decNegate_of_read (attrs : List (QName × String)) (cs : List Node) (t : TextMatch)
    (h : (match attr attrs "negate-condition" with
      | none => some (⟨chardata cs, false⟩ : TextMatch)
      | some "yes" => some ⟨chardata cs, true⟩
      | some "no" => some ⟨chardata cs, false⟩
      | some _ => none) = some t) : decNegate attrs = .ok t.negate ∧ t.text = chardata cs := by
  unfold decNegate Generated.caldavNegateParse
  cases ha : attr attrs "negate-condition" with
  | none => simp [ha] at h; subst h; simp
  | some v =>
    simp only [ha] at h
    by_cases hy : v = "yes"
    · subst hy; simp at h; subst h; simp
    · by_cases hn : v = "no"
      · subst hn; simp at h; subst h; simp
      · split at h <;> simp_all

theorem decTextMatch_of_read (n : Node) (t : TextMatch) (h : readTextMatch n = some t) : decTextMatch n = .ok t := by
  cases n with
  | text s => simp [readTextMatch] at h
  | comment s => simp [readTextMatch] at h
  | elem q attrs cs =>
    unfold readTextMatch at h
    simp only at h
    split at h
    · cases h
    · rename_i hc
      simp only [Bool.not_eq_true, Bool.not_eq_false', Bool.and_eq_true] at hc
      obtain ⟨a, c, he⟩ := named_cal _ _ hc.1.1 (by decide) (by decide) (noD _ (by decide))
      have hq : q.space = nsCal := by simp [el] at he; rw [he.1]
      obtain ⟨h1, h2⟩ := decNegate_of_read attrs cs t h
      unfold decTextMatch
      simp only [checkNs, hq, if_true, bind, Except.bind, h1, pure, Except.pure]
      cases t; simp_all

theorem decTime_of_read (attrs : List (QName × String)) (loc : String) (o : Option Int) (h : readTime attrs loc = some o) :
    decTime attrs loc = .ok (o.getD Z) := by
  unfold readTime at h
  unfold decTime
  cases ha : attr attrs loc with
  | none => simp [ha] at h; subst h; rfl
  | some v =>
    simp only [ha] at h ⊢
    cases hp : Std.Time.parseCal v.toList with
    | none => simp [hp] at h
    | some t => simp [hp] at h; subst h; rfl

theorem decRange_of_readTimeRange (n : Node) (r : Int × Int) (h : readTimeRange n = some r) : decRange n = .ok r := by
  unfold readTimeRange at h
  split at h
  · rename_i q attrs
    split at h
    · cases h
    · rename_i hc
      simp only [Bool.not_eq_true, Bool.not_eq_false', Bool.and_eq_true] at hc
      obtain ⟨a, c, he⟩ := named_cal _ _ hc.1 (by decide) (by decide) (noD _ (by decide))
      have hq : q.space = nsCal := by simp [el] at he; rw [he.1]
      cases hs : readTime attrs "start" with
      | none => simp [hs] at h
      | some s =>
        cases hee : readTime attrs "end" with
        | none => simp [hs, hee] at h
        | some e =>
          simp only [hs, hee, bind, Option.bind, pure] at h
          split at h
          · cases h
          · simp only [Option.some.injEq] at h
            subst h
            unfold decRange
            simp only [checkNs, hq, if_true, bind, Except.bind, decTime_of_read attrs "start" s hs,
              decTime_of_read attrs "end" e hee, pure, Except.pure]
  · cases h

theorem readTextMatch_cal (n : Node) (t : TextMatch) (h : readTextMatch n = some t) : ∃ a c, n = el "text-match" a c := by
  cases n with
  | text s => simp [readTextMatch] at h
  | comment s => simp [readTextMatch] at h
  | elem q attrs cs =>
    unfold readTextMatch at h
    simp only at h
    split at h
    · cases h
    · rename_i hc
      simp only [Bool.not_eq_true, Bool.not_eq_false', Bool.and_eq_true] at hc
      exact named_cal _ _ hc.1.1 (by decide) (by decide) (noD _ (by decide))

theorem single_nil (loc : String) : single loc [] = .ok none := rfl

theorem decParamFilter_of_read (n : Node) (p : ParamFilter) (h : readParamFilter n = some p) : decParamFilter n = .ok p := by
  cases n with
  | text s => simp [readParamFilter] at h
  | comment s => simp [readParamFilter] at h
  | elem q attrs cs =>
    unfold readParamFilter at h
    simp only at h
    split at h
    · cases h
    · rename_i hc
      simp only [Bool.not_eq_true, Bool.not_eq_false', Bool.and_eq_true] at hc
      obtain ⟨a, c, he⟩ := named_cal _ _ hc.1 (by decide) (by decide) (noD _ (by decide))
      have hq : q.space = nsCal := by simp [el] at he; rw [he.1]
      cases hname : reqName attrs with
      | none => simp [hname] at h
      | some name =>
        have hna : nameAttr attrs = name := by unfold nameAttr; unfold reqName at hname; rw [hname]; rfl
        simp only [hname, bind, Option.bind] at h
        unfold decParamFilter
        simp only [checkNs, hq, if_true, bind, Except.bind, hna]
        match cs, h with
        | [], h =>
          simp only [pure, Option.some.injEq] at h; subst h
          simp [decOptTextMatch, single, pick, hasInd, bind, Except.bind, pure, Except.pure]
        | [c], h =>
          simp only at h
          by_cases hind : named c "is-not-defined" = true
          · simp only [hind, if_true] at h
            obtain ⟨a', c', rfl⟩ := named_cal _ _ hind (by decide) (by decide) (noD _ (by decide))
            split at h
            · simp [pure] at h; subst h
              simp [decOptTextMatch, single, pick, hasInd, el, Node.localIs, bind, Except.bind, pure, Except.pure]
            · cases h
          · simp only [hind, Bool.false_eq_true, if_false] at h
            cases ht : readTextMatch c with
            | none => simp [ht] at h
            | some t =>
              simp [ht, pure] at h; subst h
              obtain ⟨a', c', rfl⟩ := readTextMatch_cal c t ht
              have hd := decTextMatch_of_read _ t ht
              have h1 : decOptTextMatch [el "text-match" a' c'] = .ok (some t) := by
                unfold decOptTextMatch single pick
                simp only [List.filter_cons, el, Node.localIs, beq_self_eq_true, if_true, List.filter_nil, bind, Except.bind]
                unfold el at hd
                simp only [hd, pure, Except.pure]
              have h2 : hasInd [el "text-match" a' c'] = false := by simp [hasInd, el, Node.localIs]
              simp only [h1, h2, Bool.false_eq_true, false_and, if_false, Option.isSome_some, pure, Except.pure]
        | _ :: _ :: _, h => simp at h

-- children, by tag --------------------------------------------------------------------------------------------------------------------

/-- symbols that can only be the tag of a CalDAV element -/
def CalSym (t : String) : Prop := t ≠ "?" ∧ t ≠ "#" ∧ ∀ x : String, "D:" ++ x ≠ t

theorem allCal_of_tags (cs : List Node) (S : List String) (hS : ∀ t ∈ S, CalSym t) (h : ∀ t ∈ cs.map tag, t ∈ S) : AllCal cs := by
  intro n hn
  have ht : tag n ∈ S := h _ (List.mem_map.mpr ⟨n, hn, rfl⟩)
  obtain ⟨h1, h2, h3⟩ := hS _ ht
  obtain ⟨a, c, he⟩ := tag_eq_cal n (tag n) rfl h1 h2 h3
  exact ⟨tag n, a, c, he⟩

theorem filter_tag_length (cs : List Node) (loc : String) :
    (cs.filter (named · loc)).length = ((cs.map tag).filter (· == loc)).length := by
  induction cs with
  | nil => rfl
  | cons c cs ih =>
    simp only [List.filter_cons, List.map_cons]
    have hn : named c loc = (tag c == loc) := rfl
    rw [hn]
    cases h : (tag c == loc) <;> simp [ih]

theorem pick_length (cs : List Node) (hall : AllCal cs) (loc : String) :
    (pick loc cs).length = ((cs.map tag).filter (· == loc)).length := by
  rw [← filter_named cs hall loc]; exact filter_tag_length cs loc

/-- an optional leading symbol of a content model occurs at most once among the children -/
theorem pick_le_one (cs : List Node) (hall : AllCal cs) (a : String) (ps : List Pat) (ha : a ∉ ps.map sym)
    (h : seqOK (.opt a :: ps) (cs.map tag) = true) : (pick a cs).length ≤ 1 := by
  rw [pick_length cs hall a]
  rcases seqOK_opt_front a ps _ ha h with ⟨h0, _⟩ | ⟨rest, hr, hn⟩
  · rw [h0]; simp
  · rw [hr]
    have : rest.filter (· == a) = [] := by
      apply List.filter_eq_nil_iff.mpr
      intro x hx hxa
      have : x = a := by simpa using hxa
      subst this; exact hn hx
    simp [List.filter_cons, this]

/-- a symbol the content model does not use does not occur -/
theorem pick_nil (cs : List Node) (hall : AllCal cs) (a : String) (ps : List Pat) (ha : a ∉ ps.map sym)
    (h : seqOK ps (cs.map tag) = true) : pick a cs = [] := by
  have hl := pick_length cs hall a
  have : (cs.map tag).filter (· == a) = [] := by
    apply List.filter_eq_nil_iff.mpr
    intro x hx hxa
    have : x = a := by simpa using hxa
    subst this; exact ha (seqOK_mem ps _ h _ hx)
  rw [this] at hl
  exact List.length_eq_zero_iff.mp hl

theorem decOptRange_of_read (cs : List Node) (hall : AllCal cs) (h1 : (pick "time-range" cs).length ≤ 1)
    (r : Int × Int) (h : optRange cs = some r) :
    ∃ tr, decOptRange "time-range" cs = .ok tr ∧ tr.getD (Z, Z) = r ∧ (tr.isSome = !(pick "time-range" cs).isEmpty) := by
  unfold optRange at h
  rw [find_named cs hall] at h
  unfold decOptRange single
  match hp : pick "time-range" cs, h1 with
  | [], _ =>
    rw [hp] at h
    simp only [List.head?_nil, Option.some.injEq] at h
    exact ⟨none, by simp [bind, Except.bind, pure, Except.pure], by simp [h], by simp⟩
  | [n], _ =>
    rw [hp] at h
    simp only [List.head?_cons] at h
    exact ⟨some r, by simp [bind, Except.bind, decRange_of_readTimeRange n r h, pure, Except.pure], rfl, by simp⟩
  | _ :: _ :: _, h1 => simp at h1

theorem decOptTextMatch_of_read (cs : List Node) (hall : AllCal cs) (h1 : (pick "text-match" cs).length ≤ 1)
    (tm : Option TextMatch) (h : optTextMatch cs = some tm) : decOptTextMatch cs = .ok tm := by
  unfold optTextMatch at h
  rw [find_named cs hall] at h
  unfold decOptTextMatch single
  match hp : pick "text-match" cs, h1 with
  | [], _ =>
    rw [hp] at h
    simp only [List.head?_nil, Option.some.injEq] at h
    subst h
    simp [bind, Except.bind, pure, Except.pure]
  | [n], _ =>
    rw [hp] at h
    simp only [List.head?_cons] at h
    cases ht : readTextMatch n with
    | none => simp [ht] at h
    | some t =>
      simp only [ht, Option.map_some, Option.some.injEq] at h
      subst h
      simp [bind, Except.bind, decTextMatch_of_read n t ht, pure, Except.pure]
  | _ :: _ :: _, h1 => simp at h1

theorem mapM_agree {α : Type} (read : Node → Option α) (dec : Node → Except Impl.CaldavWire.Err α)
    (hag : ∀ n x, read n = some x → dec n = .ok x) (l : List Node) (xs : List α) (h : l.mapM read = some xs) :
    l.mapM dec = .ok xs := by
  induction l generalizing xs with
  | nil => simp at h; subst h; rfl
  | cons n ns ih =>
    rw [List.mapM_cons] at h ⊢
    cases hn : read n with
    | none => simp [hn] at h
    | some x =>
      cases hns : ns.mapM read with
      | none => simp [hn, hns] at h
      | some ys =>
        simp only [hn, hns, bind, Option.bind, pure, Option.some.injEq] at h
        subst h
        simp only [hag n x hn, ih ys hns, bind, Except.bind, pure, Except.pure]

theorem calSym_of (t : String) (h1 : t ≠ "?") (h2 : t ≠ "#") (h3 : t.toList.head? ≠ some 'D') : CalSym t := ⟨h1, h2, noD t h3⟩

-- prop-filter ---------------------------------------------------------------------------------------------------------------------------

theorem cs_tr : CalSym "time-range" := calSym_of _ (by decide) (by decide) (by decide)
theorem cs_tm : CalSym "text-match" := calSym_of _ (by decide) (by decide) (by decide)
theorem cs_pm : CalSym "param-filter" := calSym_of _ (by decide) (by decide) (by decide)
theorem cs_pf : CalSym "prop-filter" := calSym_of _ (by decide) (by decide) (by decide)
theorem cs_cf : CalSym "comp-filter" := calSym_of _ (by decide) (by decide) (by decide)

theorem hasInd_false (cs : List Node) (hall : AllCal cs) (ps : List Pat) (ha : "is-not-defined" ∉ ps.map sym)
    (h : seqOK ps (cs.map tag) = true) : hasInd cs = false := by
  have := pick_nil cs hall "is-not-defined" ps ha h
  unfold hasInd
  rw [GoWebdav.Lemmas.CaldavWire.any_eq_pick, this]; rfl

theorem isEmptyEl_cal (c : Node) (loc : String) (h : isEmptyEl c loc = true) (hs : CalSym loc) : c = el loc [] [] := by
  unfold isEmptyEl at h
  simp only [Bool.and_eq_true] at h
  obtain ⟨a, k, rfl⟩ := named_cal c loc h.1 hs.1 hs.2.1 hs.2.2
  have := h.2
  simp only [el] at this ⊢
  split at this <;> simp_all

/-- the general (not is-not-defined) content of a prop-filter -/
theorem propBody_of_read (cs : List Node)
    (hseq : (seqOK [.opt "time-range", .star "param-filter"] (cs.map tag) || seqOK [.opt "text-match", .star "param-filter"] (cs.map tag)) = true)
    (r : Int × Int) (hr : optRange cs = some r) (tm : Option TextMatch) (htm : optTextMatch cs = some tm)
    (ps : List ParamFilter) (hps : (cs.filter (named · "param-filter")).mapM readParamFilter = some ps) :
    ∃ tr, decOptRange "time-range" cs = .ok tr ∧ tr.getD (Z, Z) = r ∧ decOptTextMatch cs = .ok tm ∧
      (pick "param-filter" cs).mapM decParamFilter = .ok ps ∧ hasInd cs = false := by
  simp only [Bool.or_eq_true] at hseq
  rcases hseq with h1 | h2
  · have hall : AllCal cs := allCal_of_tags cs ["time-range", "param-filter"]
      (by intro t ht; simp at ht; rcases ht with rfl | rfl; exact cs_tr; exact cs_pm)
      (fun t ht => by have := seqOK_mem _ _ h1 t ht; simpa [sym] using this)
    have hone : (pick "time-range" cs).length ≤ 1 := pick_le_one cs hall "time-range" [.star "param-filter"] (by simp [sym]) h1
    have htm0 : pick "text-match" cs = [] := pick_nil cs hall "text-match" _ (by simp [sym]) h1
    obtain ⟨tr, e1, e2, _⟩ := decOptRange_of_read cs hall hone r hr
    refine ⟨tr, e1, e2, decOptTextMatch_of_read cs hall (by rw [htm0]; simp) tm htm, ?_, hasInd_false cs hall _ (by simp [sym]) h1⟩
    rw [← filter_named cs hall]
    exact mapM_agree readParamFilter decParamFilter decParamFilter_of_read _ ps hps
  · have hall : AllCal cs := allCal_of_tags cs ["text-match", "param-filter"]
      (by intro t ht; simp at ht; rcases ht with rfl | rfl; exact cs_tm; exact cs_pm)
      (fun t ht => by have := seqOK_mem _ _ h2 t ht; simpa [sym] using this)
    have hone : (pick "text-match" cs).length ≤ 1 := pick_le_one cs hall "text-match" [.star "param-filter"] (by simp [sym]) h2
    have htr0 : pick "time-range" cs = [] := pick_nil cs hall "time-range" _ (by simp [sym]) h2
    obtain ⟨tr, e1, e2, _⟩ := decOptRange_of_read cs hall (by rw [htr0]; simp) r hr
    refine ⟨tr, e1, e2, decOptTextMatch_of_read cs hall hone tm htm, ?_, hasInd_false cs hall _ (by simp [sym]) h2⟩
    rw [← filter_named cs hall]
    exact mapM_agree readParamFilter decParamFilter decParamFilter_of_read _ ps hps

theorem decPropFilter_of_read (n : Node) (p : PropFilter) (h : readPropFilter n = some p) : decPropFilter n = .ok p := by
  cases n with
  | text s => simp [readPropFilter] at h
  | comment s => simp [readPropFilter] at h
  | elem q attrs cs =>
    unfold readPropFilter at h
    simp only at h
    split at h
    · cases h
    · rename_i hc
      simp only [Bool.not_eq_true, Bool.not_eq_false', Bool.and_eq_true] at hc
      obtain ⟨a, c, he⟩ := named_cal _ _ hc.1 cs_pf.1 cs_pf.2.1 cs_pf.2.2
      have hq : q.space = nsCal := by simp [el] at he; rw [he.1]
      cases hname : reqName attrs with
      | none => simp [hname] at h
      | some name =>
        have hna : nameAttr attrs = name := by unfold nameAttr; unfold reqName at hname; rw [hname]; rfl
        simp only [hname, bind, Option.bind] at h
        unfold decPropFilter
        simp only [checkNs, hq, if_true, bind, Except.bind, hna]
        by_cases hone : cs.length = 1 ∧ cs.all (isEmptyEl · "is-not-defined") = true
        · simp only [hone, and_self, if_true, pure, Option.some.injEq] at h
          subst h
          obtain ⟨hl, ha⟩ := hone
          match cs, hl, ha with
          | [c0], _, ha =>
            have : isEmptyEl c0 "is-not-defined" = true := by simpa using ha
            have hc0 := isEmptyEl_cal c0 _ this (calSym_of _ (by decide) (by decide) (by decide))
            subst hc0
            simp [decOptRange, decOptTextMatch, single, pick, hasInd, el, Node.localIs, bind, Except.bind, pure, Except.pure]
        · simp only [hone, if_false] at h
          split at h
          · cases h
          · rename_i hseq
            simp only [Bool.not_eq_true, Bool.not_eq_false'] at hseq
            cases hr : optRange cs with
            | none => simp [hr] at h
            | some r =>
              cases htm : optTextMatch cs with
              | none => simp [hr, htm] at h
              | some tm =>
                cases hps : (cs.filter (named · "param-filter")).mapM readParamFilter with
                | none => simp [hr, htm, hps] at h
                | some ps =>
                  simp only [hr, htm, hps, pure, Option.some.injEq] at h
                  subst h
                  obtain ⟨tr, e1, e2, e3, e4, e5⟩ := propBody_of_read cs hseq r hr tm htm ps hps
                  simp only [e1, e3, e4, e5, Bool.false_eq_true, false_and, if_false, e2, pure, Except.pure]

-- comp-filter (any nesting depth) ----------------------------------------------------------------------------------------------------------

theorem readPropFilter_ok (n : Node) (p : PropFilter) (h : readPropFilter n = some p) : decPropFilter n = .ok p :=
  decPropFilter_of_read n p h

mutual
theorem decCompFilter_of_read : ∀ (n : Node) (cf : CompFilter), readCompFilter n = some cf → decCompFilter n = .ok cf
  | .text s, cf, h => by simp [readCompFilter] at h
  | .comment s, cf, h => by simp [readCompFilter] at h
  | .elem q attrs cs, cf, h => by
    simp only [readCompFilter] at h
    split at h
    · cases h
    · rename_i hc
      simp only [Bool.not_eq_true, Bool.not_eq_false', Bool.and_eq_true, beq_iff_eq] at hc
      have hq : q.space = nsCal := hc.1.1
      cases hname : reqName attrs with
      | none => simp [hname] at h
      | some name =>
        have hna : nameAttr attrs = name := by unfold nameAttr; unfold reqName at hname; rw [hname]; rfl
        simp only [hname, bind, Option.bind] at h
        simp only [decCompFilter, checkNs, hq, if_true, bind, Except.bind, hna]
        by_cases hone : cs.length = 1 ∧ cs.all (isEmptyEl · "is-not-defined") = true
        · simp only [hone, and_self, if_true, pure, Option.some.injEq] at h
          subst h
          obtain ⟨hl, ha⟩ := hone
          match cs, hl, ha with
          | [c0], _, ha =>
            have : isEmptyEl c0 "is-not-defined" = true := by simpa using ha
            have hc0 := isEmptyEl_cal c0 _ this (calSym_of _ (by decide) (by decide) (by decide))
            subst hc0
            simp [decOptRange, single, pick, hasInd, el, Node.localIs, decCompFilters, bind, Except.bind, pure, Except.pure]
        · simp only [hone, if_false] at h
          split at h
          · cases h
          · rename_i hseq
            simp only [Bool.not_eq_true, Bool.not_eq_false'] at hseq
            have hall : AllCal cs := allCal_of_tags cs ["time-range", "prop-filter", "comp-filter"]
              (by intro t ht; simp at ht; rcases ht with rfl | rfl | rfl; exact cs_tr; exact cs_pf; exact cs_cf)
              (fun t ht => by have := seqOK_mem _ _ hseq t ht; simpa [sym] using this)
            have hone' : (pick "time-range" cs).length ≤ 1 :=
              pick_le_one cs hall "time-range" [.star "prop-filter", .star "comp-filter"] (by simp [sym]) hseq
            cases hr : optRange cs with
            | none => simp [hr] at h
            | some r =>
              cases hps : (cs.filter (named · "prop-filter")).mapM readPropFilter with
              | none => simp [hr, hps] at h
              | some props =>
                cases hcs : readCompFilters cs with
                | none => simp [hr, hps, hcs] at h
                | some comps =>
                  simp only [hr, hps, hcs, pure, Option.some.injEq] at h
                  subst h
                  obtain ⟨tr, e1, e2, _⟩ := decOptRange_of_read cs hall hone' r hr
                  have e3 : (pick "prop-filter" cs).mapM decPropFilter = .ok props := by
                    rw [← filter_named cs hall]
                    exact mapM_agree readPropFilter decPropFilter decPropFilter_of_read _ props hps
                  have e4 := decCompFilters_of_read cs comps hall hcs
                  have e5 := hasInd_false cs hall _ (by simp [sym]) hseq
                  simp only [e1, e3, e4, e5, Bool.false_eq_true, false_and, if_false, e2, pure, Except.pure]
theorem decCompFilters_of_read : ∀ (l : List Node) (cfs : List CompFilter), AllCal l → readCompFilters l = some cfs →
    decCompFilters l = .ok cfs
  | [], cfs, _, h => by
    simp only [readCompFilters, Option.some.injEq] at h
    subst h; simp [decCompFilters]
  | n :: rest, cfs, hall, h => by
    have hrest : AllCal rest := fun x hx => hall x (List.mem_cons_of_mem _ hx)
    obtain ⟨l0, a0, c0, hn⟩ := hall n (by simp)
    have hnl : named n "comp-filter" = n.localIs "comp-filter" := by rw [hn, named_el, localIs_el]
    simp only [readCompFilters] at h
    simp only [decCompFilters]
    rw [← hnl]
    by_cases hcf : named n "comp-filter" = true
    · simp only [hcf, if_true] at h ⊢
      cases h1 : readCompFilter n with
      | none => simp [h1] at h
      | some c =>
        cases h2 : readCompFilters rest with
        | none => simp [h1, h2] at h
        | some cs' =>
          simp only [h1, h2, bind, Option.bind, pure, Option.some.injEq] at h
          subst h
          simp only [decCompFilter_of_read n c h1, decCompFilters_of_read rest cs' hrest h2, bind, Except.bind, pure, Except.pure]
    · simp only [hcf, Bool.false_eq_true, if_false] at h ⊢
      exact decCompFilters_of_read rest cfs hrest h
end

end GoWebdav.Lemmas.CaldavAgree
