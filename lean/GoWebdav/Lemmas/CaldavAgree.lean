import GoWebdav.Lemmas.CaldavRead
/-!
Helper lemmas for C08, wire → backend: on EVERY filter element the strict RFC 4791 reader accepts (not only those the
library's client writes) the server's decoder yields the filter the reader reads.
-/
namespace GoWebdav.Lemmas.CaldavAgree
open GoWebdav GoWebdav.Std.Xml GoWebdav.Std.Time GoWebdav.Impl.Caldav GoWebdav.Impl.CaldavWire GoWebdav.Spec.CaldavWire
open GoWebdav.Lemmas.CaldavWire GoWebdav.Lemmas.CaldavRead

-- tags ------------------------------------------------------------------------------------------------------------------------------

theorem noD (loc : String) (h : loc.toList.head? ≠ some 'D') : ∀ x : String, "D:" ++ x ≠ loc := by
  intro x hx
  apply h
  rw [← hx]
  simp [String.toList_append]

theorem tag_eq_cal (n : Node) (loc : String) (h : tag n = loc) (hq : loc ≠ "?") (hh : loc ≠ "#")
    (hD : ∀ x : String, "D:" ++ x ≠ loc) : ∃ a c, n = el loc a c := by
  cases n with
  | text s => simp [tag] at h; exact absurd h.symm hh
  | comment s => simp [tag] at h; exact absurd h.symm hh
  | elem q a c =>
    unfold tag at h
    by_cases h1 : q.space = nsCal
    · simp only [h1, if_true] at h
      refine ⟨a, c, ?_⟩
      cases q; simp_all [el]
    · simp only [h1, if_false] at h
      by_cases h2 : q.space = nsDav
      · simp only [h2, if_true] at h; exact absurd h (hD _)
      · simp only [h2, if_false] at h; exact absurd h.symm hq

/-- the symbols of a content model -/
def sym : Pat → String
  | .one s => s
  | .opt s => s
  | .star s => s

theorem mem_takeWhile_sat {α : Type} (p : α → Bool) (l : List α) : ∀ x ∈ l.takeWhile p, p x = true := by
  induction l with
  | nil => intro x hx; simp at hx
  | cons a as ih =>
    intro x hx
    rw [List.takeWhile_cons] at hx
    by_cases ha : p a = true
    · simp only [ha, if_true, List.mem_cons] at hx
      rcases hx with rfl | hx
      · exact ha
      · exact ih x hx
    · simp [ha] at hx

/-- a sequence accepted by a content model uses only the model's symbols -/
theorem seqOK_mem (ps : List Pat) (ts : List String) (h : seqOK ps ts = true) : ∀ t ∈ ts, t ∈ ps.map sym := by
  induction ps generalizing ts with
  | nil =>
    simp only [seqOK, List.isEmpty_iff] at h
    subst h; intro t ht; cases ht
  | cons p ps ih =>
    cases p with
    | one s =>
      cases ts with
      | nil => intro t ht; cases ht
      | cons t ts' =>
        simp only [seqOK, Bool.and_eq_true, beq_iff_eq] at h
        intro x hx
        simp only [List.mem_cons] at hx
        rcases hx with rfl | hx
        · simp [sym, h.1]
        · exact List.mem_cons_of_mem _ (ih ts' h.2 x hx)
    | opt s =>
      cases ts with
      | nil => intro t ht; cases ht
      | cons t ts' =>
        simp only [seqOK] at h
        by_cases hts : (t == s) = true
        · simp only [hts, if_true] at h
          intro x hx
          simp only [List.mem_cons] at hx
          rcases hx with rfl | hx
          · have : x = s := by simpa using hts
            simp [sym, this]
          · exact List.mem_cons_of_mem _ (ih ts' h x hx)
        · simp only [hts, Bool.false_eq_true, if_false] at h
          intro x hx
          exact List.mem_cons_of_mem _ (ih (t :: ts') h x hx)
    | star s =>
      simp only [seqOK] at h
      intro x hx
      have hsplit := (List.takeWhile_append_dropWhile (p := (· == s)) (l := ts)).symm
      rw [hsplit] at hx
      rcases List.mem_append.mp hx with hx | hx
      · have : (x == s) = true := mem_takeWhile_sat (· == s) ts x hx
        have : x = s := by simpa using this
        simp [sym, this]
      · exact List.mem_cons_of_mem _ (ih _ h x hx)

/-- …and an optional symbol that no later part of the model uses occurs at most once, in front -/
theorem seqOK_opt_front (a : String) (ps : List Pat) (ts : List String) (ha : a ∉ ps.map sym)
    (h : seqOK (.opt a :: ps) ts = true) : (ts.filter (· == a) = [] ∧ a ∉ ts) ∨ (∃ rest, ts = a :: rest ∧ a ∉ rest) := by
  cases ts with
  | nil => exact Or.inl ⟨rfl, by simp⟩
  | cons t ts' =>
    simp only [seqOK] at h
    by_cases hts : (t == a) = true
    · simp only [hts, if_true] at h
      have hta : t = a := by simpa using hts
      subst hta
      exact Or.inr ⟨ts', rfl, fun hm => ha (seqOK_mem ps ts' h _ hm)⟩
    · simp only [hts, Bool.false_eq_true, if_false] at h
      have hn : a ∉ (t :: ts') := fun hm => ha (seqOK_mem ps (t :: ts') h _ hm)
      refine Or.inl ⟨?_, hn⟩
      apply List.filter_eq_nil_iff.mpr
      intro x hx hxa
      have : x = a := by simpa using hxa
      subst this; exact hn hx

-- leaves --------------------------------------------------------------------------------------------------------------------------------

theorem named_cal (n : Node) (loc : String) (h : named n loc = true) (hq : loc ≠ "?") (hh : loc ≠ "#")
    (hD : ∀ x : String, "D:" ++ x ≠ loc) : ∃ a c, n = el loc a c :=
  tag_eq_cal n loc (by simpa [named] using h) hq hh hD

theorem decNegate_of_read (attrs : List (QName × String)) (cs : List Node) (t : TextMatch)
    (h : (match attr attrs "negate-condition" with
      | none => some (⟨chardata cs, false⟩ : TextMatch)
      | some "yes" => some ⟨chardata cs, true⟩
      | some "no" => some ⟨chardata cs, false⟩
      | some _ => none) = some t) : decNegate attrs = .ok t.negate ∧ t.text = chardata cs := by
  unfold decNegate Generated.caldavNegateParse
  cases ha : attr attrs "negate-condition" with
  | none => simp [ha] at h; subst h; simp
  | some v =>
    simp only [ha] at h
    by_cases hy : v = "yes"
    · subst hy; simp at h; subst h; simp
    · by_cases hn : v = "no"
      · subst hn; simp at h; subst h; simp
      · split at h <;> simp_all

theorem decTextMatch_of_read (n : Node) (t : TextMatch) (h : readTextMatch n = some t) : decTextMatch n = .ok t := by
  cases n with
  | text s => simp [readTextMatch] at h
  | comment s => simp [readTextMatch] at h
  | elem q attrs cs =>
    unfold readTextMatch at h
    simp only at h
    split at h
    · cases h
    · rename_i hc
      simp only [Bool.not_eq_true, Bool.not_eq_false', Bool.and_eq_true] at hc
      obtain ⟨a, c, he⟩ := named_cal _ _ hc.1.1 (by decide) (by decide) (noD _ (by decide))
      have hq : q.space = nsCal := by simp [el] at he; rw [he.1]
      obtain ⟨h1, h2⟩ := decNegate_of_read attrs cs t h
      unfold decTextMatch
      simp only [checkNs, hq, if_true, bind, Except.bind, h1, pure, Except.pure]
      cases t; simp_all

theorem decTime_of_read (attrs : List (QName × String)) (loc : String) (o : Option Int) (h : readTime attrs loc = some o) :
    decTime attrs loc = .ok (o.getD Z) := by
  unfold readTime at h
  unfold decTime
  cases ha : attr attrs loc with
  | none => simp [ha] at h; subst h; rfl
  | some v =>
    simp only [ha] at h ⊢
    cases hp : Std.Time.parseCal v.toList with
    | none => simp [hp] at h
    | some t => simp [hp] at h; subst h; rfl

theorem decRange_of_readTimeRange (n : Node) (r : Int × Int) (h : readTimeRange n = some r) : decRange n = .ok r := by
  unfold readTimeRange at h
  split at h
  · rename_i q attrs
    split at h
    · cases h
    · rename_i hc
      simp only [Bool.not_eq_true, Bool.not_eq_false', Bool.and_eq_true] at hc
      obtain ⟨a, c, he⟩ := named_cal _ _ hc.1 (by decide) (by decide) (noD _ (by decide))
      have hq : q.space = nsCal := by simp [el] at he; rw [he.1]
      cases hs : readTime attrs "start" with
      | none => simp [hs] at h
      | some s =>
        cases hee : readTime attrs "end" with
        | none => simp [hs, hee] at h
        | some e =>
          simp only [hs, hee, bind, Option.bind, pure] at h
          split at h
          · cases h
          · simp only [Option.some.injEq] at h
            subst h
            unfold decRange
            simp only [checkNs, hq, if_true, bind, Except.bind, decTime_of_read attrs "start" s hs,
              decTime_of_read attrs "end" e hee, pure, Except.pure]
  · cases h

theorem readTextMatch_cal (n : Node) (t : TextMatch) (h : readTextMatch n = some t) : ∃ a c, n = el "text-match" a c := by
  cases n with
  | text s => simp [readTextMatch] at h
  | comment s => simp [readTextMatch] at h
  | elem q attrs cs =>
    unfold readTextMatch at h
    simp only at h
    split at h
    · cases h
    · rename_i hc
      simp only [Bool.not_eq_true, Bool.not_eq_false', Bool.and_eq_true] at hc
      exact named_cal _ _ hc.1.1 (by decide) (by decide) (noD _ (by decide))

theorem single_nil (loc : String) : single loc [] = .ok none := rfl

theorem decParamFilter_of_read (n : Node) (p : ParamFilter) (h : readParamFilter n = some p) : decParamFilter n = .ok p := by
  cases n with
  | text s => simp [readParamFilter] at h
  | comment s => simp [readParamFilter] at h
  | elem q attrs cs =>
    unfold readParamFilter at h
    simp only at h
    split at h
    · cases h
    · rename_i hc
      simp only [Bool.not_eq_true, Bool.not_eq_false', Bool.and_eq_true] at hc
      obtain ⟨a, c, he⟩ := named_cal _ _ hc.1 (by decide) (by decide) (noD _ (by decide))
      have hq : q.space = nsCal := by simp [el] at he; rw [he.1]
      cases hname : reqName attrs with
      | none => simp [hname] at h
      | some name =>
        have hna : nameAttr attrs = name := by unfold nameAttr; unfold reqName at hname; rw [hname]; rfl
        simp only [hname, bind, Option.bind] at h
        unfold decParamFilter
        simp only [checkNs, hq, if_true, bind, Except.bind, hna]
        match cs, h with
        | [], h =>
          simp only [pure, Option.some.injEq] at h; subst h
          simp [decOptTextMatch, single, pick, hasInd, bind, Except.bind, pure, Except.pure]
        | [c], h =>
          simp only at h
          by_cases hind : named c "is-not-defined" = true
          · simp only [hind, if_true] at h
            obtain ⟨a', c', rfl⟩ := named_cal _ _ hind (by decide) (by decide) (noD _ (by decide))
            split at h
            · simp [pure] at h; subst h
              simp [decOptTextMatch, single, pick, hasInd, el, Node.localIs, bind, Except.bind, pure, Except.pure]
            · cases h
          · simp only [hind, Bool.false_eq_true, if_false] at h
            cases ht : readTextMatch c with
            | none => simp [ht] at h
            | some t =>
              simp [ht, pure] at h; subst h
              obtain ⟨a', c', rfl⟩ := readTextMatch_cal c t ht
              have hd := decTextMatch_of_read _ t ht
              have h1 : decOptTextMatch [el "text-match" a' c'] = .ok (some t) := by
                unfold decOptTextMatch single pick
                simp only [List.filter_cons, el, Node.localIs, beq_self_eq_true, if_true, List.filter_nil, bind, Except.bind]
                unfold el at hd
                simp only [hd, pure, Except.pure]
              have h2 : hasInd [el "text-match" a' c'] = false := by simp [hasInd, el, Node.localIs]
              simp only [h1, h2, Bool.false_eq_true, false_and, if_false, Option.isSome_some, pure, Except.pure]
        | _ :: _ :: _, h => simp at h

-- children, by tag --------------------------------------------------------------------------------------------------------------------

/-- symbols that can only be the tag of a CalDAV element -/
def CalSym (t : String) : Prop := t ≠ "?" ∧ t ≠ "#" ∧ ∀ x : String, "D:" ++ x ≠ t

theorem allCal_of_tags (cs : List Node) (S : List String) (hS : ∀ t ∈ S, CalSym t) (h : ∀ t ∈ cs.map tag, t ∈ S) : AllCal cs := by
  intro n hn
  have ht : tag n ∈ S := h _ (List.mem_map.mpr ⟨n, hn, rfl⟩)
  obtain ⟨h1, h2, h3⟩ := hS _ ht
  obtain ⟨a, c, he⟩ := tag_eq_cal n (tag n) rfl h1 h2 h3
  exact ⟨tag n, a, c, he⟩

theorem filter_tag_length (cs : List Node) (loc : String) :
    (cs.filter (named · loc)).length = ((cs.map tag).filter (· == loc)).length := by
  induction cs with
  | nil => rfl
  | cons c cs ih =>
    simp only [List.filter_cons, List.map_cons]
    have hn : named c loc = (tag c == loc) := rfl
    rw [hn]
    cases h : (tag c == loc) <;> simp [ih]

theorem pick_length (cs : List Node) (hall : AllCal cs) (loc : String) :
    (pick loc cs).length = ((cs.map tag).filter (· == loc)).length := by
  rw [← filter_named cs hall loc]; exact filter_tag_length cs loc

/-- an optional leading symbol of a content model occurs at most once among the children -/
theorem pick_le_one (cs : List Node) (hall : AllCal cs) (a : String) (ps : List Pat) (ha : a ∉ ps.map sym)
    (h : seqOK (.opt a :: ps) (cs.map tag) = true) : (pick a cs).length ≤ 1 := by
  rw [pick_length cs hall a]
  rcases seqOK_opt_front a ps _ ha h with ⟨h0, _⟩ | ⟨rest, hr, hn⟩
  · rw [h0]; simp
  · rw [hr]
    have : rest.filter (· == a) = [] := by
      apply List.filter_eq_nil_iff.mpr
      intro x hx hxa
      have : x = a := by simpa using hxa
      subst this; exact hn hx
    simp [List.filter_cons, this]

/-- a symbol the content model does not use does not occur -/
theorem pick_nil (cs : List Node) (hall : AllCal cs) (a : String) (ps : List Pat) (ha : a ∉ ps.map sym)
    (h : seqOK ps (cs.map tag) = true) : pick a cs = [] := by
  have hl := pick_length cs hall a
  have : (cs.map tag).filter (· == a) = [] := by
    apply List.filter_eq_nil_iff.mpr
    intro x hx hxa
    have : x = a := by simpa using hxa
    subst this; exact ha (seqOK_mem ps _ h _ hx)
  rw [this] at hl
  exact List.length_eq_zero_iff.mp hl

theorem decOptRange_of_read (cs : List Node) (hall : AllCal cs) (h1 : (pick "time-range" cs).length ≤ 1)
    (r : Int × Int) (h : optRange cs = some r) :
    ∃ tr, decOptRange "time-range" cs = .ok tr ∧ tr.getD (Z, Z) = r ∧ (tr.isSome = !(pick "time-range" cs).isEmpty) := by
  unfold optRange at h
  rw [find_named cs hall] at h
  unfold decOptRange single
  match hp : pick "time-range" cs, h1 with
  | [], _ =>
    rw [hp] at h
    simp only [List.head?_nil, Option.some.injEq] at h
    exact ⟨none, by simp [bind, Except.bind, pure, Except.pure], by simp [h], by simp⟩
  | [n], _ =>
    rw [hp] at h
    simp only [List.head?_cons] at h
    exact ⟨some r, by simp [bind, Except.bind, decRange_of_readTimeRange n r h, pure, Except.pure], rfl, by simp⟩
  | _ :: _ :: _, h1 => simp at h1

theorem decOptTextMatch_of_read (cs : List Node) (hall : AllCal cs) (h1 : (pick "text-match" cs).length ≤ 1)
    (tm : Option TextMatch) (h : optTextMatch cs = some tm) : decOptTextMatch cs = .ok tm := by
  unfold optTextMatch at h
  rw [find_named cs hall] at h
  unfold decOptTextMatch single
  match hp : pick "text-match" cs, h1 with
  | [], _ =>
    rw [hp] at h
    simp only [List.head?_nil, Option.some.injEq] at h
    subst h
    simp [bind, Except.bind, pure, Except.pure]
  | [n], _ =>
    rw [hp] at h
    simp only [List.head?_cons] at h
    cases ht : readTextMatch n with
    | none => simp [ht] at h
    | some t =>
      simp only [ht, Option.map_some, Option.some.injEq] at h
      subst h
      simp [bind, Except.bind, decTextMatch_of_read n t ht, pure, Except.pure]
  | _ :: _ :: _, h1 => simp at h1

theorem mapM_agree {α : Type} (read : Node → Option α) (dec : Node → Except Impl.CaldavWire.Err α)
    (hag : ∀ n x, read n = some x → dec n = .ok x) (l : List Node) (xs : List α) (h : l.mapM read = some xs) :
    l.mapM dec = .ok xs := by
  induction l generalizing xs with
  | nil => simp at h; subst h; rfl
  | cons n ns ih =>
    rw [List.mapM_cons] at h ⊢
    cases hn : read n with
    | none => simp [hn] at h
    | some x =>
      cases hns : ns.mapM read with
      | none => simp [hn, hns] at h
      | some ys =>
        simp only [hn, hns, bind, Option.bind, pure, Option.some.injEq] at h
        subst h
        simp only [hag n x hn, ih ys hns, bind, Except.bind, pure, Except.pure]

theorem calSym_of (t : String) (h1 : t ≠ "?") (h2 : t ≠ "#") (h3 : t.toList.head? ≠ some 'D') : CalSym t := ⟨h1, h2, noD t h3⟩

-- prop-filter ---------------------------------------------------------------------------------------------------------------------------

theorem cs_tr : CalSym "time-range" := calSym_of _ (by decide) (by decide) (by decide)
theorem cs_tm : CalSym "text-match" := calSym_of _ (by decide) (by decide) (by decide)
theorem cs_pm : CalSym "param-filter" := calSym_of _ (by decide) (by decide) (by decide)
theorem cs_pf : CalSym "prop-filter" := calSym_of _ (by decide) (by decide) (by decide)
theorem cs_cf : CalSym "comp-filter" := calSym_of _ (by decide) (by decide) (by decide)

theorem hasInd_false (cs : List Node) (hall : AllCal cs) (ps : List Pat) (ha : "is-not-defined" ∉ ps.map sym)
    (h : seqOK ps (cs.map tag) = true) : hasInd cs = false := by
  have := pick_nil cs hall "is-not-defined" ps ha h
  unfold hasInd
  rw [GoWebdav.Lemmas.CaldavWire.any_eq_pick, this]; rfl

theorem isEmptyEl_cal (c : Node) (loc : String) (h : isEmptyEl c loc = true) (hs : CalSym loc) : c = el loc [] [] := by
  unfold isEmptyEl at h
  simp only [Bool.and_eq_true] at h
  obtain ⟨a, k, rfl⟩ := named_cal c loc h.1 hs.1 hs.2.1 hs.2.2
  have := h.2
  simp only [el] at this ⊢
  split at this <;> simp_all

/-- the general (not is-not-defined) content of a prop-filter -/
theorem propBody_of_read (cs : List Node)
    (hseq : (seqOK [.opt "time-range", .star "param-filter"] (cs.map tag) || seqOK [.opt "text-match", .star "param-filter"] (cs.map tag)) = true)
    (r : Int × Int) (hr : optRange cs = some r) (tm : Option TextMatch) (htm : optTextMatch cs = some tm)
    (ps : List ParamFilter) (hps : (cs.filter (named · "param-filter")).mapM readParamFilter = some ps) :
    ∃ tr, decOptRange "time-range" cs = .ok tr ∧ tr.getD (Z, Z) = r ∧ decOptTextMatch cs = .ok tm ∧
      (pick "param-filter" cs).mapM decParamFilter = .ok ps ∧ hasInd cs = false := by
  simp only [Bool.or_eq_true] at hseq
  rcases hseq with h1 | h2
  · have hall : AllCal cs := allCal_of_tags cs ["time-range", "param-filter"]
      (by intro t ht; simp at ht; rcases ht with rfl | rfl; exact cs_tr; exact cs_pm)
      (fun t ht => by have := seqOK_mem _ _ h1 t ht; simpa [sym] using this)
    have hone : (pick "time-range" cs).length ≤ 1 := pick_le_one cs hall "time-range" [.star "param-filter"] (by simp [sym]) h1
    have htm0 : pick "text-match" cs = [] := pick_nil cs hall "text-match" _ (by simp [sym]) h1
    obtain ⟨tr, e1, e2, _⟩ := decOptRange_of_read cs hall hone r hr
    refine ⟨tr, e1, e2, decOptTextMatch_of_read cs hall (by rw [htm0]; simp) tm htm, ?_, hasInd_false cs hall _ (by simp [sym]) h1⟩
    rw [← filter_named cs hall]
    exact mapM_agree readParamFilter decParamFilter decParamFilter_of_read _ ps hps
  · have hall : AllCal cs := allCal_of_tags cs ["text-match", "param-filter"]
      (by intro t ht; simp at ht; rcases ht with rfl | rfl; exact cs_tm; exact cs_pm)
      (fun t ht => by have := seqOK_mem _ _ h2 t ht; simpa [sym] using this)
    have hone : (pick "text-match" cs).length ≤ 1 := pick_le_one cs hall "text-match" [.star "param-filter"] (by simp [sym]) h2
    have htr0 : pick "time-range" cs = [] := pick_nil cs hall "time-range" _ (by simp [sym]) h2
    obtain ⟨tr, e1, e2, _⟩ := decOptRange_of_read cs hall (by rw [htr0]; simp) r hr
    refine ⟨tr, e1, e2, decOptTextMatch_of_read cs hall hone tm htm, ?_, hasInd_false cs hall _ (by simp [sym]) h2⟩
    rw [← filter_named cs hall]
    exact mapM_agree readParamFilter decParamFilter decParamFilter_of_read _ ps hps

theorem decPropFilter_of_read (n : Node) (p : PropFilter) (h : readPropFilter n = some p) : decPropFilter n = .ok p := by
  cases n with
  | text s => simp [readPropFilter] at h
  | comment s => simp [readPropFilter] at h
  | elem q attrs cs =>
    unfold readPropFilter at h
    simp only at h
    split at h
    · cases h
    · rename_i hc
      simp only [Bool.not_eq_true, Bool.not_eq_false', Bool.and_eq_true] at hc
      obtain ⟨a, c, he⟩ := named_cal _ _ hc.1 cs_pf.1 cs_pf.2.1 cs_pf.2.2
      have hq : q.space = nsCal := by simp [el] at he; rw [he.1]
      cases hname : reqName attrs with
      | none => simp [hname] at h
      | some name =>
        have hna : nameAttr attrs = name := by unfold nameAttr; unfold reqName at hname; rw [hname]; rfl
        simp only [hname, bind, Option.bind] at h
        unfold decPropFilter
        simp only [checkNs, hq, if_true, bind, Except.bind, hna]
        by_cases hone : cs.length = 1 ∧ cs.all (isEmptyEl · "is-not-defined") = true
        · simp only [hone, and_self, if_true, pure, Option.some.injEq] at h
          subst h
          obtain ⟨hl, ha⟩ := hone
          match cs, hl, ha with
          | [c0], _, ha =>
            have : isEmptyEl c0 "is-not-defined" = true := by simpa using ha
            have hc0 := isEmptyEl_cal c0 _ this (calSym_of _ (by decide) (by decide) (by decide))
            subst hc0
            simp [decOptRange, decOptTextMatch, single, pick, hasInd, el, Node.localIs, bind, Except.bind, pure, Except.pure]
        · simp only [hone, if_false] at h
          split at h
          · cases h
          · rename_i hseq
            simp only [Bool.not_eq_true, Bool.not_eq_false'] at hseq
            cases hr : optRange cs with
            | none => simp [hr] at h
            | some r =>
              cases htm : optTextMatch cs with
              | none => simp [hr, htm] at h
              | some tm =>
                cases hps : (cs.filter (named · "param-filter")).mapM readParamFilter with
                | none => simp [hr, htm, hps] at h
                | some ps =>
                  simp only [hr, htm, hps, pure, Option.some.injEq] at h
                  subst h
                  obtain ⟨tr, e1, e2, e3, e4, e5⟩ := propBody_of_read cs hseq r hr tm htm ps hps
                  simp only [e1, e3, e4, e5, Bool.false_eq_true, false_and, if_false, e2, pure, Except.pure]

-- comp-filter (any nesting depth) ----------------------------------------------------------------------------------------------------------

theorem readPropFilter_ok (n : Node) (p : PropFilter) (h : readPropFilter n = some p) : decPropFilter n = .ok p :=
  decPropFilter_of_read n p h

mutual
theorem decCompFilter_of_read : ∀ (n : Node) (cf : CompFilter), readCompFilter n = some cf → decCompFilter n = .ok cf
  | .text s, cf, h => by simp [readCompFilter] at h
  | .comment s, cf, h => by simp [readCompFilter] at h
  | .elem q attrs cs, cf, h => by
    simp only [readCompFilter] at h
    split at h
    · cases h
    · rename_i hc
      simp only [Bool.not_eq_true, Bool.not_eq_false', Bool.and_eq_true, beq_iff_eq] at hc
      have hq : q.space = nsCal := hc.1.1
      cases hname : reqName attrs with
      | none => simp [hname] at h
      | some name =>
        have hna : nameAttr attrs = name := by unfold nameAttr; unfold reqName at hname; rw [hname]; rfl
        simp only [hname, bind, Option.bind] at h
        simp only [decCompFilter, checkNs, hq, if_true, bind, Except.bind, hna]
        by_cases hone : cs.length = 1 ∧ cs.all (isEmptyEl · "is-not-defined") = true
        · simp only [hone, and_self, if_true, pure, Option.some.injEq] at h
          subst h
          obtain ⟨hl, ha⟩ := hone
          match cs, hl, ha with
          | [c0], _, ha =>
            have : isEmptyEl c0 "is-not-defined" = true := by simpa using ha
            have hc0 := isEmptyEl_cal c0 _ this (calSym_of _ (by decide) (by decide) (by decide))
            subst hc0
            simp [decOptRange, single, pick, hasInd, el, Node.localIs, decCompFilters, bind, Except.bind, pure, Except.pure]
        · simp only [hone, if_false] at h
          split at h
          · cases h
          · rename_i hseq
            simp only [Bool.not_eq_true, Bool.not_eq_false'] at hseq
            have hall : AllCal cs := allCal_of_tags cs ["time-range", "prop-filter", "comp-filter"]
              (by intro t ht; simp at ht; rcases ht with rfl | rfl | rfl; exact cs_tr; exact cs_pf; exact cs_cf)
              (fun t ht => by have := seqOK_mem _ _ hseq t ht; simpa [sym] using this)
            have hone' : (pick "time-range" cs).length ≤ 1 :=
              pick_le_one cs hall "time-range" [.star "prop-filter", .star "comp-filter"] (by simp [sym]) hseq
            cases hr : optRange cs with
            | none => simp [hr] at h
            | some r =>
              cases hps : (cs.filter (named · "prop-filter")).mapM readPropFilter with
              | none => simp [hr, hps] at h
              | some props =>
                cases hcs : readCompFilters cs with
                | none => simp [hr, hps, hcs] at h
                | some comps =>
                  simp only [hr, hps, hcs, pure, Option.some.injEq] at h
                  subst h
                  obtain ⟨tr, e1, e2, _⟩ := decOptRange_of_read cs hall hone' r hr
                  have e3 : (pick "prop-filter" cs).mapM decPropFilter = .ok props := by
                    rw [← filter_named cs hall]
                    exact mapM_agree readPropFilter decPropFilter decPropFilter_of_read _ props hps
                  have e4 := decCompFilters_of_read cs comps hall hcs
                  have e5 := hasInd_false cs hall _ (by simp [sym]) hseq
                  simp only [e1, e3, e4, e5, Bool.false_eq_true, false_and, if_false, e2, pure, Except.pure]
theorem decCompFilters_of_read : ∀ (l : List Node) (cfs : List CompFilter), AllCal l → readCompFilters l = some cfs →
    decCompFilters l = .ok cfs
  | [], cfs, _, h => by
    simp only [readCompFilters, Option.some.injEq] at h
    subst h; simp [decCompFilters]
  | n :: rest, cfs, hall, h => by
    have hrest : AllCal rest := fun x hx => hall x (List.mem_cons_of_mem _ hx)
    obtain ⟨l0, a0, c0, hn⟩ := hall n (by simp)
    have hnl : named n "comp-filter" = n.localIs "comp-filter" := by rw [hn, named_el, localIs_el]
    simp only [readCompFilters] at h
    simp only [decCompFilters]
    rw [← hnl]
    by_cases hcf : named n "comp-filter" = true
    · simp only [hcf, if_true] at h ⊢
      cases h1 : readCompFilter n with
      | none => simp [h1] at h
      | some c =>
        cases h2 : readCompFilters rest with
        | none => simp [h1, h2] at h
        | some cs' =>
          simp only [h1, h2, bind, Option.bind, pure, Option.some.injEq] at h
          subst h
          simp only [decCompFilter_of_read n c h1, decCompFilters_of_read rest cs' hrest h2, bind, Except.bind, pure, Except.pure]
    · simp only [hcf, Bool.false_eq_true, if_false] at h ⊢
      exact decCompFilters_of_read rest cfs hrest h
end

-- the data request: comp (any nesting depth) -------------------------------------------------------------------------------------------------

theorem cs_ap : CalSym "allprop" := calSym_of _ (by decide) (by decide) (by decide)
theorem cs_pr : CalSym "prop" := calSym_of _ (by decide) (by decide) (by decide)
theorem cs_ac : CalSym "allcomp" := calSym_of _ (by decide) (by decide) (by decide)
theorem cs_co : CalSym "comp" := calSym_of _ (by decide) (by decide) (by decide)
theorem cs_ex : CalSym "expand" := calSym_of _ (by decide) (by decide) (by decide)

theorem any_localIs_contains (cs : List Node) (hall : AllCal cs) (loc : String) :
    cs.any (·.localIs loc) = (cs.map tag).contains loc := by
  induction cs with
  | nil => rfl
  | cons c cs ih =>
    obtain ⟨l, a, k, rfl⟩ := hall c (by simp)
    have := ih (fun x hx => hall x (List.mem_cons_of_mem _ hx))
    simp only [List.any_cons, List.map_cons, List.contains_cons, localIs_el, tag_el, this]
    by_cases hl : l = loc
    · simp [hl]
    · have h1 : (l == loc) = false := by simpa using hl
      have h2 : (loc == l) = false := by simpa using fun h => hl h.symm
      simp [h1, h2]

theorem decPropName_of_read (n : Node) (name : String) (h : readDataProp n = some name) : decPropName n = .ok name := by
  unfold readDataProp at h
  split at h
  · rename_i q attrs
    by_cases hc : (named (Node.elem q attrs []) "prop" && attrsOK ["name", "novalue"] attrs) = true
    · simp only [hc, if_true] at h
      simp only [Bool.and_eq_true] at hc
      obtain ⟨a, c, he⟩ := named_cal _ _ hc.1 cs_pr.1 cs_pr.2.1 cs_pr.2.2
      have hq : q.space = nsCal := by simp [el] at he; rw [he.1]
      unfold decPropName
      have hna : nameAttr attrs = name := by unfold nameAttr; unfold reqName at h; rw [h]; rfl
      simp only [checkNs, hq, if_true, bind, Except.bind, hna, pure, Except.pure]
    · simp [hc] at h
  · cases h

theorem readComps_nil (cs : List Node) (h : ∀ n ∈ cs, named n "comp" = false) : readComps cs = some [] := by
  induction cs with
  | nil => simp [readComps]
  | cons c cs ih =>
    simp only [readComps, h c (by simp), Bool.false_eq_true, if_false]
    exact ih (fun x hx => h x (List.mem_cons_of_mem _ hx))

theorem decComps_nil (cs : List Node) (h : ∀ n ∈ cs, n.localIs "comp" = false) : decComps cs = .ok [] := by
  induction cs with
  | nil => simp [decComps]
  | cons c cs ih =>
    simp only [decComps, h c (by simp), Bool.false_eq_true, if_false]
    exact ih (fun x hx => h x (List.mem_cons_of_mem _ hx))

theorem not_named_of_tags (cs : List Node) (loc : String) (h : loc ∉ cs.map tag) : ∀ n ∈ cs, named n loc = false := by
  intro n hn
  cases hnl : named n loc
  · rfl
  · exfalso; apply h
    have : tag n = loc := by simpa [named] using hnl
    exact List.mem_map.mpr ⟨n, hn, this⟩

mutual
theorem decComp_of_read : ∀ (n : Node) (c : CompReq), readComp n = some c → decComp n = .ok c
  | .text s, c, h => by simp [readComp] at h
  | .comment s, c, h => by simp [readComp] at h
  | .elem q attrs cs, c, h => by
    simp only [readComp] at h
    split at h
    · cases h
    · rename_i hc
      simp only [Bool.not_eq_true, Bool.not_eq_false', Bool.and_eq_true, beq_iff_eq] at hc
      have hq : q.space = nsCal := hc.1.1
      cases hname : reqName attrs with
      | none => simp [hname] at h
      | some name =>
        have hna : nameAttr attrs = name := by unfold nameAttr; unfold reqName at hname; rw [hname]; rfl
        simp only [hname, bind, Option.bind] at h
        generalize hpat : ([if (cs.map tag).contains "allprop" = true then Pat.one "allprop" else Pat.star "prop",
          if (cs.map tag).contains "allcomp" = true then Pat.one "allcomp" else Pat.star "comp"] : List Pat) = pat at h
        by_cases hseq : seqOK pat (cs.map tag) = true
        · simp only [hseq, Bool.not_true, Bool.false_eq_true, if_false] at h
          generalize hbare : ((cs.filter (named · "allprop")).all isBare && (cs.filter (named · "allcomp")).all isBare) = bare at h
          cases bare with
          | false => simp at h
          | true =>
            simp only [Bool.not_true, Bool.false_eq_true, if_false] at h
            cases hps : (cs.filter (named · "prop")).mapM readDataProp with
            | none => simp [hps] at h
            | some props =>
              cases hcs : readComps cs with
              | none => simp [hps, hcs] at h
              | some comps =>
                simp only [hps, hcs, pure, Option.some.injEq] at h
                subst h
                have hmem := seqOK_mem _ _ hseq
                -- the symbols of the (flag-dependent) content model
                have hsyms : ∀ t ∈ pat.map sym, t ∈ ["allprop", "prop", "allcomp", "comp"] := by
                  intro t ht
                  rw [← hpat] at ht
                  cases hap : (cs.map tag).contains "allprop" <;> cases hac : (cs.map tag).contains "allcomp" <;>
                    simp only [hap, hac, Bool.false_eq_true, if_false, if_true, List.map_cons, List.map_nil, sym, List.mem_cons,
                      List.not_mem_nil, or_false] at ht <;>
                    rcases ht with rfl | rfl <;> simp
                have hnoprop : (cs.map tag).contains "allprop" = true → "prop" ∉ pat.map sym := by
                  intro hap hm
                  rw [← hpat] at hm
                  cases hac : (cs.map tag).contains "allcomp" <;>
                    simp only [hap, hac, Bool.false_eq_true, if_false, if_true, List.map_cons, List.map_nil, sym, List.mem_cons,
                      List.not_mem_nil, or_false] at hm <;>
                    rcases hm with h1 | h1 <;> exact absurd h1 (by decide)
                have hnocomp : (cs.map tag).contains "allcomp" = true → "comp" ∉ pat.map sym := by
                  intro hac hm
                  rw [← hpat] at hm
                  cases hap : (cs.map tag).contains "allprop" <;>
                    simp only [hap, hac, Bool.false_eq_true, if_false, if_true, List.map_cons, List.map_nil, sym, List.mem_cons,
                      List.not_mem_nil, or_false] at hm <;>
                    rcases hm with h1 | h1 <;> exact absurd h1 (by decide)
                have hall : AllCal cs := allCal_of_tags cs ["allprop", "prop", "allcomp", "comp"]
                  (by intro t ht; simp at ht; rcases ht with rfl | rfl | rfl | rfl; exact cs_ap; exact cs_pr; exact cs_ac; exact cs_co)
                  (fun t ht => hsyms t (hmem t ht))
                have e1 : (pick "prop" cs).mapM decPropName = .ok props := by
                  rw [← filter_named cs hall]
                  exact mapM_agree readDataProp decPropName decPropName_of_read _ props hps
                have e2 := decComps_of_read cs comps hall hcs
                have eap := any_localIs_contains cs hall "allprop"
                have eac := any_localIs_contains cs hall "allcomp"
                have hp0 : (cs.map tag).contains "allprop" = true → props = [] := by
                  intro hap
                  have hno : "prop" ∉ cs.map tag := fun hm => hnoprop hap (hmem _ hm)
                  have hf : cs.filter (named · "prop") = [] :=
                    List.filter_eq_nil_iff.mpr (fun x hx => by simp [not_named_of_tags cs "prop" hno x hx])
                  rw [hf] at hps
                  simp at hps; exact hps
                have hc0 : (cs.map tag).contains "allcomp" = true → comps = [] := by
                  intro hac
                  have hno : "comp" ∉ cs.map tag := fun hm => hnocomp hac (hmem _ hm)
                  have := readComps_nil cs (not_named_of_tags cs "comp" hno)
                  rw [this] at hcs
                  simp at hcs; exact hcs
                simp only [decComp, checkNs, hq, if_true, bind, Except.bind, hna, e1, e2, eap, eac]
                cases hap : (cs.map tag).contains "allprop" <;> cases hac : (cs.map tag).contains "allcomp"
                · simp only [Bool.false_eq_true, false_and, if_false, pure, Except.pure]
                · have := hc0 hac
                  subst this
                  simp only [Bool.false_eq_true, false_and, if_false, List.isEmpty_nil, Bool.not_true, and_false, pure, Except.pure]
                · have := hp0 hap
                  subst this
                  simp only [Bool.false_eq_true, false_and, if_false, List.isEmpty_nil, Bool.not_true, and_false, pure, Except.pure]
                · have := hp0 hap
                  subst this
                  have := hc0 hac
                  subst this
                  simp only [Bool.false_eq_true, if_false, List.isEmpty_nil, Bool.not_true, and_false, pure, Except.pure]
        · simp [hseq] at h
theorem decComps_of_read : ∀ (l : List Node) (cs : List CompReq), AllCal l → readComps l = some cs → decComps l = .ok cs
  | [], cs, _, h => by
    simp only [readComps, Option.some.injEq] at h
    subst h; simp [decComps]
  | n :: rest, cs, hall, h => by
    have hrest : AllCal rest := fun x hx => hall x (List.mem_cons_of_mem _ hx)
    obtain ⟨l0, a0, c0, hn⟩ := hall n (by simp)
    have hnl : named n "comp" = n.localIs "comp" := by rw [hn, named_el, localIs_el]
    simp only [readComps] at h
    simp only [decComps]
    rw [← hnl]
    by_cases hcf : named n "comp" = true
    · simp only [hcf, if_true] at h ⊢
      cases h1 : readComp n with
      | none => simp [h1] at h
      | some c =>
        cases h2 : readComps rest with
        | none => simp [h1, h2] at h
        | some cs' =>
          simp only [h1, h2, bind, Option.bind, pure, Option.some.injEq] at h
          subst h
          simp only [decComp_of_read n c h1, decComps_of_read rest cs' hrest h2, bind, Except.bind, pure, Except.pure]
    · simp only [hcf, Bool.false_eq_true, if_false] at h ⊢
      exact decComps_of_read rest cs hrest h
end

-- calendar-data ---------------------------------------------------------------------------------------------------------------------------

theorem seq_opt2 (a b : String) (hab : a ≠ b) (ts : List String) (h : seqOK [.opt a, .opt b] ts = true) :
    ts = [] ∨ ts = [a] ∨ ts = [b] ∨ ts = [a, b] := by
  have hba : (b == a) = false := by simpa using fun h => hab h.symm
  match ts with
  | [] => exact Or.inl rfl
  | [t] =>
    simp only [seqOK] at h
    by_cases h1 : (t == a) = true
    · have : t = a := by simpa using h1
      subst this; exact Or.inr (Or.inl rfl)
    · simp only [h1, Bool.false_eq_true, if_false] at h
      by_cases h2 : (t == b) = true
      · have : t = b := by simpa using h2
        subst this; exact Or.inr (Or.inr (Or.inl rfl))
      · simp [h2] at h
  | [t, u] =>
    simp only [seqOK] at h
    by_cases h1 : (t == a) = true
    · have : t = a := by simpa using h1
      subst this
      simp only [h1, if_true] at h
      by_cases h2 : (u == b) = true
      · have : u = b := by simpa using h2
        subst this; exact Or.inr (Or.inr (Or.inr rfl))
      · simp [h2] at h
    · simp only [h1, Bool.false_eq_true, if_false] at h
      by_cases h2 : (t == b) = true
      · simp [h2] at h
      · simp [h2] at h
  | t :: u :: v :: rest =>
    simp only [seqOK] at h
    by_cases h1 : (t == a) = true
    · simp only [h1, if_true] at h
      by_cases h2 : (u == b) = true
      · simp [h2] at h
      · simp [h2] at h
    · simp only [h1, Bool.false_eq_true, if_false] at h
      by_cases h2 : (t == b) = true
      · simp [h2] at h
      · simp [h2] at h

theorem shape1 (cs : List Node) (a : String) (h : cs.map tag = [a]) (hs : CalSym a) : ∃ ats k, cs = [el a ats k] := by
  match cs, h with
  | [c], h =>
    simp only [List.map_cons, List.map_nil, List.cons.injEq, and_true] at h
    obtain ⟨at', k, rfl⟩ := tag_eq_cal c a h hs.1 hs.2.1 hs.2.2
    exact ⟨at', k, rfl⟩

theorem shape2 (cs : List Node) (a b : String) (h : cs.map tag = [a, b]) (ha : CalSym a) (hb : CalSym b) :
    ∃ ats k bt l, cs = [el a ats k, el b bt l] := by
  match cs, h with
  | [c, d], h =>
    simp only [List.map_cons, List.map_nil, List.cons.injEq, and_true] at h
    obtain ⟨at', k, rfl⟩ := tag_eq_cal c a h.1 ha.1 ha.2.1 ha.2.2
    obtain ⟨bt, l, rfl⟩ := tag_eq_cal d b h.2 hb.1 hb.2.1 hb.2.2
    exact ⟨at', k, bt, l, rfl⟩

theorem decRange_of_readExpand (n : Node) (r : Int × Int) (h : readExpand n = some r) : decRange n = .ok r := by
  unfold readExpand at h
  split at h
  · rename_i q attrs
    split at h
    · cases h
    · rename_i hc
      simp only [Bool.not_eq_true, Bool.not_eq_false', Bool.and_eq_true] at hc
      obtain ⟨a, c, he⟩ := named_cal _ _ hc.1 cs_ex.1 cs_ex.2.1 cs_ex.2.2
      have hq : q.space = nsCal := by simp [el] at he; rw [he.1]
      cases hs : readTime attrs "start" with
      | none => simp [hs] at h
      | some s =>
        cases hee : readTime attrs "end" with
        | none => simp [hs, hee] at h
        | some e =>
          simp only [hs, hee, bind, Option.bind] at h
          cases s with
          | none => simp at h
          | some sv =>
            cases e with
            | none => simp at h
            | some ev =>
              simp only [pure, Option.some.injEq] at h
              subst h
              have h1 := decTime_of_read attrs "start" (some sv) hs
              have h2 := decTime_of_read attrs "end" (some ev) hee
              unfold decRange
              simp only [checkNs, hq, if_true, bind, Except.bind, h1, h2, Option.getD_some, pure, Except.pure]
  · cases h

/-- the calendar-data element found inside DAV:prop: what the decoder makes of it is what the strict reader reads -/
theorem decDataReq_of_read (pc : List Node) (cd : Node) (d : DataReq)
    (hfind : pc.find? (·.isElem nsCal "calendar-data") = some cd) (h : readCalendarData cd = some d) :
    decDataReq pc = .ok d := by
  cases cd with
  | text s => simp [readCalendarData] at h
  | comment s => simp [readCalendarData] at h
  | elem q attrs cs =>
    unfold readCalendarData at h
    simp only at h
    split at h
    · cases h
    · split at h
      · cases h
      · rename_i hseq
        simp only [Bool.not_eq_true, Bool.not_eq_false'] at hseq
        unfold decDataReq
        rw [hfind]
        simp only
        rcases seq_opt2 "comp" "expand" (by decide) _ hseq with h0 | h1 | h2 | h3
        · have : cs = [] := by simpa using h0
          subst this
          simp [bind, Option.bind, pure] at h
          subst h
          simp [single, pick, decOptRange, bind, Except.bind, pure, Except.pure]
        · obtain ⟨a, k, rfl⟩ := shape1 cs "comp" h1 cs_co
          simp only [List.find?_cons, named_el, beq_self_eq_true, if_true] at h
          have hne : ("comp" == "expand") = false := by decide
          simp only [hne, Bool.false_eq_true, if_false, List.find?_nil] at h
          cases hc : readComp (el "comp" a k) with
          | none => simp [hc, bind, Option.bind] at h
          | some c =>
            simp [hc, bind, Option.bind, pure] at h
            subst h
            have := decComp_of_read _ c hc
            simp [single, pick, decOptRange, el, Node.localIs, bind, Except.bind, pure, Except.pure] at this ⊢
            try simp [el] at this
            simp [this]
        · obtain ⟨a, k, rfl⟩ := shape1 cs "expand" h2 cs_ex
          have hne : ("expand" == "comp") = false := by decide
          simp only [List.find?_cons, named_el, hne, Bool.false_eq_true, if_false, List.find?_nil, beq_self_eq_true, if_true] at h
          cases hx : readExpand (el "expand" a k) with
          | none => simp [hx, bind, Option.bind] at h
          | some r =>
            simp [hx, bind, Option.bind, pure] at h
            subst h
            have := decRange_of_readExpand _ r hx
            simp [single, pick, decOptRange, el, Node.localIs, bind, Except.bind, pure, Except.pure] at this ⊢
            try simp [el] at this
            simp [this]
        · obtain ⟨a, k, b, l, rfl⟩ := shape2 cs "comp" "expand" h3 cs_co cs_ex
          have hne : ("comp" == "expand") = false := by decide
          have hne2 : ("expand" == "comp") = false := by decide
          simp only [List.find?_cons, named_el, beq_self_eq_true, if_true, hne, hne2, Bool.false_eq_true, if_false] at h
          cases hc : readComp (el "comp" a k) with
          | none => simp [hc, bind, Option.bind] at h
          | some c =>
            cases hx : readExpand (el "expand" b l) with
            | none => simp [hc, hx, bind, Option.bind] at h
            | some r =>
              simp [hc, hx, bind, Option.bind, pure] at h
              subst h
              have t1 := decComp_of_read _ c hc
              have t2 := decRange_of_readExpand _ r hx
              simp [single, pick, decOptRange, el, Node.localIs, bind, Except.bind, pure, Except.pure] at t1 t2 ⊢
              try simp [el] at t1 t2
              simp [t1, t2]

-- the query -------------------------------------------------------------------------------------------------------------------------------

theorem named_eq_isElem (n : Node) (loc : String) (hs : CalSym loc) : named n loc = n.isElem nsCal loc := by
  cases hn : named n loc
  · cases hi : n.isElem nsCal loc
    · rfl
    · exfalso
      cases n with
      | elem q a c =>
        simp only [Node.isElem, Bool.and_eq_true, beq_iff_eq] at hi
        have : named (Node.elem q a c) loc = true := by simp [named, tag, hi.1, hi.2]
        rw [hn] at this; cases this
      | text s => simp [Node.isElem] at hi
      | comment s => simp [Node.isElem] at hi
  · obtain ⟨a, c, rfl⟩ := named_cal n loc hn hs.1 hs.2.1 hs.2.2
    simp [el, Node.isElem]

theorem find_head_filter (p : Node → Bool) (l : List Node) : l.find? p = (l.filter p).head? := by
  induction l with
  | nil => rfl
  | cons a as ih =>
    rw [List.find?_cons, List.filter_cons]
    cases ha : p a
    · simp only [Bool.false_eq_true, if_false]; exact ih
    · simp

theorem cs_cd : CalSym "calendar-data" := calSym_of _ (by decide) (by decide) (by decide)
theorem cs_fi : CalSym "filter" := calSym_of _ (by decide) (by decide) (by decide)
theorem cs_tz : CalSym "timezone" := calSym_of _ (by decide) (by decide) (by decide)

/-- what the decoder's DAV:prop lookup finds among the root's children -/
def DataPart (children : List Node) (d : DataReq) : Prop :=
  (children.filter (·.isElem nsDav "prop") = [] ∧ d = zeroReq) ∨
  (∃ q a pc, children.filter (·.isElem nsDav "prop") = [.elem q a pc] ∧ decDataReq pc = .ok d)

theorem propReq_of_read (a : Node) (d : DataReq) (h : readPropReq a = some d) :
    DataPart [a] d ∧ a.localIs "filter" = false := by
  unfold readPropReq at h
  split at h
  · rename_i q cs
    by_cases hq : q.space = nsDav
    · simp only [hq, ne_eq, not_true_eq_false, if_false] at h
      by_cases h1 : q.loc = "allprop" ∨ q.loc = "propname"
      · simp only [h1, if_true] at h
        by_cases he : cs.isEmpty = true
        · simp only [he, if_true, Option.some.injEq] at h
          subst h
          refine ⟨Or.inl ⟨?_, rfl⟩, ?_⟩
          · rcases h1 with h1 | h1 <;> simp [List.filter_cons, Node.isElem, hq, h1]
          · rcases h1 with h1 | h1 <;> simp [Node.localIs, h1]
        · simp [he] at h
      · simp only [h1, if_false] at h
        by_cases h2 : q.loc = "prop"
        · simp only [h2, if_true] at h
          split at h
          · cases h
          · have hyes : (Node.elem q [] cs).isElem nsDav "prop" = true := by simp [Node.isElem, hq, h2]
            refine ⟨Or.inr ⟨q, [], cs, by simp [List.filter_cons, hyes], ?_⟩, by simp [Node.localIs, h2]⟩
            have hf : (fun n : Node => n.isElem nsCal "calendar-data") = (named · "calendar-data") := by
              funext n; exact (named_eq_isElem n _ cs_cd).symm
            split at h
            · rename_i hnil
              simp only [Option.some.injEq] at h
              subst h
              unfold decDataReq
              rw [hf, find_head_filter, hnil]
              rfl
            · rename_i cd hone
              have hfind : cs.find? (·.isElem nsCal "calendar-data") = some cd := by
                rw [hf, find_head_filter, hone]; rfl
              exact decDataReq_of_read cs cd d hfind h
            · cases h
        · simp [h2] at h
    · simp [hq] at h
  · cases h

theorem readFilter_facts (f : Node) (cf : CompFilter) (h : readFilter f = some cf) :
    ∃ fq c, f = .elem fq [] [c] ∧ fq.space = nsCal ∧ fq.loc = "filter" ∧ readCompFilter c = some cf := by
  unfold readFilter at h
  split at h
  · rename_i fq c
    by_cases hn : named (Node.elem fq [] [c]) "filter" = true
    · simp only [hn, if_true] at h
      obtain ⟨a, k, he⟩ := named_cal _ _ hn cs_fi.1 cs_fi.2.1 cs_fi.2.2
      simp only [el, Node.elem.injEq] at he
      exact ⟨fq, c, rfl, by rw [he.1], by rw [he.1], h⟩
    · simp [hn] at h
  · cases h

theorem readCompFilter_local (c : Node) (cf : CompFilter) (h : readCompFilter c = some cf) : c.localIs "comp-filter" = true := by
  cases c with
  | text s => simp [readCompFilter] at h
  | comment s => simp [readCompFilter] at h
  | elem q a k =>
    simp only [readCompFilter] at h
    split at h
    · cases h
    · rename_i hc
      simp only [Bool.not_eq_true, Bool.not_eq_false', Bool.and_eq_true, beq_iff_eq] at hc
      simp [Node.localIs, hc.1.2]

theorem decodeQuery_parts (name : QName) (attrs : List (QName × String)) (children : List Node)
    (hroot : (name.space == nsCal && name.loc == "calendar-query") = true)
    (d : DataReq) (hd : DataPart children d)
    (f : Node) (hf : pick "filter" children = [f]) (cf : CompFilter) (hrf : readFilter f = some cf) :
    decodeQuery (.elem name attrs children) = .ok ⟨d, cf⟩ := by
  obtain ⟨fq, c, rfl, hsp, _, hc⟩ := readFilter_facts f cf hrf
  have hcl := readCompFilter_local c cf hc
  have hdc := decCompFilter_of_read c cf hc
  have hf' : children.filter (·.localIs "filter") = [Node.elem fq [] [c]] := hf
  unfold decodeQuery
  simp only [hroot, Bool.not_true, Bool.false_eq_true, if_false]
  rcases hd with ⟨hd1, rfl⟩ | ⟨q, a, pc, hd1, hd2⟩
  · simp only [single, pick, hf', List.filter_cons, hcl, if_true, List.filter_nil, bind, Except.bind, checkNs, hsp, hdc, decPropReq, hd1,
      pure, Except.pure]
  · simp only [single, pick, hf', List.filter_cons, hcl, if_true, List.filter_nil, bind, Except.bind, checkNs, hsp, hdc, decPropReq, hd1,
      hd2, pure, Except.pure]

theorem filter_facts (f : Node) (cf : CompFilter) (h : readFilter f = some cf) :
    f.localIs "filter" = true ∧ f.isElem nsDav "prop" = false := by
  obtain ⟨fq, c, rfl, hsp, hloc, _⟩ := readFilter_facts f cf h
  simp [Node.localIs, Node.isElem, hsp, hloc, nsCal, nsDav]

theorem tz_facts (t : Node) (h : named t "timezone" = true) : t.localIs "filter" = false ∧ t.isElem nsDav "prop" = false := by
  obtain ⟨a, k, rfl⟩ := named_cal t _ h cs_tz.1 cs_tz.2.1 cs_tz.2.2
  simp [el, Node.localIs, Node.isElem, nsCal, nsDav]

/-- wire → backend for EVERY document the strict RFC 4791 reader accepts: the backend receives the query it denotes -/
theorem decodeQuery_of_read (n : Node) (q : Query) (h : readQuery n = some q) : decodeQuery n = .ok q := by
  unfold readQuery at h
  split at h
  · rename_i name cs
    split at h
    · cases h
    · rename_i hc
      simp only [Bool.not_eq_true, Bool.not_eq_false'] at hc
      match cs, h with
      | [f], h =>
        cases hf : readFilter f with
        | none => simp [hf, bind, Option.bind] at h
        | some cf =>
          simp [hf, bind, Option.bind, pure] at h
          subst h
          have ff := filter_facts f cf hf
          exact decodeQuery_parts name [] [f] hc zeroReq (Or.inl ⟨by simp [List.filter_cons, ff.2], rfl⟩) f
            (by simp [pick, List.filter_cons, ff.1]) cf hf
      | [a, b], h =>
        simp only at h
        by_cases hp : isPropReq a = true
        · simp only [hp, if_true] at h
          cases hd : readPropReq a with
          | none => simp [hd, bind, Option.bind] at h
          | some d =>
            cases hf : readFilter b with
            | none => simp [hd, hf, bind, Option.bind] at h
            | some cf =>
              simp [hd, hf, bind, Option.bind, pure] at h
              subst h
              have ff := filter_facts b cf hf
              obtain ⟨hdp, hal⟩ := propReq_of_read a d hd
              have hdata : DataPart [a, b] d := by
                have e : [a, b].filter (·.isElem nsDav "prop") = [a].filter (·.isElem nsDav "prop") := by
                  simp [List.filter_cons, ff.2]
                unfold DataPart at hdp ⊢
                rw [e]; exact hdp
              exact decodeQuery_parts name [] [a, b] hc d hdata b (by simp [pick, List.filter_cons, ff.1, hal]) cf hf
        · simp only [hp, Bool.false_eq_true, if_false] at h
          by_cases htz : named b "timezone" = true
          · simp only [htz, if_true] at h
            cases hf : readFilter a with
            | none => simp [hf, bind, Option.bind] at h
            | some cf =>
              simp [hf, bind, Option.bind, pure] at h
              subst h
              have ff := filter_facts a cf hf
              have ft := tz_facts b htz
              exact decodeQuery_parts name [] [a, b] hc zeroReq (Or.inl ⟨by simp [List.filter_cons, ff.2, ft.2], rfl⟩) a
                (by simp [pick, List.filter_cons, ff.1, ft.1]) cf hf
          · simp [htz] at h
      | [a, b, c], h =>
        simp only at h
        by_cases htz : named c "timezone" = true
        · simp only [htz, if_true] at h
          cases hd : readPropReq a with
          | none => simp [hd, bind, Option.bind] at h
          | some d =>
            cases hf : readFilter b with
            | none => simp [hd, hf, bind, Option.bind] at h
            | some cf =>
              simp [hd, hf, bind, Option.bind, pure] at h
              subst h
              have ff := filter_facts b cf hf
              have ft := tz_facts c htz
              obtain ⟨hdp, hal⟩ := propReq_of_read a d hd
              have hdata : DataPart [a, b, c] d := by
                have e : [a, b, c].filter (·.isElem nsDav "prop") = [a].filter (·.isElem nsDav "prop") := by
                  simp [List.filter_cons, ff.2, ft.2]
                unfold DataPart at hdp ⊢
                rw [e]; exact hdp
              exact decodeQuery_parts name [] [a, b, c] hc d hdata b (by simp [pick, List.filter_cons, ff.1, hal, ft.1]) cf hf
        · simp [htz] at h
      | [], h => simp at h
      | _ :: _ :: _ :: _ :: _, h => simp at h
  · cases h

-- multiget -------------------------------------------------------------------------------------------------------------------------------

theorem readHref_facts (unescape : String → Option String) (n : Node) (p : String) (h : readHref unescape n = some p) :
    ∃ q cs, n = .elem q [] cs ∧ q.space = nsDav ∧ q.loc = "href" ∧ unescape (chardata cs) = some p := by
  unfold readHref at h
  split at h
  · rename_i q cs
    by_cases hc : q.space = nsDav ∧ q.loc = "href" ∧ cs.all isText = true
    · simp only [hc, and_self, if_true] at h
      exact ⟨q, cs, rfl, hc.1, hc.2.1, h⟩
    · simp only [hc, if_false] at h
      cases h
  · cases h

theorem hrefs_agree (unescape : String → Option String) (l : List Node) (ps : List String)
    (h : l.mapM (readHref unescape) = some ps) :
    l.filter (·.isElem nsDav "href") = l ∧ l.filter (·.isElem nsDav "prop") = [] ∧ l.mapM (decHref unescape) = .ok ps := by
  induction l generalizing ps with
  | nil => simp at h; subst h; exact ⟨rfl, rfl, rfl⟩
  | cons a as ih =>
    rw [List.mapM_cons] at h
    cases ha : readHref unescape a with
    | none => simp [ha] at h
    | some p =>
      cases has : as.mapM (readHref unescape) with
      | none => simp [ha, has] at h
      | some ps' =>
        simp only [ha, has, bind, Option.bind, pure, Option.some.injEq] at h
        subst h
        obtain ⟨q, cs, rfl, hsp, hloc, hu⟩ := readHref_facts unescape a p ha
        obtain ⟨i1, i2, i3⟩ := ih ps' has
        have hi : (Node.elem q [] cs).isElem nsDav "href" = true := by simp [Node.isElem, hsp, hloc]
        have hn : (Node.elem q [] cs).isElem nsDav "prop" = false := by simp [Node.isElem, hsp, hloc]
        refine ⟨by simp [List.filter_cons, hi, i1], by simp [List.filter_cons, hn, i2], ?_⟩
        rw [List.mapM_cons]
        simp only [decHref, hu, i3, bind, Except.bind, pure, Except.pure]

theorem decPropReq_of (children : List Node) (d : DataReq) (h : DataPart children d) : decPropReq children = .ok d := by
  unfold decPropReq
  rcases h with ⟨h1, rfl⟩ | ⟨q, a, pc, h1, h2⟩
  · rw [h1]
  · rw [h1]; exact h2

theorem isPropReq_facts (a : Node) (h : isPropReq a = true) : a.isElem nsDav "href" = false := by
  cases a with
  | text s => simp [isPropReq, tag] at h
  | comment s => simp [isPropReq, tag] at h
  | elem q at' k =>
    simp only [Node.isElem]
    by_cases hd : q.space = nsDav
    · by_cases hl : q.loc = "href"
      · exfalso
        have hne : ¬ (nsDav = nsCal) := by decide
        simp [isPropReq, tag, hd, hl, hne] at h
      · simp [hl]
    · simp [hd]

/-- every calendar-multiget document the strict reader accepts reaches the backend as the request it denotes -/
theorem decodeMultiGet_of_read (unescape : String → Option String) (n : Node) (m : MultiGet)
    (h : readMultiGet unescape n = some m) : decodeMultiGet unescape n = .ok m := by
  unfold readMultiGet at h
  split at h
  · rename_i name cs
    split at h
    · cases h
    · rename_i hc
      simp only [Bool.not_eq_true, Bool.not_eq_false'] at hc
      unfold decodeMultiGet
      simp only [hc, Bool.not_true, Bool.false_eq_true, if_false]
      match cs, h with
      | [], h => simp at h
      | a :: rest, h =>
        simp only at h
        by_cases hp : isPropReq a = true
        · simp only [hp, if_true] at h
          by_cases he : rest.isEmpty = true
          · simp [he] at h
          · simp only [he, Bool.false_eq_true, if_false] at h
            cases hd : readPropReq a with
            | none => simp [hd, bind, Option.bind] at h
            | some d =>
              cases hh : rest.mapM (readHref unescape) with
              | none => simp [hd, hh, bind, Option.bind] at h
              | some hs =>
                simp [hd, hh, bind, Option.bind, pure] at h
                subst h
                obtain ⟨hdp, _⟩ := propReq_of_read a d hd
                obtain ⟨i1, i2, i3⟩ := hrefs_agree unescape rest hs hh
                have hdata : DataPart (a :: rest) d := by
                  have e : (a :: rest).filter (·.isElem nsDav "prop") = [a].filter (·.isElem nsDav "prop") := by
                    have : a :: rest = [a] ++ rest := rfl
                    rw [this, List.filter_append, i2, List.append_nil]
                  unfold DataPart at hdp ⊢
                  rw [e]; exact hdp
                have hfil : (a :: rest).filter (·.isElem nsDav "href") = rest := by
                  simp [List.filter_cons, isPropReq_facts a hp, i1]
                simp only [hfil, i3, decPropReq_of _ d hdata, bind, Except.bind, pure, Except.pure]
        · simp only [hp, Bool.false_eq_true, if_false] at h
          cases hh : (a :: rest).mapM (readHref unescape) with
          | none => simp [hh, bind, Option.bind] at h
          | some hs =>
            simp [hh, bind, Option.bind, pure] at h
            subst h
            obtain ⟨i1, i2, i3⟩ := hrefs_agree unescape (a :: rest) hs hh
            have hdata : DataPart (a :: rest) zeroReq := Or.inl ⟨i2, rfl⟩
            simp only [i1, i3, decPropReq_of _ _ hdata, bind, Except.bind, pure, Except.pure]
  · cases h

end GoWebdav.Lemmas.CaldavAgree
