import GoWebdav.Impl.Upload
namespace GoWebdav.Lemmas.Upload
open GoWebdav.Impl.Upload

-- termination ---------------------------------------------------------------
def cRank : Caller → Nat | .writing n => n + 2 | .closed => 1 | .returned _ => 0
def tRank : Transport → Nat | .reading _ b => b + 3 | .stalled => 2 | _ => 0
def gRank : Gor → Nat | .inDo => 2 | .sending _ => 1 | .exited => 0
def measure (s : State) : Nat := cRank s.c + tRank s.t + gRank s.g + (if s.readerClosed then 0 else 1)

theorem step_decreases {s s' : State} (h : Step s s') : measure s' < measure s := by
  cases h <;> simp [measure, cRank, tRank, gRank] <;> omega

theorem terminates (s : State) : Acc (fun a b => Step b a) s := by
  generalize hm : measure s = m
  induction m using Nat.strongRecOn generalizing s with
  | _ m ih =>
    constructor
    intro s' hs
    exact ih (measure s') (by have := step_decreases hs; omega) s' rfl

-- invariant -----------------------------------------------------------------
def Inv (s : State) : Prop :=
  (∀ ok, s.g = .sending ok → s.t.finished = some ok ∧ s.done = none ∧ ∀ r, s.c ≠ .returned r) ∧
  (s.g = .inDo → s.done = none ∧ ∀ r, s.c ≠ .returned r) ∧
  (s.g = .exited → (∃ ok, s.t.finished = some ok ∧ (s.done = some ok ∧ (∀ r, s.c ≠ .returned r) ∨ s.done = none ∧ s.c = .returned ok))) ∧
  (s.readerClosed = true → s.t.finished.isSome) ∧
  (s.writerClosed = false → ∃ n, s.c = .writing n) ∧
  ((∃ n, s.c = .writing n) → s.writerClosed = false)

theorem inv_init (n : Nat) (p : Bool) (b : Nat) : Inv (init n p b) := by
  simp [Inv, init, Transport.finished]

theorem inv_step {s s' : State} (hi : Inv s) (h : Step s s') : Inv s' := by
  obtain ⟨h1, h2, h3, h4, h5, h6⟩ := hi
  cases h <;> simp_all [Inv, Transport.finished] <;> (try (cases ‹Gor› <;> simp_all)) <;> (try omega)

theorem inv_reachable {s0 s : State} (h0 : Inv s0) (h : Reachable s0 s) : Inv s := by
  induction h with
  | refl => exact h0
  | step _ hs ih => exact inv_step ih hs

/-- Close returns nil exactly when the server answered 2xx; and then the library goroutine is gone -/
theorem close_result {n b : Nat} {p : Bool} {s : State} (h : Reachable (init n p b) s) (ok : Bool) (hc : s.c = .returned ok) :
    s.g = .exited ∧ s.t.finished = some ok := by
  have ⟨h1, h2, h3, _, _, _⟩ := inv_reachable (inv_init n p b) h
  cases hg : s.g with
  | inDo => exact absurd hc ((h2 hg).2 ok)
  | sending k => exact absurd hc ((h1 k hg).2.2 ok)
  | exited =>
    obtain ⟨k, hk, h⟩ := h3 hg
    rcases h with ⟨_, hne⟩ | ⟨_, hr⟩
    · exact absurd hc (hne ok)
    · rw [hc] at hr; cases hr; exact ⟨rfl, hk⟩
/-- what a caller does once the transport has finished and the body is closed -/
theorem tail_moves (c : Caller) (t : Transport) (g : Gor) (w : Bool) (d : Option Bool) (ok : Bool)
    (hf : t.finished = some ok) (hi : Inv ⟨c, t, g, true, w, d⟩) (hnf : ¬ Final ⟨c, t, g, true, w, d⟩) :
    ∃ s', Step ⟨c, t, g, true, w, d⟩ s' := by
  obtain ⟨h1, h2, h3, h4, h5, h6⟩ := hi
  cases g with
  | inDo => exact ⟨_, Step.doReturns c t true w d ok hf⟩
  | sending k => have := (h1 k rfl).2.1; simp at this; subst this; exact ⟨_, Step.send c t true w k⟩
  | exited =>
    cases c with
    | writing m => cases m with
      | zero => exact ⟨_, Step.close _ _ _ _ _⟩
      | succ m => exact ⟨_, Step.writeErr m _ _ _ _⟩
    | closed =>
      obtain ⟨k, _, hh⟩ := h3 rfl
      rcases hh with ⟨hd, _⟩ | ⟨_, hr⟩
      · simp at hd; subst hd; exact ⟨_, Step.recv _ _ _ _ k⟩
      · simp at hr
    | returned k => exact absurd ⟨⟨k, rfl⟩, rfl, rfl⟩ hnf

/-- no reachable state is stuck before the upload is over — also against a PATIENT server, which only answers after EOF:
    this is where `Close` closing the pipe before waiting matters -/
theorem deadlock_free {n b : Nat} {p : Bool} {s : State} (h : Reachable (init n p b) s) (hnf : ¬ Final s) : ∃ s', Step s s' := by
  have hi := inv_reachable (inv_init n p b) h
  have ⟨h1, h2, h3, h4, h5, h6⟩ := hi
  obtain ⟨c, t, g, r, w, d⟩ := s
  cases t with
  | reading pp bb =>
    cases pp with
    | false => exact ⟨_, Step.drop c bb g r w d⟩
    | true =>
      -- patient server: progress must come from the caller
      have hr : r = false := by
        cases r with
        | false => rfl
        | true => have := h4 rfl; simp [Transport.finished] at this
      subst hr
      cases c with
      | writing m => cases m with
        | zero => exact ⟨_, Step.close _ _ _ _ _⟩
        | succ m => exact ⟨_, Step.consumeP m bb g w d⟩
      | closed =>
        have hw : w = true := by
          cases w with
          | true => rfl
          | false => obtain ⟨m, hm⟩ := h5 rfl; simp at hm
        subst hw; exact ⟨_, Step.answerEOF _ true bb g false d true⟩
      | returned k =>
        have hw : w = true := by
          cases w with
          | true => rfl
          | false => obtain ⟨m, hm⟩ := h5 rfl; simp at hm
        subst hw; exact ⟨_, Step.answerEOF _ true bb g false d true⟩
  | stalled => exact ⟨_, Step.cancel c g r w d⟩
  | answered ok =>
    cases r with
    | false => exact ⟨_, Step.closeBody c _ g w d ok rfl⟩
    | true => exact tail_moves c _ g w d ok rfl hi hnf
  | failed =>
    cases r with
    | false => exact ⟨_, Step.closeBody c _ g w d false rfl⟩
    | true => exact tail_moves c _ g w d false rfl hi hnf

end GoWebdav.Lemmas.Upload
