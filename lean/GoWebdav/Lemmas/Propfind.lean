import GoWebdav.Spec.Propfind
namespace GoWebdav.Lemmas.Propfind
open GoWebdav.Impl.Propfind GoWebdav.Spec.Propfind

theorem flat_encodeProp (ps : List PropStat) (code : Nat) (it : Item) :
    (flat (encodeProp ps code it)).Perm (flat ps ++ [(code, it)]) := by
  induction ps with
  | nil => simp [encodeProp, flat]
  | cons p rest ih =>
    unfold encodeProp
    by_cases h : p.code = code
    · simp only [h, if_true, flat, List.flatMap_cons, List.map_append, List.map_cons, List.map_nil, List.append_assoc]
      rw [← h]
      exact (List.perm_append_comm (l₁ := [(p.code, it)]) (l₂ := List.flatMap (fun p => p.props.map (fun it => (p.code, it))) rest)).append_left _
    · simp only [h, if_false, flat, List.flatMap_cons, List.append_assoc]
      exact ih.append_left _

theorem flat_fold (items : List (Nat × Item)) (ps : List PropStat) :
    (flat (items.foldl (fun ps x => encodeProp ps x.1 x.2) ps)).Perm (flat ps ++ items) := by
  induction items generalizing ps with
  | nil => simp
  | cons x xs ih =>
    simp only [List.foldl_cons]
    refine (ih _).trans ?_
    have := (flat_encodeProp ps x.1 x.2).append_right xs
    simpa using this

/-- each status opens at most one propstat -/
theorem codes_encodeProp (ps : List PropStat) (code : Nat) (it : Item) (h : (ps.map (·.code)).Nodup) :
    ((encodeProp ps code it).map (·.code)).Nodup ∧ ∀ c, c ∈ (encodeProp ps code it).map (·.code) → c = code ∨ c ∈ ps.map (·.code) := by
  induction ps with
  | nil => simp [encodeProp]
  | cons p rest ih =>
    simp only [List.map_cons, List.nodup_cons] at h
    unfold encodeProp
    by_cases hc : p.code = code
    · simp only [hc, if_true, List.map_cons, List.nodup_cons]
      rw [← hc]
      exact ⟨⟨h.1, h.2⟩, by intro c hcm; right; simpa using hcm⟩
    · simp only [hc, if_false, List.map_cons, List.nodup_cons]
      obtain ⟨ih1, ih2⟩ := ih h.2
      refine ⟨⟨?_, ih1⟩, ?_⟩
      · intro hm
        rcases ih2 _ hm with h1 | h1
        · exact hc h1
        · exact h.1 h1
      · intro c hcm
        rcases List.mem_cons.mp hcm with rfl | hcm
        · right; simp
        · rcases ih2 c hcm with h1 | h1
          · exact Or.inl h1
          · right; exact List.mem_cons_of_mem _ h1

theorem codes_fold (items : List (Nat × Item)) (ps : List PropStat) (h : (ps.map (·.code)).Nodup) :
    ((items.foldl (fun ps x => encodeProp ps x.1 x.2) ps).map (·.code)).Nodup := by
  induction items generalizing ps with
  | nil => simpa using h
  | cons x xs ih => exact ih _ (codes_encodeProp ps x.1 x.2 h).1

theorem lookup_withResourceType (a : Avail) (n : Name) : lookupAvail (withResourceType a) n = has a n := by
  unfold withResourceType has
  by_cases hs : (lookupAvail a resourceType).isSome = true
  · simp only [hs, if_true]
    cases hl : lookupAvail a n with
    | some v => rfl
    | none =>
      by_cases hn : n = resourceType
      · subst hn; simp [hl] at hs
      · simp [hn]
  · simp only [hs, Bool.false_eq_true, if_false]
    unfold lookupAvail at hs ⊢
    rw [List.find?_append]
    cases hf : a.find? (fun x => x.1 == n) with
    | some x => simp
    | none =>
      by_cases hn : n = resourceType
      · subst hn; simp [List.find?_cons]
      · have : (resourceType == n) = false := by simpa using Ne.symm hn
        simp [List.find?_cons, this, hn]

theorem itemFor_withResourceType (a : Avail) (n : Name) : itemFor (withResourceType a) n = answerFor a n := by
  unfold itemFor answerFor
  rw [lookup_withResourceType]
  cases has a n with
  | none => rfl
  | some v => cases v <;> rfl

theorem names_withResourceType (a : Avail) : (withResourceType a).map (·.1) = names a := by
  unfold withResourceType names
  by_cases hs : (lookupAvail a resourceType).isSome = true <;> simp [hs]

theorem firstOccurrences_spec (seen l : List Name) :
    (firstOccurrences seen l).Nodup ∧ ∀ x, x ∈ firstOccurrences seen l ↔ (x ∈ l ∧ x ∉ seen) := by
  induction l generalizing seen with
  | nil => simp [firstOccurrences]
  | cons n rest ih =>
    unfold firstOccurrences
    by_cases hn : n ∈ seen
    · simp only [hn, if_true]
      refine ⟨(ih seen).1, ?_⟩
      intro x
      rw [(ih seen).2 x]
      constructor
      · rintro ⟨h1, h2⟩; exact ⟨List.mem_cons_of_mem _ h1, h2⟩
      · rintro ⟨h1, h2⟩
        rcases List.mem_cons.mp h1 with rfl | h1
        · exact absurd hn h2
        · exact ⟨h1, h2⟩
    · simp only [hn, if_false, List.nodup_cons]
      obtain ⟨ih1, ih2⟩ := ih (n :: seen)
      refine ⟨⟨?_, ih1⟩, ?_⟩
      · intro hm; have := (ih2 n).mp hm; exact this.2 (by simp)
      · intro x
        simp only [List.mem_cons, ih2 x, not_or]
        constructor
        · rintro (rfl | ⟨h1, h2, h3⟩)
          · exact ⟨Or.inl rfl, hn⟩
          · exact ⟨Or.inr h1, h3⟩
        · rintro ⟨h1 | h1, h2⟩
          · exact Or.inl h1
          · by_cases hx : x = n
            · exact Or.inl hx
            · exact Or.inr ⟨h1, hx, h2⟩

theorem count_one_of_nodup {l : List Name} (h : l.Nodup) (n : Name) (hm : n ∈ l) : l.count n = 1 := by
  induction l with
  | nil => cases hm
  | cons a as ih =>
    simp only [List.nodup_cons] at h
    rcases List.mem_cons.mp hm with rfl | hm
    · have : as.count n = 0 := List.count_eq_zero.mpr h.1
      simp [this]
    · have hne : a ≠ n := fun he => h.1 (he ▸ hm)
      have : (a == n) = false := by simpa using hne
      simp [List.count_cons, this, ih h.2 hm]

/-- a list of answers built by mapping a duplicate-free name list accounts for exactly those names -/
theorem accounts_map (ns : List Name) (hnd : ns.Nodup) (answer : Name → Nat × Item) (hans : ∀ n, (answer n).2.1 = n) :
    Accounts ns answer (ns.map answer) := by
  have hnames : (ns.map answer).map (·.2.1) = ns := by
    rw [List.map_map]; conv => rhs; rw [← List.map_id ns]
    apply List.map_congr_left; intro n _; simp [hans n]
  refine ⟨?_, ?_⟩
  · intro n hn
    rw [hnames]
    exact ⟨count_one_of_nodup hnd n hn, List.mem_map.mpr ⟨n, hn, rfl⟩⟩
  · intro it hit
    obtain ⟨n, hn, rfl⟩ := List.mem_map.mp hit
    rw [hans n]; exact ⟨hn, rfl⟩

theorem accounts_perm {ns : List Name} {answer : Name → Nat × Item} {l₁ l₂ : List (Nat × Item)}
    (hp : l₁.Perm l₂) (h : Accounts ns answer l₂) : Accounts ns answer l₁ := by
  refine ⟨?_, ?_⟩
  · intro n hn
    obtain ⟨h1, h2⟩ := h.1 n hn
    exact ⟨by rw [(hp.map _).count_eq]; exact h1, hp.mem_iff.mpr h2⟩
  · intro it hit; exact h.2 it (hp.mem_iff.mp hit)

/-- accounting only depends on which names are asked for -/
theorem accounts_congr_names {ns ns' : List Name} {answer : Name → Nat × Item} {l : List (Nat × Item)}
    (hmem : ∀ n, n ∈ ns ↔ n ∈ ns') (h : Accounts ns' answer l) : Accounts ns answer l :=
  ⟨fun n hn => h.1 n ((hmem n).mp hn), fun it hit => ⟨(hmem _).mpr (h.2 it hit).1, (h.2 it hit).2⟩⟩

end GoWebdav.Lemmas.Propfind
