import GoWebdav.Lemmas.Webdav
namespace GoWebdav.Lemmas.WFPres
open GoWebdav GoWebdav.Std.Path GoWebdav.Std.Posix GoWebdav.Impl.Path GoWebdav.Impl.Webdav GoWebdav.Lemmas.Webdav

theorem ne_dropLast (p : FPath) (h : p ≠ []) : p ≠ p.dropLast := by
  intro he
  have h1 := congrArg List.length he
  rw [List.length_dropLast] at h1
  have h2 : p.length ≥ 1 := by
    cases p with
    | nil => exact absurd rfl h
    | cons a as => simp
  omega

/-- writing a file at a path that is absent or a file, below an existing collection -/
theorem wf_set_file (t : FS) (hwf : WF t) (p : FPath) (c : Bytes) (hpar : parentOK t p = true)
    (hnd : lookup t p ≠ some .dir) : WF (set t p (.file c)) := by
  intro q e hq hne
  rw [lookup_set] at hq ⊢
  by_cases hpq : p = q
  · subst hpq
    have : p ≠ p.dropLast := ne_dropLast p hne
    rw [if_neg this]
    cases p with
    | nil => exact absurd rfl hne
    | cons a as => simpa [parentOK] using hpar
  · rw [if_neg hpq] at hq
    have hparent := hwf q e hq hne
    by_cases hpd : p = q.dropLast
    · rw [← hpd] at hparent; exact absurd hparent hnd
    · rw [if_neg hpd]; exact hparent

/-- creating a collection at an absent path below an existing collection -/
theorem wf_set_dir (t : FS) (hwf : WF t) (p : FPath) (hpar : parentOK t p = true) : WF (set t p .dir) := by
  intro q e hq hne
  rw [lookup_set] at hq ⊢
  by_cases hpq : p = q
  · subst hpq
    have : p ≠ p.dropLast := ne_dropLast p hne
    rw [if_neg this]
    cases p with
    | nil => exact absurd rfl hne
    | cons a as => simpa [parentOK] using hpar
  · rw [if_neg hpq] at hq
    have hparent := hwf q e hq hne
    by_cases hpd : p = q.dropLast
    · rw [if_pos hpd]
    · rw [if_neg hpd]; exact hparent

theorem prefix_of_prefix_dropLast (p q : FPath) (h : p.isPrefixOf q.dropLast = true) : p.isPrefixOf q = true := by
  rw [List.isPrefixOf_iff_prefix] at h ⊢
  exact h.trans (List.dropLast_prefix q)

theorem wf_removeAll (t : FS) (hwf : WF t) (p : FPath) : WF (removeAll t p) := by
  intro q e hq hne
  rw [lookup_removeAll] at hq ⊢
  by_cases hpq : p.isPrefixOf q = true
  · simp [hpq] at hq
  · simp only [hpq, Bool.false_eq_true, if_false] at hq
    have hnot : p.isPrefixOf q.dropLast = false := by
      cases h : p.isPrefixOf q.dropLast with
      | false => rfl
      | true => exact absurd (prefix_of_prefix_dropLast p q h) hpq
    simp only [hnot, Bool.false_eq_true, if_false]
    exact hwf q e hq hne

theorem dropLast_append_ne_nil (a b : FPath) (h : b ≠ []) : (a ++ b).dropLast = a ++ b.dropLast := by
  induction a with
  | nil => simp
  | cons x xs ih =>
    cases hb : xs ++ b with
    | nil => simp at hb; exact absurd hb.2 h
    | cons y ys => simp [hb, ← ih]

/-- deep copy of an existing subtree to a free place below an existing collection, source and destination disjoint -/
theorem wf_graft (t : FS) (hwf : WF t) (src dst : FPath) (e : Entry) (hsrc : lookup t src = some e)
    (hfree : lookup t dst = none) (hpar : parentOK t dst = true) (hov : overlap src dst = false) : WF (graft t src dst) := by
  have hnosub : ∀ q, dst.isPrefixOf q = true → lookup t q = none := wf_absent_below t hwf dst hfree
  intro q e' hq hne
  unfold graft at hq ⊢
  rw [lookup_rebased_append] at hq ⊢
  by_cases hdq : dst.isPrefixOf q = true
  · simp only [hdq, if_true] at hq
    have hqeq : dst ++ q.drop dst.length = q := prefix_drop dst q hdq
    cases hs : lookup t (src ++ q.drop dst.length) with
    | none => simp [hs, hnosub q hdq] at hq
    | some se =>
      -- q is the image of the source entry src ++ r
      by_cases hr : q.drop dst.length = []
      · -- q = dst: its parent is the destination's parent, which is not below dst
        have hqd : q = dst := by rw [← hqeq, hr]; simp
        subst hqd
        have hnp : q.isPrefixOf q.dropLast = false := not_prefix_dropLast q hne
        simp only [hnp, Bool.false_eq_true, if_false]
        cases q with
        | nil => exact absurd rfl hne
        | cons a as => simpa [parentOK] using hpar
      · -- a proper descendant: its parent is the image of the source entry's parent
        have hdl : q.dropLast = dst ++ (q.drop dst.length).dropLast := by
          conv => lhs; rw [← hqeq]
          exact dropLast_append_ne_nil dst _ hr
        have hpre : dst.isPrefixOf q.dropLast = true := by
          rw [hdl, List.isPrefixOf_iff_prefix]; exact List.prefix_append _ _
        simp only [hpre, if_true]
        have hdrop : q.dropLast.drop dst.length = (q.drop dst.length).dropLast := by rw [hdl]; simp
        rw [hdrop]
        have hsp := hwf (src ++ q.drop dst.length) se hs (by simp [hr])
        rw [dropLast_append_ne_nil src _ hr] at hsp
        rw [hsp]
  · simp only [hdq, Bool.false_eq_true, if_false] at hq
    have hparent := hwf q e' hq hne
    have hnot : dst.isPrefixOf q.dropLast = false := by
      cases h : dst.isPrefixOf q.dropLast with
      | false => rfl
      | true => exact absurd (prefix_of_prefix_dropLast dst q h) hdq
    simp only [hnot, Bool.false_eq_true, if_false]
    exact hparent

theorem lookup_removeAll_other (t : FS) (d q : FPath) (h : d.isPrefixOf q = false) : lookup (removeAll t d) q = lookup t q := by
  rw [lookup_removeAll, h]; simp

theorem overlap_false (a b : FPath) (h : overlap a b = false) : a.isPrefixOf b = false ∧ b.isPrefixOf a = false := by
  unfold overlap at h
  simpa using h

/-- the tree stays well-formed under every request -/
theorem wf_step (t : FS) (hwf : WF t) (r : Request) : WF (step t r).1 := by
  rw [step_eq]
  repeat' split
  · exact hwf
  · exact hwf
  · -- PUT
    unfold put
    cases hlp : localPath [] r.path with
    | error e => exact hwf
    | ok p =>
      simp only
      by_cases hdir : lookup t p = some .dir
      · simp only [hdir, if_true]; exact hwf
      · simp only [hdir, if_false]
        cases checkCond (lookup t p).isSome r.ifMatch r.ifNoneMatch with
        | badRequest => exact hwf
        | preconditionFailed => exact hwf
        | proceed =>
          simp only
          by_cases hpar : parentOK t p = true
          · simp only [hpar, Bool.not_true, Bool.false_eq_true, if_false]
            cases readBody r with
            | error u => exact wf_removeAll t hwf p
            | ok c => exact wf_set_file t hwf p c hpar hdir
          · simp only [hpar, Bool.not_false, if_true]; exact hwf
  · -- DELETE
    unfold delete
    repeat' split
    all_goals first | exact hwf | exact wf_removeAll t hwf _
  · exact hwf
  · exact hwf
  · -- MKCOL
    unfold mkcol
    by_cases hct : r.ctypeSet = true
    · simp only [hct, if_true]; exact hwf
    · simp only [hct, Bool.false_eq_true, if_false]
      cases hlp : localPath [] r.path with
      | error e => exact hwf
      | ok p =>
        simp only
        by_cases hex : (lookup t p).isSome = true
        · simp only [hex, if_true]; exact hwf
        · simp only [hex, Bool.false_eq_true, if_false]
          by_cases hpar : parentOK t p = true
          · simp only [hpar, Bool.not_true, Bool.false_eq_true, if_false]; exact wf_set_dir t hwf p hpar
          · simp only [hpar, Bool.not_false, if_true]; exact hwf
  · -- COPY / MOVE
    have hcm : ∀ m s d rec ow, WF (copyMove t m s d rec ow).1 := by
      intro m s d rec ow
      unfold copyMove
      cases hs : localPath [] s with
      | error e => exact hwf
      | ok src =>
        simp only
        cases hd : localPath [] d with
        | error e => exact hwf
        | ok dst =>
          simp only
          cases hl : lookup t src with
          | none => exact hwf
          | some se =>
            simp only
            by_cases hov : overlap src dst = true
            · simp only [hov, if_true]; exact hwf
            · simp only [Bool.not_eq_true] at hov
              simp only [hov, Bool.false_eq_true, if_false]
              by_cases hpre : ((lookup t dst).isSome && !ow) = true
              · simp only [hpre, if_true]; exact hwf
              · simp only [hpre, Bool.false_eq_true, if_false]
                obtain ⟨hsd, hds⟩ := overlap_false src dst hov
                -- t1: the tree with the destination made free
                have key : ∀ t1 : FS, WF t1 → lookup t1 src = some se → lookup t1 dst = none →
                    WF (if (!parentOK t1 dst) = true then (t1, err 409 (stripPaths (if m = true then OsErr.linkErr "rename" src dst "no such file or directory" else OsErr.pathErr "mkdir" dst "no such file or directory")))
                        else ((if m = true then removeAll (graft t1 src dst) src else if (rec || !isDir se) = true then graft t1 src dst else set t1 dst .dir),
                              ({ status := if (lookup t dst).isSome = true then 204 else 201 } : Response))).1 := by
                  intro t1 hwf1 hs1 hd1
                  by_cases hpar : parentOK t1 dst = true
                  · simp only [hpar, Bool.not_true, Bool.false_eq_true, if_false]
                    have hg := wf_graft t1 hwf1 src dst se hs1 hd1 hpar hov
                    cases m with
                    | true => simp only [if_true]; exact wf_removeAll _ hg src
                    | false =>
                      simp only [Bool.false_eq_true, if_false]
                      split
                      · exact hg
                      · exact wf_set_dir t1 hwf1 dst hpar
                  · simp only [hpar, Bool.not_false, if_true]; exact hwf1
                cases hex : (lookup t dst).isSome with
                | false =>
                  simp only [Bool.false_eq_true, if_false]
                  have hd0 : lookup t dst = none := by cases h : lookup t dst <;> simp [h] at hex ⊢
                  have := key t hwf hl hd0
                  simpa [hex] using this
                | true =>
                  simp only [if_true]
                  have h1 : lookup (removeAll t dst) src = some se := by rw [lookup_removeAll_other t dst src hds]; exact hl
                  have h2 : lookup (removeAll t dst) dst = none := by rw [lookup_removeAll]; simp
                  have := key (removeAll t dst) (wf_removeAll t hwf dst) h1 h2
                  simpa [hex] using this
    unfold copyMoveHandler
    repeat' split
    all_goals first | exact hwf | exact hcm _ _ _ _ _
  · exact hwf

end GoWebdav.Lemmas.WFPres
