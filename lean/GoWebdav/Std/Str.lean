import GoWebdav.Std.Basic
/-! String predicates of Go's `strings` package, on character lists (`String.toList`). For valid UTF-8
    text byte-wise and rune-wise substring/prefix/suffix tests coincide (UTF-8 is self-synchronising). -/
namespace GoWebdav.Std.Str

/-- `strings.Contains(l, p)` -/
def containsL {α} [BEq α] : List α → List α → Bool
  | [], p => p.isEmpty
  | c :: cs, p => p.isPrefixOf (c :: cs) || containsL cs p

def contains (s p : String) : Bool := containsL s.toList p.toList
def hasPrefix (s p : String) : Bool := p.toList.isPrefixOf s.toList
def hasSuffix (s p : String) : Bool := p.toList.isSuffixOf s.toList

theorem containsL_iff {α} [BEq α] [LawfulBEq α] (l p : List α) : containsL l p = true ↔ p <:+: l := by
  induction l with
  | nil =>
    cases p <;> simp [containsL]
  | cons c cs ih =>
    simp only [containsL, Bool.or_eq_true, ih, List.isPrefixOf_iff_prefix]
    constructor
    · rintro (h | h)
      · exact h.isInfix
      · exact h.trans (List.suffix_cons c cs).isInfix
    · intro h
      rcases List.infix_cons_iff.mp h with h | h
      · exact Or.inl h
      · exact Or.inr h

end GoWebdav.Std.Str

namespace GoWebdav.Std.Str
/-- `strings.ToUpper` restricted to ASCII letters (names of iCalendar properties and parameters) -/
def upperChar (c : Char) : Char := if 97 ≤ c.toNat ∧ c.toNat ≤ 122 then Char.ofNat (c.toNat - 32) else c
def toUpper (s : String) : String := String.ofList (s.toList.map upperChar)
end GoWebdav.Std.Str
