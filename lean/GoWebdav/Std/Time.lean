import GoWebdav.Std.Decimal
/-!
Model of the fragments of Go's `time` package the library uses: UTC calendar arithmetic (proleptic Gregorian),
`http.TimeFormat` (`Mon, 02 Jan 2006 15:04:05 GMT`) and the iCalendar "date with UTC time" layout
(`20060102T150405Z`).  Instants are `Int` seconds since the Unix epoch.

Days are counted from 0000-03-01 so that the leap day closes every 4/100/400-year cycle; the day → (year, day of
year) split is Go's own 400/100/4/1 cascade (`absDate`).
-/
namespace GoWebdav.Std.Time
open GoWebdav.Std.Decimal

def daysOf (y yd : Nat) : Nat := 365 * y + y / 4 - y / 100 + y / 400 + yd

/-- Go's absDate cascade (days since the start of a 400-year cycle origin → completed years, day of year) -/
def split (d : Nat) : Nat × Nat :=
  let q := d / 146097
  let r := d % 146097
  let h := r / 36524
  let n100 := h - h / 4
  let r2 := r - 36524 * n100
  let c := r2 / 1461
  let r3 := r2 - 1461 * c
  let k := r3 / 365
  let n1 := k - k / 4
  let yd := r3 - 365 * n1
  (400 * q + 100 * n100 + 4 * c + n1, yd)

-- month/day within a March-based year
def mpOf (doy : Nat) : Nat := (5 * doy + 2) / 153
def domOf (doy : Nat) : Nat := doy - (153 * mpOf doy + 2) / 5
def doyFrom (mp dom : Nat) : Nat := (153 * mp + 2) / 5 + dom

/-- 1970-01-01 counted from 0000-03-01 -/
def epochShift : Int := 719468

structure Civil where
  year : Nat
  month : Nat    -- 1..12
  day : Nat      -- 1..31
  hour : Nat
  minute : Nat
  second : Nat
  weekday : Nat  -- 0 = Sunday
deriving DecidableEq, Repr

/-- `Time.UTC().Date()/Clock()/Weekday()` -/
def civil (t : Int) : Civil :=
  let days := t / 86400
  let secs := (t % 86400).toNat
  let zz := (days + epochShift).toNat
  let (my, doy) := split zz
  let mp := mpOf doy
  let month := if mp < 10 then mp + 3 else mp - 9
  { year := if month ≤ 2 then my + 1 else my, month := month, day := domOf doy + 1,
    hour := secs / 3600, minute := secs % 3600 / 60, second := secs % 60,
    weekday := ((days + 4) % 7).toNat }

def daysInMonth (y m : Nat) : Nat :=
  if m = 2 then (if y % 4 = 0 ∧ (y % 100 ≠ 0 ∨ y % 400 = 0) then 29 else 28)
  else if m = 4 ∨ m = 6 ∨ m = 9 ∨ m = 11 then 30 else 31

/-- `time.Date(y, m, d, h, mi, s, 0, UTC).Unix()` for a validated date -/
def unixOf (y m d h mi s : Nat) : Int :=
  let my := if m ≤ 2 then y - 1 else y
  let mp := if m ≤ 2 then m + 9 else m - 3
  let zz := daysOf my (doyFrom mp (d - 1))
  ((zz : Int) - epochShift) * 86400 + (h * 3600 + mi * 60 + s : Nat)

def dayName3 (w : Nat) : Char × Char × Char :=
  match w with
  | 0 => ('S', 'u', 'n') | 1 => ('M', 'o', 'n') | 2 => ('T', 'u', 'e') | 3 => ('W', 'e', 'd')
  | 4 => ('T', 'h', 'u') | 5 => ('F', 'r', 'i') | _ => ('S', 'a', 't')

def isDay3 (a b c : Char) : Bool :=
  (a, b, c) = ('S', 'u', 'n') || (a, b, c) = ('M', 'o', 'n') || (a, b, c) = ('T', 'u', 'e') || (a, b, c) = ('W', 'e', 'd')
    || (a, b, c) = ('T', 'h', 'u') || (a, b, c) = ('F', 'r', 'i') || (a, b, c) = ('S', 'a', 't')

def monthName3 (m : Nat) : Char × Char × Char :=
  match m with
  | 1 => ('J', 'a', 'n') | 2 => ('F', 'e', 'b') | 3 => ('M', 'a', 'r') | 4 => ('A', 'p', 'r')
  | 5 => ('M', 'a', 'y') | 6 => ('J', 'u', 'n') | 7 => ('J', 'u', 'l') | 8 => ('A', 'u', 'g')
  | 9 => ('S', 'e', 'p') | 10 => ('O', 'c', 't') | 11 => ('N', 'o', 'v') | _ => ('D', 'e', 'c')

def monthOf3 (a b c : Char) : Option Nat :=
  if (a, b, c) = ('J', 'a', 'n') then some 1 else if (a, b, c) = ('F', 'e', 'b') then some 2
  else if (a, b, c) = ('M', 'a', 'r') then some 3 else if (a, b, c) = ('A', 'p', 'r') then some 4
  else if (a, b, c) = ('M', 'a', 'y') then some 5 else if (a, b, c) = ('J', 'u', 'n') then some 6
  else if (a, b, c) = ('J', 'u', 'l') then some 7 else if (a, b, c) = ('A', 'u', 'g') then some 8
  else if (a, b, c) = ('S', 'e', 'p') then some 9 else if (a, b, c) = ('O', 'c', 't') then some 10
  else if (a, b, c) = ('N', 'o', 'v') then some 11 else if (a, b, c) = ('D', 'e', 'c') then some 12
  else none

def pad2 (n : Nat) : List Char := [digitChar (n / 10 % 10), digitChar (n % 10)]
def pad4 (n : Nat) : List Char := [digitChar (n / 1000 % 10), digitChar (n / 100 % 10), digitChar (n / 10 % 10), digitChar (n % 10)]

def num2 (a b : Char) : Option Nat := do let x ← digitVal a; let y ← digitVal b; pure (10 * x + y)
def num4 (a b c d : Char) : Option Nat := do
  let w ← digitVal a; let x ← digitVal b; let y ← digitVal c; let z ← digitVal d; pure (1000 * w + 100 * x + 10 * y + z)

/-- `t.UTC().Format(http.TimeFormat)` (years 0…9999) -/
def fmtHttp (t : Int) : List Char :=
  let c := civil t
  let w := dayName3 c.weekday
  let m := monthName3 c.month
  [w.1, w.2.1, w.2.2, ',', ' '] ++ pad2 c.day ++ [' ', m.1, m.2.1, m.2.2, ' '] ++ pad4 c.year ++ [' ']
    ++ pad2 c.hour ++ [':'] ++ pad2 c.minute ++ [':'] ++ pad2 c.second ++ [' ', 'G', 'M', 'T']

/-- `t.UTC().Format("20060102T150405Z")` -/
def fmtCal (t : Int) : List Char :=
  let c := civil t
  pad4 c.year ++ pad2 c.month ++ pad2 c.day ++ ['T'] ++ pad2 c.hour ++ pad2 c.minute ++ pad2 c.second ++ ['Z']

/-- validation done by `time.Parse` on the numeric fields -/
def mkTime (y m d h mi s : Nat) : Option Int :=
  if 1 ≤ m ∧ m ≤ 12 ∧ 1 ≤ d ∧ d ≤ daysInMonth y m ∧ h < 24 ∧ mi < 60 ∧ s < 60 then some (unixOf y m d h mi s) else none

/-- strict reading of `Mon, 02 Jan 2006 15:04:05 GMT` (the weekday name must be a weekday name; Go does not
    check it against the date either) -/
def parseHttp (s : List Char) : Option Int :=
  match s with
  | [w1, w2, w3, ',', ' ', d1, d2, ' ', m1, m2, m3, ' ', y1, y2, y3, y4, ' ', h1, h2, ':', i1, i2, ':', s1, s2, ' ', 'G', 'M', 'T'] =>
    if isDay3 w1 w2 w3 then do
      let d ← num2 d1 d2
      let m ← monthOf3 m1 m2 m3
      let y ← num4 y1 y2 y3 y4
      let h ← num2 h1 h2
      let mi ← num2 i1 i2
      let sec ← num2 s1 s2
      mkTime y m d h mi sec
    else none
  | _ => none

/-- `time.Parse("20060102T150405Z", s)` -/
def parseCal (s : List Char) : Option Int :=
  match s with
  | [y1, y2, y3, y4, m1, m2, d1, d2, 'T', h1, h2, i1, i2, s1, s2, 'Z'] => do
    let y ← num4 y1 y2 y3 y4
    let m ← num2 m1 m2
    let d ← num2 d1 d2
    let h ← num2 h1 h2
    let mi ← num2 i1 i2
    let sec ← num2 s1 s2
    mkTime y m d h mi sec
  | _ => none

/-- instants whose UTC year is 0000-03-01 … 9999-12-31 -/
def InRange (t : Int) : Prop := -62162035200 ≤ t ∧ t ≤ 253402300799

end GoWebdav.Std.Time
