import GoWebdav.Std.Basic
/-!
`encoding/xml` at the level of namespace-expanded element trees, and the struct-tag semantics the library relies on:
a field is filled from the children/attributes whose LOCAL name matches (a field tag without namespace matches any
namespace; a nested struct's `XMLName` then checks the namespace), slice fields collect every match in document order,
scalar fields keep the last match, `,chardata` concatenates the element's own character data, unknown children,
comments and inter-element text are skipped.  Byte-level lexing (prefixes, entities, CDATA, whitespace) is below this
model; the correspondence feeds lexical variants of one tree to the real decoder.
-/
namespace GoWebdav.Std.Xml

structure QName where
  space : String
  loc : String
deriving DecidableEq, Repr

inductive Node where
  | elem (name : QName) (attrs : List (QName × String)) (children : List Node)
  | text (s : String)
  | comment (s : String)
deriving Repr

/-- an attribute field without namespace in its tag: first attribute with that local name, in any namespace -/
def attr (attrs : List (QName × String)) (loc : String) : Option String :=
  (attrs.find? (fun a => a.1.loc == loc)).map (·.2)

/-- `,chardata`: the element's own character data, concatenated -/
def chardata : List Node → String
  | [] => ""
  | .text s :: rest => s ++ chardata rest
  | _ :: rest => chardata rest

/-- text content as the encoder writes it: nothing for the empty string -/
def textNodes (s : String) : List Node := if s = "" then [] else [.text s]

def isNoise : Node → Bool
  | .text _ => true
  | .comment _ => true
  | _ => false

def Node.isElem (n : Node) (space loc : String) : Bool :=
  match n with
  | .elem q _ _ => q.space == space && q.loc == loc
  | _ => false

def Node.localIs (n : Node) (loc : String) : Bool :=
  match n with
  | .elem q _ _ => q.loc == loc
  | _ => false

def Node.space? : Node → Option String
  | .elem q _ _ => some q.space
  | _ => none

theorem chardata_textNodes (s : String) : chardata (textNodes s) = s := by
  unfold textNodes; by_cases h : s = "" <;> simp [h, chardata]

end GoWebdav.Std.Xml
