import GoWebdav.Std.Basic
/-!
Model of the `net/url` fragment behind `internal.Href`: `(*url.URL).String()` for a URL that only has a `Path`
(`escape(path, encodePath)`), `unescape`, and `url.Parse` for path-only references.
Byte strings are `List UInt8`.
-/
namespace GoWebdav.Std.Url
open GoWebdav

def isAlnum (n : Nat) : Bool := (48 ≤ n && n ≤ 57) || (65 ≤ n && n ≤ 90) || (97 ≤ n && n ≤ 122)
/-- `-_.~` -/
def isMark (n : Nat) : Bool := n = 45 || n = 95 || n = 46 || n = 126
/-- `$&+,/:;=@` stay literal in a path (`?` does not) -/
def isPathLiteral (n : Nat) : Bool := n = 36 || n = 38 || n = 43 || n = 44 || n = 47 || n = 58 || n = 59 || n = 61 || n = 64

/-- `shouldEscape(c, encodePath)` -/
def shouldEscape (c : UInt8) : Bool := !(isAlnum c.toNat || isMark c.toNat || isPathLiteral c.toNat)

def hexU (k : Nat) : UInt8 := if k < 10 then UInt8.ofNat (48 + k) else UInt8.ofNat (55 + k)   -- upper-case, as Go's "0123456789ABCDEF"

def hexValB (c : UInt8) : Option Nat :=
  let n := c.toNat
  if 48 ≤ n ∧ n ≤ 57 then some (n - 48)
  else if 97 ≤ n ∧ n ≤ 102 then some (n - 87)
  else if 65 ≤ n ∧ n ≤ 70 then some (n - 55)
  else none

def escapeByte (c : UInt8) : List UInt8 :=
  if shouldEscape c then [37, hexU (c.toNat / 16), hexU (c.toNat % 16)] else [c]

/-- `(&url.URL{Path: p}).EscapedPath()` -/
def escapePath : Bytes → Bytes
  | [] => []
  | c :: cs => escapeByte c ++ escapePath cs

/-- `unescape(s, encodePath)`: every `%` must be followed by two hex digits -/
def unescape : Bytes → Option Bytes
  | [] => some []
  | 37 :: a :: b :: rest =>
    match hexValB a, hexValB b with
    | some x, some y => (unescape rest).map (UInt8.ofNat (16 * x + y) :: ·)
    | _, _ => none
  | 37 :: _ => none
  | c :: rest => (unescape rest).map (c :: ·)

def isCTL (c : UInt8) : Bool := c.toNat < 32 || c.toNat = 127

inductive ParseResult where
  | path (p : Bytes)      -- parsed; `URL.Path`
  | err                   -- `url.Parse` returns an error
  | other                 -- has a scheme / authority / opaque part: outside this model
deriving DecidableEq, Repr

def cutAt (sep : UInt8) : Bytes → Bytes × Option Bytes
  | [] => ([], none)
  | c :: cs => if c = sep then ([], some cs) else
    let r := cutAt sep cs
    (c :: r.1, r.2)

def firstSegmentHasColon (s : Bytes) : Bool := (cutAt 47 s).1.contains 58

def isLetter (n : Nat) : Bool := (65 ≤ n && n ≤ 90) || (97 ≤ n && n ≤ 122)

/-- does `getScheme` find a scheme (`letter (letter|digit|+|-|.)* :`)? `none` = "missing protocol scheme" error -/
def schemeScan : Bytes → Nat → Option Bool
  | [], _ => some false
  | c :: cs, i =>
    let n := c.toNat
    if isLetter n then schemeScan cs (i + 1)
    else if (48 ≤ n && n ≤ 57) || n = 43 || n = 45 || n = 46 then (if i = 0 then some false else schemeScan cs (i + 1))
    else if n = 58 then (if i = 0 then none else some true)
    else some false

/-- `url.Parse(s)` seen through `.Path`, for references without scheme and authority -/
def parseRef (s : Bytes) : ParseResult :=
  let u := (cutAt 35 s).1                       -- cut the fragment
  let fragOK := match (cutAt 35 s).2 with       -- `setFragment` refuses malformed percent escapes
    | some f => (unescape f).isSome
    | none => true
  if u.any isCTL then .err
  else if !fragOK then .err
  else if u = [42] then .path [42]              -- "*"
  else match schemeScan u 0 with
    | none => .err
    | some true => .other
    | some false =>
      let rest := (cutAt 63 u).1                -- cut the query
      match rest with
      | 47 :: 47 :: 47 :: _ => (match unescape rest with | some p => .path p | none => .err)  -- "///…" is a path
      | 47 :: 47 :: _ => .other                 -- "//authority…"
      | 47 :: _ => (match unescape rest with | some p => .path p | none => .err)
      | _ =>
        if firstSegmentHasColon rest then .err  -- "first path segment in URL cannot contain colon"
        else match unescape rest with | some p => .path p | none => .err

end GoWebdav.Std.Url
