import GoWebdav.Std.Basic
/-!
Go's `path.Clean` / `path.IsAbs` / `path.Join`-style functions on byte strings, defined on the segment view
(`strings.Split(s, "/")`): empty and `.` segments are dropped, `..` pops (is dropped at the root of a rooted path,
kept at the front of a relative one).  Agreement with the real byte-level `path.Clean` is part of every C03/C12
run (op `clean`, exhaustive over short strings).
-/
namespace GoWebdav.Std.Path
open GoWebdav

abbrev Seg := List UInt8
def slash : UInt8 := 47
def dotB : UInt8 := 46
def dot : Seg := [46]
def dotdot : Seg := [46, 46]

/-- `strings.Split(s, "/")`: never empty -/
def splitSlash : Bytes → List Seg
  | [] => [[]]
  | c :: cs =>
    if c = slash then [] :: splitSlash cs
    else match splitSlash cs with
      | s :: ss => (c :: s) :: ss
      | [] => [[c]]

/-- `path.Clean` on the segment view; `st` is the output stack, top first -/
def cleanSegs (rooted : Bool) : List Seg → List Seg → List Seg
  | st, [] => st.reverse
  | st, s :: rest =>
    if s = [] ∨ s = dot then cleanSegs rooted st rest
    else if s = dotdot then
      match st with
      | top :: st' => if top = dotdot then cleanSegs rooted (dotdot :: st) rest else cleanSegs rooted st' rest
      | [] => if rooted then cleanSegs rooted [] rest else cleanSegs rooted [dotdot] rest
    else cleanSegs rooted (s :: st) rest

/-- `"/" + a + "/" + b …` ("" for no segments) -/
def renderSegs : List Seg → Bytes
  | [] => []
  | s :: ss => slash :: (s ++ renderSegs ss)

def joinSegs : List Seg → Bytes
  | [] => []
  | [s] => s
  | s :: ss => s ++ slash :: joinSegs ss

def isAbs (s : Bytes) : Bool := s.head? = some slash

/-- `path.Clean(s)` -/
def clean (s : Bytes) : Bytes :=
  if s = [] then dot
  else if isAbs s then
    match cleanSegs true [] (splitSlash s) with
    | [] => [slash]
    | segs => renderSegs segs
  else
    match cleanSegs false [] (splitSlash s) with
    | [] => dot
    | segs => joinSegs segs

/-- the segments of a cleaned rooted path -/
def rootedSegs (s : Bytes) : List Seg := cleanSegs true [] (splitSlash s)

def Normal (s : Seg) : Prop := s ≠ [] ∧ s ≠ dot ∧ s ≠ dotdot ∧ slash ∉ s
instance (s : Seg) : Decidable (Normal s) := by unfold Normal; infer_instance

/-- `strings.TrimPrefix` -/
def trimPrefix (s p : Bytes) : Bytes := if p.isPrefixOf s then s.drop p.length else s

end GoWebdav.Std.Path
