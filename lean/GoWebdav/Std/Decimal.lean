import GoWebdav.Std.Basic
/-!
Decimal text of integers as Go's `fmt` (`%v`/`%d`), `strconv.FormatInt` and `strconv.Atoi` see it.
-/
namespace GoWebdav.Std.Decimal

def digitChar (d : Nat) : Char := Char.ofNat (48 + d)

def digitVal (c : Char) : Option Nat := if 48 ≤ c.toNat ∧ c.toNat ≤ 57 then some (c.toNat - 48) else none

theorem digitVal_digitChar (d : Nat) (h : d < 10) : digitVal (digitChar d) = some d := by
  have : d = 0 ∨ d = 1 ∨ d = 2 ∨ d = 3 ∨ d = 4 ∨ d = 5 ∨ d = 6 ∨ d = 7 ∨ d = 8 ∨ d = 9 := by omega
  rcases this with rfl|rfl|rfl|rfl|rfl|rfl|rfl|rfl|rfl|rfl <;> decide

/-- decimal digits, most significant first (`strconv.Itoa` for naturals) -/
def natDigits (n : Nat) : List Char :=
  if h : n < 10 then [digitChar n] else natDigits (n / 10) ++ [digitChar (n % 10)]
termination_by n
decreasing_by omega

/-- value of a digit string read left to right; `none` if a non-digit occurs -/
def readDigits : Nat → List Char → Option Nat
  | acc, [] => some acc
  | acc, c :: cs => match digitVal c with
    | some d => readDigits (acc * 10 + d) cs
    | none => none

theorem readDigits_append_digit (acc : Nat) (l : List Char) (d : Nat) (hd : d < 10) (v : Nat)
    (h : readDigits acc l = some v) : readDigits acc (l ++ [digitChar d]) = some (v * 10 + d) := by
  induction l generalizing acc with
  | nil => simp [readDigits] at h; subst h; simp [readDigits, digitVal_digitChar d hd]
  | cons c cs ih =>
    simp only [readDigits, List.cons_append] at h ⊢
    cases hc : digitVal c with
    | none => simp [hc] at h
    | some x => simp only [hc] at h ⊢; exact ih _ h

theorem readDigits_natDigits (n : Nat) : readDigits 0 (natDigits n) = some n := by
  induction n using Nat.strongRecOn with
  | _ n ih =>
    unfold natDigits
    by_cases h : n < 10
    · simp [h, readDigits, digitVal_digitChar n h]
    · simp only [h, dite_false]
      have := readDigits_append_digit 0 (natDigits (n / 10)) (n % 10) (by omega) (n / 10) (ih (n / 10) (by omega))
      rw [this]; congr 1; omega

theorem natDigits_ne_nil (n : Nat) : natDigits n ≠ [] := by
  unfold natDigits; split <;> simp

theorem natDigits_all_digits (n : Nat) : ∀ c ∈ natDigits n, (digitVal c).isSome := by
  induction n using Nat.strongRecOn with
  | _ n ih =>
    unfold natDigits
    by_cases h : n < 10
    · simp [h, digitVal_digitChar n h]
    · simp only [h, dite_false, List.mem_append, List.mem_singleton]
      intro c hc
      rcases hc with hc | rfl
      · exact ih (n / 10) (by omega) c hc
      · simp [digitVal_digitChar (n % 10) (by omega)]

/-- `%v` of a Go `int` -/
def intText (i : Int) : List Char :=
  match i with
  | .ofNat n => natDigits n
  | .negSucc n => '-' :: natDigits (n + 1)

/-- `strconv.Atoi` (64-bit): optional sign, at least one digit, digits only, value within int64 -/
def atoi (s : List Char) : Option Int :=
  let body (neg : Bool) (ds : List Char) : Option Int :=
    if ds.isEmpty then none else
    match readDigits 0 ds with
    | none => none
    | some v =>
      if neg then (if v ≤ 9223372036854775808 then some (-(v : Int)) else none)
      else (if v ≤ 9223372036854775807 then some (v : Int) else none)
  match s with
  | '+' :: ds => body false ds
  | '-' :: ds => body true ds
  | ds => body false ds

def InInt64 (i : Int) : Prop := -9223372036854775808 ≤ i ∧ i ≤ 9223372036854775807

theorem natDigits_head_not_sign (n : Nat) : ∀ c rest, natDigits n = c :: rest → c ≠ '+' ∧ c ≠ '-' := by
  intro c rest h
  have := natDigits_all_digits n c (by rw [h]; simp)
  constructor <;> (rintro rfl; simp [digitVal] at this)

theorem atoi_intText (i : Int) (h : InInt64 i) : atoi (intText i) = some i := by
  unfold InInt64 at h
  cases i with
  | ofNat n =>
    simp only [intText]
    have hne := natDigits_ne_nil n
    cases hd : natDigits n with
    | nil => exact absurd hd hne
    | cons c rest =>
      obtain ⟨h1, h2⟩ := natDigits_head_not_sign n c rest hd
      have hrd := readDigits_natDigits n
      rw [hd] at hrd
      have hle : n ≤ 9223372036854775807 := by
        have := h.2; simp only [Int.ofNat_eq_natCast] at this; omega
      unfold atoi
      split
      · next heq => simp at heq; exact absurd heq.1 h1
      · next heq => simp at heq; exact absurd heq.1 h2
      · simp [hrd, hle]
  | negSucc n =>
    simp only [intText]
    have hrd := readDigits_natDigits (n + 1)
    have hne := natDigits_ne_nil (n + 1)
    have hle : n + 1 ≤ 9223372036854775808 := by
      have := h.1; omega
    unfold atoi
    simp only [hrd, hle, if_true]
    cases hd : natDigits (n + 1) with
    | nil => exact absurd hd hne
    | cons c rest => simp [Int.negSucc_eq]

end GoWebdav.Std.Decimal
