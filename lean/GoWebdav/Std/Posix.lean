import GoWebdav.Std.Path
/-!
A POSIX-like file system as the ten `os`/`filepath` calls of fs_local.go see it, restricted to the served
directory: a finite map from paths (segment lists below the served root; `[]` is the root itself) to entries,
represented as an association list with first-match lookup.  `set` conses, so
`lookup (set t p e) q = if p = q then some e else lookup t q` holds unconditionally; removal filters every occurrence.

Not modelled: permissions, symbolic and hard links, concurrent writers, disk-full and I/O errors, mtime.
After the `fix:` commits ENOENT and ENOTDIR are treated alike by go-webdav (404 for the addressed resource,
409 for a destination parent), so the model only distinguishes "resolves" from "does not resolve".
-/
namespace GoWebdav.Std.Posix
open GoWebdav GoWebdav.Std.Path

abbrev Name := Seg
abbrev FPath := List Name

inductive Entry where
  | file (content : Bytes)
  | dir
deriving DecidableEq, Repr

abbrev FS := List (FPath × Entry)

def lookup (t : FS) (p : FPath) : Option Entry := (t.find? (fun x => x.1 == p)).map (·.2)

def set (t : FS) (p : FPath) (e : Entry) : FS := (p, e) :: t

/-- `os.RemoveAll`: every entry at or below `p` -/
def removeAll (t : FS) (p : FPath) : FS := t.filter (fun x => !(p.isPrefixOf x.1))

/-- the parent collection a create/mkdir/rename of `p` needs; the root's own parent is the host directory -/
def parentOK (t : FS) (p : FPath) : Bool :=
  match p with
  | [] => true
  | _ => lookup t p.dropLast = some .dir

/-- the entries at or below `src`, re-addressed below `dst` (what the COPY walk creates, what `rename` moves) -/
def rebased (t : FS) (src dst : FPath) : FS :=
  (t.filter (fun x => src.isPrefixOf x.1)).map (fun x => (dst ++ x.1.drop src.length, x.2))

/-- deep copy of the subtree at `src` to `dst` -/
def graft (t : FS) (src dst : FPath) : FS := rebased t src dst ++ t

/-- every visible entry other than the root sits in a visible directory -/
def WF (t : FS) : Prop := ∀ p e, lookup t p = some e → p ≠ [] → lookup t p.dropLast = some .dir

/-- two states with the same visible content -/
def Same (t t' : FS) : Prop := ∀ p, lookup t p = lookup t' p

@[simp] theorem lookup_set (t : FS) (p q : FPath) (e : Entry) :
    lookup (set t p e) q = if p = q then some e else lookup t q := by
  unfold lookup set
  by_cases h : p = q
  · simp [h]
  · have : (p == q) = false := by simpa using h
    simp [this, h]

theorem lookup_removeAll (t : FS) (p q : FPath) :
    lookup (removeAll t p) q = if p.isPrefixOf q then none else lookup t q := by
  unfold lookup removeAll
  induction t with
  | nil => simp
  | cons x xs ih =>
    by_cases hx : p.isPrefixOf x.1 = true
    · simp only [List.filter_cons, hx, Bool.not_true, Bool.false_eq_true, if_false]
      rw [ih]
      by_cases hq : p.isPrefixOf q = true
      · simp [hq]
      · have hne : (x.1 == q) = false := by
          simp only [beq_eq_false_iff_ne, ne_eq]
          intro h; rw [h] at hx; exact hq hx
        simp [hq, List.find?_cons, hne]
    · simp only [Bool.not_eq_true] at hx
      simp only [List.filter_cons, hx, Bool.not_false, if_true, List.find?_cons]
      by_cases hxq : (x.1 == q) = true
      · have : x.1 = q := by simpa using hxq
        rw [this] at hx
        simp [hxq, hx]
      · simp only [hxq]
        exact ih

theorem prefix_drop (a q : FPath) (h : a.isPrefixOf q = true) : a ++ q.drop a.length = q := by
  rw [List.isPrefixOf_iff_prefix] at h
  obtain ⟨r, rfl⟩ := h
  simp

/-- pointwise meaning of the re-addressed subtree -/
theorem lookup_rebased_append (t t' : FS) (src dst q : FPath) :
    lookup (rebased t src dst ++ t') q =
      if dst.isPrefixOf q then
        (match lookup t (src ++ q.drop dst.length) with
         | some e => some e
         | none => lookup t' q)
      else lookup t' q := by
  unfold rebased lookup
  induction t with
  | nil => simp
  | cons x xs ih =>
    by_cases hx : src.isPrefixOf x.1 = true
    · simp only [List.filter_cons, hx, if_true, List.map_cons, List.cons_append, List.find?_cons]
      by_cases hm : (dst ++ x.1.drop src.length == q) = true
      · have hq : dst ++ x.1.drop src.length = q := by simpa using hm
        have hpre : dst.isPrefixOf q = true := by
          rw [List.isPrefixOf_iff_prefix, ← hq]; exact List.prefix_append _ _
        have hdrop : q.drop dst.length = x.1.drop src.length := by rw [← hq]; simp
        have hsrc : src ++ q.drop dst.length = x.1 := by rw [hdrop]; exact prefix_drop src x.1 hx
        simp [hm, hpre, hsrc]
      · simp only [hm]
        rw [ih]
        by_cases hpre : dst.isPrefixOf q = true
        · have hne : (x.1 == src ++ q.drop dst.length) = false := by
            simp only [beq_eq_false_iff_ne, ne_eq]
            intro h
            apply hm
            simp only [beq_iff_eq]
            rw [h]; simp [prefix_drop dst q hpre]
          simp [hpre, hne]
        · simp [hpre]
    · simp only [Bool.not_eq_true] at hx
      simp only [List.filter_cons, hx, Bool.false_eq_true, if_false, List.find?_cons]
      rw [ih]
      by_cases hpre : dst.isPrefixOf q = true
      · have hne : (x.1 == src ++ q.drop dst.length) = false := by
          simp only [beq_eq_false_iff_ne, ne_eq]
          intro h
          have : src.isPrefixOf x.1 = true := by
            rw [h, List.isPrefixOf_iff_prefix]; exact List.prefix_append _ _
          rw [this] at hx; cases hx
        simp [hpre, hne]
      · simp [hpre]

end GoWebdav.Std.Posix
