/-! Shared basics for the models (core Lean only). -/
deriving instance DecidableEq for Except

namespace GoWebdav
abbrev Bytes := List UInt8
end GoWebdav

namespace GoWebdav
/-- element-wise relation between two lists (core Lean has no `List.Forall₂`) -/
inductive Forall2 {α β} (R : α → β → Prop) : List α → List β → Prop
  | nil : Forall2 R [] []
  | cons {a b as bs} : R a b → Forall2 R as bs → Forall2 R (a :: as) (b :: bs)

theorem Forall2.length_eq {α β} {R : α → β → Prop} {l₁ : List α} {l₂ : List β} (h : Forall2 R l₁ l₂) :
    l₁.length = l₂.length := by
  induction h with
  | nil => rfl
  | cons _ _ ih => simp [ih]
end GoWebdav
