/-! Shared basics for the models (core Lean only). -/
deriving instance DecidableEq for Except

namespace GoWebdav
abbrev Bytes := List UInt8
end GoWebdav
