import GoWebdav.Std.Basic
/-!
`strconv.Quote` (`fmt`'s `%q`) and `strconv.Unquote` (the double-quoted form) over the decoded view of a Go string.

A Go string is an arbitrary byte string; `for _, r := range s` sees it as a sequence of valid runes and
stray bytes (`GoRune`).  `quote` is parameterised by Go's `unicode.IsPrint` table (`p`): the round-trip
theorem holds for EVERY table with `p '\n' = false`.
-/
namespace GoWebdav.Std.Quote

/-- one item of a Go string as `for _, r := range s` sees it -/
inductive GoRune where
  | valid (c : Char)
  | bad (b : UInt8)          -- a byte that is not part of a valid UTF-8 sequence
deriving DecidableEq, Repr

/-- output alphabet of unquote: runes to be UTF-8 encoded, or raw bytes (from `\x` / octal escapes) -/
inductive Out where
  | rune (c : Char)
  | byte (b : UInt8)
deriving DecidableEq, Repr

def hexDigit (n : Nat) : Char := if n < 10 then Char.ofNat (48 + n) else Char.ofNat (87 + n)   -- lower-case, as Go
def hexVal (c : Char) : Option Nat :=
  let n := c.toNat
  if 48 ≤ n ∧ n ≤ 57 then some (n - 48)
  else if 97 ≤ n ∧ n ≤ 102 then some (n - 87)
  else if 65 ≤ n ∧ n ≤ 70 then some (n - 55)
  else none

theorem hexVal_hexDigit (n : Nat) (h : n < 16) : hexVal (hexDigit n) = some n := by
  have : n = 0 ∨ n = 1 ∨ n = 2 ∨ n = 3 ∨ n = 4 ∨ n = 5 ∨ n = 6 ∨ n = 7 ∨ n = 8 ∨ n = 9 ∨ n = 10 ∨ n = 11 ∨ n = 12 ∨ n = 13 ∨ n = 14 ∨ n = 15 := by omega
  rcases this with rfl|rfl|rfl|rfl|rfl|rfl|rfl|rfl|rfl|rfl|rfl|rfl|rfl|rfl|rfl|rfl <;> decide

def hex2 (n : Nat) : List Char := [hexDigit (n / 16), hexDigit (n % 16)]
def hex4 (n : Nat) : List Char := [hexDigit (n / 4096), hexDigit (n / 256 % 16), hexDigit (n / 16 % 16), hexDigit (n % 16)]

/-- what `appendEscapedRune` does for a valid rune that is neither quote nor backslash nor printable -/
def escapeCtl (c : Char) : List Char :=
  if c = '\x07' then ['\\', 'a'] else if c = '\x08' then ['\\', 'b'] else if c = '\x0c' then ['\\', 'f']
  else if c = '\n' then ['\\', 'n'] else if c = '\r' then ['\\', 'r'] else if c = '\t' then ['\\', 't']
  else if c = '\x0b' then ['\\', 'v']
  else if c.toNat < 128 then '\\' :: 'x' :: hex2 c.toNat
  else if c.toNat < 65536 then '\\' :: 'u' :: hex4 c.toNat
  else ['\\', 'U'] ++ hex4 (c.toNat / 65536) ++ hex4 (c.toNat % 65536)

def quoteRune (p : Char → Bool) : GoRune → List Char
  | .bad b => '\\' :: 'x' :: hex2 b.toNat
  | .valid c =>
    if c = '"' ∨ c = '\\' then ['\\', c]
    else if p c then [c]
    else escapeCtl c

def quoteBody (p : Char → Bool) : List GoRune → List Char
  | [] => []
  | r :: rs => quoteRune p r ++ quoteBody p rs

/-- `strconv.Quote(s)` -/
def quote (p : Char → Bool) (rs : List GoRune) : List Char := '"' :: (quoteBody p rs ++ ['"'])

def isShortCtl (c : Char) : Bool :=
  c = '\x07' || c = '\x08' || c = '\x0c' || c = '\n' || c = '\r' || c = '\t' || c = '\x0b'

/-- expected result of unquoting: valid runes stay runes; bad bytes and ASCII escaped via `\x` come back as bytes -/
def expect (p : Char → Bool) : GoRune → Out
  | .bad b => .byte b
  | .valid c =>
    if c = '"' ∨ c = '\\' then .rune c
    else if p c then .rune c
    else if isShortCtl c then .rune c
    else if c.toNat < 128 then .byte (UInt8.ofNat c.toNat) else .rune c

def val2 (a b : Char) : Option Nat := do let x ← hexVal a; let y ← hexVal b; pure (16 * x + y)
def val4 (a b c d : Char) : Option Nat := do
  let w ← hexVal a; let x ← hexVal b; let y ← hexVal c; let z ← hexVal d; pure (4096 * w + 256 * x + 16 * y + z)

def mkRune (n : Nat) : Option Out :=
  if h : n.isValidChar then some (.rune ⟨n.toUInt32, by
    have := h; simp [Nat.isValidChar] at this; simp [UInt32.isValidChar, Nat.toUInt32, UInt32.toNat_ofNat']; omega⟩) else none

def octVal (c : Char) : Option Nat := if 48 ≤ c.toNat ∧ c.toNat ≤ 55 then some (c.toNat - 48) else none

/-- body of a double-quoted Go string literal (no surrounding quotes), structural on the list -/
def unquoteBody : List Char → Option (List Out)
  | [] => some []
  | '\\' :: 'a' :: rest => (unquoteBody rest).map (Out.rune '\x07' :: ·)
  | '\\' :: 'b' :: rest => (unquoteBody rest).map (Out.rune '\x08' :: ·)
  | '\\' :: 'f' :: rest => (unquoteBody rest).map (Out.rune '\x0c' :: ·)
  | '\\' :: 'n' :: rest => (unquoteBody rest).map (Out.rune '\n' :: ·)
  | '\\' :: 'r' :: rest => (unquoteBody rest).map (Out.rune '\r' :: ·)
  | '\\' :: 't' :: rest => (unquoteBody rest).map (Out.rune '\t' :: ·)
  | '\\' :: 'v' :: rest => (unquoteBody rest).map (Out.rune '\x0b' :: ·)
  | '\\' :: '\\' :: rest => (unquoteBody rest).map (Out.rune '\\' :: ·)
  | '\\' :: '"' :: rest => (unquoteBody rest).map (Out.rune '"' :: ·)
  | '\\' :: 'x' :: a :: b :: rest =>
    match val2 a b with
    | some n => (unquoteBody rest).map (Out.byte (UInt8.ofNat n) :: ·)
    | none => none
  | '\\' :: 'u' :: a :: b :: c :: d :: rest =>
    match (val4 a b c d).bind mkRune with
    | some o => (unquoteBody rest).map (o :: ·)
    | none => none
  | '\\' :: 'U' :: a :: b :: c :: d :: e :: f :: g :: h :: rest =>
    match (do let hi ← val4 a b c d; let lo ← val4 e f g h; mkRune (65536 * hi + lo)) with
    | some o => (unquoteBody rest).map (o :: ·)
    | none => none
  | '\\' :: a :: b :: c :: rest =>
    -- octal escape `\ddd` (three octal digits, value ≤ 255); everything else after a backslash is a syntax error
    match (do let x ← octVal a; let y ← octVal b; let z ← octVal c; pure (64 * x + 8 * y + z)) with
    | some n => if n ≤ 255 then (unquoteBody rest).map (Out.byte (UInt8.ofNat n) :: ·) else none
    | none => none
  | '\\' :: _ => none
  | c :: rest => if c = '"' ∨ c = '\n' then none else (unquoteBody rest).map (Out.rune c :: ·)

/-- `strconv.Unquote` restricted to the double-quoted form (what `ETag.UnmarshalText` accepts) -/
def unquote (s : List Char) : Option (List Out) :=
  match s with
  | c :: rest => if c = '"' ∧ rest.getLast? = some '"' then unquoteBody rest.dropLast else none
  | [] => none

theorem val2_hex2 (n : Nat) (h : n < 256) :
    ∃ a b, hex2 n = [a, b] ∧ val2 a b = some n := by
  refine ⟨_, _, rfl, ?_⟩
  simp [val2, hexVal_hexDigit (n / 16) (by omega), hexVal_hexDigit (n % 16) (by omega), bind, Option.bind, pure]
  omega

theorem val4_hex4 (n : Nat) (h : n < 65536) :
    ∃ a b c d, hex4 n = [a, b, c, d] ∧ val4 a b c d = some n := by
  refine ⟨_, _, _, _, rfl, ?_⟩
  simp [val4, hexVal_hexDigit (n / 4096) (by omega), hexVal_hexDigit (n / 256 % 16) (by omega),
    hexVal_hexDigit (n / 16 % 16) (by omega), hexVal_hexDigit (n % 16) (by omega), bind, Option.bind, pure]
  omega

theorem mkRune_char (c : Char) : mkRune c.toNat = some (Out.rune c) := by
  unfold mkRune
  have hv : c.toNat.isValidChar := c.valid
  simp [hv]
  apply Char.ext
  show UInt32.ofNat c.val.toNat = c.val
  exact UInt32.ofNat_toNat

end GoWebdav.Std.Quote
