import GoWebdav.Lemmas.CarddavWire
/-!
# C09, general statement — every expressible addressbook-query reaches the backend as the caller wrote it

`Props/C09.lean` holds the field-level theorems and the definitions (`Expressible`, `denotes`); the list-level
composition proved here needs the helper lemmas of `Lemmas/CarddavWire.lean`, which build on those definitions, hence
the separate module.
-/
namespace GoWebdav.Props.C09
open GoWebdav GoWebdav.Std.Xml GoWebdav.Impl.CarddavWire GoWebdav.Lemmas.CarddavWire

/-- client → wire → backend for EVERY query RFC 6352 can express: any number of prop-filters, each with any number of
    text-matches (any text, match type, negation) and param-filters, is-not-defined at both levels, both filter tests,
    all-properties or any list of property names, and every limit a Go `int` can hold — the client encodes it and
    the server hands the backend exactly `denotes q` -/
theorem C09_query_reaches_backend (q : Query) (h : Expressible q) (hlim : q.limit < 9223372036854775808) :
    (encodeQuery q).bind decodeQuery = .ok (some (denotes q)) := by
  rw [encodeQuery_ok q h]
  exact decodeQuery_queryNode q h hlim

/-- the witness query of `Props/C09.lean` meets the hypotheses -/
example : Expressible exQuery := by
  refine ⟨by decide, ?_⟩
  intro pf hpf
  simp only [exQuery, List.mem_cons, List.not_mem_nil, or_false] at hpf
  rcases hpf with rfl | rfl
  · refine ⟨by decide, by simp, ?_, ?_⟩
    · intro t ht
      simp only [List.mem_cons, List.not_mem_nil, or_false] at ht
      rcases ht with rfl | rfl <;> (unfold TMok; decide)
    · intro pm hpm
      simp only [List.mem_cons, List.not_mem_nil, or_false] at hpm
      rcases hpm with rfl | rfl
      · exact ⟨by simp, fun t ht => by simp at ht; subst ht; unfold TMok; decide⟩
      · exact ⟨by simp, fun t ht => by simp at ht⟩
  · exact ⟨by decide, by simp, by simp, by simp⟩

end GoWebdav.Props.C09
