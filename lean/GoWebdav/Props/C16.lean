import GoWebdav.Impl.Codec
import GoWebdav.Lemmas.Quote
import GoWebdav.Lemmas.Time
import GoWebdav.Lemmas.Url
/-!
# C16 — Wire primitives round-trip exactly and reject what they cannot represent

Depth / Overwrite are stated over the definitions regenerated from `internal/internal.go` on every run.
-/
namespace GoWebdav.Props.C16
open GoWebdav GoWebdav.Std GoWebdav.Std.Decimal GoWebdav.Impl.Codec GoWebdav.Generated

-- Depth ------------------------------------------------------------------------------------------
/-- Depth 0, 1, infinity (the Go constants 0, 1, -1) survive String → ParseDepth -/
theorem C16_depth_roundtrip : ∀ d ∈ [(0 : Int), 1, -1], (depthString d).bind parseDepth = some d := by decide

/-- ParseDepth accepts exactly the three texts that String produces, and maps each back to its own value -/
theorem C16_depth_rejects (s : String) (d : Int) (h : parseDepth s = some d) :
    depthString d = some s ∧ (s = "0" ∨ s = "1" ∨ s = "infinity") := by
  unfold parseDepth at h
  by_cases h0 : s = "0"
  · subst h0; simp at h; subst h; decide
  by_cases h1 : s = "1"
  · subst h1; simp at h; subst h; decide
  by_cases h2 : s = "infinity"
  · subst h2; simp at h; subst h; decide
  simp [h0, h1, h2] at h

/-- every value other than the three constants has no text (the Go method panics; no caller passes one) -/
theorem C16_depth_domain (d : Int) (s : String) (h : depthString d = some s) : d = 0 ∨ d = 1 ∨ d = -1 := by
  unfold depthString at h
  by_cases h0 : d = 0; · exact Or.inl h0
  by_cases h1 : d = 1; · exact Or.inr (Or.inl h1)
  by_cases h2 : d = -1; · exact Or.inr (Or.inr h2)
  simp [h0, h1, h2] at h

-- Overwrite --------------------------------------------------------------------------------------
theorem C16_overwrite_roundtrip (b : Bool) : parseOverwrite (formatOverwrite b) = some b := by
  cases b <;> decide

theorem C16_overwrite_rejects (s : String) (b : Bool) (h : parseOverwrite s = some b) : s = formatOverwrite b := by
  unfold parseOverwrite at h
  by_cases hT : s = "T"
  · subst hT; simp at h; subst h; rfl
  by_cases hF : s = "F"
  · subst hF; simp at h; subst h; rfl
  simp [hT, hF] at h

-- Status -----------------------------------------------------------------------------------------
theorem cutSp_append (a b : List Char) (h : ' ' ∉ a) : cutSp (a ++ ' ' :: b) = (a, some b) := by
  induction a with
  | nil => simp [cutSp]
  | cons c cs ih =>
    have hc : c ≠ ' ' := fun hc => h (by simp [hc])
    have hcs : ' ' ∉ cs := fun hm => h (List.mem_cons_of_mem _ hm)
    simp [cutSp, hc, ih hcs]

theorem intText_no_space (i : Int) : ' ' ∉ intText i := by
  intro hm
  cases i with
  | ofNat n =>
    have := natDigits_all_digits n ' ' hm
    simp [digitVal] at this
  | negSucc n =>
    simp only [intText, List.mem_cons] at hm
    rcases hm with hm | hm
    · cases hm
    · have := natDigits_all_digits (n + 1) ' ' hm
      simp [digitVal] at this

/-- every code (any Go `int`) with any reason phrase survives MarshalText → UnmarshalText; an empty phrase
    comes back as the standard text for the code -/
theorem C16_status_roundtrip (statusText : Int → List Char) (code : Int) (text : List Char) (h : InInt64 code) :
    statusDecode (statusEncode statusText code text) = some (code, if text = [] then statusText code else text) := by
  unfold statusDecode statusEncode
  have hne : httpPrefix ++ [' '] ++ intText code ++ [' '] ++ (if text = [] then statusText code else text) ≠ [] := by
    simp [httpPrefix]
  rw [if_neg hne]
  have e1 : httpPrefix ++ [' '] ++ intText code ++ [' '] ++ (if text = [] then statusText code else text)
      = httpPrefix ++ ' ' :: (intText code ++ ' ' :: (if text = [] then statusText code else text)) := by simp
  rw [e1, cutSp_append _ _ (by decide)]
  simp only
  rw [cutSp_append _ _ (intText_no_space code)]
  simp only [atoi_intText code h]

/-- the decoder refuses (returns an error for) every non-empty text that does not consist of three
    space-separated fields with an integer (Go `Atoi` syntax) as the second -/
theorem C16_status_rejects (s : List Char) (code : Int) (text : List Char) (hs : s ≠ [])
    (h : statusDecode s = some (code, text)) :
    ∃ version codeText, s = version ++ ' ' :: (codeText ++ ' ' :: text) ∧ ' ' ∉ version ∧ ' ' ∉ codeText ∧ atoi codeText = some code := by
  have cut_inv : ∀ (l a b : List Char), cutSp l = (a, some b) → l = a ++ ' ' :: b ∧ ' ' ∉ a := by
    intro l
    induction l with
    | nil => intro a b h; simp [cutSp] at h
    | cons c cs ih =>
      intro a b h
      simp only [cutSp] at h
      by_cases hc : c = ' '
      · simp [hc] at h; obtain ⟨rfl, rfl⟩ := h; simp [hc]
      · simp only [hc, if_false, Prod.mk.injEq] at h
        obtain ⟨rfl, h2⟩ := h
        have := ih (cutSp cs).1 b (by rw [← h2])
        constructor
        · rw [List.cons_append, ← this.1]
        · intro hm; rcases List.mem_cons.mp hm with hm | hm
          · exact hc hm.symm
          · exact this.2 hm
  unfold statusDecode at h
  rw [if_neg hs] at h
  cases h1 : cutSp s with
  | mk v r =>
    cases r with
    | none => simp [h1] at h
    | some r1 =>
      simp only [h1] at h
      cases h2 : cutSp r1 with
      | mk ct r =>
        cases r with
        | none => simp [h2] at h
        | some tx =>
          simp only [h2] at h
          cases h3 : atoi ct with
          | none => simp [h3] at h
          | some cd =>
            simp only [h3, Option.some.injEq, Prod.mk.injEq] at h
            obtain ⟨rfl, rfl⟩ := h
            obtain ⟨e1, n1⟩ := cut_inv s v r1 h1
            obtain ⟨e2, n2⟩ := cut_inv r1 ct tx h2
            exact ⟨v, ct, by rw [e1, e2], n1, n2, h3⟩

-- ETag -------------------------------------------------------------------------------------------
/-- any entity tag — any byte string: quotes, backslashes, control characters, non-ASCII, invalid UTF-8 —
    survives `%q` → Unquote, for every printability table that does not call a newline printable -/
theorem C16_etag_roundtrip (isPrint : Char → Bool) (hp : isPrint '\n' = false) (tag : List Quote.GoRune) :
    etagDecode (etagEncode isPrint tag) = some (tag.map (Quote.expect isPrint)) :=
  Lemmas.Quote.unquote_quote isPrint hp tag

/-- what comes back denotes the same bytes: a rune stays the rune, a stray byte stays the byte, and an ASCII
    character escaped as `\xHH` comes back as the byte with its code -/
theorem C16_etag_same_bytes (isPrint : Char → Bool) (r : Quote.GoRune) :
    match r, Quote.expect isPrint r with
    | .valid c, .rune c' => c' = c
    | .valid c, .byte b => c.toNat < 128 ∧ b = UInt8.ofNat c.toNat
    | .bad b, .byte b' => b' = b
    | .bad _, .rune _ => False := by
  cases r with
  | bad b => simp [Quote.expect]
  | valid c =>
    unfold Quote.expect
    by_cases h1 : c = '"' ∨ c = '\\'
    · simp [h1]
    · by_cases h2 : isPrint c = true
      · simp [h1, h2]
      · by_cases h3 : Quote.isShortCtl c = true
        · simp [h1, h2, h3]
        · by_cases h4 : c.toNat < 128 <;> simp [h1, h2, h3, h4]

/-- a text that is not enclosed in double quotes is refused -/
theorem C16_etag_rejects_unquoted (s : List Char) (h : s.head? ≠ some '"' ∨ s.getLast? ≠ some '"' ∨ s.length < 2) :
    etagDecode s = none := by
  unfold etagDecode Quote.unquote
  cases s with
  | nil => rfl
  | cons c rest =>
    simp only
    by_cases hc : c = '"' ∧ rest.getLast? = some '"'
    · exfalso
      obtain ⟨rfl, hl⟩ := hc
      cases rest with
      | nil => simp at hl
      | cons a b =>
        rcases h with h | h | h
        · simp at h
        · apply h; rw [List.getLast?_cons_cons]; exact hl
        · simp at h; omega
    · rw [if_neg hc]

-- Href -------------------------------------------------------------------------------------------
/-- any absolute path whose first segment is non-empty survives `Href.String` → `url.Parse`, byte for byte -/
theorem C16_href_roundtrip (q : Bytes) (h : q.head? ≠ some 47) :
    hrefDecode (hrefEncode (47 :: q)) = .path (47 :: q) := by
  have : Url.firstSegmentHasColon (47 :: q) = false := by simp [Url.firstSegmentHasColon, Url.cutAt]
  unfold hrefEncode hrefDecode
  rw [this]
  exact Lemmas.Url.parseRef_escapePath q h

/-- percent-decoding inverts percent-encoding for every byte string -/
theorem C16_href_unescape_escape (p : Bytes) : Url.unescape (Url.escapePath p) = some p :=
  Lemmas.Url.unescape_escapePath p

/-- outside the domain: a path whose first segment is empty does NOT survive (it is read as an authority) -/
theorem C16_href_domain_witness : hrefDecode (hrefEncode [47, 47, 120, 47, 121]) = .other := by decide

-- dates ------------------------------------------------------------------------------------------
/-- any instant (years 0000-03-01 … 9999), given in any time zone, survives HTTP-date formatting and parsing -/
theorem C16_httpdate_roundtrip (t : GoTime) (h : Time.InRange t.unix) :
    Time.parseHttp (httpDateEncode t) = some t.unix := Lemmas.Time.parseHttp_fmtHttp t.unix h

/-- the same for the iCalendar "date with UTC time" form -/
theorem C16_caldate_roundtrip (t : GoTime) (h : Time.InRange t.unix) :
    Time.parseCal (calDateEncode t) = some t.unix := Lemmas.Time.parseCal_fmtCal t.unix h

theorem num2_digits (a b : Char) (n : Nat) (h : Time.num2 a b = some n) : (digitVal a).isSome ∧ (digitVal b).isSome := by
  unfold Time.num2 at h
  cases ha : digitVal a <;> cases hb : digitVal b <;> simp [ha, hb] at h ⊢

theorem num4_digits (a b c d : Char) (n : Nat) (h : Time.num4 a b c d = some n) :
    (digitVal a).isSome ∧ (digitVal b).isSome ∧ (digitVal c).isSome ∧ (digitVal d).isSome := by
  unfold Time.num4 at h
  cases ha : digitVal a <;> cases hb : digitVal b <;> cases hc : digitVal c <;> cases hd : digitVal d <;> simp [ha, hb, hc, hd] at h ⊢

/-- the iCalendar UTC date-time decoder accepts ONLY sixteen characters `YYYYMMDD'T'HHMMSS'Z'` with digits in the
    numeric places (so no floating time without `Z`, no offset, no date-only form) -/
theorem C16_caldate_rejects (s : List Char) (t : Int) (h : Time.parseCal s = some t) :
    ∃ y1 y2 y3 y4 m1 m2 d1 d2 h1 h2 i1 i2 s1 s2,
      s = [y1, y2, y3, y4, m1, m2, d1, d2, 'T', h1, h2, i1, i2, s1, s2, 'Z'] ∧
      ∀ c ∈ [y1, y2, y3, y4, m1, m2, d1, d2, h1, h2, i1, i2, s1, s2], (digitVal c).isSome = true := by
  unfold Time.parseCal at h
  split at h
  · rename_i y1 y2 y3 y4 m1 m2 d1 d2 h1 h2 i1 i2 s1 s2
    refine ⟨y1, y2, y3, y4, m1, m2, d1, d2, h1, h2, i1, i2, s1, s2, rfl, ?_⟩
    cases hy : Time.num4 y1 y2 y3 y4 with
    | none => simp [hy] at h
    | some y =>
      cases hm : Time.num2 m1 m2 with
      | none => simp [hy, hm] at h
      | some m =>
        cases hd : Time.num2 d1 d2 with
        | none => simp [hy, hm, hd] at h
        | some d =>
          cases hh : Time.num2 h1 h2 with
          | none => simp [hy, hm, hd, hh] at h
          | some hr =>
            cases hi : Time.num2 i1 i2 with
            | none => simp [hy, hm, hd, hh, hi] at h
            | some mi =>
              cases hs : Time.num2 s1 s2 with
              | none => simp [hy, hm, hd, hh, hi, hs] at h
              | some sec =>
                obtain ⟨a1, a2, a3, a4⟩ := num4_digits _ _ _ _ _ hy
                obtain ⟨b1, b2⟩ := num2_digits _ _ _ hm
                obtain ⟨c1, c2⟩ := num2_digits _ _ _ hd
                obtain ⟨e1, e2⟩ := num2_digits _ _ _ hh
                obtain ⟨f1, f2⟩ := num2_digits _ _ _ hi
                obtain ⟨g1, g2⟩ := num2_digits _ _ _ hs
                intro c hc
                simp only [List.mem_cons, List.not_mem_nil, or_false] at hc
                rcases hc with rfl | rfl | rfl | rfl | rfl | rfl | rfl | rfl | rfl | rfl | rfl | rfl | rfl | rfl <;> assumption
  · cases h


/-- a floating local time (no `Z`) is refused -/
example : Time.parseCal "20240229T235958".toList = none := by decide

-- non-vacuity ----------------------------------------------------------------------------------
example : Time.InRange 1710032400 ∧ InInt64 207 := by unfold Time.InRange InInt64; decide
example : etagEncode (fun c => 32 ≤ c.toNat ∧ c.toNat < 127) [.valid 'a', .valid '"', .bad 0xff, .valid '\n']
    = "\"a\\\"\\xff\\n\"".toList := by decide

end GoWebdav.Props.C16
