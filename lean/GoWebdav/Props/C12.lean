import GoWebdav.Impl.Path
import GoWebdav.Lemmas.Path
/-!
# C12 — CalDAV/CardDAV routing and discovery work under any mount prefix (classification part)

`resourceTypeAtPath` is the single function both servers use to classify a request path; it is stated here for
EVERY prefix (any number of arbitrary normal segments) and every path below it, with and without trailing slash.
-/
namespace GoWebdav.Props.C12
open GoWebdav GoWebdav.Std.Path GoWebdav.Impl.Path GoWebdav.Lemmas.Path

/-- a request path below the prefix is classified solely by its depth below the prefix -/
theorem C12_depth_classification (pre below : List Seg) (hp : ∀ s ∈ pre, Normal s) (hb : ∀ s ∈ below, Normal s)
    (trailing : Bool) (hne : pre ++ below ≠ [] ∨ trailing = true) :
    resourceTypeAtPath (renderSegs pre) (renderSegs (pre ++ below) ++ (if trailing then [slash] else [])) = below.length := by
  unfold resourceTypeAtPath
  by_cases hall : pre ++ below = []
  · -- the request path is "/"
    have ht : trailing = true := by rcases hne with h | h; exact absurd hall h; exact h
    have hpre : pre = [] := (List.append_eq_nil_iff.mp hall).1
    have hbel : below = [] := (List.append_eq_nil_iff.mp hall).2
    subst hpre; subst hbel; subst ht
    decide
  · have hnorm : ∀ s ∈ pre ++ below, Normal s := by
      intro s hs; rcases List.mem_append.mp hs with h | h; exact hp s h; exact hb s h
    rw [clean_render (pre ++ below) hnorm hall trailing, render_append, trimPrefix_append]
    cases below with
    | nil => simp [renderSegs, isAbs]
    | cons b bs =>
      have hb0 := hb b (by simp)
      have habs : isAbs (renderSegs (b :: bs)) = true := by simp [renderSegs, isAbs]
      simp only [habs, if_true]
      have hne1 : renderSegs (b :: bs) ≠ [slash] := by
        cases hbb : b with
        | nil => exact absurd hbb hb0.1
        | cons c cs => simp [renderSegs]
      simp only [hne1, if_false]
      have := splitSlash_render (b :: bs) (fun s hs => (hb s hs).2.2.2) (by simp) false
      simp only [Bool.false_eq_true, if_false, List.append_nil] at this
      rw [this]; simp

/-- the five levels (root, principal, home set, collection, object) are depths 0…4 -/
theorem C12_levels (pre : List Seg) (hp : ∀ s ∈ pre, Normal s) (a b c d : Seg)
    (ha : Normal a) (hb : Normal b) (hc : Normal c) (hd : Normal d) (trailing : Bool) :
    resourceTypeAtPath (renderSegs pre) (renderSegs (pre ++ [a]) ++ (if trailing then [slash] else [])) = 1 ∧
    resourceTypeAtPath (renderSegs pre) (renderSegs (pre ++ [a, b]) ++ (if trailing then [slash] else [])) = 2 ∧
    resourceTypeAtPath (renderSegs pre) (renderSegs (pre ++ [a, b, c]) ++ (if trailing then [slash] else [])) = 3 ∧
    resourceTypeAtPath (renderSegs pre) (renderSegs (pre ++ [a, b, c, d]) ++ (if trailing then [slash] else [])) = 4 := by
  refine ⟨?_, ?_, ?_, ?_⟩
  · exact C12_depth_classification pre [a] hp (by simp [ha]) trailing (Or.inl (by simp))
  · exact C12_depth_classification pre [a, b] hp (by simp [ha, hb]) trailing (Or.inl (by simp))
  · exact C12_depth_classification pre [a, b, c] hp (by simp [ha, hb, hc]) trailing (Or.inl (by simp))
  · exact C12_depth_classification pre [a, b, c, d] hp (by simp [ha, hb, hc, hd]) trailing (Or.inl (by simp))

-- non-vacuity: prefix /dav/x, path /dav/x/u/cal/
example : Normal [100, 97, 118] ∧ resourceTypeAtPath (renderSegs [[100, 97, 118], [120]])
    (renderSegs [[100, 97, 118], [120], [117], [99, 97, 108]] ++ [slash]) = 2 := by
  refine ⟨by decide, by decide⟩

end GoWebdav.Props.C12
