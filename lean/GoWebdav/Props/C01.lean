import GoWebdav.Lemmas.Refine
import GoWebdav.Lemmas.WFPres
/-!
# C01 — WebDAV file server behaves like the RFC 4918 resource-tree model

`Impl.Webdav.step` mirrors the file server (after the `fix:` commits recorded in known_findings.json);
`Spec.Rfc4918.allows` is the abstract resource tree with its refusal table.  The refinement is proved for every
well-formed tree and every request — every path string, every header value — outside the one open finding
(`FaultRegion`: a PUT over an existing file whose body breaks off; see C02).

The sentence lemmas at the end restate the property's sentences about the specification's bulk operations pointwise,
so the specification cannot drift into a restatement of the implementation.
-/
namespace GoWebdav.Props.C01
open GoWebdav GoWebdav.Std.Path GoWebdav.Std.Posix GoWebdav.Impl.Path GoWebdav.Impl.Webdav GoWebdav.Spec.Rfc4918
open GoWebdav.Lemmas.Webdav GoWebdav.Lemmas.Refine GoWebdav.Lemmas.WFPres

/-- every response and the tree afterwards are allowed by the abstract RFC 4918 model -/
theorem C01_refines_partial (t : FS) (hwf : WF t) (r : Request) (hnr : ¬ FaultRegion t r) :
    allows t r (step t r) := by
  rw [step_eq]
  by_cases h1 : r.method = "OPTIONS"
  · rw [if_pos h1]; exact allows_options t r h1
  rw [if_neg h1]
  by_cases h2 : r.method = "GET" ∨ r.method = "HEAD"
  · rw [if_pos h2]; exact allows_headGet t r h2
  rw [if_neg h2]
  by_cases h3 : r.method = "PUT"
  · rw [if_pos h3]; exact allows_put t hwf r h3 hnr
  rw [if_neg h3]
  by_cases h4 : r.method = "DELETE"
  · rw [if_pos h4]; exact allows_delete t r h4
  rw [if_neg h4]
  by_cases h5 : r.method = "PROPFIND"
  · rw [if_pos h5]; exact allows_propfind t r h5
  rw [if_neg h5]
  by_cases h6 : r.method = "PROPPATCH"
  · rw [if_pos h6]; exact allows_proppatch t r h6
  rw [if_neg h6]
  by_cases h7 : r.method = "MKCOL"
  · rw [if_pos h7]; exact allows_mkcol t r h7
  rw [if_neg h7]
  by_cases h8 : r.method = "COPY" ∨ r.method = "MOVE"
  · rw [if_pos h8]; exact allows_copyMove t hwf r h8
  rw [if_neg h8]
  simp only [not_or] at h2 h8
  exact allows_other t r ⟨h1, h2.1, h2.2, h3, h4, h5, h6, h7, h8.1, h8.2⟩

/-- requests keep the tree well formed (every resource other than the root sits in a collection) -/
theorem C01_wf_preserved (t : FS) (hwf : WF t) (r : Request) : WF (step t r).1 := wf_step t hwf r

/-- every step of every request sequence from a well-formed tree is allowed (outside the open finding) -/
def RunOK : FS → List Request → Prop
  | _, [] => True
  | t, r :: rs => (¬ FaultRegion t r → allows t r (step t r)) ∧ RunOK (step t r).1 rs

theorem C01_history (t₀ : FS) (hwf : WF t₀) (rs : List Request) : RunOK t₀ rs := by
  induction rs generalizing t₀ with
  | nil => trivial
  | cons r rs ih => exact ⟨fun hnr => C01_refines_partial t₀ hwf r hnr, ih _ (C01_wf_preserved t₀ hwf r)⟩

-- sentence lemmas about the specification ---------------------------------------------------------------

/-- PUT creates or replaces exactly the addressed file -/
theorem put_exactly (t : FS) (p q : FPath) (body : Bytes) :
    lookup (set t p (.file body)) q = if p = q then some (.file body) else lookup t q := lookup_set t p q _

/-- DELETE removes exactly the addressed subtree -/
theorem delete_exactly_subtree (t : FS) (p q : FPath) :
    lookup (removeAll t p) q = if p.isPrefixOf q then none else lookup t q := lookup_removeAll t p q

/-- MKCOL creates one empty collection: the addressed path becomes a collection, nothing appears below it, everything else stays -/
theorem mkcol_one_empty_collection (t : FS) (hwf : WF t) (p : FPath) (habs : lookup t p = none) (q : FPath) :
    lookup (set t p .dir) q = if p = q then some .dir else if p.isPrefixOf q then none else lookup t q := by
  rw [lookup_set]
  by_cases hpq : p = q
  · simp [hpq]
  · simp only [hpq, if_false]
    by_cases hpre : p.isPrefixOf q = true
    · simp [hpre, wf_absent_below t hwf p habs q hpre]
    · simp [hpre]

/-- COPY reproduces the source at the destination, deeply: below a free destination `d` the tree is the source subtree,
    elsewhere nothing changes — in particular the source survives -/
theorem copy_deep (t : FS) (hwf : WF t) (p d q : FPath) (hfree : lookup t d = none) :
    lookup (graft t p d) q = if d.isPrefixOf q then lookup t (p ++ q.drop d.length) else lookup t q := by
  unfold graft
  rw [lookup_rebased_append]
  by_cases hdq : d.isPrefixOf q = true
  · simp only [hdq, if_true]
    cases lookup t (p ++ q.drop d.length) with
    | some e => rfl
    | none => simp [wf_absent_below t hwf d hfree q hdq]
  · simp [hdq]

theorem copy_source_survives (t : FS) (hwf : WF t) (p d q : FPath) (hfree : lookup t d = none)
    (hq : d.isPrefixOf q = false) : lookup (graft t p d) q = lookup t q := by
  rw [copy_deep t hwf p d q hfree, hq]; simp

/-- COPY Depth 0 of a collection creates the bare collection -/
theorem copy_depth0_bare (t : FS) (hwf : WF t) (d q : FPath) (hfree : lookup t d = none) :
    lookup (set t d .dir) q = if d = q then some .dir else if d.isPrefixOf q then none else lookup t q :=
  mkcol_one_empty_collection t hwf d hfree q

/-- MOVE: the destination is the source subtree and the source vanishes (source and destination disjoint) -/
theorem move_source_vanishes (t : FS) (hwf : WF t) (p d q : FPath) (hfree : lookup t d = none)
    (hov : overlap p d = false) :
    lookup (removeAll (graft t p d) p) q =
      if p.isPrefixOf q then none else if d.isPrefixOf q then lookup t (p ++ q.drop d.length) else lookup t q := by
  rw [lookup_removeAll, copy_deep t hwf p d q hfree]

/-- Overwrite: an existing destination is replaced (removed first), and is refused with 412 when Overwrite is F -/
theorem overwrite_honoured (t : FS) (r : Request) (p d : FPath) (hm : r.method = "COPY" ∨ r.method = "MOVE")
    (hp : target r.path = some p) (hd : destTarget r = some d) (hex : kind t d ≠ .absent) (how : r.overwrite = "F") :
    412 ∈ refusals t r := by
  have hnm : r.method ≠ "OPTIONS" ∧ r.method ≠ "GET" ∧ r.method ≠ "HEAD" ∧ r.method ≠ "PUT" ∧ r.method ≠ "DELETE" ∧ r.method ≠ "MKCOL" := by
    rcases hm with h | h <;> rw [h] <;> decide
  obtain ⟨n1, n2, n3, n4, n5, n6⟩ := hnm
  unfold refusals
  simp only [hp, n1, n2, n3, n4, n5, n6, if_false, false_or, hm, if_true, hd]
  simp [hex, how]

/-- GET, HEAD, OPTIONS and PROPFIND never change the tree -/
theorem readonly_methods_leave_tree (t : FS) (r : Request)
    (hm : r.method = "GET" ∨ r.method = "HEAD" ∨ r.method = "OPTIONS" ∨ r.method = "PROPFIND") : (step t r).1 = t := by
  rw [step_eq]
  rcases hm with h | h | h | h <;> simp +decide [h, options, headGet, propfind]

-- non-vacuity: a three-level tree and a deep COPY
def exTree : FS := [([[97], [98], [99]], .file [120]), ([[97], [98]], .dir), ([[97]], .dir), ([], .dir)]

theorem exTree_wf : WF exTree := by
  intro p e hl hne
  by_cases h1 : p = [[97], [98], [99]]
  · subst h1; decide
  by_cases h2 : p = [[97], [98]]
  · subst h2; decide
  by_cases h3 : p = [[97]]
  · subst h3; decide
  by_cases h4 : p = []
  · exact absurd h4 hne
  · have : lookup exTree p = none := by
      unfold lookup exTree
      have e1 : (([[97], [98], [99]] : FPath) == p) = false := by simpa using Ne.symm h1
      have e2 : (([[97], [98]] : FPath) == p) = false := by simpa using Ne.symm h2
      have e3 : (([[97]] : FPath) == p) = false := by simpa using Ne.symm h3
      have e4 : (([] : FPath) == p) = false := by simpa using Ne.symm h4
      simp [List.find?_cons, e1, e2, e3, e4]
    rw [this] at hl; cases hl

example : (step exTree { method := "COPY", path := [47, 97], dest := .path [47, 122] }).2.status = 201 ∧
    lookup (step exTree { method := "COPY", path := [47, 97], dest := .path [47, 122] }).1 [[122], [98], [99]] = some (.file [120]) := by
  decide

end GoWebdav.Props.C01
