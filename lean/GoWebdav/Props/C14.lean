import GoWebdav.Impl.ClientResp
/-!
# C14 — Clients survive any response and report failures with their status

Model `Impl.ClientResp`: the decision logic every client method goes through.  Proved for all status codes, content
types, body classes and multi-status shapes:

* `Do` returns an error exactly when the status is not 2xx, and the error carries exactly that status code; a
  DAV:error body announced as XML is carried inside it;
* a multi-status is accepted exactly when the status is 207 and the body decodes;
* inside a multi-status a value is only ever taken from a propstat with status 200 of a response that is not itself
  failed; a failed response is an error whose code is the response's; sync-collection classifies a 404 resource as
  deleted and never as updated.

"Without panicking or hanging" is a property of the Go runtime and of `encoding/xml` / the object parsers: tied by
family `climeth` (every public method of the three clients under `recover` and a watchdog, against scripted
responses incl. truncation at every offset), not proved.
-/
namespace GoWebdav.Props.C14
open GoWebdav.Impl.ClientResp

/-- an error exactly when the status is not 2xx -/
theorem C14_do_error_iff (status : Nat) (ct : CT) (b : EBody) : doOut status ct b = .ok ↔ status / 100 = 2 := by
  unfold doOut
  by_cases h : status / 100 = 2
  · simp [h]
  · simp only [h, if_false, false_iff]
    split
    · split <;> simp
    · split
      · split <;> simp
      · simp

/-- …and the error carries exactly the response's status code -/
theorem C14_do_error_carries_status (status : Nat) (ct : CT) (b : EBody) (h : status / 100 ≠ 2) :
    ∃ w, doOut status ct b = .http status w := by
  unfold doOut
  simp only [h, if_false]
  split
  · split <;> exact ⟨_, rfl⟩
  · split
    · split <;> exact ⟨_, rfl⟩
    · exact ⟨_, rfl⟩

/-- a DAV:error document announced as XML travels inside the error (for every non-2xx status) -/
theorem C14_dav_error_carried (status : Nat) (ct : CT) (h : status / 100 ≠ 2) (hx : isXmlCT ct = true) :
    doOut status ct .davError = .http status .dav := by
  unfold doOut; simp [h, hx]

/-- a multi-status result exactly when the status is 207 and the body decodes; every other answer is an error, with
    the status code when the status is not 2xx -/
theorem C14_multistatus_iff (status : Nat) (ct : CT) (eb : EBody) (mb : MsBody) :
    msOut status ct eb mb = .ok ↔ status = 207 ∧ mb = .decodes := by
  unfold msOut
  cases hd : doOut status ct eb with
  | http c w =>
    have : ¬ status / 100 = 2 := fun h => by rw [(C14_do_error_iff status ct eb).mpr h] at hd; cases hd
    constructor
    · intro h; cases h
    · intro ⟨h7, _⟩; subst h7; exact absurd (by decide) this
  | ok =>
    simp only
    by_cases h7 : status = 207
    · subst h7; cases mb <;> simp
    · simp [h7]

theorem C14_multistatus_error_code (status : Nat) (ct : CT) (eb : EBody) (mb : MsBody) (h : status / 100 ≠ 2) :
    ∃ w, msOut status ct eb mb = .http status w := by
  obtain ⟨w, hw⟩ := C14_do_error_carries_status status ct eb h
  exact ⟨w, by unfold msOut; rw [hw]⟩

-- inside a multi-status ------------------------------------------------------------------------------------------------------

theorem findStat_spec (name : String) (l : List PropStat) (k i : Nat) (ps : PropStat) (h : findStat name l k = some (i, ps)) :
    k ≤ i ∧ l[i - k]? = some ps ∧ ps.props.contains name = true := by
  induction l generalizing k with
  | nil => cases h
  | cons p rest ih =>
    unfold findStat at h
    by_cases hc : p.props.contains name = true
    · simp only [hc, if_true, Option.some.injEq, Prod.mk.injEq] at h
      obtain ⟨rfl, rfl⟩ := h
      exact ⟨Nat.le_refl _, by simp, hc⟩
    · simp only [hc, Bool.false_eq_true, if_false] at h
      have := ih (k + 1) h
      refine ⟨by omega, ?_, this.2.2⟩
      have h1 : i - k = (i - (k + 1)) + 1 := by omega
      rw [h1, List.getElem?_cons_succ]; exact this.2.1

/-- a value is only ever taken from a 200 propstat that lists the property, of a response that is not itself failed:
    a property or resource reported with a non-success status never comes out as data -/
theorem C14_value_only_from_success (r : Resp) (name : String) (i : Nat) (h : decodeProp r name = .value i) :
    respErr r = none ∧ ∃ ps, r.propstats[i]? = some ps ∧ ps.status = 200 ∧ ps.props.contains name = true := by
  unfold decodeProp at h
  cases he : respErr r with
  | some c => simp [he] at h
  | none =>
    simp only [he] at h
    cases hf : findStat name r.propstats 0 with
    | none => simp [hf] at h
    | some ips =>
      obtain ⟨j, ps⟩ := ips
      simp only [hf] at h
      by_cases hs : ps.status ≠ 200
      · simp [hs] at h
      · simp only [hs, if_false, PropOut.value.injEq] at h
        subst h
        have := findStat_spec name r.propstats 0 j ps hf
        exact ⟨rfl, ps, by simpa using this.2.1, Decidable.not_not.mp hs, this.2.2⟩

/-- a failed response fails every property of it, with the response's code -/
theorem C14_failed_response (r : Resp) (c : Nat) (h : r.status = some c) (hc : c / 100 ≠ 2) (name : String) :
    decodeProp r name = .http c ∧ (∃ p, respPath r = .http c p) := by
  have he : respErr r = some c := by unfold respErr; simp [h, hc]
  constructor
  · unfold decodeProp; simp [he]
  · unfold respPath; simp only [he]
    split <;> first | exact ⟨_, rfl⟩ | simp_all

/-- the DAV:error element of a failed response travels inside the error, with or without a description -/
theorem C14_failed_response_carries_error_element (r : Resp) (h : r.hasError = true) : respWrapped r = .dav := by
  unfold respWrapped; simp [h]

/-- a property listed under a non-200 propstat is an error carrying that propstat's code -/
theorem C14_failed_propstat (r : Resp) (name : String) (i : Nat) (ps : PropStat) (he : respErr r = none)
    (hf : findStat name r.propstats 0 = some (i, ps)) (hs : ps.status ≠ 200) : decodeProp r name = .http ps.status := by
  unfold decodeProp; simp [he, hf, hs]

/-- sync-collection: a resource reported 404 is a deletion, any other failed resource fails the call, and a failed
    resource is never reported as updated -/
theorem C14_sync_classification (reqPath : String) (r : Resp) :
    (∀ c, respErr r = some c → (syncOne reqPath r = .fail ∨ ∃ p, syncOne reqPath r = .deleted p)) ∧
    (∀ h, r.hrefs = [h] → respErr r = some 404 → syncOne reqPath r = .deleted h) ∧
    (∀ p, syncOne reqPath r = .updated p → respErr r = none ∧ r.hrefs = [p]) := by
  have hpath : ∀ c, respErr r = some c → ∃ p, respPath r = .http c p ∧ (∀ h, r.hrefs = [h] → p = h) := by
    intro c hc
    unfold respPath
    simp only [hc]
    cases hh : r.hrefs with
    | nil => exact ⟨"", rfl, fun h hh' => by cases hh'⟩
    | cons a rest =>
      cases rest with
      | nil => exact ⟨a, rfl, fun h hh' => by simp at hh'; exact hh'⟩
      | cons b rest' => exact ⟨"", rfl, fun h hh' => by simp at hh'⟩
  refine ⟨?_, ?_, ?_⟩
  · intro c hc
    obtain ⟨p, hp, _⟩ := hpath c hc
    unfold syncOne; rw [hp]; simp only []
    by_cases h4 : c = 404
    · exact Or.inr ⟨p, by simp [h4]⟩
    · exact Or.inl (by simp [h4])
  · intro h hh he
    obtain ⟨p, hp, hph⟩ := hpath 404 he
    unfold syncOne; rw [hp]; simp [hph h hh]
  · intro p hp
    cases he : respErr r with
    | some c =>
      obtain ⟨q, hq, _⟩ := hpath c he
      unfold syncOne at hp; rw [hq] at hp; simp only [] at hp
      by_cases h4 : c = 404 <;> simp [h4] at hp
    | none =>
      refine ⟨rfl, ?_⟩
      unfold syncOne respPath at hp
      simp only [he] at hp
      cases hh : r.hrefs with
      | nil => simp [hh] at hp
      | cons a rest =>
        cases rest with
        | nil =>
          simp only [hh] at hp
          split at hp
          · cases hp
          · split at hp
            · simp only [SyncOut.updated.injEq] at hp; subst hp; rfl
            · cases hp
        | cons b rest' => simp [hh] at hp

/-- `PropFindFlat` hands out a response only when the multi-status holds exactly one -/
theorem C14_flat (rs : List Resp) (r : Resp) : flat rs = some r ↔ rs = [r] := by
  unfold flat
  constructor
  · intro h; split at h <;> simp_all
  · intro h; subst h; rfl

-- non-vacuity -------------------------------------------------------------------------------------------------------------------

example : decodeProp { hrefs := ["/a"], status := none, propstats := [⟨404, ["getetag"]⟩, ⟨200, ["getetag", "displayname"]⟩] } "getetag" = .http 404 := by decide
example : decodeProp { hrefs := ["/a"], status := none, propstats := [⟨404, ["getetag"]⟩, ⟨200, ["displayname"]⟩] } "displayname" = .value 1 := by decide
example : syncOne "/ab/" { hrefs := ["/ab/x.vcf"], status := some 404, propstats := [] } = .deleted "/ab/x.vcf" := by decide
example : syncOne "/ab/" { hrefs := ["/ab/x.vcf"], status := none, propstats := [⟨200, ["getetag"]⟩] } = .updated "/ab/x.vcf" := by decide
example : syncOne "/ab/" { hrefs := ["/ab/x.vcf"], status := none, propstats := [⟨403, ["getetag"]⟩] } = .fail := by decide
example : respWrapped { hrefs := ["/a"], status := some 423, propstats := [], hasError := true, hasDesc := true } = .dav := by decide
example : doOut 403 .xml .davError = .http 403 .dav ∧ doOut 199 .absent .blank = .http 199 .nothing ∧ doOut 204 .bad .garbage = .ok := by decide

end GoWebdav.Props.C14
