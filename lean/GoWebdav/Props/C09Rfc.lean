import GoWebdav.Lemmas.CarddavRead
import GoWebdav.Lemmas.CarddavAgree
import GoWebdav.Lemmas.CarddavNoise
import GoWebdav.Props.C09Full
/-!
# C09, client → wire in RFC 6352 form — against an independent strict reader

`Spec.CarddavWire` is a strict reader of the RFC 6352 DTD (namespaces, element order, declared attributes and
enumeration values are its own literals).  For EVERY expressible query, what the client writes is accepted by that
reader and read to the request the caller expressed; on those documents the server's decoder and the strict reader
agree.  No bound on the number of filters, text-matches, parameters, properties, hrefs, or on the limit.
-/
namespace GoWebdav.Props.C09
open GoWebdav GoWebdav.Std.Xml GoWebdav.Impl.CarddavWire GoWebdav.Spec.CarddavWire GoWebdav.Lemmas.CarddavWire
open GoWebdav.Lemmas.CarddavRead

def exceptToOption {α : Type} : Except Err α → Option α
  | .ok a => some a
  | .error _ => none

/-- the client's addressbook-query is an RFC 6352 document denoting the caller's query: any number of prop-filters with
    any number of text-matches (any text, match type, negation) and param-filters, is-not-defined at both levels, both
    tests, all-properties or any property names, and ANY positive limit (the strict reader has no 64-bit bound) -/
theorem C09_client_query_is_rfc (q : Query) (h : Expressible q) :
    (exceptToOption (encodeQuery q)).bind readQuery = some (denotes q) := by
  rw [encodeQuery_ok q h]
  exact readQuery_queryNode q h

/-- on everything the client can send, the server's decoder and the strict RFC reader agree -/
theorem C09_server_agrees_with_rfc_reader (q : Query) (h : Expressible q) (hlim : q.limit < 9223372036854775808) (n : Node)
    (hn : encodeQuery q = .ok n) : decodeQuery n = .ok (readQuery n) := by
  rw [encodeQuery_ok q h] at hn
  injection hn with hn
  subst hn
  rw [readQuery_queryNode q h, decodeQuery_queryNode q h hlim]

/-- addressbook-multiget: the property request first, then the hrefs in order (the request path when none is given),
    read by the strict reader to the caller's request; the hypothesis is the href round trip of the paths sent (C16) -/
theorem C09_client_multiget_is_rfc (reqPath : String) (escape : String → String) (unescape : String → Option String) (m : MultiGet)
    (hesc : ∀ p ∈ (if m.paths.isEmpty then [reqPath] else m.paths), unescape (escape p) = some p) :
    readMultiGet unescape (encodeMultiGet reqPath escape m) =
      some ⟨m.allProp, if m.allProp then [] else m.props, if m.paths.isEmpty then [reqPath] else m.paths⟩ :=
  readMultiGet_enc reqPath escape unescape m hesc

/-- wire → backend for EVERY RFC-conformant document — every tree the strict reader accepts, whoever wrote it and
    whichever of the DTD's options it uses (DAV:allprop / DAV:propname / DAV:prop or none, explicit default attributes,
    collation, content-type / version on address-data, novalue on prop, any number and nesting of filters): the server
    hands the backend exactly the query the document denotes.  The bound is that of a Go `int`. -/
theorem C09_rfc_document_reaches_backend (n : Node) (q : Query) (h : readQuery n = some q)
    (hlim : q.limit < 9223372036854775808) : decodeQuery n = .ok (some q) :=
  GoWebdav.Lemmas.CarddavAgree.decodeQuery_of_read n q h hlim

/-- the same for every addressbook-multiget document the strict reader accepts (the hrefs in document order) -/
theorem C09_rfc_multiget_reaches_backend (unescape : String → Option String) (n : Node) (m : MultiGet)
    (h : readMultiGet unescape n = some m) : decodeMultiGet unescape n = .ok m :=
  GoWebdav.Lemmas.CarddavAgree.decodeMultiGet_of_read unescape n m h

/-- a conformant document the library's own client never writes (DAV:propname first, explicit default attributes, a
    collation, versioned address-data with novalue) meets the hypothesis -/
def foreignDoc : Node :=
  el "addressbook-query" []
    [dav "propname" [],
     el "filter" [att "test" "anyof"]
       [el "prop-filter" [att "name" "EMAIL", att "test" "allof"]
          [el "text-match" [att "collation" "i;unicode-casemap", att "negate-condition" "no", att "match-type" "contains"] [.text " x "],
           el "param-filter" [att "name" "TYPE"] [el "text-match" [att "match-type" "equals"] [.text "home"]]]],
     el "limit" [] [el "nresults" [] [.text "25"]]]

example : readQuery foreignDoc = some ⟨false, [], "anyof", [⟨"EMAIL", "allof", false, [⟨" x ", false, "contains"⟩],
    [⟨"TYPE", false, some ⟨"home", false, "equals"⟩⟩]⟩], 25⟩ := by decide
example : decodeQuery foreignDoc = .ok (some ⟨false, [], "anyof", [⟨"EMAIL", "allof", false, [⟨" x ", false, "contains"⟩],
    [⟨"TYPE", false, some ⟨"home", false, "equals"⟩⟩]⟩], 25⟩) := by decide

/-- the server's decoder does not see insignificant content — comments, and white space between the elements of an
    element-content model — anywhere in ANY document (the character data of text-match, nresults and href is left
    alone: there white space is data) -/
theorem C09_decoder_ignores_insignificant_content (n : Node) :
    decodeQuery (Spec.XmlNoise.clean Lemmas.CarddavNoise.pc n) = decodeQuery n :=
  Lemmas.CarddavNoise.decodeQuery_clean n

/-- the same for multiget documents -/
theorem C09_multiget_decoder_ignores_insignificant_content (unescape : String → Option String) (n : Node) :
    decodeMultiGet unescape (Spec.XmlNoise.clean Lemmas.CarddavNoise.pc n) = decodeMultiGet unescape n :=
  Lemmas.CarddavNoise.decodeMultiGet_clean unescape n

/-- …hence every document that is RFC-conformant once that content is set aside (pretty-printed, commented) reaches the
    backend as the query it denotes -/
theorem C09_rfc_document_reaches_backend_lexical (n : Node) (q : Query)
    (h : readQuery (Spec.XmlNoise.clean Lemmas.CarddavNoise.pc n) = some q) (hlim : q.limit < 9223372036854775808) :
    decodeQuery n = .ok (some q) :=
  Lemmas.CarddavNoise.decodeQuery_of_read_clean n q h hlim

/-- a pretty-printed, commented spelling of a query whose text-match text is white space only: the indentation goes,
    the match text stays -/
def prettyDoc : Node :=
  el "addressbook-query" []
    [.text "\n  ", .comment "which properties", dav "prop" [.text "\n    ", el "address-data" [] [.text " ", el "allprop" [] [], .text " "], .text "\n  "],
     .text "\n  ", el "filter" []
       [.text "\n    ", el "prop-filter" [att "name" "NOTE"] [.text "\n      ", el "text-match" [att "match-type" "equals"] [.text "  "], .text "\n    "],
        .text "\n  "],
     .text "\n"]

example : readQuery (Spec.XmlNoise.clean Lemmas.CarddavNoise.pc prettyDoc) =
    some ⟨true, [], "", [⟨"NOTE", "", false, [⟨"  ", false, "equals"⟩], []⟩], 0⟩ := by decide
example : readQuery prettyDoc = none := by decide

/-- the strict reader is strict: the same query with the limit in the DAV: namespace, a filter before the property
    request, an undeclared attribute, or an enumeration value outside the DTD is refused -/
example : readQuery (el "addressbook-query" [] [encPropReq true [], el "filter" [] [], .elem ⟨"DAV:", "limit"⟩ [] [el "nresults" [] [.text "7"]]]) = none := by decide
example : readQuery (el "addressbook-query" [] [el "filter" [] [], encPropReq true []]) = none := by decide
example : readQuery (el "addressbook-query" [] [encPropReq true [], el "filter" [att "mode" "x"] []]) = none := by decide
example : readQuery (el "addressbook-query" [] [encPropReq true [], el "filter" [att "test" "oneof"] []]) = none := by decide
example : readQuery (el "addressbook-query" [] [encPropReq true [], el "filter" [] [el "prop-filter" [att "name" "FN"] [paramNode ⟨"TYPE", false, none⟩, encTextMatch ⟨"x", false, ""⟩]]]) = none := by decide
/-- …and reads the witness query of `Props/C09.lean` -/
example : (exceptToOption (encodeQuery exQuery)).bind readQuery = some (denotes exQuery) := by decide

end GoWebdav.Props.C09
