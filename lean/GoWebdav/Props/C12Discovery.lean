import GoWebdav.Impl.Discovery
import GoWebdav.Props.C16
/-!
C12, the discovery sentence: "the client's discovery chain (well-known redirect, current-user-principal, home set,
collections) returns exactly the backend's paths" — for EVERY principal, home-set and collection path a backend may
name (any bytes: spaces, `?`, `#`, `%`, non-ASCII …), as long as it is an addressable absolute path (begins with one
`/`, the domain of hrefs in C16), and for every number of collections.
-/
namespace GoWebdav.Props.C12
open GoWebdav GoWebdav.Impl.Codec GoWebdav.Impl.Discovery

/-- an absolute path whose first segment is not empty (what a backend may name; `//x` would be read as a host) -/
def Addressable (p : Bytes) : Prop := ∃ q, p = 47 :: q ∧ q.head? ≠ some 47

theorem readHref_encode (p : Bytes) (h : Addressable p) : readHref (hrefEncode p) = some p := by
  obtain ⟨q, rfl, hq⟩ := h
  simp [readHref, Props.C16.C16_href_roundtrip q hq]

theorem mapM_readHref_encode (cs : List Bytes) (h : ∀ c ∈ cs, Addressable c) :
    (cs.map hrefEncode).mapM readHref = some cs := by
  induction cs with
  | nil => rfl
  | cons c cs ih =>
    have hc := readHref_encode c (h c (by simp))
    have hcs := ih (fun x hx => h x (by simp [hx]))
    simp [List.mapM_cons, hc, hcs]

/-- the whole chain, every backend: the client ends up with exactly the paths the backend named -/
theorem C12_discovery_chain (b : Backend) (hp : Addressable b.principal) (hh : Addressable b.homeSet)
    (hc : ∀ c ∈ b.collections, Addressable c) :
    discover (serve b) = some (b.principal, b.principal, b.homeSet, b.collections) := by
  simp [discover, serve, readHref_encode _ hp, readHref_encode _ hh, mapM_readHref_encode _ hc]

/-- … and the last link of the chain, the objects of a collection (`QueryCalendar`, `MultiGetCalendar`, a Depth 1
    listing — one `response/href` per object, read with `resp.Path()`): every list of addressable object paths comes
    back as it is, in order -/
theorem C12_object_paths_round_trip (objects : List Bytes) (h : ∀ o ∈ objects, Addressable o) :
    (objects.map hrefEncode).mapM readHref = some objects := mapM_readHref_encode objects h

/-- why the redirect must be escaped (the defect repaired by 1b8f3d2): handed over raw, the principal `/w?x/` is
    announced as a reference whose path is `/w` -/
theorem C12_raw_location_loses_the_principal :
    (discover (serveRawLocation { principal := [47, 119, 63, 120, 47], homeSet := [47, 119, 63, 120, 47, 104, 47], collections := [] })).map (·.1)
      = some [47, 119] := by decide

-- non-vacuity: a backend with awkward names satisfies the hypotheses
-- ("/s d/v/w?x0/")
example : Addressable [47, 115, 32, 100, 47, 118, 47, 119, 63, 120, 48, 47] :=
  ⟨[115, 32, 100, 47, 118, 47, 119, 63, 120, 48, 47], rfl, by decide⟩

end GoWebdav.Props.C12
