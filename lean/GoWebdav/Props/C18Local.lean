import GoWebdav.Props.C18Frame
/-!
# C18, locality part — a request's answer and effect depend only on the subtrees it addresses

Over the file-server model (`Impl.Webdav.step`, tied by family `fsreq`).  `reads r` is what a request can look at:
everything below its target and (COPY / MOVE) below its destination — its `footprint` — plus the two parent
collections.  Two trees that agree on `reads r` give the same response, and wherever they also agree on a path they
still agree on it afterwards (`step_local`).  With the frame theorem (`C18_frame`: nothing outside the footprint
changes) this yields the logic half of "concurrent requests that touch disjoint resources each produce exactly the
response and effect they produce when run alone":

* `C18_as_if_alone`: after any request `r1` whose footprint avoids `reads r2`, `r2` gets the response it gets on the
  original tree, and leaves every path outside `r1`'s footprint exactly as it leaves it when run alone;
* `C18_disjoint_commute`: two such requests, in either order, end in the same tree and get the same two responses —
  whatever schedule a concurrent run picks, the outcome is that of running them one at a time, in any order.

A PROPFIND's multi-status lists its members in the order the tree holds them, so responses are compared with the
member lists as sets (`RespEq`).
-/
namespace GoWebdav.Props.C18
open GoWebdav GoWebdav.Std.Path GoWebdav.Std.Posix GoWebdav.Impl.Path GoWebdav.Impl.Webdav GoWebdav.Lemmas.Webdav

/-- the parent collection of `p` is `q` (the root has none inside the served tree) -/
def parentIs (p q : FPath) : Bool := p != [] && q == p.dropLast

/-- what a request can look at: its footprint and the parent collections of target and destination -/
def reads (r : Request) (q : FPath) : Bool :=
  footprint r q ||
  (match localPath [] r.path with
   | .ok p => parentIs p q
   | .error _ => false) ||
  (match r.dest with
   | .path d => (match localPath [] d with | .ok dp => parentIs dp q | .error _ => false)
   | _ => false)

def AgreeOn (r : Request) (t t' : FS) : Prop := ∀ q, reads r q = true → lookup t q = lookup t' q

/-- same response; the members of a multi-status compared as a set -/
def RespEq (a b : Response) : Prop := { a with multi := [] } = { b with multi := [] } ∧ ∀ x, x ∈ a.multi ↔ x ∈ b.multi

theorem RespEq.rfl' (a : Response) : RespEq a a := ⟨rfl, fun _ => Iff.rfl⟩
theorem RespEq.of_eq {a b : Response} (h : a = b) : RespEq a b := h ▸ RespEq.rfl' a
theorem RespEq.symm {a b : Response} (h : RespEq a b) : RespEq b a := ⟨h.1.symm, fun x => (h.2 x).symm⟩
theorem RespEq.trans {a b c : Response} (h1 : RespEq a b) (h2 : RespEq b c) : RespEq a c :=
  ⟨h1.1.trans h2.1, fun x => (h1.2 x).trans (h2.2 x)⟩

/-- what a handler needs of two trees at a target `p`: same entries at and below `p`, same parent collection -/
structure AgreeAt (t t' : FS) (p : FPath) : Prop where
  below : ∀ q, p.isPrefixOf q = true → lookup t q = lookup t' q
  parent : p ≠ [] → lookup t p.dropLast = lookup t' p.dropLast

theorem AgreeAt.self {t t' : FS} {p : FPath} (h : AgreeAt t t' p) : lookup t p = lookup t' p := h.below p (prefix_self p)

theorem AgreeAt.parentOK {t t' : FS} {p : FPath} (h : AgreeAt t t' p) : parentOK t p = parentOK t' p := by
  unfold Std.Posix.parentOK
  cases p with
  | nil => rfl
  | cons a as => simp only []; rw [h.parent (by simp)]

theorem agreeAt_target (r : Request) (t t' : FS) (h : AgreeOn r t t') (p : FPath) (hp : localPath [] r.path = .ok p) :
    AgreeAt t t' p := by
  constructor
  · intro q hq
    apply h q
    unfold reads footprint
    simp [hp, hq]
  · intro hne
    apply h
    unfold reads
    have : parentIs p p.dropLast = true := by simp [parentIs, hne]
    simp [hp, this]

theorem agreeAt_dest (r : Request) (t t' : FS) (h : AgreeOn r t t') (d : Bytes) (hd : r.dest = .path d) (dp : FPath)
    (hp : localPath [] d = .ok dp) : AgreeAt t t' dp := by
  constructor
  · intro q hq
    apply h q
    unfold reads footprint
    simp [hd, hp, hq]
  · intro hne
    apply h
    unfold reads
    have : parentIs dp dp.dropLast = true := by simp [parentIs, hne]
    simp [hd, hp, this]

-- read-only handlers -----------------------------------------------------------------------------------------------------------------

theorem optionsResp_local (t t' : FS) (r : Request) (h : ∀ p, localPath [] r.path = .ok p → lookup t p = lookup t' p) :
    optionsResp t r = optionsResp t' r := by
  unfold optionsResp
  cases hp : localPath [] r.path with
  | error e => rfl
  | ok p => simp only [h p hp]

theorem headGetResp_local (t t' : FS) (r : Request) (h : ∀ p, localPath [] r.path = .ok p → lookup t p = lookup t' p) :
    headGetResp t r = headGetResp t' r := by
  unfold headGetResp
  cases hp : localPath [] r.path with
  | error e => rfl
  | ok p => simp only [h p hp]

-- PROPFIND: the members below the target are the same set ------------------------------------------------------------------------

theorem mem_paths (t : FS) (q : FPath) : q ∈ paths t ↔ (lookup t q).isSome = true := by
  unfold paths
  simp only [List.mem_filter, List.mem_eraseDups]
  constructor
  · exact fun h => h.2
  · intro h
    refine ⟨?_, h⟩
    unfold lookup at h
    cases hf : t.find? (fun x => x.1 == q) with
    | none => simp [hf] at h
    | some x =>
      have hm := List.mem_of_find?_eq_some hf
      have hx : x.1 = q := by simpa using List.find?_some hf
      exact List.mem_map.mpr ⟨x, hm, hx⟩

theorem propfindResp_local (t t' : FS) (r : Request)
    (h : ∀ p, localPath [] r.path = .ok p → ∀ q, p.isPrefixOf q = true → lookup t q = lookup t' q) :
    RespEq (propfindResp t r) (propfindResp t' r) := by
  unfold propfindResp
  cases hb : bodyForm r with
  | none => exact RespEq.rfl' _
  | some form =>
    simp only []
    cases hd : (if r.depth = "" then some (-1) else Generated.parseDepth r.depth) with
    | none => exact RespEq.rfl' _
    | some depth =>
      simp only []
      cases hp : localPath [] r.path with
      | error e => exact RespEq.rfl' _
      | ok p =>
        simp only []
        have hbelow := h p hp
        rw [← hbelow p (prefix_self p)]
        cases hl : lookup t p with
        | none => exact RespEq.rfl' _
        | some e =>
          simp only []
          by_cases hnf : form = .noform
          · simp only [hnf, if_true]; exact RespEq.rfl' _
          · simp only [hnf, if_false]
            by_cases hdeep : (decide (depth ≠ 0) && isDir e) = true
            · simp only [hdeep, if_true]
              refine ⟨rfl, ?_⟩

              intro x
              simp only [List.mem_filterMap, List.mem_filter, mem_paths]
              constructor
              · rintro ⟨q, ⟨hq1, hq2⟩, hq3⟩
                have hpre : p.isPrefixOf q = true := by
                  by_cases h1 : depth = 1
                  · simp only [h1, if_true, decide_eq_true_eq, Bool.or_eq_true, Bool.and_eq_true] at hq2
                    rcases hq2 with rfl | ⟨_, hh⟩
                    · exact prefix_self _
                    · exact hh
                  · simpa [h1] using hq2
                have := hbelow q hpre
                exact ⟨q, ⟨by rw [← this]; exact hq1, hq2⟩, by rw [← this]; exact hq3⟩
              · rintro ⟨q, ⟨hq1, hq2⟩, hq3⟩
                have hpre : p.isPrefixOf q = true := by
                  by_cases h1 : depth = 1
                  · simp only [h1, if_true, decide_eq_true_eq, Bool.or_eq_true, Bool.and_eq_true] at hq2
                    rcases hq2 with rfl | ⟨_, hh⟩
                    · exact prefix_self _
                    · exact hh
                  · simpa [h1] using hq2
                have := hbelow q hpre
                exact ⟨q, ⟨by rw [this]; exact hq1, hq2⟩, by rw [this]; exact hq3⟩
            · simp only [hdeep, Bool.false_eq_true, if_false]; exact RespEq.rfl' _

-- the mutating handlers --------------------------------------------------------------------------------------------------------------

/-- same response, and agreement at a path is kept -/
def LocalOut (a b : FS × Response) (t t' : FS) : Prop :=
  a.2 = b.2 ∧ ∀ q, lookup t q = lookup t' q → lookup a.1 q = lookup b.1 q

theorem LocalOut.same (t t' : FS) (resp : Response) : LocalOut (t, resp) (t', resp) t t' := ⟨rfl, fun _ h => h⟩

theorem lookup_set_congr (t t' : FS) (p q : FPath) (e : Entry) (h : lookup t q = lookup t' q) :
    lookup (Std.Posix.set t p e) q = lookup (Std.Posix.set t' p e) q := by
  rw [lookup_set, lookup_set, h]

theorem lookup_removeAll_congr (t t' : FS) (p q : FPath) (h : lookup t q = lookup t' q) :
    lookup (removeAll t p) q = lookup (removeAll t' p) q := by
  rw [lookup_removeAll, lookup_removeAll, h]

theorem put_local (t t' : FS) (r : Request) (h : ∀ p, localPath [] r.path = .ok p → AgreeAt t t' p) :
    LocalOut (put t r) (put t' r) t t' := by
  unfold put
  cases hp : localPath [] r.path with
  | error e => exact LocalOut.same ..
  | ok p =>
    have ha := h p hp
    simp only [ha.self, ha.parentOK]
    by_cases h1 : lookup t' p = some .dir
    · simp only [h1, if_true]; exact LocalOut.same ..
    · simp only [h1, if_false]
      cases hc : checkCond (lookup t' p).isSome r.ifMatch r.ifNoneMatch with
      | badRequest => exact LocalOut.same ..
      | preconditionFailed => exact LocalOut.same ..
      | proceed =>
        simp only []
        by_cases hpar : (!parentOK t' p) = true
        · simp only [hpar, if_true]; exact LocalOut.same ..
        · simp only [hpar, Bool.false_eq_true, if_false]
          cases hb : readBody r with
          | error u => exact ⟨rfl, fun q hq => lookup_removeAll_congr t t' p q hq⟩
          | ok c => exact ⟨rfl, fun q hq => lookup_set_congr t t' p q _ hq⟩

theorem delete_local (t t' : FS) (r : Request) (h : ∀ p, localPath [] r.path = .ok p → AgreeAt t t' p) :
    LocalOut (delete t r) (delete t' r) t t' := by
  unfold delete
  cases hp : localPath [] r.path with
  | error e => exact LocalOut.same ..
  | ok p =>
    have ha := h p hp
    simp only [ha.self]
    cases hl : lookup t' p with
    | none => exact LocalOut.same ..
    | some e =>
      simp only []
      cases hc : checkCond true r.ifMatch r.ifNoneMatch with
      | badRequest => exact LocalOut.same ..
      | preconditionFailed => exact LocalOut.same ..
      | proceed => exact ⟨rfl, fun q hq => lookup_removeAll_congr t t' p q hq⟩

theorem mkcol_local (t t' : FS) (r : Request) (h : ∀ p, localPath [] r.path = .ok p → AgreeAt t t' p) :
    LocalOut (mkcol t r) (mkcol t' r) t t' := by
  unfold mkcol
  by_cases hct : r.ctypeSet = true
  · simp only [hct, if_true]; exact LocalOut.same ..
  · simp only [hct, Bool.false_eq_true, if_false]
    cases hp : localPath [] r.path with
    | error e => exact LocalOut.same ..
    | ok p =>
      have ha := h p hp
      simp only [ha.self, ha.parentOK]
      by_cases h1 : (lookup t' p).isSome = true
      · simp only [h1, if_true]; exact LocalOut.same ..
      · simp only [h1, Bool.false_eq_true, if_false]
        by_cases hpar : (!parentOK t' p) = true
        · simp only [hpar, if_true]; exact LocalOut.same ..
        · simp only [hpar, Bool.false_eq_true, if_false]
          exact ⟨rfl, fun q hq => lookup_set_congr t t' p q _ hq⟩

theorem parentOK_congr (t1 t1' : FS) (p : FPath) (h : p ≠ [] → lookup t1 p.dropLast = lookup t1' p.dropLast) :
    parentOK t1 p = parentOK t1' p := by
  unfold Std.Posix.parentOK
  cases p with
  | nil => rfl
  | cons a as => simp only []; rw [h (by simp)]

theorem lookup_graft_congr (t1 t1' : FS) (src dst q : FPath) (hs : ∀ x, lookup t1 (src ++ x) = lookup t1' (src ++ x))
    (hq : lookup t1 q = lookup t1' q) : lookup (graft t1 src dst) q = lookup (graft t1' src dst) q := by
  unfold graft; rw [lookup_rebased_append, lookup_rebased_append, hs, hq]

theorem copyMove_local (t t' : FS) (isMove : Bool) (s d : Bytes) (rec ow : Bool)
    (hs : ∀ src, localPath [] s = .ok src → AgreeAt t t' src) (hd : ∀ dst, localPath [] d = .ok dst → AgreeAt t t' dst) :
    LocalOut (copyMove t isMove s d rec ow) (copyMove t' isMove s d rec ow) t t' := by
  unfold copyMove
  cases hls : localPath [] s with
  | error e => exact LocalOut.same ..
  | ok src =>
    cases hld : localPath [] d with
    | error e => exact LocalOut.same ..
    | ok dst =>
      have hsrc := hs src hls
      have hdst := hd dst hld
      simp only [hsrc.self, hdst.self]
      cases hl : lookup t' src with
      | none => exact LocalOut.same ..
      | some e =>
        simp only []
        by_cases hov : overlap src dst = true
        · simp only [hov, if_true]; exact LocalOut.same ..
        · simp only [hov, Bool.false_eq_true, if_false]
          by_cases hpre : ((lookup t' dst).isSome && !ow) = true
          · simp only [hpre, if_true]; exact LocalOut.same ..
          · simp only [hpre, Bool.false_eq_true, if_false]
            have key : ∀ t1 t1' : FS, (∀ x, lookup t1 (src ++ x) = lookup t1' (src ++ x)) →
                (dst ≠ [] → lookup t1 dst.dropLast = lookup t1' dst.dropLast) →
                (∀ q, lookup t q = lookup t' q → lookup t1 q = lookup t1' q) →
                LocalOut
                  (if (!parentOK t1 dst) = true then
                    (t1, err 409 (stripPaths (if isMove = true then OsErr.linkErr "rename" src dst "no such file or directory"
                      else OsErr.pathErr "mkdir" dst "no such file or directory")))
                  else
                    (if isMove = true then removeAll (graft t1 src dst) src
                     else if (rec || !isDir e) = true then graft t1 src dst else Std.Posix.set t1 dst Entry.dir,
                     ({ status := if (lookup t' dst).isSome = true then 204 else 201 } : Response)))
                  (if (!parentOK t1' dst) = true then
                    (t1', err 409 (stripPaths (if isMove = true then OsErr.linkErr "rename" src dst "no such file or directory"
                      else OsErr.pathErr "mkdir" dst "no such file or directory")))
                  else
                    (if isMove = true then removeAll (graft t1' src dst) src
                     else if (rec || !isDir e) = true then graft t1' src dst else Std.Posix.set t1' dst Entry.dir,
                     ({ status := if (lookup t' dst).isSome = true then 204 else 201 } : Response))) t t' := by
              intro t1 t1' hA hB hC
              rw [parentOK_congr t1 t1' dst hB]
              by_cases hpar : (!parentOK t1' dst) = true
              · simp only [hpar, if_true]; exact ⟨rfl, fun q hq => hC q hq⟩
              · simp only [hpar, Bool.false_eq_true, if_false]
                refine ⟨rfl, fun q hq => ?_⟩
                cases isMove
                · simp only [Bool.false_eq_true, if_false]
                  by_cases hr : (rec || !isDir e) = true
                  · simp only [hr, if_true]; exact lookup_graft_congr t1 t1' src dst q hA (hC q hq)
                  · simp only [hr, Bool.false_eq_true, if_false]; exact lookup_set_congr t1 t1' dst q _ (hC q hq)
                · simp only [if_true]
                  exact lookup_removeAll_congr _ _ src q (lookup_graft_congr t1 t1' src dst q hA (hC q hq))
            cases hex : (lookup t' dst).isSome with
            | false =>
              simp only [Bool.false_eq_true, if_false]
              have := key t t' (fun x => hsrc.below _ (by rw [List.isPrefixOf_iff_prefix]; exact List.prefix_append _ _))
                hdst.parent (fun q hq => hq)
              simpa [hex] using this
            | true =>
              simp only [if_true]
              have := key (removeAll t dst) (removeAll t' dst)
                (fun x => lookup_removeAll_congr t t' dst _ (hsrc.below _ (by rw [List.isPrefixOf_iff_prefix]; exact List.prefix_append _ _)))
                (fun hne => lookup_removeAll_congr t t' dst _ (hdst.parent hne))
                (fun q hq => lookup_removeAll_congr t t' dst q hq)
              simpa [hex] using this

theorem copyMoveHandler_local (t t' : FS) (r : Request) (h : AgreeOn r t t') :
    LocalOut (copyMoveHandler t r) (copyMoveHandler t' r) t t' := by
  unfold copyMoveHandler
  cases hdst : r.dest with
  | absent => exact LocalOut.same ..
  | unparsable => exact LocalOut.same ..
  | path dn =>
    simp only []
    have key : ∀ isMove rec ow, LocalOut (copyMove t isMove r.path dn rec ow) (copyMove t' isMove r.path dn rec ow) t t' :=
      fun isMove rec ow => copyMove_local t t' isMove r.path dn rec ow
        (fun src hs => agreeAt_target r t t' h src hs) (fun dst hd => agreeAt_dest r t t' h dn hdst dst hd)
    split
    · exact LocalOut.same ..
    · split
      · exact LocalOut.same ..
      · split
        · split
          · exact LocalOut.same ..
          · exact key _ _ _
        · split
          · exact LocalOut.same ..
          · exact key _ _ _

-- every request ------------------------------------------------------------------------------------------------------------------------

/-- locality: trees that agree on what a request can look at give the same response, and keep agreeing wherever they
    agreed — for every pair of trees and every request -/
theorem step_local (t t' : FS) (r : Request) (h : AgreeOn r t t') :
    RespEq (step t r).2 (step t' r).2 ∧ ∀ q, lookup t q = lookup t' q → lookup (step t r).1 q = lookup (step t' r).1 q := by
  have htarget : ∀ p, localPath [] r.path = .ok p → AgreeAt t t' p := fun p hp => agreeAt_target r t t' h p hp
  have hself : ∀ p, localPath [] r.path = .ok p → lookup t p = lookup t' p := fun p hp => (htarget p hp).self
  have lift : ∀ a b : FS × Response, LocalOut a b t t' → RespEq a.2 b.2 ∧ ∀ q, lookup t q = lookup t' q → lookup a.1 q = lookup b.1 q :=
    fun a b hl => ⟨RespEq.of_eq hl.1, hl.2⟩
  rw [step_eq, step_eq]
  by_cases h1 : r.method = "OPTIONS"
  · simp only [h1, if_true]
    exact ⟨RespEq.of_eq (optionsResp_local t t' r hself), fun q hq => hq⟩
  simp only [h1, if_false]
  by_cases h2 : r.method = "GET" ∨ r.method = "HEAD"
  · simp only [h2, if_true]
    exact ⟨RespEq.of_eq (headGetResp_local t t' r hself), fun q hq => hq⟩
  simp only [h2, if_false]
  by_cases h3 : r.method = "PUT"
  · simp only [h3, if_true]; exact lift _ _ (put_local t t' r htarget)
  simp only [h3, if_false]
  by_cases h4 : r.method = "DELETE"
  · simp only [h4, if_true]; exact lift _ _ (delete_local t t' r htarget)
  simp only [h4, if_false]
  by_cases h5 : r.method = "PROPFIND"
  · simp only [h5, if_true]
    exact ⟨propfindResp_local t t' r (fun p hp => (htarget p hp).below), fun q hq => hq⟩
  simp only [h5, if_false]
  by_cases h6 : r.method = "PROPPATCH"
  · simp only [h6, if_true]; exact ⟨RespEq.rfl' _, fun q hq => hq⟩
  simp only [h6, if_false]
  by_cases h7 : r.method = "MKCOL"
  · simp only [h7, if_true]; exact lift _ _ (mkcol_local t t' r htarget)
  simp only [h7, if_false]
  by_cases h8 : r.method = "COPY" ∨ r.method = "MOVE"
  · simp only [h8, if_true]; exact lift _ _ (copyMoveHandler_local t t' r h)
  simp only [h8, if_false]
  exact ⟨RespEq.rfl' _, fun q hq => hq⟩

theorem footprint_reads (r : Request) (q : FPath) (h : footprint r q = true) : reads r q = true := by
  unfold reads; simp [h]

/-- a request run after another one whose footprint avoids everything it can look at gets the response it gets
    alone, and leaves every path outside the other's footprint exactly as it leaves it when run alone -/
theorem C18_as_if_alone (t : FS) (r1 r2 : Request) (hdisj : ∀ q, footprint r1 q = true → reads r2 q = false) :
    RespEq (step (step t r1).1 r2).2 (step t r2).2 ∧
    ∀ q, footprint r1 q = false → lookup (step (step t r1).1 r2).1 q = lookup (step t r2).1 q := by
  have hagree : AgreeOn r2 (step t r1).1 t := by
    intro q hq
    apply C18_frame t r1 q
    cases hf : footprint r1 q with
    | false => rfl
    | true => rw [hdisj q hf] at hq; cases hq
  obtain ⟨h1, h2⟩ := step_local (step t r1).1 t r2 hagree
  exact ⟨h1, fun q hq => h2 q (C18_frame t r1 q hq)⟩

/-- two requests neither of which can look at what the other touches: in either order they get the same two
    responses and end in the same tree — the outcome of any schedule is that of running them one at a time -/
theorem C18_disjoint_commute (t : FS) (r1 r2 : Request)
    (h12 : ∀ q, footprint r1 q = true → reads r2 q = false) (h21 : ∀ q, footprint r2 q = true → reads r1 q = false) :
    RespEq (step (step t r1).1 r2).2 (step t r2).2 ∧ RespEq (step (step t r2).1 r1).2 (step t r1).2 ∧
    Same (step (step t r1).1 r2).1 (step (step t r2).1 r1).1 := by
  obtain ⟨ha1, ha2⟩ := C18_as_if_alone t r1 r2 h12
  obtain ⟨hb1, hb2⟩ := C18_as_if_alone t r2 r1 h21
  refine ⟨ha1, hb1, ?_⟩
  intro q
  cases hf1 : footprint r1 q with
  | true =>
    -- q is r1's: r2 does not touch it
    have hf2 : footprint r2 q = false := by
      cases hf : footprint r2 q with
      | false => rfl
      | true => have := h12 q hf1; rw [footprint_reads r2 q hf] at this; cases this
    rw [C18_frame (step t r1).1 r2 q hf2, hb2 q hf2]
  | false =>
    rw [ha2 q hf1]
    cases hf2 : footprint r2 q with
    | true => rw [C18_frame (step t r2).1 r1 q hf1]
    | false => rw [C18_frame t r2 q hf2, C18_frame (step t r2).1 r1 q hf1, C18_frame t r2 q hf2]

-- non-vacuity: PUT /a/x and DELETE /b/y under the root neither reads what the other touches
example : ∀ q, footprint { method := "PUT", path := [47, 97, 47, 120] } q = true →
    reads { method := "DELETE", path := [47, 98, 47, 121] } q = false := by
  intro q h
  have hp : localPath [] [47, 97, 47, 120] = .ok [[97], [120]] := by decide
  have hd : localPath [] [47, 98, 47, 121] = .ok [[98], [121]] := by decide
  unfold footprint at h
  simp only [hp, Bool.or_false] at h
  unfold reads footprint parentIs
  simp only [hd, Bool.or_false]
  rw [List.isPrefixOf_iff_prefix] at h
  obtain ⟨rest, rfl⟩ := h
  simp [List.isPrefixOf]

end GoWebdav.Props.C18
