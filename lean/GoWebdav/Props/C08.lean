import GoWebdav.Lemmas.CaldavRead
/-!
# C08 — CalDAV queries cross the wire without loss, in RFC 4791 form

Model: `Impl.CaldavWire` (client encoder and server decoder over namespace-expanded element trees, mirroring
caldav/client.go, caldav/server.go and the struct tags of caldav/elements.go).  Specification: `Spec.CaldavWire`, a
strict reader of the RFC 4791 request grammar that shares only the value types and `Std` with the model.

* client → wire: for EVERY query the grammar can express (filter trees of any shape and depth, every flag, arbitrary
  strings, instants of years 0–9999, any component/property selection), what the client sends is read by the strict
  RFC reader — right namespaces, names, attributes, child order — to exactly the caller's query;
* wire → backend: for EVERY query the server accepts, the server hands the backend exactly the query the client
  encoded (so nothing is dropped or altered end to end);
* the same two statements for calendar-multiget, hrefs in order;
* one level of lexical freedom is proved for the recursive element (comp-filter): noise among its children (text,
  comments, unknown elements) does not change what is decoded.  Prefixes, entities, CDATA, attribute order and noise
  at the other levels are below the tree model and are exercised by the independent writer of family `calwire`.

"Whatever the caller's time zone": instants are Unix seconds in the model; that the Go client converts any
`time.Time` to that instant's UTC text is the `.UTC()` call in `dateWithUTCTime.MarshalText`, tied by `calwire`
(five zones incl. odd offsets, sub-second parts) and proved for the text format itself in C16 (`parseCal ∘ fmtCal`).
-/
namespace GoWebdav.Props.C08
open GoWebdav GoWebdav.Std.Xml GoWebdav.Impl.Caldav GoWebdav.Impl.CaldavWire GoWebdav.Spec.CaldavWire
open GoWebdav.Lemmas.CaldavWire GoWebdav.Lemmas.CaldavRead

/-- client → wire, calendar-query: the strict RFC 4791 reader reads the client's document to the caller's query -/
theorem C08_client_query_is_rfc (q : Query) (h : Expressible q = true) : readQuery (encodeQuery q) = some q :=
  readQuery_encodeQuery q h

/-- client → wire → backend, calendar-query: the backend receives the caller's query -/
theorem C08_query_reaches_backend (q : Query) (h : Accepted q = true) : decodeQuery (encodeQuery q) = .ok q :=
  decodeQuery_encodeQuery q h

/-- the two readers agree on everything the client can send: the server is a correct RFC reader on that language -/
theorem C08_server_agrees_with_rfc_reader (q : Query) (h : Expressible q = true) :
    (decodeQuery (encodeQuery q)).toOption = readQuery (encodeQuery q) := by
  have ha : Accepted q = true := by
    unfold Expressible at h; simp only [Bool.and_eq_true] at h; exact h.1.1
  rw [C08_client_query_is_rfc q h, C08_query_reaches_backend q ha]; rfl

/-- client → wire, calendar-multiget: property request first, then the hrefs in order (the request path if none) -/
theorem C08_client_multiget_is_rfc (rp : String) (escape : String → String) (unescape : String → Option String)
    (m : MultiGet) (h : okData m.data = true) (hr : rfcData m.data = true)
    (hesc : ∀ p ∈ (if m.paths.isEmpty then [rp] else m.paths), unescape (escape p) = some p) :
    readMultiGet unescape (encodeMultiGet rp escape m) = some ⟨m.data, if m.paths.isEmpty then [rp] else m.paths⟩ :=
  readMultiGet_encodeMultiGet rp escape unescape m h hr hesc

/-- client → wire → backend, calendar-multiget (`unescape ∘ escape = id` is C16's href round trip) -/
theorem C08_multiget_reaches_backend (rp : String) (escape : String → String) (unescape : String → Option String)
    (m : MultiGet) (h : okData m.data = true)
    (hesc : ∀ p ∈ (if m.paths.isEmpty then [rp] else m.paths), unescape (escape p) = some p) :
    decodeMultiGet unescape (encodeMultiGet rp escape m) = .ok ⟨m.data, if m.paths.isEmpty then [rp] else m.paths⟩ :=
  decodeMultiGet_encodeMultiGet rp escape unescape m h hesc

-- each field has its own witness: the pieces, for every value -------------------------------------------------------------

/-- match text (blanks and metacharacters are characters like any other) and negate-condition -/
theorem C08_textMatch (t : TextMatch) : decTextMatch (encTextMatch t) = .ok t ∧ readTextMatch (encTextMatch t) = some t :=
  ⟨decTextMatch_enc t, readTextMatch_enc t⟩

/-- a time range with one or two bounds, as UTC instants to the second; an unset bound is not sent -/
theorem C08_timeRange (s e : Int) (hs : Std.Time.InRange s) (he : Std.Time.InRange e) (hne : ¬ (s = Z ∧ e = Z)) :
    encTimeRange s e = [el "time-range" (timeAttr "start" s ++ timeAttr "end" e) []] ∧
    readTimeRange (el "time-range" (timeAttr "start" s ++ timeAttr "end" e) []) = some (s, e) ∧
    decRange (el "time-range" (timeAttr "start" s ++ timeAttr "end" e) []) = .ok (s, e) :=
  ⟨by unfold encTimeRange; simp [hne], readTimeRange_enc s e hs he hne, decRange_enc "time-range" s e hs he⟩

theorem C08_unset_bound_not_sent (e : Int) : timeAttr "start" Z ++ timeAttr "end" e = timeAttr "end" e := by
  simp [timeAttr]

/-- is-not-defined at every level -/
theorem C08_isNotDefined_param (name : String) :
    decParamFilter (encParamFilter ⟨name, true, none⟩) = .ok ⟨name, true, none⟩ :=
  decParamFilter_enc _ (by simp [okParam])
theorem C08_isNotDefined_prop (name : String) :
    decPropFilter (encPropFilter ⟨name, true, Z, Z, none, []⟩) = .ok ⟨name, true, Z, Z, none, []⟩ :=
  decPropFilter_enc _ (by simp [okProp, inRangeB, Z])
theorem C08_isNotDefined_comp (name : String) :
    decCompFilter (encCompFilter (.mk name true Z Z [] [])) = .ok (.mk name true Z Z [] []) :=
  decCompFilter_enc _ (by simp [okCF, okCFs, inRangeB, Z])

/-- the requested component/property selection with its names, at any nesting depth -/
theorem C08_selection (c : CompReq) (h : okCR c = true) : decComp (encComp c) = .ok c ∧ readComp (encComp c) = some c :=
  ⟨decComp_enc c h, readComp_enc c h⟩

-- refusals -----------------------------------------------------------------------------------------------------------------

/-- the backend never receives is-not-defined combined with other conditions: such a document is refused (400) -/
theorem C08_ind_exclusive (q : QName) (attrs : List (QName × String)) (cs : List Node) (f : CompFilter)
    (h : decCompFilter (.elem q attrs cs) = .ok f) (hi : f.isNotDefined = true) :
    ∃ name, f = .mk name true Z Z [] [] := by
  simp only [decCompFilter, bind, Except.bind, pure, Except.pure] at h
  cases h1 : checkNs q nsCal with
  | error e => simp [h1] at h
  | ok u =>
    simp only [h1] at h
    cases h2 : decOptRange "time-range" cs with
    | error e => simp [h2] at h
    | ok tr =>
      simp only [h2] at h
      cases h3 : (pick "prop-filter" cs).mapM decPropFilter with
      | error e => simp [h3] at h
      | ok props =>
        simp only [h3] at h
        cases h4 : decCompFilters cs with
        | error e => simp [h4] at h
        | ok comps =>
          simp only [h4] at h
          split at h
          · cases h
          · rename_i hc
            cases h
            simp only [CompFilter.isNotDefined] at hi
            simp only [hi, true_and, not_or, Bool.not_eq_true, Option.isSome_eq_false_iff, Option.isNone_iff_eq_none,
              Bool.not_eq_eq_eq_not, Bool.not_true, Bool.not_eq_false', List.isEmpty_iff] at hc
            obtain ⟨htr, hp, hcm⟩ := hc
            have hp' : props = [] := by cases props <;> simp_all
            have hcm' : comps = [] := by cases comps <;> simp_all
            exact ⟨nameAttr attrs, by simp [htr, hp', hcm', hi]⟩

/-- a negate-condition other than yes/no is refused -/
theorem C08_invalid_negate_refused (v : String) (h1 : v ≠ "yes") (h2 : v ≠ "no") (cs : List Node) :
    decTextMatch (el "text-match" [att "negate-condition" v] cs) = .error .badRequest := by
  simp [decTextMatch, el, checkNs, decNegate, attr, att, Generated.caldavNegateParse, h1, h2, bind, Except.bind]

-- one level of lexical freedom, for the recursive element --------------------------------------------------------------------

theorem decCompFilters_pick (cs : List Node) : decCompFilters cs = decCompFilters (pick "comp-filter" cs) := by
  induction cs with
  | nil => rfl
  | cons n rest ih =>
    unfold pick at ih ⊢
    rw [List.filter_cons]
    cases hn : n.localIs "comp-filter"
    · simp only [Bool.false_eq_true, if_false]
      rw [decCompFilters]; simp only [hn, Bool.false_eq_true, if_false]; exact ih
    · simp only [if_true]
      rw [decCompFilters, decCompFilters]; simp only [hn, if_true, ih]

/-- whatever is added among the children of a comp-filter — white space, comments, unknown extension elements — and
    however the four kinds of children are interleaved, the same filter is decoded -/
theorem C08_compFilter_noise (q : QName) (attrs : List (QName × String)) (cs cs' : List Node)
    (h : ∀ loc ∈ ["is-not-defined", "time-range", "prop-filter", "comp-filter"], pick loc cs = pick loc cs') :
    decCompFilter (.elem q attrs cs) = decCompFilter (.elem q attrs cs') := by
  have h1 := h "is-not-defined" (by simp)
  have h2 := h "time-range" (by simp)
  have h3 := h "prop-filter" (by simp)
  have h4 := h "comp-filter" (by simp)
  simp only [decCompFilter, decOptRange, single, hasInd_eq, h1, h2, h3]
  rw [decCompFilters_pick cs, decCompFilters_pick cs', h4]

-- non-vacuity ----------------------------------------------------------------------------------------------------------------

/-- a query using every feature: nested comp-filters, is-not-defined at the three levels, a time range with one bound
    in another zone's instant, text-match with blanks and `<`, negation, a nested selection and an expansion range -/
def witness : Query :=
  { data := { comp := .mk "VCALENDAR" false ["VERSION"] false
                [.mk "VEVENT" false ["SUMMARY", "UID"] false [], .mk "VTIMEZONE" true [] true []],
              expand := some (1704067200, 1706745600) },
    filter := .mk "VCALENDAR" false Z Z []
      [.mk "VEVENT" false 1710066600 Z
          [⟨"SUMMARY", false, Z, Z, some ⟨" a<b ", true⟩, []⟩,
           ⟨"ATTENDEE", false, Z, Z, none, [⟨"PARTSTAT", false, some ⟨"NEEDS-ACTION", false⟩⟩, ⟨"CN", true, none⟩]⟩,
           ⟨"LOCATION", true, Z, Z, none, []⟩,
           ⟨"DTSTART", false, Z, 1710100000, none, []⟩]
          [.mk "VALARM" true Z Z [] []],
       .mk "VTODO" true Z Z [] []] }

theorem witness_expressible : Expressible witness = true := by
  simp [Expressible, Accepted, okData, okCR, okCRs, okCF, okCFs, okProp, okParam, rfcCF, rfcCFs, rfcProp, rfcData,
    inRangeB, witness, Z]

example : readQuery (encodeQuery witness) = some witness := C08_client_query_is_rfc witness witness_expressible

/-- the hypotheses of `C08_compFilter_noise` are met by a noisy, reordered variant of a real filter element -/
example : ∀ loc ∈ ["is-not-defined", "time-range", "prop-filter", "comp-filter"],
    pick loc [el "prop-filter" [att "name" "UID"] [], el "comp-filter" [att "name" "VALARM"] []] =
    pick loc [.text "\n  ", el "prop-filter" [att "name" "UID"] [], .comment " c ",
              .elem ⟨"urn:unknown", "extension"⟩ [] [], el "comp-filter" [att "name" "VALARM"] [], .text "\n"] := by
  intro loc hloc
  simp only [List.mem_cons, List.not_mem_nil, or_false] at hloc
  rcases hloc with rfl | rfl | rfl | rfl <;> simp [pick, el, Node.localIs, List.filter_cons]

end GoWebdav.Props.C08
