import GoWebdav.Props.C02
/-!
# C18, frame part — a request touches only the subtrees it addresses

Over the file-server model (`Impl.Webdav.step`, tied by family `fsreq`): whatever the tree and the request, every path
that lies neither below the request's target nor (for COPY and MOVE) below its destination holds after the request
exactly what it held before.  The handler keeps no state of its own (regenerated facts in `Expected.Concurrency`: no
package-level write, no field written after construction), so the tree is the only thing requests share; together
with this frame property, requests addressed to disjoint subtrees cannot influence each other's stored data — the
logic half of "concurrent requests that touch disjoint resources each produce the result they produce alone".  The
other half (no data race inside Go's runtime objects) is the race-detector run of family `concur`.
-/
namespace GoWebdav.Props.C18
open GoWebdav GoWebdav.Std.Path GoWebdav.Std.Posix GoWebdav.Impl.Path GoWebdav.Impl.Webdav GoWebdav.Lemmas.Webdav

/-- the paths a request may touch: everything below its target and, for COPY / MOVE, below its destination -/
def footprint (r : Request) (q : FPath) : Bool :=
  (match localPath [] r.path with
   | .ok p => p.isPrefixOf q
   | .error _ => false) ||
  (match r.dest with
   | .path d => (match localPath [] d with | .ok dp => dp.isPrefixOf q | .error _ => false)
   | _ => false)

theorem prefix_self (p : FPath) : p.isPrefixOf p = true := by
  rw [List.isPrefixOf_iff_prefix]; exact List.prefix_refl p

theorem lookup_set_frame (t : FS) (p q : FPath) (e : Entry) (h : p.isPrefixOf q = false) : lookup (set t p e) q = lookup t q := by
  have hne : p ≠ q := by
    intro heq; rw [heq, prefix_self] at h; cases h
  rw [lookup_set]; simp [hne]

theorem lookup_removeAll_frame (t : FS) (p q : FPath) (h : p.isPrefixOf q = false) : lookup (removeAll t p) q = lookup t q := by
  rw [lookup_removeAll]; simp [h]

theorem lookup_graft_frame (t : FS) (src dst q : FPath) (h : dst.isPrefixOf q = false) : lookup (graft t src dst) q = lookup t q := by
  unfold graft; rw [lookup_rebased_append]; simp [h]

theorem put_frame (t : FS) (r : Request) (q : FPath) (p : FPath) (hp : localPath [] r.path = .ok p)
    (h : p.isPrefixOf q = false) : lookup (put t r).1 q = lookup t q := by
  unfold put
  simp only [hp]
  split
  · rfl
  · split
    · rfl
    · rfl
    · split
      · rfl
      · split
        · exact lookup_removeAll_frame t p q h
        · exact lookup_set_frame t p q _ h

theorem delete_frame (t : FS) (r : Request) (q : FPath) (p : FPath) (hp : localPath [] r.path = .ok p)
    (h : p.isPrefixOf q = false) : lookup (delete t r).1 q = lookup t q := by
  unfold delete
  simp only [hp]
  split
  · rfl
  · split
    · rfl
    · rfl
    · exact lookup_removeAll_frame t p q h

theorem mkcol_frame (t : FS) (r : Request) (q : FPath) (p : FPath) (hp : localPath [] r.path = .ok p)
    (h : p.isPrefixOf q = false) : lookup (mkcol t r).1 q = lookup t q := by
  unfold mkcol
  split
  · rfl
  · simp only [hp]
    split
    · rfl
    · split
      · rfl
      · exact lookup_set_frame t p q _ h

theorem copyMove_frame (t : FS) (isMove : Bool) (s d : Bytes) (rec ow : Bool) (q src dst : FPath)
    (hs : localPath [] s = .ok src) (hd : localPath [] d = .ok dst)
    (h1 : src.isPrefixOf q = false) (h2 : dst.isPrefixOf q = false) :
    lookup (copyMove t isMove s d rec ow).1 q = lookup t q := by
  unfold copyMove
  simp only [hs, hd]
  cases hl : lookup t src with
  | none => rfl
  | some e =>
    simp only []
    by_cases hov : overlap src dst = true
    · simp only [hov, if_true]
    · simp only [hov, Bool.false_eq_true, if_false]
      by_cases hpre : ((lookup t dst).isSome && !ow) = true
      · simp only [hpre, if_true]
      · simp only [hpre, Bool.false_eq_true, if_false]
        -- the tree after an existing destination has been removed agrees with `t` at `q`
        have key : ∀ t1 : FS, lookup t1 q = lookup t q →
            lookup (if (!parentOK t1 dst) = true then
                (t1, err 409 (stripPaths (if isMove = true then OsErr.linkErr "rename" src dst "no such file or directory"
                  else OsErr.pathErr "mkdir" dst "no such file or directory")))
              else
                (if isMove = true then removeAll (graft t1 src dst) src
                 else if (rec || !isDir e) = true then graft t1 src dst else Std.Posix.set t1 dst Entry.dir,
                 ({ status := if (lookup t dst).isSome = true then 204 else 201 } : Response))).1 q = lookup t q := by
          intro t1 ht1
          by_cases hpar : (!parentOK t1 dst) = true
          · simp only [hpar, if_true]; exact ht1
          · simp only [hpar, Bool.false_eq_true, if_false]
            cases isMove
            · simp only [Bool.false_eq_true, if_false]
              by_cases hr : (rec || !isDir e) = true
              · simp only [hr, if_true]; rw [lookup_graft_frame _ src dst q h2]; exact ht1
              · simp only [hr, Bool.false_eq_true, if_false]; rw [lookup_set_frame _ dst q _ h2]; exact ht1
            · simp only [if_true]
              rw [lookup_removeAll_frame _ src q h1, lookup_graft_frame _ src dst q h2]; exact ht1
        cases hex : (lookup t dst).isSome with
        | false =>
          simp only [Bool.false_eq_true, if_false]
          have := key t rfl
          simpa [hex] using this
        | true =>
          simp only [if_true]
          have := key (removeAll t dst) (lookup_removeAll_frame t dst q h2)
          simpa [hex] using this

/-- every request leaves every path outside its footprint exactly as it was — for every tree and every request -/
theorem C18_frame (t : FS) (r : Request) (q : FPath) (h : footprint r q = false) :
    lookup (step t r).1 q = lookup t q := by
  unfold footprint at h
  simp only [Bool.or_eq_false_iff] at h
  obtain ⟨hp, hd⟩ := h
  rw [step_eq]
  split
  · rfl
  · split
    · rfl
    · split
      · cases hl : localPath [] r.path with
        | error e => unfold put; simp [hl]
        | ok p => rw [hl] at hp; exact put_frame t r q p hl hp
      · split
        · cases hl : localPath [] r.path with
          | error e => unfold delete; simp [hl]
          | ok p => rw [hl] at hp; exact delete_frame t r q p hl hp
        · split
          · rfl
          · split
            · rfl
            · split
              · cases hl : localPath [] r.path with
                | error e => unfold mkcol; split <;> simp [hl]
                | ok p => rw [hl] at hp; exact mkcol_frame t r q p hl hp
              · split
                · -- COPY / MOVE
                  unfold copyMoveHandler
                  cases hdst : r.dest with
                  | absent => rfl
                  | unparsable => rfl
                  | path dn =>
                    simp only [hdst] at hd ⊢
                    split
                    · rfl
                    · split
                      · rfl
                      · have key : ∀ isMove rec ow, lookup (copyMove t isMove r.path dn rec ow).1 q = lookup t q := by
                          intro isMove rec ow
                          cases hl : localPath [] r.path with
                          | error e => unfold copyMove; simp [hl]
                          | ok src =>
                            cases hl2 : localPath [] dn with
                            | error e => unfold copyMove; simp [hl, hl2]
                            | ok dst =>
                              rw [hl] at hp; rw [hl2] at hd
                              exact copyMove_frame t isMove r.path dn rec ow q src dst hl hl2 hp hd
                        split
                        · split
                          · rfl
                          · exact key _ _ _
                        · split
                          · rfl
                          · exact key _ _ _
                · rfl

/-- lifted to histories: a sequence of requests none of which has `q` in its footprint leaves `q` as it was -/
theorem C18_frame_history (t : FS) (rs : List Request) (q : FPath) (h : ∀ r ∈ rs, footprint r q = false) :
    lookup (run t rs).1 q = lookup t q := by
  induction rs generalizing t with
  | nil => rfl
  | cons r rs ih =>
    unfold run
    simp only []
    have h1 := C18_frame t r q (h r (by simp))
    have h2 := ih (step t r).1 (fun r' hr' => h r' (by simp [hr']))
    rw [show (run (step t r).1 rs).1 = (run (step t r).1 rs).1 from rfl] at h2
    rw [h2, h1]

-- non-vacuity: a PUT to /a/x does not have /b in its footprint
example : footprint { method := "PUT", path := [47, 97, 47, 120] } [[98]] = false := by decide

end GoWebdav.Props.C18
