import GoWebdav.Props.C10
import GoWebdav.Props.C05
import GoWebdav.Lemmas.Time
import GoWebdav.Std.Decimal
/-!
# C10 / C05 — the codec hypotheses discharged for the modelled standard-library codecs

The property-level theorems of C10 and C05 take, for each value, the round trip of that value's path, entity tag,
modification time and sizes as hypotheses.  Here the date and integer hypotheses are discharged for the `Std` models of
`time.Format(http.TimeFormat)` / `http.ParseTime` and `strconv.FormatInt` / `strconv.ParseInt` (the models family
`codec` ties to the Go functions): any instant in years 0000-03-01 … 9999 and any 64-bit size.  An instant outside
that range is NOT claimed: `http.TimeFormat` has four year digits.  The href and entity-tag hypotheses are the
byte-level theorems `C16_href_roundtrip` (paths not starting with "//") and `C16_etag_roundtrip`; the object data
hypothesis is go-ical's / go-vcard's round trip (trusted, family `objwire`).
-/
namespace GoWebdav.Props.C10Std
open GoWebdav GoWebdav.Std GoWebdav.Std.Decimal GoWebdav.Impl.ObjectWire GoWebdav.Impl.DavWire

/-- a codec family whose date and integer codecs are the modelled standard-library ones -/
def withStd {D : Type} (k : Codecs D) : Codecs D :=
  { k with fmtDate := fun t => String.ofList (Time.fmtHttp t), parseDate := fun s => Time.parseHttp s.toList,
           fmtInt := fun n => String.ofList (intText n), parseInt := fun s => atoi s.toList }

theorem std_date {D : Type} (k : Codecs D) (t : Int) (h : Time.InRange t) :
    (withStd k).parseDate ((withStd k).fmtDate t) = some t := by
  simp [withStd, Lemmas.Time.parseHttp_fmtHttp t h]

theorem std_int {D : Type} (k : Codecs D) (n : Int) (h : InInt64 n) :
    (withStd k).parseInt ((withStd k).fmtInt n) = some n := by
  simp [withStd, atoi_intText n h]

/-- C10 for an object whose modification time is a four-digit-year instant: no assumption on the date codec is left -/
theorem C10_object_std {D : Type} (k : Codecs D) (dataName : String)
    (hd : dataName ≠ "getcontentlength" ∧ dataName ≠ "getlastmodified" ∧ dataName ≠ "getetag") (o : Obj D)
    (hrange : ∀ t, o.modTime = some t → Time.InRange t)
    (hh : k.unescHref (k.escHref o.path) = some o.path)
    (ht : k.unquoteTag (k.quoteTag o.etag) = some o.etag)
    (hdat : k.decData (k.encData o.data) = some o.data) :
    objOf (withStd k) dataName (objResp (withStd k) dataName o) = .ok o.seenInReport :=
  Props.C10.C10_object_at (withStd k) dataName hd o hh ht (fun t e => std_date k t (hrange t e)) hdat

theorem C10_get_std {D : Type} (k : Codecs D) (o : Obj D)
    (hrange : ∀ t, o.modTime = some t → Time.InRange t) (hlen : InInt64 o.contentLength)
    (ht : k.unquoteTag (k.quoteTag o.etag) = some o.etag) :
    populate (withStd k) o.path o.data (getHeaders (withStd k) o) = .ok o.seen :=
  Props.C10.C10_get_at (withStd k) o ht (fun t e => std_date k t (hrange t e)) (fun _ => std_int k _ hlen)

theorem C10_calendar_std {D : Type} (k : Codecs D) (c : Calendar) (hsize : InInt64 c.maxResourceSize)
    (hh : k.unescHref (k.escHref c.path) = some c.path) :
    calendarOf (withStd k) (calendarResp (withStd k) c) = .ok (some c.seen) :=
  Props.C10.C10_calendar_at (withStd k) c hh (fun _ => std_int k _ hsize)

/-- C05: a file's size, modification time survive for every 64-bit size and four-digit-year instant -/
theorem C05_fileinfo_std (k : Codecs Unit) (fi : FileInfo)
    (hrange : ∀ t, fi.modTime = some t → Time.InRange t) (hsize : InInt64 fi.size)
    (hh : k.unescHref (k.escHref fi.path) = some fi.path)
    (ht : k.unquoteTag (k.quoteTag fi.etag) = some fi.etag) :
    fileInfoOf (withStd k) (fileResp (withStd k) fi) = .ok fi.seen :=
  Props.C05.C05_fileinfo_at (withStd k) fi hh (fun _ => ht) (fun t e => std_date k t (hrange t e)) (fun _ => std_int k _ hsize)

/-- outside the range the date hypothesis is FALSE for the modelled codec: year 10000 does not survive -/
example : Time.parseHttp (Time.fmtHttp 253402300800) ≠ some 253402300800 := by decide

-- non-vacuity: a value in range
example : Time.InRange 1710032400 ∧ InInt64 123456789012 := by unfold Time.InRange InInt64; decide

end GoWebdav.Props.C10Std
