import GoWebdav.Lemmas.Webdav
/-!
# C02 — Refused or failed requests never change or destroy stored data

Proved operation by operation from the model's definitions (not from the refinement): every error exit is taken
before the first mutating call, or after a mutation that restores the previous map.

OPEN FINDING (known_findings.json, class `put-body-fault-existing-file`): a PUT over an existing file whose body
breaks off — `os.Create` has truncated the file and the error path removes it.  `FaultRegion` is exactly that
region; `C02_put_fault_destroys` proves the negation of the full statement at a witness inside it.
-/
namespace GoWebdav.Props.C02
open GoWebdav GoWebdav.Std.Path GoWebdav.Std.Posix GoWebdav.Impl.Path GoWebdav.Impl.Webdav GoWebdav.Spec.Rfc4918 GoWebdav.Lemmas.Webdav

/-- a PUT whose body reader fails, addressed to an existing file, that passes all its preconditions -/
def FaultRegion (t : FS) (r : Request) : Prop :=
  r.method = "PUT" ∧ r.fault.isSome = true ∧ ∃ p c, localPath [] r.path = .ok p ∧ lookup t p = some (.file c)

theorem options_tree (t : FS) (r : Request) : (options t r).1 = t := rfl
theorem headGet_tree (t : FS) (r : Request) : (headGet t r).1 = t := rfl
theorem proppatch_tree (t : FS) (r : Request) : (proppatch t r).1 = t := rfl
theorem propfind_tree (t : FS) (r : Request) : (propfind t r).1 = t := rfl

theorem put_failed (t : FS) (hwf : WF t) (r : Request) (hm : r.method = "PUT") (hnr : ¬ FaultRegion t r)
    (h : (put t r).2.status ≥ 400) : Same (put t r).1 t := by
  unfold put at h ⊢
  cases hlp : localPath [] r.path with
  | error e => simp only [hlp]; exact same_refl t
  | ok p =>
    simp only [hlp] at h ⊢
    by_cases hdir : lookup t p = some .dir
    · simp only [hdir, if_true]; exact same_refl t
    · simp only [hdir, if_false] at h ⊢
      cases hc : checkCond (lookup t p).isSome r.ifMatch r.ifNoneMatch with
      | badRequest => simp only [hc]; exact same_refl t
      | preconditionFailed => simp only [hc]; exact same_refl t
      | proceed =>
        simp only [hc] at h ⊢
        by_cases hpar : parentOK t p = true
        · simp only [hpar, Bool.not_true, Bool.false_eq_true, if_false] at h ⊢
          cases hrb : readBody r with
          | error u =>
            simp only [hrb]
            -- the body broke off: outside the fault region the target did not exist, so removing it restores the tree
            have hf : r.fault.isSome = true := by
              unfold readBody at hrb; cases hfa : r.fault <;> simp [hfa] at hrb ⊢
            cases hl : lookup t p with
            | none => exact same_removeAll_absent t hwf p hl
            | some e =>
              cases e with
              | dir => exact absurd hl hdir
              | file c => exact absurd ⟨hm, hf, p, c, hlp, hl⟩ hnr
          | ok content =>
            simp only [hrb] at h
            split at h <;> simp at h
        · simp only [hpar, Bool.not_false, if_true]; exact same_refl t

theorem delete_failed (t : FS) (r : Request) (h : (delete t r).2.status ≥ 400) : Same (delete t r).1 t := by
  unfold delete at h ⊢
  cases hlp : localPath [] r.path with
  | error e => simp only [hlp]; exact same_refl t
  | ok p =>
    simp only [hlp] at h ⊢
    cases hl : lookup t p with
    | none => simp only [hl]; exact same_refl t
    | some e =>
      simp only [hl] at h ⊢
      cases hc : checkCond true r.ifMatch r.ifNoneMatch with
      | badRequest => simp only [hc]; exact same_refl t
      | preconditionFailed => simp only [hc]; exact same_refl t
      | proceed => simp [hc] at h

theorem mkcol_failed (t : FS) (r : Request) (h : (mkcol t r).2.status ≥ 400) : Same (mkcol t r).1 t := by
  unfold mkcol at h ⊢
  by_cases hct : r.ctypeSet = true
  · simp only [hct, if_true]; exact same_refl t
  · simp only [hct, Bool.false_eq_true, if_false] at h ⊢
    cases hlp : localPath [] r.path with
    | error e => simp only [hlp]; exact same_refl t
    | ok p =>
      simp only [hlp] at h ⊢
      by_cases hex : (lookup t p).isSome = true
      · simp only [hex, if_true]; exact same_refl t
      · simp only [hex, Bool.false_eq_true, if_false] at h ⊢
        by_cases hpar : parentOK t p = true
        · simp [hpar] at h
        · simp only [hpar, Bool.not_false, if_true]; exact same_refl t

theorem copyMove_failed (t : FS) (hwf : WF t) (isMove : Bool) (s d : Bytes) (rec ow : Bool)
    (h : (copyMove t isMove s d rec ow).2.status ≥ 400) : Same (copyMove t isMove s d rec ow).1 t := by
  unfold copyMove at h ⊢
  cases hs : localPath [] s with
  | error e => simp only [hs]; exact same_refl t
  | ok src =>
    simp only [hs] at h ⊢
    cases hd : localPath [] d with
    | error e => simp only [hd]; exact same_refl t
    | ok dst =>
      simp only [hd] at h ⊢
      cases hl : lookup t src with
      | none => simp only [hl]; exact same_refl t
      | some e =>
        simp only [hl] at h ⊢
        by_cases hov : overlap src dst = true
        · simp only [hov, if_true]; exact same_refl t
        · simp only [hov, Bool.false_eq_true, if_false] at h ⊢
          by_cases hpre : ((lookup t dst).isSome && !ow) = true
          · simp only [hpre, if_true]; exact same_refl t
          · simp only [hpre, Bool.false_eq_true, if_false] at h ⊢
            cases hex : (lookup t dst).isSome with
            | false =>
              simp only [hex, Bool.false_eq_true, if_false] at h ⊢
              by_cases hpar : parentOK t dst = true
              · simp only [hpar, Bool.not_true, Bool.false_eq_true, if_false] at h
                simp at h
              · simp only [hpar, Bool.not_false, if_true]; exact same_refl t
            | true =>
              simp only [hex, if_true] at h ⊢
              -- an existing destination has its parent collection, also after it has been removed
              obtain ⟨de, hde⟩ := Option.isSome_iff_exists.mp hex
              have hpar : parentOK (removeAll t dst) dst = true := by
                rw [parentOK_removeAll]; exact parentOK_of_exists t hwf dst de hde
              simp only [hpar, Bool.not_true, Bool.false_eq_true, if_false] at h
              simp at h

theorem copyMoveHandler_failed (t : FS) (hwf : WF t) (r : Request) (h : (copyMoveHandler t r).2.status ≥ 400) :
    Same (copyMoveHandler t r).1 t := by
  unfold copyMoveHandler at h ⊢
  cases hdst : r.dest with
  | absent => simp only [hdst]; exact same_refl t
  | unparsable => simp only [hdst]; exact same_refl t
  | path d =>
    simp only [hdst] at h ⊢
    cases how : (if r.overwrite = "" then some true else Generated.parseOverwrite r.overwrite) with
    | none => simp only [how]; exact same_refl t
    | some ow =>
      simp only [how] at h ⊢
      cases hdp : (if r.depth = "" then some (-1) else Generated.parseDepth r.depth) with
      | none => simp only [hdp]; exact same_refl t
      | some depth =>
        simp only [hdp] at h ⊢
        by_cases hcopy : r.method = "COPY"
        · simp only [hcopy, if_true] at h ⊢
          by_cases h1 : depth = 1
          · simp only [h1, if_true]; exact same_refl t
          · simp only [h1, if_false] at h ⊢
            exact copyMove_failed t hwf _ _ _ _ _ h
        · simp only [hcopy, if_false] at h ⊢
          by_cases h1 : depth ≠ -1
          · rw [if_pos h1]; exact same_refl t
          · rw [if_neg h1] at h ⊢
            exact copyMove_failed t hwf _ _ _ _ _ h

/-- whenever the file server answers with a 4xx or 5xx status, the tree (names, kinds, contents) is exactly what
    it was — for every tree and every request outside the open finding's region -/
theorem C02_failed_unchanged_partial (t : FS) (hwf : WF t) (r : Request) (hnr : ¬ FaultRegion t r)
    (h : (step t r).2.status ≥ 400) : Same (step t r).1 t := by
  rw [step_eq] at h ⊢
  split at h
  · rename_i hm; rw [if_pos hm, options_tree]; exact same_refl t
  · rename_i hm1
    rw [if_neg hm1]
    split at h
    · rename_i hm; rw [if_pos hm, headGet_tree]; exact same_refl t
    · rename_i hm2
      rw [if_neg hm2]
      split at h
      · rename_i hm; rw [if_pos hm]; exact put_failed t hwf r hm hnr h
      · rename_i hm3
        rw [if_neg hm3]
        split at h
        · rename_i hm; rw [if_pos hm]; exact delete_failed t r h
        · rename_i hm4
          rw [if_neg hm4]
          split at h
          · rename_i hm; rw [if_pos hm, propfind_tree]; exact same_refl t
          · rename_i hm5
            rw [if_neg hm5]
            split at h
            · rename_i hm; rw [if_pos hm, proppatch_tree]; exact same_refl t
            · rename_i hm6
              rw [if_neg hm6]
              split at h
              · rename_i hm; rw [if_pos hm]; exact mkcol_failed t r h
              · rename_i hm7
                rw [if_neg hm7]
                split at h
                · rename_i hm; rw [if_pos hm]; exact copyMoveHandler_failed t hwf r h
                · rename_i hm8; rw [if_neg hm8]; exact same_refl t

/-- the full statement is FALSE inside the region: PUT /f with a body failing at offset 0 over {/, /f ↦ "a"}
    answers 500 and the file is gone (replayed against the Go code by family fsreq) -/
theorem C02_put_fault_destroys :
    let t : FS := [([[102]], .file [97]), ([], .dir)]
    let r : Request := { method := "PUT", path := [47, 102], body := [104], fault := some 0 }
    WF t ∧ (step t r).2.status = 500 ∧ lookup (step t r).1 [[102]] = none ∧ lookup t [[102]] = some (.file [97]) := by
  refine ⟨?_, by decide, by decide, by decide⟩
  intro p e hl hne
  by_cases h1 : p = [[102]]
  · subst h1; decide
  · by_cases h2 : p = []
    · exact absurd h2 hne
    · have : lookup [([[102]], Entry.file [97]), ([], Entry.dir)] p = none := by
        unfold lookup
        have e1 : (([[102]] : FPath) == p) = false := by simpa using Ne.symm h1
        have e2 : (([] : FPath) == p) = false := by simpa using Ne.symm h2
        simp [List.find?_cons, e1, e2]
      rw [this] at hl; cases hl

/-- lifted to histories: in every run from a well-formed tree, each refused request outside the region leaves the
    tree it found (stated for one step from any reachable tree; reachability preserves `WF`, see C01) -/
theorem C02_412_changes_nothing (t : FS) (hwf : WF t) (r : Request) (hnr : ¬ FaultRegion t r)
    (h : (step t r).2.status = 412) : Same (step t r).1 t :=
  C02_failed_unchanged_partial t hwf r hnr (by rw [h]; decide)

end GoWebdav.Props.C02
