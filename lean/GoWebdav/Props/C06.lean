import GoWebdav.Lemmas.Caldav
/-!
# C06 — CalDAV filter evaluation follows RFC 4791 §9.7–9.9

`Impl.Caldav` mirrors caldav/match.go (after the `fix:` commits recorded in known_findings.json);
`Spec.Caldav` is written from the RFC text as quoted by the property.
Hypothesis `wf`: every VEVENT has a DTSTART and recurrence instances ascend (RFC 5545).
The theorems are of the form "whenever the implementation answers, the answer is the specification's";
the implementation answers unless it reaches an unparsable date/time value (then it reports the parse error).
-/
namespace GoWebdav.Props.C06
open GoWebdav GoWebdav.Impl.Caldav GoWebdav.Spec.Caldav GoWebdav.Lemmas.Caldav

/-- the arithmetic core: for ALL integers (so every ordering and every equality of range start, range end,
    DTSTART and the event's end) the interval test of the implementation is the RFC's -/
theorem C06_overlap_all_orderings (rs re s e : Int) :
    intervalOverlaps rs re s e = (if s < e then lt rs e && gt re s else le rs s && gt re s) :=
  intervalOverlaps_spec rs re s e

/-- a non-recurring VEVENT against a time range: the §9.9 table, for each way of stating the end -/
theorem C06_event_time_range (rs re s : Int) (isDate : Bool) (es : EndSpec) (props : List IProp) (ch : List Component)
    (hes : es ≠ .dtend none ∧ es ≠ .duration none) :
    matchCompTimeRange rs re (.mk "VEVENT" props ⟨.none, some (some s, isDate), es⟩ ch)
      = .ok (overlapTable rs re s isDate es) := by
  have hs := timeRange_event rs re s isDate es props ch
  cases h : matchCompTimeRange rs re (.mk "VEVENT" props ⟨.none, some (some s, isDate), es⟩ ch) with
  | ok b => rw [hs b h]
  | error err =>
    exfalso
    unfold matchCompTimeRange at h
    simp only [Component.timing, Component.name, dateTimeStart, dateTimeEnd, if_true] at h
    cases es with
    | dtend x => cases x with
      | none => exact hes.1 rfl
      | some x => simp at h
    | duration d => cases d with
      | none => exact hes.2 rfl
      | some d => simp at h
    | none => simp at h

/-- a recurring VEVENT matches iff some instance overlaps (each instance lasting as long as the event) -/
theorem C06_recurring_time_range (rs re s first step : Int) (count : Nat) (isDate : Bool) (es : EndSpec)
    (props : List IProp) (ch : List Component) (hstep : 0 ≤ step) (b : Bool)
    (h : matchCompTimeRange rs re (.mk "VEVENT" props ⟨.rule first step count, some (some s, isDate), es⟩ ch) = .ok b) :
    b = (instances first step count).any (fun t => overlapAt rs re t (durationOf s isDate es)) := by
  have hwf : localWF (.mk "VEVENT" props ⟨.rule first step count, some (some s, isDate), es⟩ ch) = true := by
    simp [localWF, Component.name, Component.timing, hstep]
  have := timeRange_sound rs re _ hwf b h
  rw [this]
  unfold rangeHolds
  simp only [Component.name, Component.timing, ne_eq, not_true_eq_false, if_false]
  -- an answer means the end was parsable
  have hes : es ≠ .dtend none ∧ es ≠ .duration none := by
    unfold matchCompTimeRange at h
    simp only [Component.timing, Component.name, dateTimeStart, dateTimeEnd, if_true] at h
    constructor
    · rintro rfl; simp at h
    · rintro rfl; simp at h
  simp [hes.1, hes.2]

/-- Match: whenever it answers, it answers what RFC 4791 §9.7 prescribes — every filter tree, every well-formed object -/
theorem C06_match_sound (f : CompFilter) (c : Component) (hwf : wf c = true) (b : Bool)
    (h : matchF f c = .ok b) : b = holdsF f c := matchF_sound f c hwf b h

/-- Filter returns exactly the matching objects, in input order and unmodified -/
theorem C06_filter_selection (f : CompFilter) (cos : List (String × Component)) (hwf : ∀ co ∈ cos, wf co.2 = true)
    (out : List (String × Component)) (h : filter (some f) cos = .ok out) :
    out = cos.filter (fun co => holdsF f co.2) := by
  unfold filter at h
  simp only at h
  induction cos generalizing out with
  | nil => simp [filterLoop] at h; simp [h]
  | cons co rest ih =>
    have hwf' : ∀ co ∈ rest, wf co.2 = true := fun x hx => hwf x (List.mem_cons_of_mem _ hx)
    unfold filterLoop at h
    cases hm : matchF f co.2 with
    | error e => simp [hm] at h
    | ok b =>
      have hb := matchF_sound f co.2 (hwf co (by simp)) b hm
      cases b
      · simp only [hm] at h
        simp [← hb, ih hwf' out h]
      · simp only [hm] at h
        cases hr : filterLoop f rest with
        | error e => simp [hr, Except.map] at h
        | ok out' =>
          simp only [hr, Except.map, Except.ok.injEq] at h
          simp [← hb, ← h, ih hwf' out' hr]

/-- … and all of them for a nil query -/
theorem C06_filter_nil (cos : List (String × Component)) : filter none cos = .ok cos := rfl

-- non-vacuity --------------------------------------------------------------------------------
def exEvent : Component :=
  .mk "VEVENT" [⟨"SUMMARY", "lunch", [("X-P", ["v"])], none⟩] ⟨.none, some (some 1000, false), .duration (some 600)⟩ []
def exCal : Component := .mk "VCALENDAR" [] ⟨.none, none, .none⟩ [exEvent]
def exFilter : CompFilter :=
  .mk "VCALENDAR" false Z Z [] [
    .mk "VEVENT" false 1599 2000 [⟨"SUMMARY", false, Z, Z, some ⟨"unc", false⟩, [⟨"X-P", false, none⟩]⟩, ⟨"DESCRIPTION", true, Z, Z, none, []⟩] [],
    .mk "VTODO" true Z Z [] []]

example : wf exCal = true := by decide
example : matchF exFilter exCal = .ok true := by decide
example : holdsF exFilter exCal = true := by decide

end GoWebdav.Props.C06
