import GoWebdav.Impl.Cond
import GoWebdav.Spec.Cond
import GoWebdav.Props.C16
/-!
# C04 — If-Match / If-None-Match preconditions are honoured exactly

Resource state: `none` (absent) or `some e` with `e ≠ []` (every existing resource of the file server has a
non-empty entity tag: the hex of mtime and size).  `dec v` abbreviates "the header value is a quoted string
denoting these bytes".
-/
namespace GoWebdav.Props.C04
open GoWebdav GoWebdav.Std GoWebdav.Impl.Codec GoWebdav.Impl.Cond

variable (utf8 : Char → List UInt8)

/-- the public helper: MatchETag is true exactly for `*` or an equal tag, against an existing resource -/
theorem C04_matchETag_public (v : List Char) (e : Bytes) :
    matchETag utf8 v e = some true ↔ e ≠ [] ∧ (v = ['*'] ∨ etagOf utf8 v = some e) := by
  unfold matchETag isWildcard
  by_cases he : e = []
  · simp [he]
  · by_cases hw : v = ['*']
    · simp [he, hw]
    · cases hd : etagOf utf8 v with
      | none => simp [he, hw]
      | some t => simp [he, hw]

/-- MatchETag fails (→ 400) exactly when a tag has to be compared and the header is not a quoted string -/
theorem C04_matchETag_error (v : List Char) (e : Bytes) :
    matchETag utf8 v e = none ↔ e ≠ [] ∧ v ≠ ['*'] ∧ etagOf utf8 v = none := by
  unfold matchETag isWildcard
  by_cases he : e = []
  · simp [he]
  · by_cases hw : v = ['*']
    · simp [he, hw]
    · cases hd : etagOf utf8 v <;> simp [he, hw]

/-- If-Match holds: the resource exists and the tag is equal or `*` -/
def IfMatchHolds (st : Option Bytes) (v : List Char) : Prop :=
  ∃ e, st = some e ∧ (v = ['*'] ∨ etagOf utf8 v = some e)
/-- If-None-Match holds: the resource is absent, or the tag differs and is not `*` -/
def IfNoneMatchHolds (st : Option Bytes) (v : List Char) : Prop :=
  st = none ∨ ∃ e t, st = some e ∧ v ≠ ['*'] ∧ etagOf utf8 v = some t ∧ t ≠ e
/-- a consulted header that is not a quoted string (only consulted when there is a resource to compare with) -/
def Malformed (st : Option Bytes) (v : List Char) : Prop :=
  v ≠ [] ∧ st ≠ none ∧ v ≠ ['*'] ∧ etagOf utf8 v = none

def WFState (st : Option Bytes) : Prop := ∀ e, st = some e → e ≠ []

/-- the request is carried out iff both preconditions (when set) hold -/
theorem C04_carried_out_iff (st : Option Bytes) (hwf : WFState st) (im inm : List Char) :
    check utf8 st im inm = .proceed ↔
      (im = [] ∨ IfMatchHolds utf8 st im) ∧ (inm = [] ∨ IfNoneMatchHolds utf8 st inm) := by
  unfold check isSet IfMatchHolds IfNoneMatchHolds
  cases st with
  | none =>
    by_cases h1 : im = [] <;> by_cases h2 : inm = [] <;> simp [h1, h2, matchETag]
  | some e =>
    have he : e ≠ [] := hwf e rfl
    by_cases h1 : im = []
    · by_cases h2 : inm = []
      · simp [h1, h2]
      · simp only [h1, h2, ne_eq, not_true_eq_false, decide_false, Bool.false_eq_true, if_false, not_false_eq_true, decide_true, if_true]
        unfold matchETag isWildcard
        by_cases hw : inm = ['*']
        · simp [he, hw]
        · cases hd : etagOf utf8 inm with
          | none => simp [he, hw]
          | some t => by_cases hte : t = e <;> simp [he, hw, hte]
    · simp only [h1, ne_eq, not_false_eq_true, decide_true, if_true, false_or]
      unfold matchETag isWildcard
      by_cases hw : im = ['*']
      · by_cases h2 : inm = []
        · simp [he, hw, h2]
        · by_cases hw2 : inm = ['*']
          · simp [he, hw, h2, hw2]
          · cases hd : etagOf utf8 inm with
            | none => simp [he, hw, h2, hw2]
            | some t => by_cases hte : t = e <;> simp [he, hw, h2, hw2, hte]
      · cases hd1 : etagOf utf8 im with
        | none => simp [he, hw]
        | some t1 =>
          by_cases ht1 : t1 = e
          · by_cases h2 : inm = []
            · simp [he, hw, ht1, h2]
            · by_cases hw2 : inm = ['*']
              · simp [he, hw, ht1, h2, hw2]
              · cases hd : etagOf utf8 inm with
                | none => simp [he, hw, ht1, h2, hw2]
                | some t => by_cases hte : t = e <;> simp [he, hw, ht1, h2, hw2, hte]
          · simp [he, hw, ht1]

/-- 400 exactly when the first consulted header that decides is malformed: If-Match malformed, or If-Match
    satisfied/unset and If-None-Match malformed -/
theorem C04_400_iff (st : Option Bytes) (hwf : WFState st) (im inm : List Char) :
    check utf8 st im inm = .badRequest ↔
      Malformed utf8 st im ∨ ((im = [] ∨ IfMatchHolds utf8 st im) ∧ Malformed utf8 st inm) := by
  unfold check isSet IfMatchHolds Malformed
  cases st with
  | none =>
    by_cases h1 : im = [] <;> by_cases h2 : inm = [] <;> simp [h1, h2, matchETag]
  | some e =>
    have he : e ≠ [] := hwf e rfl
    unfold matchETag isWildcard
    by_cases h1 : im = []
    · by_cases h2 : inm = []
      · simp [h1, h2]
      · by_cases hw2 : inm = ['*']
        · simp [h1, h2, he, hw2]
        · cases hd : etagOf utf8 inm with
          | none => simp [h1, h2, he, hw2]
          | some t => by_cases hte : t = e <;> simp [h1, h2, he, hw2, hte]
    · by_cases hw : im = ['*']
      · by_cases h2 : inm = []
        · simp [h1, he, hw, h2]
        · by_cases hw2 : inm = ['*']
          · simp [h1, he, hw, h2, hw2]
          · cases hd : etagOf utf8 inm with
            | none => simp [h1, he, hw, h2, hw2]
            | some t => by_cases hte : t = e <;> simp [h1, he, hw, h2, hw2, hte]
      · cases hd1 : etagOf utf8 im with
        | none => simp [h1, he, hw]
        | some t1 =>
          by_cases ht1 : t1 = e
          · by_cases h2 : inm = []
            · simp [h1, he, hw, ht1, h2]
            · by_cases hw2 : inm = ['*']
              · simp [h1, he, hw, ht1, h2, hw2]
              · cases hd : etagOf utf8 inm with
                | none => simp [h1, he, hw, ht1, h2, hw2]
                | some t => by_cases hte : t = e <;> simp [h1, he, hw, ht1, h2, hw2, hte]
          · simp [h1, he, hw, ht1]

/-- everything else is 412: the three verdicts partition -/
theorem C04_412_iff (st : Option Bytes) (im inm : List Char) :
    check utf8 st im inm = .preconditionFailed ↔
      check utf8 st im inm ≠ .proceed ∧ check utf8 st im inm ≠ .badRequest := by
  cases check utf8 st im inm <;> simp

/-- a tag announced by the server (`%q` of the resource's tag) is accepted back: If-Match with it proceeds,
    If-None-Match with it fails with 412.  `utf8` must encode ASCII characters as themselves. -/
theorem C04_announced_tag_accepted (isPrint : Char → Bool) (hp : isPrint '\n' = false)
    (hutf : ∀ c : Char, c.toNat < 128 → utf8 c = [UInt8.ofNat c.toNat])
    (tag : List Quote.GoRune) (bytesOf : Quote.GoRune → Bytes)
    (hb : ∀ r, bytesOf r = match r with | .valid c => utf8 c | .bad b => [b]) :
    etagOf utf8 (etagEncode isPrint tag) = some (tag.flatMap bytesOf) := by
  unfold etagOf
  rw [C16.C16_etag_roundtrip isPrint hp tag]
  simp only [Option.map_some, outBytes, Option.some.injEq]
  induction tag with
  | nil => rfl
  | cons r rs ih =>
    simp only [List.map_cons, List.flatMap_cons, ih]
    congr 1
    have hs := C16.C16_etag_same_bytes isPrint r
    rw [hb r]
    cases r with
    | bad b => cases he : Quote.expect isPrint (.bad b) <;> simp [he] at hs ⊢; exact hs
    | valid c =>
      cases he : Quote.expect isPrint (.valid c) with
      | rune c' => simp [he] at hs ⊢; rw [hs]
      | byte b => simp [he] at hs ⊢; rw [hutf c hs.1, hs.2]

/-- the implementation is the header-by-header table of the specification -/
theorem C04_check_eq_spec (st : Option Bytes) (hwf : WFState st) (im inm : List Char) :
    check utf8 st im inm = Spec.Cond.verdict utf8 st im inm := by
  unfold check Spec.Cond.verdict Spec.Cond.ifMatch Spec.Cond.ifNoneMatch isSet matchETag isWildcard
  cases st with
  | none =>
    by_cases h1 : im = [] <;> by_cases h2 : inm = [] <;> simp [h1, h2, Spec.Cond.ofHeader]
  | some e =>
    have he : e ≠ [] := hwf e rfl
    by_cases h1 : im = []
    · by_cases h2 : inm = []
      · simp [h1, h2]
      · by_cases hw2 : inm = ['*']
        · simp [h1, h2, he, hw2, Spec.Cond.ofHeader]
        · cases hd : etagOf utf8 inm with
          | none => simp [h1, h2, he, hw2, Spec.Cond.ofHeader]
          | some t => by_cases hte : t = e <;> simp [h1, h2, he, hw2, hte, Spec.Cond.ofHeader]
    · by_cases hw : im = ['*']
      · by_cases h2 : inm = []
        · simp [h1, he, hw, h2]
        · by_cases hw2 : inm = ['*']
          · simp [h1, he, hw, h2, hw2, Spec.Cond.ofHeader]
          · cases hd : etagOf utf8 inm with
            | none => simp [h1, he, hw, h2, hw2, Spec.Cond.ofHeader]
            | some t => by_cases hte : t = e <;> simp [h1, he, hw, h2, hw2, hte, Spec.Cond.ofHeader]
      · cases hd1 : etagOf utf8 im with
        | none => simp [h1, he, hw, Spec.Cond.ofHeader]
        | some t1 =>
          by_cases ht1 : t1 = e
          · by_cases h2 : inm = []
            · simp [h1, he, hw, ht1, h2]
            · by_cases hw2 : inm = ['*']
              · simp [h1, he, hw, ht1, h2, hw2, Spec.Cond.ofHeader]
              · cases hd : etagOf utf8 inm with
                | none => simp [h1, he, hw, ht1, h2, hw2, Spec.Cond.ofHeader]
                | some t => by_cases hte : t = e <;> simp [h1, he, hw, ht1, h2, hw2, hte, Spec.Cond.ofHeader]
          · simp [h1, he, hw, ht1, Spec.Cond.ofHeader]

-- non-vacuity
example : WFState (some [101]) ∧ check (fun c => [UInt8.ofNat c.toNat]) (some [101]) ['"', 'e', '"'] [] = .proceed := by
  refine ⟨?_, by decide⟩
  intro e h; cases h; simp
example : check (fun c => [UInt8.ofNat c.toNat]) (some [101]) [] ['*'] = .preconditionFailed := by decide
example : check (fun c => [UInt8.ofNat c.toNat]) (some [101]) ['e'] [] = .badRequest := by decide
example : check (fun c => [UInt8.ofNat c.toNat]) none ['e'] ['x'] = .preconditionFailed := by decide

end GoWebdav.Props.C04
