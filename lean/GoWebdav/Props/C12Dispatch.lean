import GoWebdav.Impl.Propfind
import GoWebdav.Impl.Frontend
import GoWebdav.Props.C13
/-!
# C12, dispatch part — what each level of the hierarchy exposes, and where a collection may be created

Over the models already tied to the handlers (`Impl.Propfind.scope` by family `pfscope`, `Impl.Frontend.serve` by
family `srvfront`): a PROPFIND addressed to a principal-level or home-set-level path other than the current user's
exposes none of the current user's resources (for every hierarchy, every path, every Depth); the user's own paths
expose exactly the hierarchy below them; MKCOL creates a collection at collection level only and is refused with 403
everywhere else without reaching the backend.
-/
namespace GoWebdav.Props.C12
open GoWebdav GoWebdav.Impl.Propfind

/-- a principal-level path other than the current user's exposes nothing -/
theorem C12_foreign_principal_exposes_nothing (h : Hierarchy) (path : String) (d : DepthV) (hne : path ≠ h.principal) :
    scope h path .principal d = [] := by
  unfold scope; simp [hne]

/-- a home-set-level path other than the current user's exposes nothing -/
theorem C12_foreign_homeSet_exposes_nothing (h : Hierarchy) (path : String) (d : DepthV) (hne : path ≠ h.homeSet) :
    scope h path .homeSet d = [] := by
  unfold scope; simp [hne]

/-- nothing is exposed below an object -/
theorem C12_nothing_below_objects (h : Hierarchy) (path : String) (d : DepthV) : scope h path .deeper d = [] := rfl

/-- a collection-level path exposes something only if the backend has that collection; an object-level path only if
    some collection holds that object -/
theorem C12_unknown_collection_or_object (h : Hierarchy) (path : String) (d : DepthV) :
    (h.collections.find? (fun c => c.1 == path) = none → scope h path .collection d = []) ∧
    (h.collections.any (fun c => c.2.contains path) = false → scope h path .object d = []) := by
  constructor
  · intro hn; unfold scope; simp [hn]
  · intro hn; unfold scope; simp only [hn, Bool.false_eq_true, if_false]

/-- the user's own principal exposes itself, then the home set, then (Depth infinity) every collection with its objects -/
theorem C12_own_principal (h : Hierarchy) :
    scope h h.principal .principal .zero = [h.principal] ∧
    scope h h.principal .principal .one = [h.principal, h.homeSet] ∧
    scope h h.principal .principal .infinity = h.principal :: h.homeSet :: allCollections h true := by
  refine ⟨?_, ?_, ?_⟩ <;> simp [scope]

theorem C12_own_homeSet (h : Hierarchy) :
    scope h h.homeSet .homeSet .zero = [h.homeSet] ∧
    scope h h.homeSet .homeSet .one = h.homeSet :: h.collections.map (·.1) ∧
    scope h h.homeSet .homeSet .infinity = h.homeSet :: allCollections h true := by
  refine ⟨?_, ?_, ?_⟩
  · simp [scope]
  · have : List.flatMap (fun c : String × List String => [c.1]) h.collections = h.collections.map (·.1) := by
      induction h.collections with
      | nil => rfl
      | cons c cs ih => simp [List.flatMap_cons, ih]
    simp [scope, allCollections, this]
  · simp [scope]

open GoWebdav.Impl.Frontend in
/-- MKCOL outside collection level is refused with 403 and never reaches the backend; at collection level a body-less
    MKCOL creates the collection -/
theorem C12_mkcol_only_at_collection_level (r : Req) (hs : r.srv ≠ .prin) (hm : r.method = "MKCOL") :
    (r.level ≠ 3 → serve r = ⟨403, false⟩) ∧ (r.level = 3 → r.body = .empty → serve r = ⟨201, true⟩) := by
  have hserve : serve r = mkcol r := by
    unfold serve
    cases hsr : r.srv
    · simp only; rw [C13.davServe_eq]; simp +decide [hm]
    · simp only; rw [C13.davServe_eq]; simp +decide [hm]
    · exact absurd hsr hs
  rw [hserve]
  unfold mkcol mkcolK
  constructor
  · intro hl; simp [hl, refuse]
  · intro hl hb; simp [hl, hb]

-- non-vacuity
example : scope ⟨"/u/", "/u/cal/", [("/u/cal/a/", ["/u/cal/a/x.ics"])]⟩ "/u/ca" .homeSet .infinity = [] ∧
    scope ⟨"/u/", "/u/cal/", [("/u/cal/a/", ["/u/cal/a/x.ics"])]⟩ "/u/cal/" .homeSet .infinity = ["/u/cal/", "/u/cal/a/", "/u/cal/a/x.ics"] := by
  decide

section Options
open GoWebdav.Impl.Frontend

/-- OPTIONS follows the level like every other method: only at object depth is an object looked up, and only there are
    the object's methods announced; every other depth — the deeper ones included — gets the collection-side answer
    (collections can be created and listed from there, nothing can be PUT) without any object look-up -/
theorem C12_options_by_level (r : Req) :
    (r.level ≠ 4 → (options r).objectReads = 0 ∧ "MKCOL" ∈ (options r).allow ∧ "PUT" ∉ (options r).allow ∧ "GET" ∉ (options r).allow) ∧
    (r.level = 4 → (options r).objectReads = 1 ∧ "PUT" ∈ (options r).allow ∧ "MKCOL" ∉ (options r).allow ∧
      ("GET" ∈ (options r).allow ↔ r.exists_ = true)) := by
  constructor
  · intro h; simp [options, optionsK, h]
  · intro h; cases he : r.exists_ <;> simp [options, optionsK, h, he]

/-- the answer to OPTIONS depends on nothing but the level and, at object level, the object's existence: not on the
    content type, the body, or any header class of the request -/
theorem C12_options_depends_on_level_only (r r' : Req) (hl : r.level = r'.level) (he : r.exists_ = r'.exists_) :
    options r = options r' := by simp [options, hl, he]

-- non-vacuity: the three answers exist
example : (optionsK 5 true).objectReads = 0 ∧ (optionsK 4 true).allow.length = 6 ∧ (optionsK 4 false).allow = ["OPTIONS", "PUT"] := by decide

end Options

end GoWebdav.Props.C12
