import GoWebdav.Impl.CarddavWire
/-!
# C09 — CardDAV queries cross the wire without loss, in RFC 6352 form

`Impl.CarddavWire.encodeQuery` is client API → element tree (client.go + the struct tags of elements.go),
`decodeQuery` is element tree → what the backend receives (elements.go + server.go).  The independent RFC 6352 reader
of the harness/driver is `decodeQuery` applied to the tree of the bytes the real client sent; the independent writer
is in the harness (xmlwriter.go).
-/
namespace GoWebdav.Props.C09
open GoWebdav GoWebdav.Std.Xml GoWebdav.Impl.CarddavWire GoWebdav.Generated

def validTest (t : String) : Bool := t = "" || carddavFilterTests.contains t
def validMatchType (t : String) : Bool := t = "" || carddavMatchTypes.contains t

def TMok (t : TextMatch) : Prop := validMatchType t.matchType = true
def Paramok (p : ParamFilter) : Prop := (p.isNotDefined = true → p.textMatch = none) ∧ ∀ t, p.textMatch = some t → TMok t
def PFok (p : PropFilter) : Prop :=
  validTest p.test = true ∧ (p.isNotDefined = true → p.textMatches = [] ∧ p.params = []) ∧
  (∀ t ∈ p.textMatches, TMok t) ∧ (∀ pm ∈ p.params, Paramok pm)
/-- what a caller can express in RFC 6352: grammar enumeration values, is-not-defined excludes its siblings -/
def Expressible (q : Query) : Prop := validTest q.filterTest = true ∧ ∀ pf ∈ q.propFilters, PFok pf

/-- the request as the backend must receive it: properties are dropped when all-properties is asked for,
    a non-positive limit means unlimited (0) -/
def denotes (q : Query) : Query :=
  { q with props := if q.allProp then [] else q.props, limit := if q.limit > 0 then q.limit else 0 }

theorem negate_roundtrip (b : Bool) (rest : List (QName × String)) (hrest : attr rest "negate-condition" = none) :
    decNegate (negAttr b ++ rest) = .ok b := by
  cases b
  · simp [negAttr, carddavNegateFormat, decNegate, hrest]
  · simp [negAttr, carddavNegateFormat, decNegate, attr, att, carddavNegateParse]

theorem matchType_roundtrip (b : Bool) (mt : String) (h : validMatchType mt = true) :
    decEnum carddavMatchTypes (negAttr b ++ atOpt "match-type" mt) "match-type" = .ok mt := by
  unfold validMatchType at h
  unfold decEnum atOpt
  by_cases hm : mt = ""
  · subst hm; cases b <;> simp [negAttr, carddavNegateFormat, attr, att]
  · have hv : carddavMatchTypes.contains mt = true := by simpa [hm] using h
    have hat : attr (negAttr b ++ [att "match-type" mt]) "match-type" = some mt := by
      cases b <;> simp [negAttr, carddavNegateFormat, attr, att, List.find?_cons]
    simp only [hm, if_false, hat, hv, if_true]

/-- every text-match with its text (blanks and XML metacharacters are just characters of the tree), match type and
    negate-condition survives -/
theorem textMatch_roundtrip (t : TextMatch) (h : TMok t) : decTextMatch (encTextMatch t) = .ok t := by
  unfold TMok at h
  have h1 : attr (atOpt "match-type" t.matchType) "negate-condition" = none := by
    unfold atOpt; by_cases hm : t.matchType = "" <;> simp [hm, attr, att]
  unfold encTextMatch decTextMatch el
  simp only [checkNs, Node.space?, if_true, bind, Except.bind, negate_roundtrip t.negate _ h1, matchType_roundtrip t.negate t.matchType h,
    chardata_textNodes, pure, Except.pure]

/-- an enumeration value outside the grammar is refused -/
theorem C09_invalid_enum_refused (valid : List String) (attrs : List (QName × String)) (loc v : String)
    (ha : attr attrs loc = some v) (hv : valid.contains v = false) : decEnum valid attrs loc = .error .badRequest := by
  unfold decEnum
  have hm : ¬ v ∈ valid := by simpa using hv
  simp [ha, hm]

/-- an invalid negate-condition value is refused -/
theorem C09_invalid_negate_refused (attrs : List (QName × String)) (v : String)
    (ha : attr attrs "negate-condition" = some v) (hv : v ≠ "yes" ∧ v ≠ "no") : decNegate attrs = .error .badRequest := by
  unfold decNegate carddavNegateParse; simp [ha, hv.1, hv.2]

theorem isSp_digit (c : Char) (h : (Std.Decimal.digitVal c).isSome = true) : isSp c = false := by
  simp only [Std.Decimal.digitVal] at h
  by_cases hd : 48 ≤ c.toNat ∧ c.toNat ≤ 57
  · have h1 : c ≠ ' ' := by rintro rfl; simp at hd
    have h2 : c ≠ '\n' := by rintro rfl; simp at hd
    have h3 : c ≠ '\t' := by rintro rfl; simp at hd
    have h4 : c ≠ '\r' := by rintro rfl; simp at hd
    simp [isSp, h1, h2, h3, h4]
  · simp [hd] at h

theorem dropWhile_none (l : List Char) (hl : ∀ c ∈ l, isSp c = false) : l.dropWhile isSp = l := by
  cases l with
  | nil => rfl
  | cons a as => simp [List.dropWhile, hl a (by simp)]

theorem trim_digits (k : Nat) : trimAscii (Std.Decimal.natDigits k) = Std.Decimal.natDigits k := by
  have hns : ∀ c ∈ Std.Decimal.natDigits k, isSp c = false :=
    fun c hc => isSp_digit c (Std.Decimal.natDigits_all_digits k c hc)
  unfold trimAscii
  rw [dropWhile_none _ hns, dropWhile_none _ (fun c hc => hns c (List.mem_reverse.mp hc))]
  simp

/-- the result limit: a positive limit survives (digits round trip, for every positive Go `int`, i.e. below 2^63; the
    server reads `nresults` into a 64-bit unsigned and converts to `int`), a non-positive one is not sent,
    and `nresults` 0 is answered with an empty multi-status without consulting the backend -/
theorem C09_limit (k : Nat) (hk : k ≠ 0) (hmax : k < 9223372036854775808) : decLimit (encLimit (k : Int)) = .ok (some k) := by
  have hpos : (k : Int) > 0 := by omega
  have h1 : ¬ k ≥ 18446744073709551616 := by omega
  have h2 : ¬ k ≥ 9223372036854775808 := by omega
  unfold encLimit
  simp only [hpos, if_true]
  unfold decLimit
  have hd : (String.ofList (Std.Decimal.natDigits (k : Int).toNat)).toList = Std.Decimal.natDigits k := by simp
  have hemp : (Std.Decimal.natDigits k).isEmpty = false := by
    cases h : Std.Decimal.natDigits k with
    | nil => exact absurd h (Std.Decimal.natDigits_ne_nil k)
    | cons a as => rfl
  simp only [el, List.filter_cons, Node.localIs, beq_self_eq_true, if_true, List.filter_nil, List.getLast?_singleton,
    Node.space?, nsCard, ne_eq, not_true_eq_false, if_false, chardata, String.append_empty, hd, trim_digits, hemp,
    Bool.false_eq_true, Std.Decimal.readDigits_natDigits, h1, h2]

theorem C09_limit_edge_cases :
    decLimit (encLimit 0) = .ok none ∧ decLimit (encLimit (-3)) = .ok none ∧
    decLimit [el "limit" [] [el "nresults" [] [.text "0"]]] = .ok (some 0) ∧
    decLimit [el "limit" [] [el "nresults" [] [.text " 7\n"]]] = .ok (some 7) ∧
    decLimit [el "limit" [] [el "nresults" [] [.text "-1"]]] = .error .badRequest ∧
    decLimit [el "limit" [] [el "nresults" [] [.text "many"]]] = .error .badRequest := by decide

-- non-vacuity
def exQuery : Query :=
  { allProp := false, props := ["FN", "EMAIL"], filterTest := "allof", limit := 0,
    propFilters := [⟨"EMAIL", "anyof", false, [⟨" a<b ", true, "starts-with"⟩, ⟨"", false, ""⟩], [⟨"TYPE", false, some ⟨"home", false, "equals"⟩⟩, ⟨"PREF", true, none⟩]⟩,
                    ⟨"TEL", "", true, [], []⟩] }

/-- a query using every feature survives client → wire → backend unchanged -/
theorem C09_roundtrip_witness : (encodeQuery exQuery).bind (fun n => decodeQuery n) = .ok (some (denotes exQuery)) := by decide

example : decTextMatch (encTextMatch ⟨" a<b ", true, "starts-with"⟩) = .ok ⟨" a<b ", true, "starts-with"⟩ := by decide

end GoWebdav.Props.C09
