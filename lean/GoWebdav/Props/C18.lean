import GoWebdav.Lemmas.Upload
import GoWebdav.Generated.Facts
import GoWebdav.Expected.Concurrency
/-!
# C18 — Handlers and clients are safe for concurrent use; uploads always terminate

What a theorem can carry here is (a) the upload protocol as a labelled transition system, for every caller program,
every chunk budget of the server, patient and impatient servers, drops and stalls ended by cancellation, and every
interleaving: termination, deadlock freedom, and the result of `Close`; (b) the absence of shared mutable library
state, as kernel-checked equalities on facts regenerated from the source on every run.

PARTIAL: data races in the Go memory model and real scheduler behaviour cannot be exhibited by a model; they are
covered by validation runs only (N clients × M operations on disjoint subtrees under `-race`, and the upload fault
matrix against real net/http), never presented as proof.
-/
namespace GoWebdav.Props.C18
open GoWebdav.Impl.Upload GoWebdav.Lemmas.Upload

/-- no infinite run: from every state every run is finite, under every interleaving and every listed fault -/
theorem C18_upload_terminates (s : State) : Acc (fun a b => Step b a) s := terminates s

/-- no reachable state is stuck before the upload is over — also against a server that answers only after EOF
    (this is where `Close` closing the pipe before waiting matters) -/
theorem C18_upload_deadlock_free {n b : Nat} {p : Bool} {s : State} (h : Reachable (init n p b) s) (hnf : ¬ Final s) :
    ∃ s', Step s s' := deadlock_free h hnf

/-- `Close` returns nil exactly when the server answered 2xx; when it returns the library goroutine has exited -/
theorem C18_close_result {n b : Nat} {p : Bool} {s : State} (h : Reachable (init n p b) s) (ok : Bool)
    (hc : s.c = .returned ok) : s.g = .exited ∧ s.t.finished = some ok := close_result h ok hc

/-- in a final state nothing of the library is left running and the request body has been closed -/
theorem C18_no_goroutine_outlives {s : State} (h : Final s) : s.g = .exited ∧ s.readerClosed = true := ⟨h.2.1, h.2.2⟩

-- regenerated facts (tie A) ------------------------------------------------------------------------------------
/-- no function of the four packages assigns to a package-level variable -/
theorem C18_no_shared_state_written :
    Generated.internalGlobalWrites = [] ∧ Generated.webdavGlobalWrites = [] ∧
    Generated.caldavGlobalWrites = [] ∧ Generated.carddavGlobalWrites = [] := by decide

/-- the only goroutine and channel of the library are those of `Client.Create`, with capacity 1 and a send on
    every exit of the goroutine -/
theorem C18_upload_goroutine_shape :
    Generated.webdavConcurrency = Expected.webdavConcurrency ∧ Generated.internalConcurrency = [] ∧
    Generated.caldavConcurrency = [] ∧ Generated.carddavConcurrency = [] := by decide

/-- `Close` closes the pipe before it waits; each exit of the goroutine sends exactly once -/
theorem C18_upload_event_order : Generated.webdavChanEvents = Expected.webdavChanEvents := by decide

-- non-vacuity: a run against a patient server that ends with Close = nil
example : Reachable (init 1 true 0) ⟨.returned true, .answered true, .exited, true, true, none⟩ := by
  refine .step (.step (.step (.step (.step (.step (.step .refl (.consumeP 0 0 _ _ _)) (.close _ _ _ _ _)) (.answerEOF _ true 0 _ _ _ true)) (.closeBody _ _ _ _ _ true rfl)) (.doReturns _ _ _ _ _ true rfl)) (.send _ _ _ _ true)) (.recv _ _ _ _ true)

/-- the types whose values serve requests or make calls on behalf of several goroutines at once -/
def serviceTypes : List String := ["Handler", "backend", "Client", "LocalFileSystem", "fileWriter", "basicAuthHTTPClient"]

/-- regenerated fact: no method of a handler, a backend adapter, a client or the local file system assigns through its
    receiver — whatever is written through a pointer receiver anywhere in the four packages belongs to a decoder filling
    in its own value (`*etag`, `s.Code`, `r.Query` …), a response under construction, or the cursor of a raw-value
    reader created per call.  A cache field on a handler, a memoised endpoint on a client would show here. -/
theorem C18_service_values_keep_no_state :
    (Generated.internalReceiverWriteTypes ++ Generated.webdavReceiverWriteTypes ++ Generated.caldavReceiverWriteTypes ++
      Generated.carddavReceiverWriteTypes).all (fun t => !serviceTypes.contains t) = true := by
  decide

/-- regenerated fact: no function of the four packages changes state of the whole PROCESS (umask, working directory,
    environment, default logger, …) — not even for the duration of one call: what a request does to a resource cannot
    depend, through the process, on what another goroutine is doing meanwhile (seeded change C18-o cleared the umask
    while a COPY ran) -/
theorem C18_no_process_state_touched :
    Generated.internalProcessStateCalls = [] ∧ Generated.webdavProcessStateCalls = [] ∧
    Generated.caldavProcessStateCalls = [] ∧ Generated.carddavProcessStateCalls = [] := by decide

end GoWebdav.Props.C18
