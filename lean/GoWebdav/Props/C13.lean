import GoWebdav.Spec.Frontend
import GoWebdav.Props.C01
import GoWebdav.Props.C08
import GoWebdav.Props.C09
/-!
# C13 — Servers answer every request without panicking; malformed input gets 4xx

Three layers, each over its own model:

* CalDAV / CardDAV handlers and the principal helper (`Impl.Frontend`, request descriptors): every request gets one
  of nine status codes; a malformed request gets 4xx and reaches no create/update/delete call; 5xx is only ever 501,
  for a well-formed request to an unimplemented method; a mutating call only happens on a 2xx path.
* WebDAV file server (`Impl.Webdav.step`, concrete trees and requests): from the refinement of C01 — every request
  whose refusal set is non-empty (invalid Depth / Overwrite / Destination / Content-Type / body form included) is
  answered with a code of that set, all 4xx, and the tree is unchanged.
* REPORT documents (`Impl.CaldavWire`, `Impl.CarddavWire`): the decoders are total functions into
  `ok | badRequest` (and `abstain` for documents outside the model), so the only failure status is 400.

"Without panicking" is a statement about the Go runtime: the models are total by construction; the tie is family
`srvfront` (every call under `recover`), the regenerated list of explicit `panic` sites (`Expected.Concurrency`),
and C15/C16 which prove the internal panic sites unreachable.  OPEN FINDING: go-ical's decoder panics on two
malformed content lines, reachable through CalDAV PUT (known_findings.json, class ical-decoder-panic).
-/
namespace GoWebdav.Props.C13
open GoWebdav GoWebdav.Impl.Frontend GoWebdav.Spec.Frontend

theorem handlerOf_eq (m : String) : handlerOf m =
    if m = "OPTIONS" then "h.handleOptions" else if m = "GET" then "h.Backend.HeadGet" else if m = "HEAD" then "h.Backend.HeadGet"
    else if m = "PUT" then "h.Backend.Put" else if m = "DELETE" then "h.Backend.Delete" else if m = "PROPFIND" then "h.handlePropfind"
    else if m = "PROPPATCH" then "h.handleProppatch" else if m = "MKCOL" then "h.Backend.Mkcol" else if m = "COPY" then "h.handleCopyMove"
    else if m = "MOVE" then "h.handleCopyMove" else "HTTPErrorf" := by
  unfold handlerOf Generated.dispatch
  by_cases h1 : m = "OPTIONS"; · simp +decide [h1]
  by_cases h2 : m = "GET"; · simp +decide [h2]
  by_cases h3 : m = "HEAD"; · simp +decide [h3]
  by_cases h4 : m = "PUT"; · simp +decide [h4]
  by_cases h5 : m = "DELETE"; · simp +decide [h5]
  by_cases h6 : m = "PROPFIND"; · simp +decide [h6]
  by_cases h7 : m = "PROPPATCH"; · simp +decide [h7]
  by_cases h8 : m = "MKCOL"; · simp +decide [h8]
  by_cases h9 : m = "COPY"; · simp +decide [h9]
  by_cases h10 : m = "MOVE"; · simp +decide [h10]
  have e1 : ("OPTIONS" == m) = false := by simpa using Ne.symm h1
  have e2 : ("GET" == m) = false := by simpa using Ne.symm h2
  have e3 : ("HEAD" == m) = false := by simpa using Ne.symm h3
  have e4 : ("PUT" == m) = false := by simpa using Ne.symm h4
  have e5 : ("DELETE" == m) = false := by simpa using Ne.symm h5
  have e6 : ("PROPFIND" == m) = false := by simpa using Ne.symm h6
  have e7 : ("PROPPATCH" == m) = false := by simpa using Ne.symm h7
  have e8 : ("MKCOL" == m) = false := by simpa using Ne.symm h8
  have e9 : ("COPY" == m) = false := by simpa using Ne.symm h9
  have e10 : ("MOVE" == m) = false := by simpa using Ne.symm h10
  simp only [List.find?_cons, e1, e2, e3, e4, e5, e6, e7, e8, e9, e10, h1, h2, h3, h4, h5, h6, h7, h8, h9, h10, if_false]
  by_cases hs : ("*" == m) = true
  · simp +decide [hs]
  · simp +decide [hs]

def good (o : Out) : Bool := decide (400 ≤ o.status) && decide (o.status < 500) && !o.mutated

theorem good_spec (o : Out) (h : good o = true) : 400 ≤ o.status ∧ o.status < 500 ∧ o.mutated = false := by
  unfold good at h; simp only [Bool.and_eq_true, decide_eq_true_eq, Bool.not_eq_true'] at h; exact ⟨h.1.1, h.1.2, h.2⟩

-- the handlers over their finite parameter spaces: every case is evaluated by the kernel

theorem propfind_core (ct : CType) (b : Body) (d : Depth) (missing deep : Bool) :
    (isXml ct && badXml "PROPFIND" b || !isXml ct && b != .empty || decide (d = .bad)) = true →
    good (propfindK ct b d missing deep) = true := by
  cases ct <;> cases b <;> cases d <;> cases missing <;> cases deep <;> decide

theorem proppatch_core (card : Bool) (ct : CType) (b : Body) :
    (badXml "PROPPATCH" b || !isXml ct) = true → good (proppatchK card ct b) = true := by
  cases card <;> cases ct <;> cases b <;> decide

theorem report_core (ct : CType) (b : Body) :
    (badXml "REPORT" b || !isXml ct) = true → good (reportK ct b) = true := by
  cases ct <;> cases b <;> decide

theorem principal_core (ct : CType) (b : Body) :
    (b != .empty && (badXml "PROPFIND" b || !isXml ct)) = true → good (principalPropfindK ct b) = true := by
  cases ct <;> cases b <;> decide

theorem mkcol_core (lvl : Bool) (ct : CType) (b : Body) :
    (b != .empty && (badXml "MKCOL" b || !isXml ct)) = true → good (mkcolK lvl ct b) = true := by
  cases lvl <;> cases ct <;> cases b <;> decide

theorem put_core (ct : CType) (b : Body) :
    (!(decide (ct = .obj) || decide (ct = .objparam)) || b != .objok) = true → good (putK ct b) = true := by
  cases ct <;> cases b <;> decide

theorem copyMove_core (isCopy : Bool) (dst : Dst) (ow : Ow) (d : Depth) :
    (dst != .ok || decide (ow = .bad) || decide (d = .bad)) = true → good (copyMoveK isCopy dst ow d) = true := by
  cases isCopy <;> cases dst <;> cases ow <;> cases d <;> decide

theorem davServe_eq (r : Req) : davServe r =
    if r.method = "REPORT" then report r
    else if r.method = "OPTIONS" then refuse 204 else if r.method = "GET" then headGet r else if r.method = "HEAD" then headGet r
    else if r.method = "PUT" then put r else if r.method = "DELETE" then delete r else if r.method = "PROPFIND" then propfind r
    else if r.method = "PROPPATCH" then proppatch r else if r.method = "MKCOL" then mkcol r else if r.method = "COPY" then copyMove r
    else if r.method = "MOVE" then copyMove r else refuse 405 := by
  unfold davServe
  rw [handlerOf_eq]
  by_cases h0 : r.method = "REPORT"; · simp +decide [h0]
  by_cases h1 : r.method = "OPTIONS"; · simp +decide [h1]
  by_cases h2 : r.method = "GET"; · simp +decide [h2]
  by_cases h3 : r.method = "HEAD"; · simp +decide [h3]
  by_cases h4 : r.method = "PUT"; · simp +decide [h4]
  by_cases h5 : r.method = "DELETE"; · simp +decide [h5]
  by_cases h6 : r.method = "PROPFIND"; · simp +decide [h6]
  by_cases h7 : r.method = "PROPPATCH"; · simp +decide [h7]
  by_cases h8 : r.method = "MKCOL"; · simp +decide [h8]
  by_cases h9 : r.method = "COPY"; · simp +decide [h9]
  by_cases h10 : r.method = "MOVE"; · simp +decide [h10]
  simp +decide [h0, h1, h2, h3, h4, h5, h6, h7, h8, h9, h10]

/-- every malformed request to the CalDAV / CardDAV handlers or the principal helper is answered 4xx and reaches no
    create, update or delete call of the backend -/
theorem C13_malformed_4xx (r : Req) (h : malformed r = true) :
    400 ≤ (serve r).status ∧ (serve r).status < 500 ∧ (serve r).mutated = false := by
  apply good_spec
  unfold malformed at h
  unfold serve
  cases hs : r.srv
  case prin =>
    simp only [hs, Bool.and_eq_true, decide_eq_true_eq] at h ⊢
    unfold principalServe
    have hne : r.method ≠ "OPTIONS" := by rw [h.1.1]; decide
    simp only [hne, if_false, h.1.1, if_true]
    have h2 : (r.body != .empty) = true := h.1.2
    have h3 : (badXml r.method r.body || !isXml r.ctype) = true := h.2
    exact principal_core r.ctype r.body (by rw [← h.1.1, h2, h3]; rfl)
  all_goals
    simp only [hs] at h ⊢
    rw [davServe_eq]
    simp only [Bool.or_eq_true, Bool.and_eq_true, decide_eq_true_eq] at h
    rcases h with (((h | h) | h) | h) | h
    · obtain ⟨hm, hb⟩ := h
      rcases hm with hm | hm
      · simp +decide only [hm, if_false, if_true]
        exact proppatch_core _ r.ctype r.body (by rw [← hm]; simpa [Bool.or_eq_true] using hb)
      · simp only [hm, if_true]
        exact report_core r.ctype r.body (by rw [← hm]; simpa [Bool.or_eq_true] using hb)
    · obtain ⟨hm, hb⟩ := h
      simp +decide only [hm, if_false, if_true]
      exact propfind_core r.ctype r.body r.depth _ _ (by rw [← hm]; simpa [Bool.or_eq_true, Bool.and_eq_true] using hb)
    · obtain ⟨⟨hm, hne⟩, hb⟩ := h
      simp +decide only [hm, if_false, if_true]
      have hne' : r.body ≠ .empty := by simpa using hne
      have hb' : (badXml r.method r.body || !isXml r.ctype) = true := by simpa [Bool.or_eq_true] using hb
      exact mkcol_core _ r.ctype r.body (by rw [← hm, hb']; simp [hne'])
    · obtain ⟨hm, hb⟩ := h
      simp +decide only [hm, if_false, if_true]
      exact put_core r.ctype r.body (by simpa [Bool.or_eq_true] using hb)
    · obtain ⟨hm, hb⟩ := h
      have hcm : (if r.method = "REPORT" then report r
          else if r.method = "OPTIONS" then refuse 204 else if r.method = "GET" then headGet r else if r.method = "HEAD" then headGet r
          else if r.method = "PUT" then put r else if r.method = "DELETE" then delete r else if r.method = "PROPFIND" then propfind r
          else if r.method = "PROPPATCH" then proppatch r else if r.method = "MKCOL" then mkcol r else if r.method = "COPY" then copyMove r
          else if r.method = "MOVE" then copyMove r else refuse 405) = copyMove r := by
        rcases hm with hm | hm <;> simp +decide [hm]
      rw [hcm]
      exact copyMove_core _ r.dst r.ow r.depth (by simpa [Bool.or_eq_true] using hb)

-- the rest of the decision table ----------------------------------------------------------------------------------------------

theorem serve_cases (r : Req) : serve r = principalServe r ∨ serve r = davServe r := by
  unfold serve; cases r.srv <;> simp

def okCodes : List Nat := [200, 201, 204, 207, 400, 403, 404, 405, 501]

theorem propfind_codes (ct : CType) (b : Body) (d : Depth) (m dp : Bool) :
    (propfindK ct b d m dp).status ∈ okCodes ∧ (propfindK ct b d m dp).mutated = false := by
  cases ct <;> cases b <;> cases d <;> cases m <;> cases dp <;> decide
theorem proppatch_codes (c : Bool) (ct : CType) (b : Body) :
    (proppatchK c ct b).status ∈ okCodes ∧ (proppatchK c ct b).mutated = false := by
  cases c <;> cases ct <;> cases b <;> decide
theorem report_codes (ct : CType) (b : Body) : (reportK ct b).status ∈ okCodes ∧ (reportK ct b).mutated = false := by
  cases ct <;> cases b <;> decide
theorem principal_codes (ct : CType) (b : Body) :
    (principalPropfindK ct b).status ∈ okCodes ∧ (principalPropfindK ct b).mutated = false := by
  cases ct <;> cases b <;> decide
theorem mkcol_codes (l : Bool) (ct : CType) (b : Body) :
    (mkcolK l ct b).status ∈ okCodes ∧ ((mkcolK l ct b).mutated = true → (mkcolK l ct b).status = 201) := by
  cases l <;> cases ct <;> cases b <;> decide
theorem put_codes (ct : CType) (b : Body) :
    (putK ct b).status ∈ okCodes ∧ ((putK ct b).mutated = true → (putK ct b).status = 201) := by
  cases ct <;> cases b <;> decide
theorem copyMove_codes (c : Bool) (dst : Dst) (ow : Ow) (d : Depth) :
    (copyMoveK c dst ow d).status ∈ okCodes ∧ (copyMoveK c dst ow d).mutated = false := by
  cases c <;> cases dst <;> cases ow <;> cases d <;> decide

/-- a complete answer with one of nine status codes for EVERY request descriptor (any method string, any level), and
    a create/update/delete call only ever happens on a path that answers 201 or 204 -/
theorem C13_complete_answer (r : Req) :
    (serve r).status ∈ okCodes ∧ ((serve r).mutated = true → (serve r).status = 201 ∨ (serve r).status = 204) := by
  rcases serve_cases r with h | h <;> rw [h]
  · unfold principalServe
    split
    · decide
    · split
      · have := principal_codes r.ctype r.body
        exact ⟨this.1, fun hm => by rw [this.2] at hm; cases hm⟩
      · decide
  · rw [davServe_eq]
    repeat' split
    · have := report_codes r.ctype r.body; exact ⟨this.1, fun hm => by unfold report at hm; rw [this.2] at hm; cases hm⟩
    · decide
    · unfold headGet; split <;> decide
    · unfold headGet; split <;> decide
    · have := put_codes r.ctype r.body; exact ⟨this.1, fun hm => Or.inl (this.2 hm)⟩
    · unfold delete; cases r.srv <;> simp only [] <;> (try split) <;> decide
    · have := propfind_codes r.ctype r.body r.depth (decide (r.level = 3 ∨ r.level = 4) && !r.exists_) (decide (r.level ≥ 5))
      exact ⟨this.1, fun hm => by unfold propfind at hm; rw [this.2] at hm; cases hm⟩
    · have := proppatch_codes (r.srv = .card) r.ctype r.body; exact ⟨this.1, fun hm => by unfold proppatch at hm; rw [this.2] at hm; cases hm⟩
    · have := mkcol_codes (r.level = 3) r.ctype r.body; exact ⟨this.1, fun hm => Or.inl (this.2 hm)⟩
    · have := copyMove_codes (r.method = "COPY") r.dst r.ow r.depth
      exact ⟨this.1, fun hm => by unfold copyMove at hm; rw [this.2] at hm; cases hm⟩
    · have := copyMove_codes (r.method = "COPY") r.dst r.ow r.depth
      exact ⟨this.1, fun hm => by unfold copyMove at hm; rw [this.2] at hm; cases hm⟩
    · decide

/-- the only 5xx these handlers ever produce is 501 Not Implemented -/
theorem C13_only_5xx_is_501 (r : Req) (h : (serve r).status ≥ 500) : (serve r).status = 501 := by
  have hc := (C13_complete_answer r).1
  simp only [okCodes, List.mem_cons, List.not_mem_nil, or_false] at hc
  omega

/-- …and never for a malformed request -/
theorem C13_501_is_wellformed (r : Req) (h : (serve r).status = 501) : malformed r = false := by
  cases hm : malformed r
  · rfl
  · have := C13_malformed_4xx r hm; omega

-- non-vacuity: malformed descriptors exist at every layer, and so do well-formed ones
example : malformed ⟨.cal, "REPORT", 3, true, .xml, .trunc, .absent, .absent, .absent⟩ = true := by decide
example : malformed ⟨.card, "PUT", 4, false, .obj, .objbad, .absent, .absent, .absent⟩ = true := by decide
example : malformed ⟨.prin, "PROPFIND", 1, true, .xml, .noform, .absent, .absent, .absent⟩ = true := by decide
example : malformed ⟨.cal, "MOVE", 4, true, .none, .empty, .bad, .t, .ok⟩ = true := by decide
example : malformed ⟨.cal, "PROPFIND", 3, true, .xml, .valid, .d1, .absent, .absent⟩ = false ∧
    (serve ⟨.cal, "PROPFIND", 3, true, .xml, .valid, .d1, .absent, .absent⟩).status = 207 := by decide
example : (serve ⟨.card, "PUT", 4, false, .objparam, .objok, .absent, .absent, .absent⟩) = ⟨201, true⟩ := by decide

-- the WebDAV file server --------------------------------------------------------------------------------------------------------

def all4 (l : List Nat) : Bool := l.all (fun c => decide (400 ≤ c) && decide (c < 500))

theorem all4_append (a b : List Nat) : all4 (a ++ b) = (all4 a && all4 b) := by unfold all4; exact List.all_append
theorem all4_ite (c : Prop) [Decidable c] (a b : List Nat) : all4 (if c then a else b) = if c then all4 a else all4 b := by
  split <;> rfl

open GoWebdav.Std.Posix GoWebdav.Impl.Webdav GoWebdav.Spec.Rfc4918 in
theorem all4_cond (ex : Bool) (im inm : CondView) : all4 (condRefusal ex im inm) = true := by
  unfold condRefusal; split <;> rfl

open GoWebdav.Std.Posix GoWebdav.Impl.Webdav GoWebdav.Spec.Rfc4918 in
theorem all4_refusals (t : FS) (r : Request) : all4 (refusals t r) = true := by
  unfold refusals
  repeat' split
  all_goals simp only [all4_append, all4_ite, all4_cond, Bool.and_true, Bool.true_and, Bool.and_eq_true]
  all_goals (try simp only [show all4 [400] = true from rfl, show all4 [403] = true from rfl, show all4 [404] = true from rfl,
    show all4 [405] = true from rfl, show all4 [409] = true from rfl, show all4 [412] = true from rfl, show all4 [415] = true from rfl,
    show all4 [403, 409] = true from rfl, show all4 [] = true from rfl, show all4 [400, 403, 404, 405, 409, 415, 422, 423] = true from rfl,
    ite_self, and_self])
  all_goals (try (cases hd : destTarget r <;>
    simp only [all4_append, all4_ite, show all4 [403] = true from rfl, show all4 [409] = true from rfl, show all4 [412] = true from rfl,
      show all4 [403, 409] = true from rfl, show all4 [] = true from rfl, ite_self, Bool.and_self, Bool.and_true] <;> simp))

open GoWebdav.Std.Posix GoWebdav.Impl.Webdav GoWebdav.Spec.Rfc4918 in
/-- every refusal code of the abstract RFC 4918 model is a 4xx code -/
theorem refusals_4xx (t : FS) (r : Request) : ∀ c ∈ refusals t r, 400 ≤ c ∧ c < 500 := by
  intro c hc
  have := all4_refusals t r
  unfold all4 at this
  have := List.all_eq_true.mp this c hc
  simpa using this

open GoWebdav.Std.Posix GoWebdav.Impl.Webdav GoWebdav.Spec.Rfc4918 GoWebdav.Lemmas.Refine GoWebdav.Lemmas.Webdav in
/-- WebDAV file server: a request to which any refusal condition of the RFC 4918 model applies — invalid Depth,
    Overwrite, Destination, Content-Type or PROPFIND body included — is answered 4xx and leaves the tree as it was -/
theorem C13_fs_refused_4xx (t : FS) (hwf : WF t) (r : Request) (hnr : ¬ FaultRegion t r) (h : refusals t r ≠ []) :
    400 ≤ (step t r).2.status ∧ (step t r).2.status < 500 ∧ Same (step t r).1 t := by
  have ha := C01.C01_refines_partial t hwf r hnr
  unfold allows at ha
  rw [if_pos h] at ha
  have := refusals_4xx t r _ ha.1
  exact ⟨this.1, this.2, ha.2⟩

open GoWebdav.Std.Posix GoWebdav.Impl.Webdav GoWebdav.Spec.Rfc4918 in
/-- the header and body defects of the property are refusal conditions -/
theorem C13_fs_malformed_is_refused (t : FS) (r : Request)
    (h : (r.method = "COPY" ∨ r.method = "MOVE") ∧ (destTarget r = none ∨ validOverwrite r.overwrite = false ∨ validDepth r.depth = false)
       ∨ r.method = "PROPFIND" ∧ (validDepth r.depth = false ∨ bodyForm r = none ∨ bodyForm r = some .noform)
       ∨ r.method = "MKCOL" ∧ r.ctypeSet = true) : refusals t r ≠ [] := by
  unfold refusals
  cases ht : target r.path with
  | none => simp
  | some p =>
    simp only []
    rcases h with ⟨hm, hb⟩ | ⟨hm, hb⟩ | ⟨hm, hb⟩
    · have h1 : r.method ≠ "OPTIONS" := by rcases hm with hm | hm <;> rw [hm] <;> decide
      have h2 : ¬ (r.method = "GET" ∨ r.method = "HEAD") := by rcases hm with hm | hm <;> rw [hm] <;> decide
      have h3 : r.method ≠ "PUT" := by rcases hm with hm | hm <;> rw [hm] <;> decide
      have h4 : r.method ≠ "DELETE" := by rcases hm with hm | hm <;> rw [hm] <;> decide
      have h5 : r.method ≠ "MKCOL" := by rcases hm with hm | hm <;> rw [hm] <;> decide
      simp only [h1, h2, h3, h4, h5, hm, if_false, if_true]
      rcases hb with hb | hb | hb <;> simp [hb]
    · simp +decide only [hm, if_false, if_true]
      rcases hb with hb | hb | hb <;> simp [hb]
    · simp +decide only [hm, if_false, if_true]
      simp [hb]

end GoWebdav.Props.C13
