import GoWebdav.Lemmas.RawXml
/-!
# C15 — Raw XML values preserve the element tree they captured

`Impl.RawXml` mirrors internal/xml.go.  Trees are namespace-resolved (what `xml.Decoder.Token` delivers); byte-level
lexing and prefix choice are below the model and are covered by the correspondence (documents with default and
prefixed namespaces, redeclaration, undeclaration, re-read with encoding/xml and compared as expanded trees).
-/
namespace GoWebdav.Props.C15
open GoWebdav.Impl.RawXml GoWebdav.Lemmas.RawXml

/-- a captured element written out again denotes the same tree (any depth, any fan-out), and capturing consumes
    exactly the element's own tokens -/
theorem C15_capture_replay (t : Tag) (cs : List Raw) (rest : List Tok) :
    parseElem (flatten (.elem t cs) ++ rest) = some (.elem t cs, rest) := parse_flatten t cs rest

/-- the token reader of a raw value produces exactly the value's token stream and then EOF — it is finite:
    `length + 1` calls of `Token()` suffice -/
theorem C15_reader_refines (v : Raw) : drain ((flatten v).length + 1) (fresh v) = flatten v := by
  have hc : Consistent (fresh v) := by simp [fresh, Consistent]
  rw [drain_spec (fresh v) hc _ (by rw [remaining_fresh]; omega), remaining_fresh]

/-- the token stream of a raw value is balanced and well nested -/
theorem C15_balanced (v : Raw) : balanced [] (flatten v) = true := by
  have := balanced_flatten v [] []
  simpa [balanced] using this

/-- decoding from a captured raw value sees the same tokens as decoding the original document: any decoder that is a
    function of the token stream yields the same typed value either way -/
theorem C15_decode_commutes {α} (decodeTyped : List Tok → α) (t : Tag) (cs : List Raw) (capture : Raw)
    (h : parseElem (flatten (.elem t cs)) = some (capture, [])) :
    decodeTyped (drain ((flatten capture).length + 1) (fresh capture)) = decodeTyped (flatten (.elem t cs)) := by
  have := C15_capture_replay t cs []
  simp only [List.append_nil] at this
  rw [this] at h
  cases h
  rw [C15_reader_refines]

-- non-vacuity
def exRaw : Raw :=
  .elem ⟨"DAV:", "prop", [("", "a", "1")]⟩ [.leaf ⟨0, " "⟩, .elem ⟨"urn:x", "y", []⟩ [.leaf ⟨1, "c"⟩, .elem ⟨"", "z", []⟩ []], .leaf ⟨0, "t"⟩]
example : (parseElem (flatten exRaw)).map (fun x => (flatten x.1, x.2)) = some (flatten exRaw, []) := by decide
example : drain 20 (fresh exRaw) = flatten exRaw := by decide

end GoWebdav.Props.C15
