import GoWebdav.Lemmas.Carddav
/-!
# C07 — CardDAV filter evaluation, limit and projection follow RFC 6352 §10.5

`Impl.Carddav` mirrors carddav/match.go; `Spec.Carddav` restates the property with `any`/`all`/`filter`/`take`.
Reading adopted (DESIGN §5 C07): "the property value" is the first instance of the property, as `Card.Get` returns it.
Non-modification of the arguments is an aliasing statement that a pure model cannot express; it is checked by the
harness (deep copy before / deep compare after every call) as validation of the model's purity assumption.
-/
namespace GoWebdav.Props.C07
open GoWebdav GoWebdav.Impl.Carddav GoWebdav.Spec.Carddav GoWebdav.Lemmas.Carddav

/-- Match is the RFC truth table for every query whose enumerations are valid and every card -/
theorem C07_match_eq_spec (q : Query) (card : Card) (hv : ValidQuery q) :
    match_ q card = .ok (holds q card) := match_valid q card hv

/-- a nil query matches everything -/
theorem C07_nil_query_matches (card : Card) : matchOpt none card = .ok true := rfl

/-- an unknown query-level test is reported as an error, for every card -/
theorem C07_unknown_query_test_is_error (q : Query) (card : Card) (h : validTest q.filterTest = false) :
    ∃ e, match_ q card = .error e := ⟨_, match_unknown_test q card h⟩

/-- an unknown property-level test is an error whenever it is consulted (property present, text-matches to combine) -/
theorem C07_unknown_prop_test_is_error (pf : PropFilter) (card : Card) (v : String) (hg : card.get pf.name = some v)
    (hind : pf.isNotDefined = false) (hne : pf.textMatches.isEmpty = false) (h : validTest pf.test = false) :
    matchPropFilter pf card = .error .unknownPropTest := by
  simp only [validTest, decide_eq_false_iff_not, not_or] at h
  unfold matchPropFilter
  simp [hg, hind, hne, h.1, h.2.1, h.2.2]

/-- an unknown match type is an error whenever that text-match is evaluated -/
theorem C07_unknown_match_type_is_error (t : TextMatch) (v : String) (h : validMatchType t.matchType = false) :
    matchTextMatch t v = .error .unknownMatchType := by
  simp only [validMatchType, decide_eq_false_iff_not, not_or] at h
  unfold matchTextMatch
  simp [h.1, h.2.1, h.2.2.1, h.2.2.2.1, h.2.2.2.2]

/-- never guessed: whenever `matchTextMatch` answers, the answer is the truth table's -/
theorem C07_text_verdict_never_guessed (t : TextMatch) (v : String) (b : Bool) (h : matchTextMatch t v = .ok b) :
    validMatchType t.matchType = true ∧ b = textHolds t v := by
  by_cases hv : validMatchType t.matchType = true
  · rw [matchTextMatch_valid t v hv] at h; exact ⟨hv, by cases h; rfl⟩
  · simp only [Bool.not_eq_true] at hv
    rw [C07_unknown_match_type_is_error t v hv] at h; cases h

/-- Filter = matching objects, in input order, cut to the first Limit matches when Limit is positive,
    each reduced to VERSION plus the requested properties -/
theorem C07_filter_eq_select (q : Query) (aos : List AO) (hv : ValidQuery q) (hnp : NoPanic q aos) :
    ∃ out, filter (some q) aos = .ok out ∧ Forall2 (Projects q) (selected q aos) out := by
  unfold filter selected
  simp only
  cases aos with
  | nil => exact ⟨[], rfl, by simpa [cut] using Forall2.nil⟩
  | cons a as =>
    have hpos : 0 < effLimit q.limit (a :: as).length := by
      unfold effLimit
      by_cases h : q.limit ≤ 0 ∨ q.limit > ((a :: as).length : Int)
      · rw [if_pos h]; simp
      · rw [if_neg h]; omega
    obtain ⟨out, h1, h2⟩ := filterLoop_spec q hv _ (a :: as) hnp 0 hpos
    refine ⟨out, h1, ?_⟩
    rw [Nat.sub_zero, take_effLimit] at h2
    exact h2

/-- a nil query returns all objects -/
theorem C07_filter_nil (aos : List AO) : filter none aos = .ok aos := rfl

/-- whole card for all-properties or an empty selection -/
theorem C07_whole_card (q : Query) (ao : AO) (h : q.allProp = true ∨ q.props.isEmpty = true) :
    filterProperties q ao = .ok ao := by
  unfold filterProperties; rw [if_pos h]

-- non-vacuity ------------------------------------------------------------------------------
def exQuery : Query :=
  { allProp := false, props := ["EMAIL"], filterTest := "allof", limit := 1,
    propFilters := [⟨"EMAIL", "anyof", false, [⟨"x@", false, "starts-with"⟩, ⟨"nope", true, "equals"⟩]⟩, ⟨"TEL", "", true, []⟩] }
def exCard : Card := [("VERSION", ["4.0"]), ("EMAIL", ["x@y.z", "other"]), ("FN", ["X"])]

example : ValidQuery exQuery ∧ NoPanic exQuery [⟨"/a", exCard⟩, ⟨"/b", exCard⟩] := by
  refine ⟨by decide, Or.inr (Or.inr ?_)⟩
  intro ao hao; simp at hao; rcases hao with rfl | rfl <;> rfl
example : holds exQuery exCard = true := by decide
example : filter (some exQuery) [⟨"/a", exCard⟩, ⟨"/b", exCard⟩]
    = .ok [⟨"/a", [("EMAIL", ["x@y.z", "other"]), ("VERSION", ["4.0"])]⟩] := by decide

end GoWebdav.Props.C07
