import GoWebdav.Generated.Facts
import GoWebdav.Expected.Pinned
/-! Tie A: the regenerated table `webdavPanicsByFile` equals the pinned one (kernel-checked, `rfl` on literals). -/
namespace GoWebdav.Props.Pin

theorem pin_webdavPanicsByFile : Generated.webdavPanicsByFile = Expected.Pinned.webdavPanicsByFile := by decide

end GoWebdav.Props.Pin
