import GoWebdav.Generated.Facts
import GoWebdav.Expected.Pinned
/-! Tie A: the regenerated table `caldavIndexSites` equals the pinned one (kernel-checked, `rfl` on literals). -/
namespace GoWebdav.Props.Pin

theorem pin_caldavIndexSites : Generated.caldavIndexSites = Expected.Pinned.caldavIndexSites := by decide

end GoWebdav.Props.Pin
