import GoWebdav.Generated.Facts
import GoWebdav.Expected.Pinned
/-! Tie A: the regenerated table `internalIndexShapesByFile` equals the pinned one (kernel-checked, `rfl` on literals). -/
namespace GoWebdav.Props.Pin

theorem pin_internalIndexShapesByFile : Generated.internalIndexShapesByFile = Expected.Pinned.internalIndexShapesByFile := by decide

end GoWebdav.Props.Pin
