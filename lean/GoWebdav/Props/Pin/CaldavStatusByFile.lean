import GoWebdav.Generated.Facts
import GoWebdav.Expected.Pinned
/-! Tie A: the regenerated table `caldavStatusByFile` equals the pinned one (kernel-checked, `rfl` on literals). -/
namespace GoWebdav.Props.Pin

theorem pin_caldavStatusByFile : Generated.caldavStatusByFile = Expected.Pinned.caldavStatusByFile := by decide

end GoWebdav.Props.Pin
