import GoWebdav.Generated.Facts
import GoWebdav.Expected.Pinned
/-! Tie A: the regenerated table `internalStatusSites` equals the pinned one (kernel-checked, `rfl` on literals). -/
namespace GoWebdav.Props.Pin

theorem pin_internalStatusSites : Generated.internalStatusSites = Expected.Pinned.internalStatusSites := by decide

end GoWebdav.Props.Pin
