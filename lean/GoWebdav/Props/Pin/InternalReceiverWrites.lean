import GoWebdav.Generated.Facts
import GoWebdav.Expected.Pinned
/-! Tie A: the regenerated table `internalReceiverWrites` equals the pinned one (kernel-checked, `rfl` on literals). -/
namespace GoWebdav.Props.Pin

theorem pin_internalReceiverWrites : Generated.internalReceiverWrites = Expected.Pinned.internalReceiverWrites := by decide

end GoWebdav.Props.Pin
