import GoWebdav.Generated.Facts
import GoWebdav.Expected.Pinned
/-! Tie A: the regenerated table `carddavIndexShapesByFile` equals the pinned one (kernel-checked, `rfl` on literals). -/
namespace GoWebdav.Props.Pin

theorem pin_carddavIndexShapesByFile : Generated.carddavIndexShapesByFile = Expected.Pinned.carddavIndexShapesByFile := by decide

end GoWebdav.Props.Pin
