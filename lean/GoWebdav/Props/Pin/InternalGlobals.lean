import GoWebdav.Generated.Facts
import GoWebdav.Expected.Pinned
/-! Tie A: the regenerated table `internalGlobals` equals the pinned one (kernel-checked, `rfl` on literals). -/
namespace GoWebdav.Props.Pin

theorem pin_internalGlobals : Generated.internalGlobals = Expected.Pinned.internalGlobals := by decide

end GoWebdav.Props.Pin
