import GoWebdav.Generated.Schema
import GoWebdav.Expected.Pinned
/-! Tie A: the regenerated table `webdavSchema` equals the pinned one (kernel-checked, `rfl` on literals). -/
namespace GoWebdav.Props.Pin

theorem pin_webdavSchema : Generated.webdavSchema = Expected.Pinned.webdavSchema := by decide

end GoWebdav.Props.Pin
