import GoWebdav.Generated.Schema
import GoWebdav.Expected.Pinned
/-! Tie A: the regenerated table `internalSchema` equals the pinned one (kernel-checked, `rfl` on literals). -/
namespace GoWebdav.Props.Pin

theorem pin_internalSchema : Generated.internalSchema = Expected.Pinned.internalSchema := by decide

end GoWebdav.Props.Pin
