import GoWebdav.Generated.Facts
import GoWebdav.Expected.Pinned
/-! Tie A: the regenerated table `carddavIndexSites` equals the pinned one (kernel-checked, `rfl` on literals). -/
namespace GoWebdav.Props.Pin

theorem pin_carddavIndexSites : Generated.carddavIndexSites = Expected.Pinned.carddavIndexSites := by decide

end GoWebdav.Props.Pin
