import GoWebdav.Generated.Facts
import GoWebdav.Expected.Pinned
/-! Tie A: the regenerated table `internalPanicSites` equals the pinned one (kernel-checked, `rfl` on literals). -/
namespace GoWebdav.Props.Pin

theorem pin_internalPanicSites : Generated.internalPanicSites = Expected.Pinned.internalPanicSites := by decide

end GoWebdav.Props.Pin
