import GoWebdav.Generated.Facts
import GoWebdav.Expected.Pinned
/-! Tie A: the regenerated table `caldavStatusSites` equals the pinned one (kernel-checked, `rfl` on literals). -/
namespace GoWebdav.Props.Pin

theorem pin_caldavStatusSites : Generated.caldavStatusSites = Expected.Pinned.caldavStatusSites := by decide

end GoWebdav.Props.Pin
