import GoWebdav.Generated.Facts
import GoWebdav.Expected.Pinned
/-! Tie A: the regenerated table `caldavReceiverWriteTypes` equals the pinned one (kernel-checked, `rfl` on literals). -/
namespace GoWebdav.Props.Pin

theorem pin_caldavReceiverWriteTypes : Generated.caldavReceiverWriteTypes = Expected.Pinned.caldavReceiverWriteTypes := by decide

end GoWebdav.Props.Pin
