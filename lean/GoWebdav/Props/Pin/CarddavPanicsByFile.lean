import GoWebdav.Generated.Facts
import GoWebdav.Expected.Pinned
/-! Tie A: the regenerated table `carddavPanicsByFile` equals the pinned one (kernel-checked, `rfl` on literals). -/
namespace GoWebdav.Props.Pin

theorem pin_carddavPanicsByFile : Generated.carddavPanicsByFile = Expected.Pinned.carddavPanicsByFile := by decide

end GoWebdav.Props.Pin
