import GoWebdav.Generated.Facts
import GoWebdav.Expected.Pinned
/-! Tie A: the regenerated table `carddavReceiverWrites` equals the pinned one (kernel-checked, `rfl` on literals). -/
namespace GoWebdav.Props.Pin

theorem pin_carddavReceiverWrites : Generated.carddavReceiverWrites = Expected.Pinned.carddavReceiverWrites := by decide

end GoWebdav.Props.Pin
