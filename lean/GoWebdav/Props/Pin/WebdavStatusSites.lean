import GoWebdav.Generated.Facts
import GoWebdav.Expected.Pinned
/-! Tie A: the regenerated table `webdavStatusSites` equals the pinned one (kernel-checked, `rfl` on literals). -/
namespace GoWebdav.Props.Pin

theorem pin_webdavStatusSites : Generated.webdavStatusSites = Expected.Pinned.webdavStatusSites := by decide

end GoWebdav.Props.Pin
