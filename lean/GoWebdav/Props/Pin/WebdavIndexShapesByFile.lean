import GoWebdav.Generated.Facts
import GoWebdav.Expected.Pinned
/-! Tie A: the regenerated table `webdavIndexShapesByFile` equals the pinned one (kernel-checked, `rfl` on literals). -/
namespace GoWebdav.Props.Pin

theorem pin_webdavIndexShapesByFile : Generated.webdavIndexShapesByFile = Expected.Pinned.webdavIndexShapesByFile := by decide

end GoWebdav.Props.Pin
