import GoWebdav.Generated.Facts
import GoWebdav.Expected.Pinned
/-! Tie A: the regenerated table `webdavStatusByFile` equals the pinned one (kernel-checked, `rfl` on literals). -/
namespace GoWebdav.Props.Pin

theorem pin_webdavStatusByFile : Generated.webdavStatusByFile = Expected.Pinned.webdavStatusByFile := by decide

end GoWebdav.Props.Pin
