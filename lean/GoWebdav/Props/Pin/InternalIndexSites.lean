import GoWebdav.Generated.Facts
import GoWebdav.Expected.Pinned
/-! Tie A: the regenerated table `internalIndexSites` equals the pinned one (kernel-checked, `rfl` on literals). -/
namespace GoWebdav.Props.Pin

theorem pin_internalIndexSites : Generated.internalIndexSites = Expected.Pinned.internalIndexSites := by decide

end GoWebdav.Props.Pin
