import GoWebdav.Generated.Facts
import GoWebdav.Expected.Pinned
/-! Tie A: the regenerated table `carddavGlobals` equals the pinned one (kernel-checked, `rfl` on literals). -/
namespace GoWebdav.Props.Pin

theorem pin_carddavGlobals : Generated.carddavGlobals = Expected.Pinned.carddavGlobals := by decide

end GoWebdav.Props.Pin
