import GoWebdav.Generated.Facts
import GoWebdav.Expected.Pinned
/-! Tie A: the regenerated table `webdavIndexSites` equals the pinned one (kernel-checked, `rfl` on literals). -/
namespace GoWebdav.Props.Pin

theorem pin_webdavIndexSites : Generated.webdavIndexSites = Expected.Pinned.webdavIndexSites := by decide

end GoWebdav.Props.Pin
