import GoWebdav.Generated.Facts
import GoWebdav.Expected.Pinned
/-! Tie A: the regenerated table `caldavPanicsByFile` equals the pinned one (kernel-checked, `rfl` on literals). -/
namespace GoWebdav.Props.Pin

theorem pin_caldavPanicsByFile : Generated.caldavPanicsByFile = Expected.Pinned.caldavPanicsByFile := by decide

end GoWebdav.Props.Pin
