import GoWebdav.Generated.Facts
import GoWebdav.Expected.Pinned
/-! Tie A: the regenerated table `caldavIndexShapesByFile` equals the pinned one (kernel-checked, `rfl` on literals). -/
namespace GoWebdav.Props.Pin

theorem pin_caldavIndexShapesByFile : Generated.caldavIndexShapesByFile = Expected.Pinned.caldavIndexShapesByFile := by decide

end GoWebdav.Props.Pin
