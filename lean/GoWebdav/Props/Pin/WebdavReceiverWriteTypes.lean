import GoWebdav.Generated.Facts
import GoWebdav.Expected.Pinned
/-! Tie A: the regenerated table `webdavReceiverWriteTypes` equals the pinned one (kernel-checked, `rfl` on literals). -/
namespace GoWebdav.Props.Pin

theorem pin_webdavReceiverWriteTypes : Generated.webdavReceiverWriteTypes = Expected.Pinned.webdavReceiverWriteTypes := by decide

end GoWebdav.Props.Pin
