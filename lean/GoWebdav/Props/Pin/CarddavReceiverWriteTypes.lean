import GoWebdav.Generated.Facts
import GoWebdav.Expected.Pinned
/-! Tie A: the regenerated table `carddavReceiverWriteTypes` equals the pinned one (kernel-checked, `rfl` on literals). -/
namespace GoWebdav.Props.Pin

theorem pin_carddavReceiverWriteTypes : Generated.carddavReceiverWriteTypes = Expected.Pinned.carddavReceiverWriteTypes := by decide

end GoWebdav.Props.Pin
