import GoWebdav.Generated.Facts
import GoWebdav.Expected.Pinned
/-! Tie A: the regenerated table `carddavStatusSites` equals the pinned one (kernel-checked, `rfl` on literals). -/
namespace GoWebdav.Props.Pin

theorem pin_carddavStatusSites : Generated.carddavStatusSites = Expected.Pinned.carddavStatusSites := by decide

end GoWebdav.Props.Pin
