import GoWebdav.Generated.Facts
import GoWebdav.Expected.Pinned
/-! Tie A: the regenerated table `webdavPanicSites` equals the pinned one (kernel-checked, `rfl` on literals). -/
namespace GoWebdav.Props.Pin

theorem pin_webdavPanicSites : Generated.webdavPanicSites = Expected.Pinned.webdavPanicSites := by decide

end GoWebdav.Props.Pin
