import GoWebdav.Generated.Schema
import GoWebdav.Expected.Pinned
/-! Tie A: the regenerated table `caldavSchema` equals the pinned one (kernel-checked, `rfl` on literals). -/
namespace GoWebdav.Props.Pin

theorem pin_caldavSchema : Generated.caldavSchema = Expected.Pinned.caldavSchema := by decide

end GoWebdav.Props.Pin
