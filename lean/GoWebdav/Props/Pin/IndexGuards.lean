import GoWebdav.Expected.Pinned
import GoWebdav.Expected.IndexSiteGuards
/-! Every run-time-checked access of the pinned inventory has a recorded guard, and every recorded guard is for a
    pinned access (kernel-checked equality of the two site lists, per package).  Together with
    `pin_*IndexSites` (the CURRENT source has exactly the pinned accesses): every `x[i]`, `x[a:b]` and `x.(T)` of the
    current source is one whose guard was read. -/
namespace GoWebdav.Props.Pin
open GoWebdav.Expected

theorem index_sites_all_guarded :
    Guards.sites Guards.internal = Pinned.internalIndexSites ∧ Guards.sites Guards.webdav = Pinned.webdavIndexSites ∧
    Guards.sites Guards.caldav = Pinned.caldavIndexSites ∧ Guards.sites Guards.carddav = Pinned.carddavIndexSites := by
  decide

end GoWebdav.Props.Pin
