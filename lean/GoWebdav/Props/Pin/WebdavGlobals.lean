import GoWebdav.Generated.Facts
import GoWebdav.Expected.Pinned
/-! Tie A: the regenerated table `webdavGlobals` equals the pinned one (kernel-checked, `rfl` on literals). -/
namespace GoWebdav.Props.Pin

theorem pin_webdavGlobals : Generated.webdavGlobals = Expected.Pinned.webdavGlobals := by decide

end GoWebdav.Props.Pin
