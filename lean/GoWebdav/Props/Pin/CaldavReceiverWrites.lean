import GoWebdav.Generated.Facts
import GoWebdav.Expected.Pinned
/-! Tie A: the regenerated table `caldavReceiverWrites` equals the pinned one (kernel-checked, `rfl` on literals). -/
namespace GoWebdav.Props.Pin

theorem pin_caldavReceiverWrites : Generated.caldavReceiverWrites = Expected.Pinned.caldavReceiverWrites := by decide

end GoWebdav.Props.Pin
