import GoWebdav.Generated.Facts
import GoWebdav.Expected.Pinned
/-! Tie A: the regenerated table `carddavPanicSites` equals the pinned one (kernel-checked, `rfl` on literals). -/
namespace GoWebdav.Props.Pin

theorem pin_carddavPanicSites : Generated.carddavPanicSites = Expected.Pinned.carddavPanicSites := by decide

end GoWebdav.Props.Pin
