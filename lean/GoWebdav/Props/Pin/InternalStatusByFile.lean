import GoWebdav.Generated.Facts
import GoWebdav.Expected.Pinned
/-! Tie A: the regenerated table `internalStatusByFile` equals the pinned one (kernel-checked, `rfl` on literals). -/
namespace GoWebdav.Props.Pin

theorem pin_internalStatusByFile : Generated.internalStatusByFile = Expected.Pinned.internalStatusByFile := by decide

end GoWebdav.Props.Pin
