import GoWebdav.Generated.Facts
import GoWebdav.Expected.Pinned
/-! Tie A: the regenerated table `internalReceiverWriteTypes` equals the pinned one (kernel-checked, `rfl` on literals). -/
namespace GoWebdav.Props.Pin

theorem pin_internalReceiverWriteTypes : Generated.internalReceiverWriteTypes = Expected.Pinned.internalReceiverWriteTypes := by decide

end GoWebdav.Props.Pin
