import GoWebdav.Generated.Facts
import GoWebdav.Expected.Pinned
/-! Tie A: the regenerated table `carddavStatusByFile` equals the pinned one (kernel-checked, `rfl` on literals). -/
namespace GoWebdav.Props.Pin

theorem pin_carddavStatusByFile : Generated.carddavStatusByFile = Expected.Pinned.carddavStatusByFile := by decide

end GoWebdav.Props.Pin
