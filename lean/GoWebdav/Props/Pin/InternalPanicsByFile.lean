import GoWebdav.Generated.Facts
import GoWebdav.Expected.Pinned
/-! Tie A: the regenerated table `internalPanicsByFile` equals the pinned one (kernel-checked, `rfl` on literals). -/
namespace GoWebdav.Props.Pin

theorem pin_internalPanicsByFile : Generated.internalPanicsByFile = Expected.Pinned.internalPanicsByFile := by decide

end GoWebdav.Props.Pin
