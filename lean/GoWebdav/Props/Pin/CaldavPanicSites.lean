import GoWebdav.Generated.Facts
import GoWebdav.Expected.Pinned
/-! Tie A: the regenerated table `caldavPanicSites` equals the pinned one (kernel-checked, `rfl` on literals). -/
namespace GoWebdav.Props.Pin

theorem pin_caldavPanicSites : Generated.caldavPanicSites = Expected.Pinned.caldavPanicSites := by decide

end GoWebdav.Props.Pin
