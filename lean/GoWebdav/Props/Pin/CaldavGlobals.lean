import GoWebdav.Generated.Facts
import GoWebdav.Expected.Pinned
/-! Tie A: the regenerated table `caldavGlobals` equals the pinned one (kernel-checked, `rfl` on literals). -/
namespace GoWebdav.Props.Pin

theorem pin_caldavGlobals : Generated.caldavGlobals = Expected.Pinned.caldavGlobals := by decide

end GoWebdav.Props.Pin
