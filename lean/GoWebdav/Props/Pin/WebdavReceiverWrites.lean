import GoWebdav.Generated.Facts
import GoWebdav.Expected.Pinned
/-! Tie A: the regenerated table `webdavReceiverWrites` equals the pinned one (kernel-checked, `rfl` on literals). -/
namespace GoWebdav.Props.Pin

theorem pin_webdavReceiverWrites : Generated.webdavReceiverWrites = Expected.Pinned.webdavReceiverWrites := by decide

end GoWebdav.Props.Pin
