import GoWebdav.Generated.Schema
import GoWebdav.Expected.Pinned
/-! Tie A: the regenerated table `carddavSchema` equals the pinned one (kernel-checked, `rfl` on literals). -/
namespace GoWebdav.Props.Pin

theorem pin_carddavSchema : Generated.carddavSchema = Expected.Pinned.carddavSchema := by decide

end GoWebdav.Props.Pin
