import GoWebdav.Lemmas.Webdav
/-!
# C17 — Responses never disclose where the served directory lives on the host

In the model an `os` error carries the host paths Go puts into `*fs.PathError` / `*os.LinkError`; the response text is
built from it by `stripPaths` (`errFromOS`, `errFromOSDest`, `Mkdir`).  The theorem says no response of the model
carries a `host` item; the harness scans every real response (headers and body) for the served directory's
absolute path, which is what ties the claim to the Go code.
-/
namespace GoWebdav.Props.C17
open GoWebdav GoWebdav.Std.Posix GoWebdav.Impl.Webdav GoWebdav.Lemmas.Webdav

/-- whatever the OS error type and whichever paths it names, the stripped text names none -/
theorem C17_stripPaths_no_host (e : OsErr) : (stripPaths e).mentionsHost = false := by
  cases e <;> rfl

theorem err_clean (c : Nat) (m : Msg) (h : m.mentionsHost = false) : (err c m).msg.mentionsHost = false := h

theorem optionsResp_clean (t : FS) (r : Request) : (optionsResp t r).msg.mentionsHost = false := by
  unfold optionsResp; split <;> (try split) <;> rfl
theorem headGetResp_clean (t : FS) (r : Request) : (headGetResp t r).msg.mentionsHost = false := by
  unfold headGetResp; split <;> (try split) <;> rfl
theorem proppatchResp_clean (t : FS) (r : Request) : (proppatchResp t r).msg.mentionsHost = false := by
  unfold proppatchResp; split <;> (try split) <;> rfl
theorem propfindResp_clean (t : FS) (r : Request) : (propfindResp t r).msg.mentionsHost = false := by
  unfold propfindResp
  simp only
  repeat' split
  all_goals rfl
theorem put_clean (t : FS) (r : Request) : (put t r).2.msg.mentionsHost = false := by
  unfold put
  try dsimp only []
  repeat' split
  all_goals rfl
theorem delete_clean (t : FS) (r : Request) : (delete t r).2.msg.mentionsHost = false := by
  unfold delete
  try dsimp only []
  repeat' split
  all_goals rfl
theorem mkcol_clean (t : FS) (r : Request) : (mkcol t r).2.msg.mentionsHost = false := by
  unfold mkcol
  try dsimp only []
  repeat' split
  all_goals rfl
theorem copyMove_clean (t : FS) (m : Bool) (s d : Std.Path.Seg) (rec ow : Bool) :
    (copyMove t m s d rec ow).2.msg.mentionsHost = false := by
  unfold copyMove
  try dsimp only []
  repeat' split
  all_goals first | rfl | (simp only [err]; split <;> rfl)
theorem copyMoveHandler_clean (t : FS) (r : Request) : (copyMoveHandler t r).2.msg.mentionsHost = false := by
  unfold copyMoveHandler
  try dsimp only []
  repeat' split
  all_goals first | rfl | exact copyMove_clean _ _ _ _ _ _

/-- no response of the file server — successful or failed, any method, any tree, any request — contains the host
    path of the served directory or of anything beneath it -/
theorem C17_no_host_path (t : FS) (r : Request) : (step t r).2.msg.mentionsHost = false := by
  rw [step_eq]
  repeat' split
  · exact optionsResp_clean t r
  · exact headGetResp_clean t r
  · exact put_clean t r
  · exact delete_clean t r
  · exact propfindResp_clean t r
  · exact proppatchResp_clean t r
  · exact mkcol_clean t r
  · exact copyMoveHandler_clean t r
  · rfl

-- non-vacuity: the errors that leaked before the fix (MKCOL on an existing resource, a failed rename)
example : (step [([[97]], .dir), ([], .dir)] { method := "MKCOL", path := [47, 97] }).2 =
    { status := 405, msg := .opErrno "mkdir" "file exists" } := by decide
example : stripPaths (.linkErr "rename" [[97]] [[98], [99]] "no such file or directory") = .opErrno "rename" "no such file or directory" := rfl

end GoWebdav.Props.C17
