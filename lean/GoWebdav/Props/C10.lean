import GoWebdav.Impl.ObjectWire
/-!
# C10 — Calendars, address books and their objects reach the client unchanged

Model `Impl.ObjectWire` (property level).  For EVERY value — arbitrary strings for paths, names, descriptions and
entity tags, any instant, any size, any object content — and every family of text codecs that round-trips
(`Codecs.OK`: href escaping, tag quoting, HTTP date and decimal round trips are the theorems of C16; the iCalendar /
vCard round trip is go-ical's / go-vcard's), what the client rebuilds from what the server exposes is the backend's
value, up to the three conventions spelled out in `seen` (a size that is not positive means "no limit" and arrives
as 0; an unset component set arrives as the server's default VEVENT; an unset ContentLength arrives as 0).

A multiget answers each requested href exactly once and in request order.  A PUT hands the backend's path, entity tag
and modification time back to the caller.

Element names, namespaces and lexical forms of the multi-status documents are below this model: family `objwire` runs
the real client against the real server over generated values, reads the servers' raw multi-status documents with an
independent parser, and feeds the client documents from the independent writer.
-/
namespace GoWebdav.Props.C10
open GoWebdav.Impl.ObjectWire

variable {D : Type}

theorem get_cons_ne (h : String) (x : String × PV) (rest : List (String × PV)) (name : String) (hne : x.1 ≠ name) :
    (⟨h, x :: rest⟩ : WResp).get name = (⟨h, rest⟩ : WResp).get name := by
  unfold WResp.get
  have : (x.1 == name) = false := by simpa using hne
  simp [List.find?_cons, this]

/-- discovery: every calendar arrives as the backend holds it.  The hypotheses are the round trips of THIS value's
    path and size only (theorems of C16 for paths and sizes in their stated domains) -/
theorem C10_calendar_at (k : Codecs D) (c : Calendar)
    (hh : k.unescHref (k.escHref c.path) = some c.path)
    (hi : c.maxResourceSize > 0 → k.parseInt (k.fmtInt c.maxResourceSize) = some c.maxResourceSize) :
    calendarOf k (calendarResp k c) = .ok (some c.seen) := by
  obtain ⟨path, name, desc, size, comps⟩ := c
  simp only at hh hi
  unfold calendarOf calendarResp Calendar.seen
  simp only [hh]
  by_cases hn : name = "" <;> by_cases hs : size > 0 <;>
    simp [opt, hn, hs, WResp.get, optText, sizeOf?, hi, List.find?_cons] <;> omega

theorem C10_calendar (k : Codecs D) (hk : k.OK) (c : Calendar) : calendarOf k (calendarResp k c) = .ok (some c.seen) :=
  C10_calendar_at k c (hk.href _) (fun _ => hk.int _)

/-- discovery: every address book arrives as the backend holds it -/
theorem C10_addressBook_at (k : Codecs D) (b : AddressBook)
    (hh : k.unescHref (k.escHref b.path) = some b.path)
    (hi : b.maxResourceSize > 0 → k.parseInt (k.fmtInt b.maxResourceSize) = some b.maxResourceSize) :
    bookOf k (bookResp k b) = .ok (some b.seen) := by
  obtain ⟨path, name, desc, size⟩ := b
  simp only at hh hi
  unfold bookOf bookResp AddressBook.seen
  simp only [hh]
  by_cases hn : name = "" <;> by_cases hd : desc = "" <;> by_cases hs : size > 0 <;>
    simp [opt, hn, hd, hs, WResp.get, optText, sizeOf?, hi, List.find?_cons] <;> omega

theorem C10_addressBook (k : Codecs D) (hk : k.OK) (b : AddressBook) : bookOf k (bookResp k b) = .ok (some b.seen) :=
  C10_addressBook_at k b (hk.href _) (fun _ => hk.int _)

/-- Query / MultiGet / Sync: every object arrives with its path, modification time, entity tag and content -/
theorem C10_object_at (k : Codecs D) (dataName : String)
    (hd : dataName ≠ "getcontentlength" ∧ dataName ≠ "getlastmodified" ∧ dataName ≠ "getetag") (o : Obj D)
    (hh : k.unescHref (k.escHref o.path) = some o.path)
    (ht : k.unquoteTag (k.quoteTag o.etag) = some o.etag)
    (hm : ∀ t, o.modTime = some t → k.parseDate (k.fmtDate t) = some t)
    (hdat : k.decData (k.encData o.data) = some o.data) :
    objOf k dataName (objResp k dataName o) = .ok o.seenInReport := by
  obtain ⟨path, mod, len, etag, data⟩ := o
  obtain ⟨h1, h2, h3⟩ := hd
  simp only at hh ht hm hdat
  have e1 : (dataName == "getcontentlength") = false := by simpa using h1
  have e2 : (dataName == "getlastmodified") = false := by simpa using h2
  have e3 : (dataName == "getetag") = false := by simpa using h3
  unfold objOf objResp Obj.seenInReport
  simp only [hh]
  cases mod with
  | none => by_cases he : etag = "" <;>
      simp [opt, he, WResp.get, sizeOf?, hdat, ht, List.find?_cons, e1, e2, e3]
  | some t =>
    have hmt := hm t rfl
    by_cases he : etag = "" <;>
      simp [opt, he, WResp.get, sizeOf?, hdat, hmt, ht, List.find?_cons, e1, e2, e3]

theorem C10_object (k : Codecs D) (hk : k.OK) (dataName : String)
    (hd : dataName ≠ "getcontentlength" ∧ dataName ≠ "getlastmodified" ∧ dataName ≠ "getetag") (o : Obj D) :
    objOf k dataName (objResp k dataName o) = .ok o.seenInReport :=
  C10_object_at k dataName hd o (hk.href _) (hk.tag _) (fun _ _ => hk.date _) (hk.data _)

/-- GET: the headers carry entity tag, size and modification time back; the path is the one asked for -/
theorem C10_get_at (k : Codecs D) (o : Obj D)
    (ht : k.unquoteTag (k.quoteTag o.etag) = some o.etag)
    (hm : ∀ t, o.modTime = some t → k.parseDate (k.fmtDate t) = some t)
    (hi : o.contentLength > 0 → k.parseInt (k.fmtInt o.contentLength) = some o.contentLength) :
    populate k o.path o.data (getHeaders k o) = .ok o.seen := by
  obtain ⟨path, mod, len, etag, data⟩ := o
  simp only at ht hm hi
  unfold populate getHeaders Obj.seen
  cases mod with
  | none => by_cases hl : len > 0 <;> by_cases he : etag = "" <;> simp [hl, he, hi, ht]
  | some t =>
    have hmt := hm t rfl
    by_cases hl : len > 0 <;> by_cases he : etag = "" <;> simp [hl, he, hi, hmt, ht]

theorem C10_get (k : Codecs D) (hk : k.OK) (o : Obj D) :
    populate k o.path o.data (getHeaders k o) = .ok o.seen :=
  C10_get_at k o (hk.tag _) (fun _ _ => hk.date _) (fun _ => hk.int _)

/-- PUT: the backend's path (whatever characters it has), entity tag and modification time come back to the caller -/
theorem C10_put_at (k : Codecs D) (reqPath : String) (sent : D) (res : Obj D) (hp : res.path ≠ "")
    (hh : k.unescHref (k.escHref res.path) = some res.path)
    (ht : k.unquoteTag (k.quoteTag res.etag) = some res.etag)
    (hm : ∀ t, res.modTime = some t → k.parseDate (k.fmtDate t) = some t) :
    populate k reqPath sent (putHeaders k res) = .ok ⟨res.path, res.modTime, 0, res.etag, sent⟩ := by
  obtain ⟨path, mod, len, etag, data⟩ := res
  simp only at hp hh ht hm
  unfold populate putHeaders
  cases mod with
  | none => by_cases he : etag = "" <;> simp [hp, he, hh, ht]
  | some t =>
    have hmt := hm t rfl
    by_cases he : etag = "" <;> simp [hp, he, hh, hmt, ht]

theorem C10_put (k : Codecs D) (hk : k.OK) (reqPath : String) (sent : D) (res : Obj D) (hp : res.path ≠ "") :
    populate k reqPath sent (putHeaders k res) = .ok ⟨res.path, res.modTime, 0, res.etag, sent⟩ :=
  C10_put_at k reqPath sent res hp (hk.href _) (hk.tag _) (fun _ _ => hk.date _)

/-- multiget: every requested href is answered exactly once and in request order, whatever the backend says -/
theorem C10_multiget_accounting (backend : String → Except (Option Nat) (Obj D)) (hrefs : List String) :
    (multiget backend hrefs).map (·.1) = hrefs := by
  unfold multiget
  induction hrefs with
  | nil => rfl
  | cons h rest ih =>
    simp only [List.map_cons, List.map_map] at ih ⊢
    rw [ih]
    cases backend h with
    | ok o => rfl
    | error e => cases e <;> rfl

/-- …with the object when the backend has it, with the backend's own status otherwise -/
theorem C10_multiget_outcome (backend : String → Except (Option Nat) (Obj D)) (hrefs : List String) (i : Nat) (h : String)
    (hi : hrefs[i]? = some h) :
    (multiget backend hrefs)[i]? = some (h, match backend h with
      | .ok o => .obj o | .error (some c) => .status c | .error none => .status 500) := by
  unfold multiget
  rw [List.getElem?_map, hi]
  simp only [Option.map_some]
  cases backend h with
  | ok o => rfl
  | error e => cases e <;> rfl

-- non-vacuity: a family of codecs that round-trips exists (the identity; the real ones are C16's) -------------------------------

def toyCodecs : Codecs String :=
  { escHref := id, unescHref := some, quoteTag := id, unquoteTag := some, fmtDate := fun t => toString t,
    parseDate := fun s => s.toInt?, fmtInt := fun n => toString n, parseInt := fun s => s.toInt?, encData := id, decData := some }

example : calendarOf toyCodecs (calendarResp toyCodecs ⟨"/u/cal/a b/", "é<&>", "", 0, none⟩)
    = .ok (some ⟨"/u/cal/a b/", "é<&>", "", 0, some ["VEVENT"]⟩) := by decide

end GoWebdav.Props.C10
