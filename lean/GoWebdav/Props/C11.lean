import GoWebdav.Lemmas.Propfind
/-!
# C11 — PROPFIND answers account for every property and respect Depth

`Impl.Propfind` mirrors `internal.NewPropFindResponse` / `EncodeProp` and the scope code of the CalDAV/CardDAV
backends (after the `fix:` commits); the map iteration order is an arbitrary list order (`avail`), all theorems hold
for every order.  The scope of the WebDAV file server is part of C01 (`entityOK`/`scope` there).
-/
namespace GoWebdav.Props.C11
open GoWebdav.Impl.Propfind GoWebdav.Spec.Propfind GoWebdav.Lemmas.Propfind

/-- keys of a Go map are distinct -/
def KeysDistinct (a : Avail) : Prop := (a.map (·.1)).Nodup

theorem names_nodup (a : Avail) (h : KeysDistinct a) : (names a).Nodup := by
  unfold names KeysDistinct at *
  by_cases hs : (lookupAvail a resourceType).isSome = true
  · simpa [hs] using h
  · simp only [hs, Bool.false_eq_true, if_false]
    rw [List.nodup_append]
    refine ⟨h, by simp, ?_⟩
    intro x hx y hy hxy
    simp only [List.mem_singleton] at hy
    subst hy; subst hxy
    apply hs
    obtain ⟨e, he, hen⟩ := List.mem_map.mp hx
    unfold lookupAvail
    have : (a.find? (fun x => x.1 == e.1)).isSome = true := by
      rw [List.find?_isSome]; exact ⟨e, he, by simp⟩
    rw [hen] at this
    simpa using this

theorem answerFor_name (a : Avail) (n : Name) : (answerFor a n).2.1 = n := by
  unfold answerFor
  cases has a n with
  | none => rfl
  | some v => cases v <;> rfl

/-- every distinct property named in the request is accounted for exactly once: with its value under 200 if the
    resource has it, empty under 404 if it does not (empty under the function's own error status if it fails);
    `propname` lists the available names without values, `allprop` returns all of them with values; nothing else
    is present — whatever the iteration order of the property map -/
theorem C11_accounting (a : Avail) (hk : KeysDistinct a) (form : Form) (ps : List PropStat)
    (h : newPropFindResponse a form = some ps) : Accounted a form (flat ps) := by
  unfold newPropFindResponse at h
  cases form with
  | none => simp [produced] at h
  | propname =>
    simp only [produced, Option.map_some, Option.some.injEq] at h
    subst h
    refine accounts_perm (by simpa [flat] using flat_fold _ []) ?_
    have := accounts_map (names a) (names_nodup a hk) (fun n => (200, (n, none))) (fun _ => rfl)
    rw [← names_withResourceType a, List.map_map] at this
    exact accounts_congr_names (by intro n; rw [names_withResourceType]) this
  | allprop =>
    simp only [produced, Option.map_some, Option.some.injEq] at h
    subst h
    refine accounts_perm (by simpa [flat] using flat_fold _ []) ?_
    have := accounts_map (names a) (names_nodup a hk) (answerFor a) (answerFor_name a)
    rw [← names_withResourceType a, List.map_map] at this
    have heq : (withResourceType a).map (fun x => itemFor (withResourceType a) x.1) = (withResourceType a).map (answerFor a ∘ fun x => x.1) := by
      apply List.map_congr_left; intro x _; simp [itemFor_withResourceType]
    rw [heq]
    exact accounts_congr_names (by intro n; rw [names_withResourceType]) this
  | prop ns =>
    simp only [produced, Option.map_some, Option.some.injEq] at h
    subst h
    refine accounts_perm (by simpa [flat] using flat_fold _ []) ?_
    obtain ⟨hnd, hmem⟩ := firstOccurrences_spec [] ns
    have := accounts_map (firstOccurrences [] ns) hnd (answerFor a) (answerFor_name a)
    have heq : (firstOccurrences [] ns).map (itemFor (withResourceType a)) = (firstOccurrences [] ns).map (answerFor a) := by
      apply List.map_congr_left; intro x _; exact itemFor_withResourceType a x
    rw [heq]
    exact accounts_congr_names (by intro n; rw [hmem n]; simp) this

/-- a propfind naming none of the three forms is refused (400), and only that one -/
theorem C11_no_form_400 (a : Avail) (form : Form) : newPropFindResponse a form = none ↔ form = .none := by
  unfold newPropFindResponse
  cases form <;> simp [produced]

/-- every status opens exactly one propstat: properties with the same status share it -/
theorem C11_one_propstat_per_status (a : Avail) (form : Form) (ps : List PropStat)
    (h : newPropFindResponse a form = some ps) : (ps.map (·.code)).Nodup := by
  unfold newPropFindResponse at h
  cases hp : produced (withResourceType a) form with
  | none => simp [hp] at h
  | some items =>
    simp only [hp, Option.map_some, Option.some.injEq] at h
    subst h
    exact codes_fold items [] (by simp)

/-- CalDAV/CardDAV scope: exactly the addressed resource for Depth 0, plus its direct members for Depth 1, plus all
    descendants for Depth infinity — at every level, for every layout; a path that is not an exposed resource of the
    current user (a foreign principal or home set, an unknown collection/object, anything deeper) exposes nothing -/
theorem C11_scope (h : Hierarchy) (reqPath : String) (level : Level) (d : DepthV) :
    Impl.Propfind.scope h reqPath level d = Spec.Propfind.scope h reqPath level d := by
  cases level with
  | deeper => simp [Impl.Propfind.scope, Spec.Propfind.scope, exposed]
  | object =>
    unfold Impl.Propfind.scope Spec.Propfind.scope exposed
    generalize (h.collections.any fun c => c.2.contains reqPath) = b
    cases b <;> cases d <;> simp [members, descendants]
  | collection =>
    unfold Impl.Propfind.scope Spec.Propfind.scope exposed
    cases hf : h.collections.find? (fun c => c.1 == reqPath) with
    | none =>
      have : (h.collections.any fun c => c.1 == reqPath) = false := by
        rw [List.any_eq_false]; intro c hc
        have := List.find?_eq_none.mp hf c hc
        simpa using this
      simp [this]
    | some c =>
      have hp : (c.1 == reqPath) = true := @List.find?_some _ (fun c : String × List String => c.1 == reqPath) _ _ hf
      have hany : (h.collections.any fun c => c.1 == reqPath) = true := by
        rw [List.any_eq_true]; exact ⟨c, List.mem_of_find?_eq_some hf, hp⟩
      have hc1 : c.1 = reqPath := by simpa using hp
      cases d <;> simp [hany, hc1, descendants, members, hf, Function.comp_def]
  | homeSet =>
    unfold Impl.Propfind.scope Spec.Propfind.scope exposed
    by_cases he : reqPath = h.homeSet
    · subst he
      have hfm : ∀ (l : List (String × List String)), l.flatMap (fun c => [c.1]) = l.map (fun x => x.1) := by
        intro l; induction l with
        | nil => rfl
        | cons a as ih => simp [ih]
      cases d <;> simp [members, descendants, allCollections, Function.comp_def, hfm]
    · simp [he]
  | principal =>
    unfold Impl.Propfind.scope Spec.Propfind.scope exposed
    by_cases he : reqPath = h.principal
    · subst he
      cases d <;> simp [members, descendants, allCollections]
    · simp [he]
  | root =>
    unfold Impl.Propfind.scope Spec.Propfind.scope exposed
    cases d <;> simp [members, descendants, allCollections]

end GoWebdav.Props.C11
