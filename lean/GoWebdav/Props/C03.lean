import GoWebdav.Impl.Path
import GoWebdav.Lemmas.Path
import GoWebdav.Lemmas.Url
/-!
# C03 — The file server never touches anything outside the served directory (path mapping part)

Every file-system call of `LocalFileSystem` is made on `localPath(name)` (or on a path `filepath.Walk` reports
below it).  These theorems are about that mapping, for EVERY byte string.
-/
namespace GoWebdav.Props.C03
open GoWebdav GoWebdav.Std.Path GoWebdav.Impl.Path GoWebdav.Lemmas.Path

/-- whatever the request path or Destination bytes are, a successful mapping lies below the root and every segment
    below the root is normal: not empty, not `.`, not `..`, and free of separators -/
theorem C03_localPath_confined (root : List Seg) (name : Bytes) (p : List Seg) (h : localPath root name = .ok p) :
    ∃ below, p = root ++ below ∧ ∀ s ∈ below, Normal s := by
  unfold localPath at h
  split at h
  · cases h
  · split at h
    · cases h
    · cases h; exact ⟨rootedSegs name, rfl, rootedSegs_normal name⟩

/-- a path that contains NUL or is not rooted cannot be mapped and is refused (400) -/
theorem C03_localPath_refuses (root : List Seg) (name : Bytes) (h : name.contains 0 = true ∨ isAbs name = false) :
    ∃ e, localPath root name = .error e := by
  unfold localPath
  by_cases h0 : name.contains 0 = true
  · exact ⟨.invalidChar, by rw [if_pos h0]⟩
  · rcases h with h | h
    · exact absurd h h0
    · refine ⟨.notAbs, ?_⟩
      simp only [h0, Bool.false_eq_true, if_false, isAbs_clean, h, Bool.not_false, if_true]

/-- … and everything else is mapped -/
theorem C03_localPath_total (root : List Seg) (name : Bytes) (h0 : name.contains 0 = false) (ha : isAbs name = true) :
    localPath root name = .ok (root ++ rootedSegs name) := by
  unfold localPath
  rw [if_neg (by rw [h0]; simp)]
  simp [isAbs_clean, ha]

/-- a reported path (multi-status href) lies inside the served namespace and addresses the same resource when it is
    sent back: percent-decoding the href gives the external path, and mapping that gives the host path it was produced for -/
theorem C03_href_inside_and_stable (root below : List Seg) (hb : ∀ s ∈ below, Normal s) (hnul : ∀ s ∈ below, (0 : UInt8) ∉ s) :
    Std.Url.unescape (Std.Url.escapePath (externalPath below)) = some (externalPath below) ∧
    localPath root (externalPath below) = .ok (root ++ below) := by
  refine ⟨Lemmas.Url.unescape_escapePath _, ?_⟩
  have hno0 : (externalPath below).contains 0 = false := by
    unfold externalPath
    cases below with
    | nil => decide
    | cons b bs =>
      have hne : (b :: bs) ≠ [] := by simp
      simp only [hne, if_false]
      rw [joinSegs_render (b :: bs) hne]
      -- no segment contains NUL and the separator is not NUL
      have : ∀ (l : List Seg), (∀ s ∈ l, (0 : UInt8) ∉ s) → (0 : UInt8) ∉ renderSegs l := by
        intro l hl
        induction l with
        | nil => simp [renderSegs]
        | cons s ss ih =>
          simp only [renderSegs, List.mem_cons, List.mem_append, not_or]
          exact ⟨by decide, hl s (by simp), ih (fun x hx => hl x (List.mem_cons_of_mem _ hx))⟩
      have h0 := this (b :: bs) hnul
      simpa using h0
  have habs : isAbs (externalPath below) = true := by simp [externalPath, isAbs]
  rw [C03_localPath_total root _ hno0 habs]
  congr 2
  unfold externalPath
  cases below with
  | nil => decide
  | cons b bs =>
    have hne : (b :: bs) ≠ [] := by simp
    simp only [hne, if_false]
    rw [joinSegs_render (b :: bs) hne]
    have := rootedSegs_render (b :: bs) hb hne false
    simpa using this

-- non-vacuity: "/a/../../etc//passwd\x00"-like inputs
example : localPath [[115]] [47, 97, 47, 46, 46, 47, 46, 46, 47, 101] = .ok [[115], [101]] := by decide
example : localPath [[115]] [47, 97, 0] = .error .invalidChar := by decide
example : localPath [[115]] [97] = .error .notAbs := by decide

/-- the spelling of the served directory does not matter: `filepath.Join(root, name)` is `Clean(root + "/" + name)`,
    and for EVERY absolute spelling of the root (trailing slashes, `/./`, `//`, `sibling/..`) and every mapped name it
    resolves to the cleaned root followed by the name's segments — so the mapping below the root, and with it every
    reported href (`Rel` of the two), is the same for all spellings of one directory -/
theorem C03_root_spelling_irrelevant (spelled : Bytes) (below : List Seg) (hb : ∀ s ∈ below, Normal s) (hne : below ≠ []) :
    rootedSegs (spelled ++ slash :: joinSegs below) = rootedSegs spelled ++ below :=
  Lemmas.Path.rootedSegs_join spelled below hb hne

/-- "/srv/dav/", "/srv/./dav", "/srv//dav" and "/srv/x/../dav" are the directory /srv/dav -/
example : rootedSegs [47, 115, 47, 100, 47] = [[115], [100]] ∧ rootedSegs [47, 115, 47, 46, 47, 100] = [[115], [100]] ∧
    rootedSegs [47, 115, 47, 47, 100] = [[115], [100]] ∧ rootedSegs [47, 115, 47, 120, 47, 46, 46, 47, 100] = [[115], [100]] := by
  decide

end GoWebdav.Props.C03
