import GoWebdav.Impl.DavWire
import GoWebdav.Lemmas.Path
/-!
# C05 — WebDAV client and server agree on names, metadata and content

Model `Impl.DavWire`.  Proved:

* names — an absolute name is the request path as it is; a relative name made of ordinary segments resolves to the
  endpoint's segments followed by the name's (`path.Join`), for every endpoint and every name;
* options — for all four combinations, the Copy and Move options the file system receives are exactly the ones the
  caller asked for (regenerated Overwrite / Depth tables on both sides);
* metadata — for every FileInfo (arbitrary strings, any size, any instant) and every round-tripping codec family the
  client rebuilds the backend's FileInfo; listings keep every entry, once, in the backend's order.

Content bytes (Open, Create) are streamed by net/http and io: tied by family `davwire`, not modelled.
-/
namespace GoWebdav.Props.C05
open GoWebdav GoWebdav.Std.Path GoWebdav.Impl.ObjectWire GoWebdav.Impl.DavWire GoWebdav.Lemmas.Path

/-- an absolute name addresses exactly that path, whatever the endpoint -/
theorem C05_absolute_name (e n : Bytes) (h : n.head? = some slash) : resolve e n = n := by
  unfold resolve; simp [h]

/-- a relative name is resolved against the endpoint path: endpoint segments, then the name's segments -/
theorem C05_relative_name (E N : List Seg) (hE : ∀ s ∈ E, Normal s) (hN : ∀ s ∈ N, Normal s) (hEne : E ≠ []) (hNne : N ≠ []) :
    resolve (renderSegs E) (joinSegs N) = renderSegs (E ++ N) := by
  have hrel : (joinSegs N).head? ≠ some slash := by
    cases N with
    | nil => exact absurd rfl hNne
    | cons s rest =>
      have hs := hN s (by simp)
      obtain ⟨hne, _, _, hsl⟩ := hs
      cases s with
      | nil => exact absurd rfl hne
      | cons c cs =>
        have : c ≠ slash := fun hc => hsl (by simp [hc])
        cases rest <;> simp [joinSegs, this]
  unfold resolve
  simp only [hrel, if_false]
  rw [joinSegs_render N hNne, ← render_append]
  have hall : ∀ s ∈ E ++ N, Normal s := by
    intro s hs
    rcases List.mem_append.mp hs with h | h
    · exact hE s h
    · exact hN s h
  have := clean_render (E ++ N) hall (by simp [hEne]) false
  simpa using this

/-- Copy: the file system receives exactly the requested recursion and overwrite options -/
theorem C05_copy_options (o : CopyOptions) : copyDecode (copyHeaders o).1 (copyHeaders o).2 = some o := by
  obtain ⟨nr, no⟩ := o
  cases nr <;> cases no <;> decide

/-- Move: the file system receives exactly the requested overwrite option -/
theorem C05_move_options (noOverwrite : Bool) : moveDecode (moveHeaders noOverwrite) = some noOverwrite := by
  cases noOverwrite <;> decide

/-- Stat / ReadDir entry: the client rebuilds the backend's FileInfo — path, kind, size, modification time, content
    type and entity tag.  The hypotheses are the round trips of THIS value's path, tag, time and size only -/
theorem C05_fileinfo_at (k : Codecs Unit) (fi : FileInfo)
    (hh : k.unescHref (k.escHref fi.path) = some fi.path)
    (ht : fi.isDir = false → k.unquoteTag (k.quoteTag fi.etag) = some fi.etag)
    (hm : ∀ t, fi.modTime = some t → k.parseDate (k.fmtDate t) = some t)
    (hi : fi.isDir = false → k.parseInt (k.fmtInt fi.size) = some fi.size) :
    fileInfoOf k (fileResp k fi) = .ok fi.seen := by
  obtain ⟨path, isDir, size, mod, mime, etag⟩ := fi
  simp only at hh ht hm hi
  unfold fileInfoOf fileResp FileInfo.seen
  simp only [hh]
  cases isDir with
  | true =>
    cases mod with
    | none => simp [WResp.get]
    | some t => have hmt := hm t rfl; simp [WResp.get, hmt]
  | false =>
    have ht' := ht rfl
    have hi' := hi rfl
    cases mod with
    | none => by_cases hm : mime = "" <;> by_cases he : etag = "" <;>
        simp [opt, hm, he, WResp.get, optText, hi', ht', List.find?_cons]
    | some t =>
      have hmt := hm t rfl
      by_cases hm : mime = "" <;> by_cases he : etag = "" <;>
        simp [opt, hm, he, WResp.get, optText, hi', hmt, ht', List.find?_cons]

theorem C05_fileinfo (k : Codecs Unit) (hk : k.OK) (fi : FileInfo) : fileInfoOf k (fileResp k fi) = .ok fi.seen :=
  C05_fileinfo_at k fi (hk.href _) (fun _ => hk.tag _) (fun _ _ => hk.date _) (fun _ => hk.int _)

/-- ReadDir: every entry of the backend's listing arrives, once, in the backend's order -/
theorem C05_listing_at (k : Codecs Unit) (listing : List FileInfo)
    (hall : ∀ fi ∈ listing, k.unescHref (k.escHref fi.path) = some fi.path ∧
      (fi.isDir = false → k.unquoteTag (k.quoteTag fi.etag) = some fi.etag) ∧
      (∀ t, fi.modTime = some t → k.parseDate (k.fmtDate t) = some t) ∧
      (fi.isDir = false → k.parseInt (k.fmtInt fi.size) = some fi.size)) :
    readDir k listing = .ok (listing.map FileInfo.seen) := by
  unfold readDir
  induction listing with
  | nil => rfl
  | cons fi rest ih =>
    obtain ⟨h1, h2, h3, h4⟩ := hall fi (by simp)
    rw [List.map_cons, List.mapM_cons, C05_fileinfo_at k fi h1 h2 h3 h4, ih (fun x hx => hall x (by simp [hx]))]
    rfl

theorem C05_listing (k : Codecs Unit) (hk : k.OK) (listing : List FileInfo) :
    readDir k listing = .ok (listing.map FileInfo.seen) :=
  C05_listing_at k listing (fun _ _ => ⟨hk.href _, fun _ => hk.tag _, fun _ _ => hk.date _, fun _ => hk.int _⟩)

/-- …under the path by which it can be addressed again: a reported absolute path resolves to itself -/
theorem C05_reported_paths_addressable (k : Codecs Unit) (hk : k.OK) (listing : List FileInfo) (e : Bytes) :
    ∀ fi ∈ listing, ∀ (p : Bytes), p.head? = some slash → resolve e p = p :=
  fun _ _ p hp => C05_absolute_name e p hp

-- non-vacuity --------------------------------------------------------------------------------------------------------------
example : resolve [47, 100, 97, 118] [120] = [47, 100, 97, 118, 47, 120] := by decide          -- "/dav" + "x"
example : resolve [47, 100, 97, 118, 47] [120, 47] = [47, 100, 97, 118, 47, 120] := by decide  -- "/dav/" + "x/"
example : resolve [47] [] = [47] := by decide                                                   -- "/" + ""
example : resolve [47, 100] [46, 46, 47, 120] = [47, 120] := by decide                          -- "/d" + "../x"
example : Normal [120] ∧ Normal [100, 97, 118] := by decide

end GoWebdav.Props.C05
