import GoWebdav.Lemmas.CaldavAgree
import GoWebdav.Lemmas.CaldavNoise
/-!
# C08, wire → backend for every RFC-conformant document — against the independent strict reader

`Spec.CaldavWire.readCompFilter` is the strict reading of the RFC 4791 §9.7 grammar (namespaces, child order, declared
attributes, at least one bound on a time-range, is-not-defined alone).  For EVERY element that reader accepts — whoever
wrote it, at any nesting depth, with any number of prop-filters, param-filters and nested comp-filters — the server's
decoder hands the backend exactly the filter the document denotes.  (The client → wire direction and the whole-query
statements are in `Props/C08.lean`.)
-/
namespace GoWebdav.Props.C08
open GoWebdav GoWebdav.Std.Xml GoWebdav.Impl.Caldav GoWebdav.Impl.CaldavWire GoWebdav.Spec.CaldavWire

/-- wire → backend for EVERY calendar-query document the strict RFC 4791 reader accepts — whoever wrote it, with any of
    DAV:prop / DAV:allprop / DAV:propname or none in front, calendar-data with or without comp and expand, a timezone
    element, filter trees and component selections of any depth: the backend receives exactly the query it denotes -/
theorem C08_rfc_document_reaches_backend (n : Node) (q : Query) (h : readQuery n = some q) : decodeQuery n = .ok q :=
  GoWebdav.Lemmas.CaldavAgree.decodeQuery_of_read n q h

/-- the server's decoder does not see insignificant content — comments, and white space between the elements of an
    element-content model — anywhere in ANY document, at any nesting depth (the character data of text-match, href and
    timezone is left alone) -/
theorem C08_decoder_ignores_insignificant_content (n : Node) :
    decodeQuery (Spec.XmlNoise.clean Lemmas.CaldavNoise.pc n) = decodeQuery n :=
  Lemmas.CaldavNoise.decodeQuery_clean n

/-- the same for multiget documents -/
theorem C08_multiget_decoder_ignores_insignificant_content (unescape : String → Option String) (n : Node) :
    decodeMultiGet unescape (Spec.XmlNoise.clean Lemmas.CaldavNoise.pc n) = decodeMultiGet unescape n :=
  Lemmas.CaldavNoise.decodeMultiGet_clean unescape n

/-- …hence every document that is RFC-conformant once that content is set aside (pretty-printed, commented) reaches the
    backend as the query it denotes -/
theorem C08_rfc_document_reaches_backend_lexical (n : Node) (q : Query)
    (h : readQuery (Spec.XmlNoise.clean Lemmas.CaldavNoise.pc n) = some q) : decodeQuery n = .ok q :=
  Lemmas.CaldavNoise.decodeQuery_of_read_clean n q h

/-- the same for every calendar-multiget document the strict reader accepts (data request and hrefs in order) -/
theorem C08_rfc_multiget_reaches_backend (unescape : String → Option String) (n : Node) (m : MultiGet)
    (h : readMultiGet unescape n = some m) : decodeMultiGet unescape n = .ok m :=
  GoWebdav.Lemmas.CaldavAgree.decodeMultiGet_of_read unescape n m h

/-- every RFC-conformant comp-filter element reaches the backend as the filter it denotes -/
theorem C08_rfc_filter_reaches_backend (n : Node) (cf : CompFilter) (h : readCompFilter n = some cf) :
    decCompFilter n = .ok cf :=
  GoWebdav.Lemmas.CaldavAgree.decCompFilter_of_read n cf h

/-- the same for the leaves on their own -/
theorem C08_rfc_propFilter_reaches_backend (n : Node) (p : PropFilter) (h : readPropFilter n = some p) :
    decPropFilter n = .ok p :=
  GoWebdav.Lemmas.CaldavAgree.decPropFilter_of_read n p h

theorem C08_rfc_paramFilter_reaches_backend (n : Node) (p : ParamFilter) (h : readParamFilter n = some p) :
    decParamFilter n = .ok p :=
  GoWebdav.Lemmas.CaldavAgree.decParamFilter_of_read n p h

/-- a conformant filter the library's own client never writes (an explicit collation and negate-condition="no", a
    time-range with only an end, nesting) meets the hypothesis -/
def foreignFilter : Node :=
  el "comp-filter" [att "name" "VCALENDAR"]
    [el "comp-filter" [att "name" "VEVENT"]
      [el "time-range" [att "end" "20240301T000000Z"] [],
       el "prop-filter" [att "name" "ATTENDEE"]
         [el "text-match" [att "collation" "i;ascii-casemap", att "negate-condition" "no"] [.text " x "],
          el "param-filter" [att "name" "PARTSTAT"] [el "is-not-defined" [] []]],
       el "comp-filter" [att "name" "VALARM"] [el "is-not-defined" [] []]]]

example : (readCompFilter foreignFilter).isSome = true := by decide

/-- a whole conformant document of that kind: DAV:prop with a versioned calendar-data that expands but selects no
    component, the filter above, a timezone -/
def foreignDoc : Node :=
  el "calendar-query" []
    [dav "prop" [dav "getetag" [], el "calendar-data" [att "content-type" "text/calendar", att "version" "2.0"]
       [el "expand" [att "start" "20240101T000000Z", att "end" "20240201T000000Z"] []]],
     el "filter" [] [foreignFilter],
     el "timezone" [] [.text "BEGIN:VTIMEZONE"]]

example : (readQuery foreignDoc).isSome = true := by decide

end GoWebdav.Props.C08
