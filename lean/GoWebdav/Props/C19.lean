import GoWebdav.Lemmas.Validate
/-!
# C19 — ValidateCalendarObject enforces the RFC 4791 §4.1 object rules

`Impl.Validate.validate` mirrors `caldav.ValidateCalendarObject`; `Spec.Validate.Valid`/`result`
restate the property.  Hypothesis `NamesNonEmpty`: no component has the empty name (go-ical's decoder
never produces one; an empty name would be indistinguishable from "no type seen yet" in the Go code).
-/
namespace GoWebdav.Props.C19
open GoWebdav.Impl.Validate GoWebdav.Spec.Validate GoWebdav.Lemmas.Validate

def NamesNonEmpty (cs : List Comp) : Prop := ∀ c ∈ cs, c.name ≠ ""
instance (cs : List Comp) : Decidable (NamesNonEmpty cs) := by unfold NamesNonEmpty; infer_instance

/-- what the Go function hands back: `(eventType, uid, err != nil)` -/
def goResult (m : Bool) (cs : List Comp) : String × String × Bool :=
  match validate m cs with
  | .ok (t, u) => (t, u, false)
  | .error _ => ("", "", true)

/-- accepted exactly when the calendar is valid in the sense of the property -/
theorem C19_accepts_iff (m : Bool) (cs : List Comp) (hn : NamesNonEmpty cs) :
    (∃ r, validate m cs = .ok r) ↔ Valid m cs := by
  unfold validate Valid
  cases m with
  | true => simp
  | false =>
    simp only [Bool.false_eq_true, if_false, true_and]
    constructor
    · rintro ⟨r, hr⟩
      have := (loop_spec cs hn "" "" r).mp hr
      simpa [pre] using ⟨this.1, this.2.1, this.2.2.1⟩
    · rintro ⟨h1, h2, h3⟩
      exact ⟨_, (loop_spec cs hn "" "" _).mpr ⟨h1, by simpa [pre] using h2, by simpa [pre] using h3, rfl⟩⟩

/-- on acceptance the single component type and the single UID are returned -/
theorem C19_returns_type_uid (m : Bool) (cs : List Comp) (hn : NamesNonEmpty cs) (r : String × String)
    (h : validate m cs = .ok r) : r = result cs := by
  unfold validate at h
  cases m with
  | true => simp at h
  | false =>
    simp only [Bool.false_eq_true, if_false] at h
    have := ((loop_spec cs hn "" "" r).mp h).2.2.2
    simpa [pre, hd, result] using this

/-- full characterisation in one statement -/
theorem C19_validate_eq (m : Bool) (cs : List Comp) (hn : NamesNonEmpty cs) (r : String × String) :
    validate m cs = .ok r ↔ Valid m cs ∧ r = result cs := by
  constructor
  · intro h; exact ⟨(C19_accepts_iff m cs hn).mp ⟨r, h⟩, C19_returns_type_uid m cs hn r h⟩
  · rintro ⟨hv, hr⟩
    obtain ⟨r', hr'⟩ := (C19_accepts_iff m cs hn).mpr hv
    rw [hr', hr, C19_returns_type_uid m cs hn r' hr']

/-- on rejection the results are empty -/
theorem C19_reject_empty_results (m : Bool) (cs : List Comp) :
    (goResult m cs).2.2 = true → (goResult m cs).1 = "" ∧ (goResult m cs).2.1 = "" := by
  unfold goResult
  cases validate m cs with
  | ok r => simp
  | error e => simp

/-- rejection happens exactly for invalid calendars -/
theorem C19_rejects_iff (m : Bool) (cs : List Comp) (hn : NamesNonEmpty cs) :
    (goResult m cs).2.2 = true ↔ ¬ Valid m cs := by
  rw [← C19_accepts_iff m cs hn]
  unfold goResult
  cases validate m cs with
  | ok r => simp
  | error e => simp

-- non-vacuity: a valid three-component calendar, and invalid ones of each kind
example : NamesNonEmpty [⟨"VTIMEZONE", .none⟩, ⟨"VEVENT", .text "a"⟩, ⟨"VEVENT", .text "a"⟩] ∧
    validate false [⟨"VTIMEZONE", .none⟩, ⟨"VEVENT", .text "a"⟩, ⟨"VEVENT", .text "a"⟩] = .ok ("VEVENT", "a") := by
  decide
example : validate false [⟨"VEVENT", .text "a"⟩, ⟨"VTODO", .text "a"⟩] = .error .types := by decide
example : validate false [⟨"VEVENT", .text "a"⟩, ⟨"VEVENT", .none⟩, ⟨"VEVENT", .text "b"⟩] = .error .uids := by decide
example : validate true [⟨"VEVENT", .text "a"⟩] = .error .method := by decide

end GoWebdav.Props.C19
