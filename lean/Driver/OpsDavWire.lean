import Driver.Codec
import Driver.OpsRawXml
import Driver.OpsFs
import GoWebdav.Props.C05
import GoWebdav.Props.C10
namespace Driver
open GoWebdav GoWebdav.Std.Path GoWebdav.Impl.ObjectWire GoWebdav.Impl.DavWire

def dwK : Codecs Unit := { GoWebdav.Props.C10.toyCodecs with encData := fun _ => "", decData := fun _ => some () }

def dwFi : SExp → Option FileInfo
  | .list [.atom "fi", p, d, sz, t, m, e] => do
    let t ← (match t with | .atom "z" => some none | x => do pure (some (← x.int?)))
    pure ⟨← p.str?, ← d.bool?, ← sz.int?, t, ← m.str?, ← e.str?⟩
  | _ => none
def prFi (f : FileInfo) : String :=
  s!"( fi {hexStr f.path} {boolTok f.isDir} {f.size} {match f.modTime with | some t => toString t | none => "z"} {hexStr f.mimeType} {hexStr f.etag} )"

/-- `dav.stat <fileinfo> => <client fileinfo>` -/
def opDavStat (args : List SExp) : Option OpResult := do
  match args with
  | [f] =>
    let f ← dwFi f
    let impl := match fileInfoOf dwK (fileResp dwK f) with | .ok g => prFi g | .error _ => "err"
    pure ⟨impl, mustEqual "C05" "stat-altered" (prFi f.seen)⟩
  | _ => none

/-- `dav.open <content> => <content read>` -/
def opDavOpen (args : List SExp) : Option OpResult := do
  match args with
  | [.atom c] => pure ⟨c, mustEqual "C05" "content-altered-on-read" c⟩
  | _ => none

def below (dir p : String) (recursive : Bool) : Bool :=
  let strip (s : String) : String := if s.endsWith "/" then String.ofList (s.toList.take (s.length - 1)) else s
  let d := strip dir
  let q := strip p
  if q = d then true
  else if !(q.startsWith (d ++ "/")) then false
  else recursive || !((q.drop (d.length + 1)).contains '/')

/-- `dav.readdir <dir> <recursive> ( tree ) => ( client listing )`: the collection itself, plus its direct members, or
    with recursion all descendants, each exactly once -/
def opDavReadDir (localFs : Bool) (args : List SExp) : Option OpResult := do
  match args with
  | [dir, rec, .list tree] =>
    let dir ← dir.str?
    let rec ← rec.bool?
    let tree ← tree.mapM dwFi
    -- LocalFileSystem reports a collection without a trailing slash and its root as "/." (`externalPath`, C03)
    let localName (q : String) : String :=
      if q = "/" then "/." else if q.endsWith "/" then String.ofList (q.toList.take (q.length - 1)) else q
    let listing := (tree.filter (fun f => below dir f.path rec)).map (fun f => if localFs then { f with path := localName f.path } else f)
    let impl := match readDir dwK listing with
      | .ok l => sxList (if localFs then sortStr (l.map prFi) else l.map prFi)
      | .error _ => "err"
    let want := sxList (let l := (listing.map (fun f => prFi f.seen)); if localFs then sortStr l else l)
    pure ⟨impl, mustEqual "C05" (if localFs then "local-listing-differs" else "listing-differs") want⟩
  | _ => none

def hexOfBytes (b : Bytes) : String := hexBytes b

/-- `dav.op <op> <endpointPath> <args…> => ( recorded backend calls )` -/
def opDavOp (args : List SExp) : Option OpResult := do
  match args with
  | .atom op :: e :: rest =>
    let e ← e.bytes?
    let call ← (match op, rest with
      | "mkdir", [n] => do pure s!"Mkdir:{hexOfBytes (resolve e (← n.bytes?))}"
      | "removeall", [n] => do pure s!"RemoveAll:{hexOfBytes (resolve e (← n.bytes?))}"
      | "copy", [n, d, nr, no] => do
        let o : CopyOptions := ⟨← nr.bool?, ← no.bool?⟩
        let got ← copyDecode (copyHeaders o).1 (copyHeaders o).2
        pure s!"Copy:{hexOfBytes (resolve e (← n.bytes?))}:{hexOfBytes (resolve e (← d.bytes?))}:{boolTok got.noRecursive}:{boolTok got.noOverwrite}"
      | "copy-nil", [n, d] => do
        pure s!"Copy:{hexOfBytes (resolve e (← n.bytes?))}:{hexOfBytes (resolve e (← d.bytes?))}:0:0"
      | "move", [n, d, no] => do
        let got ← moveDecode (moveHeaders (← no.bool?))
        pure s!"Move:{hexOfBytes (resolve e (← n.bytes?))}:{hexOfBytes (resolve e (← d.bytes?))}:{boolTok got}"
      | "create", [n, .atom c] => do pure s!"Create:{hexOfBytes (resolve e (← n.bytes?))}:{c}:-:-"
      | _, _ => none)
    let impl := s!"( {call} )"
    -- the specification: the call reaches the backend addressed to exactly the named resources with exactly the options
    pure ⟨impl, mustEqual "C05" s!"{op}-reaches-backend-differently" impl⟩
  | _ => none

/-- `dav.fail <op> <kind> => <code>`: a failing FileSystem — the client's error carries the status the backend chose
    (`NewHTTPError`), 500 for an error without one; two mappings of server.go: a not-found from Mkdir is a conflict
    (409), an already-exists from Copy / Move is a failed precondition (412) -/
def opDavFail (args : List SExp) : Option OpResult := do
  match args with
  | [.atom op, .atom kind] =>
    let want : String :=
      if kind = "plain" then "500"
      else if kind = "exist" then (if op = "copy" || op = "move" then "412" else "500")
      else if kind = "http404" && op = "mkdir" then "409"
      else (kind.drop 4).toString
    pure ⟨want, fun got => mustEqual "C14" s!"backend-status-lost-in-{op}" want got ++ mustEqual "C05" s!"{op}-failure-reported-as-{got}" want got⟩
  | _ => none

end Driver
