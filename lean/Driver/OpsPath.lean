import Driver.Codec
import GoWebdav.Impl.Path
namespace Driver
open GoWebdav GoWebdav.Std.Path GoWebdav.Impl.Path

def renderHost (segs : List Seg) : Bytes := if segs.isEmpty then [slash] else renderSegs segs

def isNormalB (s : Seg) : Bool := s ≠ [] && s ≠ dot && s ≠ dotdot && !s.contains slash

def opClean (args : List SExp) : Option OpResult := do
  match args with
  | [s] =>
    let s ← s.bytes?
    let out := hexBytes (clean s)
    pure ⟨out, fun _ => []⟩
  | _ => none

/-- `localpath <root> <name> => ok <hostpath> | 400` -/
def opLocalPath (args : List SExp) : Option OpResult := do
  match args with
  | [root, name] =>
    let root ← root.bytes?
    let name ← name.bytes?
    let rs := rootedSegs root
    let impl := match localPath rs name with
      | .ok p => s!"ok {hexBytes (renderHost p)}"
      | .error _ => "400"
    let judge : String → List (String × String) := fun got =>
      let mustRefuse := name.contains 0 || !isAbs name
      if mustRefuse then (if got = "400" then [] else [("C03", "unmappable-path-accepted")])
      else if got = "400" then [("C03", "mappable-path-refused")]
      else match (got.splitOn " ") with
        | ["ok", h] => match unhex h with
          | some p =>
            let segs := (splitSlash p).drop 1
            let segs := if p = [slash] then [] else segs
            if p.head? = some slash && rs.isPrefixOf segs && (segs.drop rs.length).all isNormalB then [] else [("C03", "escapes-root")]
          | none => [("C03", "escapes-root")]
        | _ => [("C03", "escapes-root")]
    pure ⟨impl, judge⟩
  | _ => none

/-- `extpath <root> <hostpath> => ok <path>`; the host path lies under the root -/
def opExtPath (args : List SExp) : Option OpResult := do
  match args with
  | [root, p] =>
    let root ← root.bytes?
    let p ← p.bytes?
    let rs := rootedSegs root
    let ps := rootedSegs p
    let below := ps.drop rs.length
    let impl := if rs.isPrefixOf ps then s!"ok {hexBytes (externalPath below)}" else "?outside"
    -- the reported path must map back to the same host path
    let judge : String → List (String × String) := fun got =>
      if !rs.isPrefixOf ps then [] else
      match (got.splitOn " ") with
      | ["ok", h] => match unhex h with
        | some e => (match localPath rs e with
          | .ok q => if q = ps then [] else [("C03", "href-addresses-other-resource")]
          | .error _ => [("C03", "href-not-mappable")])
        | none => [("C03", "href-not-mappable")]
      | _ => [("C03", "href-not-mappable")]
    pure ⟨impl, judge⟩
  | _ => none

/-- `rtype <prefix> <path> => <n>` -/
def opRType (args : List SExp) : Option OpResult := do
  match args with
  | [pfx, path] =>
    let pfx ← pfx.bytes?
    let path ← path.bytes?
    let impl := toString (resourceTypeAtPath pfx path)
    let pre := rootedSegs pfx
    let segs := rootedSegs path
    let wellFormedPrefix := (pfx = [] || pfx = renderSegs pre) && pre.all isNormalB
    let judge : String → List (String × String) := fun got =>
      if wellFormedPrefix && isAbs path && pre.isPrefixOf segs then mustEqual "C12" "depth-classification" (toString (segs.length - pre.length)) got
      else []
    pure ⟨impl, judge⟩
  | _ => none

end Driver
