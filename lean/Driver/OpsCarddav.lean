import Driver.Codec
import GoWebdav.Spec.Carddav
namespace Driver
open GoWebdav.Impl.Carddav GoWebdav.Spec.Carddav

def cdTextMatch : SExp → Option TextMatch
  | .list [.atom "tm", t, n, m] => do pure ⟨← t.str?, ← n.bool?, ← m.str?⟩
  | _ => none
def cdPropFilter : SExp → Option PropFilter
  | .list [.atom "pf", n, t, i, .list tms] => do pure ⟨← n.str?, ← t.str?, ← i.bool?, ← tms.mapM cdTextMatch⟩
  | _ => none
def cdQuery : SExp → Option (Option Query)
  | .atom "nil" => some none
  | .list [.atom "q", t, l, a, .list ps, .list pfs] => do
    pure (some ⟨← a.bool?, ← ps.mapM SExp.str?, ← pfs.mapM cdPropFilter, ← t.str?, ← l.int?⟩)
  | _ => none
def cdCard : SExp → Option Card
  | .list kvs => kvs.mapM (fun kv => match kv with
    | .list (k :: vs) => do pure (← k.str?, ← vs.mapM SExp.str?)
    | _ => none)
  | _ => none
def cdAO : SExp → Option AO
  | .list [.atom "ao", p, c] => do pure ⟨← p.str?, ← cdCard c⟩
  | _ => none

/-- canonical print of a card as a Go map: first entry per key, empty slices dropped, sorted by (hex) key -/
def canonCard (c : Card) : String :=
  let keys := (c.map (·.1)).eraseDups
  let entries := keys.filterMap (fun k => let vs := c.values k; if vs.isEmpty then none else some (hexStr k, vs))
  let sorted := (entries.toArray.qsort (fun a b => a.1 < b.1)).toList
  "( " ++ " ".intercalate (sorted.map (fun e => "( " ++ e.1 ++ " " ++ " ".intercalate (e.2.map hexStr) ++ " )")) ++ (if sorted.isEmpty then ")" else " )")

def canonAOs (l : List AO) : String :=
  "( " ++ " ".intercalate (l.map (fun ao => "( ao " ++ hexStr ao.path ++ " " ++ canonCard ao.card ++ " )")) ++ (if l.isEmpty then ")" else " )")

/-- three-valued reading of a query with unknown enumeration values: `none` = depends on the unknown value -/
def textK (t : TextMatch) (v : String) : Option Bool := if validMatchType t.matchType then some (textHolds t v) else none
def combineK (test : String) (l : List (Option Bool)) : Option Bool :=
  if test = "allof" then (if l.contains (some false) then some false else if l.contains none then none else some true)
  else if test = "anyof" ∨ test = "" then (if l.contains (some true) then some true else if l.contains none then none else some false)
  else none
def propK (pf : PropFilter) (card : Card) : Option Bool :=
  match card.get pf.name with
  | none => some pf.isNotDefined
  | some v => if pf.isNotDefined then some false else if pf.textMatches.isEmpty then some true
    else combineK pf.test (pf.textMatches.map (textK · v))
def holdsK (q : Query) (card : Card) : Option Bool := combineK q.filterTest (q.propFilters.map (propK · card))

def opCardMatch (args : List SExp) : Option OpResult := do
  match args with
  | [q, c] =>
    let q ← cdQuery q
    let card ← cdCard c
    let impl := match matchOpt q card with
      | .ok b => s!"ok {boolTok b}"
      | .error _ => "err"
    let judge : String → List (String × String) := fun got =>
      match q with
      | none => mustEqual "C07" "match-nil" "ok 1" got
      | some q =>
        if ValidQuery q then mustEqual "C07" "match" s!"ok {boolTok (holds q card)}" got
        else if validTest q.filterTest = false then mustEqual "C07" "unknown-query-test" "err" got
        else if got = "err" then []
        else match holdsK q card with
          | some b => mustEqual "C07" "guessed" s!"ok {boolTok b}" got
          | none => [("C07", "guessed")]
    pure ⟨impl, judge⟩
  | _ => none

def opCardFilter (args : List SExp) : Option OpResult := do
  match args with
  | [q, .list aos] =>
    let q ← cdQuery q
    let aos ← aos.mapM cdAO
    let impl := match filter q aos with
      | .ok out => s!"ok {canonAOs out}"
      | .error .panicEmptyCard => "panic"
      | .error _ => "err"
    let judge : String → List (String × String) := fun got =>
      match q with
      | none => mustEqual "C07" "filter-nil" s!"ok {canonAOs aos}" got
      | some q =>
        if ¬ ValidQuery q then (if got = "err" ∨ got = impl then [] else [("C07", "filter-invalid-query")])
        else
          let sel := selected q aos
          if ¬ (q.allProp ∨ q.props.isEmpty) ∧ sel.any (fun ao => ao.card.isEmpty) then []   -- outside the property: a vCard without any property
          else
            let want := sel.map (fun ao => { ao with card := ao.card.filter (fun kv => keep q kv.1) })
            mustEqual "C07" "filter" s!"ok {canonAOs want}" got
    pure ⟨impl, judge⟩
  | _ => none

end Driver
