import GoWebdav.Impl.Discovery
import Driver.Codec
import Driver.OpsCardWire
import Driver.OpsRawXml
import Driver.OpsFs
import GoWebdav.Spec.Propfind
namespace Driver
open GoWebdav.Impl.Propfind GoWebdav.Spec.Propfind

def pfNameOf : SExp → Option Name
  | .list [s, l] => do pure ⟨← s.str?, ← l.str?⟩
  | _ => none

def pfAvailOf : SExp → Option (Name × PropVal)
  | .list [s, l, .list [.atom "v", v]] => do pure (⟨← s.str?, ← l.str?⟩, .value (← v.str?))
  | .list [s, l, .list [.atom "e", c]] => do pure (⟨← s.str?, ← l.str?⟩, .error (← c.nat?))
  | _ => none

def prItem (it : Item) : String :=
  s!"( {hexStr it.1.space} {hexStr it.1.loc} {match it.2 with | some v => (if v = "" then "-" else hexStr v) | none => "~"} )"

/-- canonical print of grouped (status, property) pairs: propstats by status, names sorted -/
def prGrouped (items : List (Nat × Item)) : String :=
  let codes := ((items.map (·.1)).eraseDups.toArray.qsort (· < ·)).toList
  sxList (codes.map (fun c => s!"( {c} {sxList (sortStr ((items.filter (·.1 == c)).map (fun x => prItem x.2)))} )"))

/-- `pf.resp <form> ( names ) ( avail ) => ok <hrefs> <dup> <propstats> | 400` -/
def opPfResp (args : List SExp) : Option OpResult := do
  match args with
  | [.atom form, .list names, .list avail] =>
    let names ← names.mapM pfNameOf
    let avail ← avail.mapM pfAvailOf
    let form ← (match form with
      | "propname" => some Form.propname | "allprop" => some Form.allprop
      | "prop" => some (Form.prop names) | "none" => some Form.none | _ => none)
    -- an empty value is the empty element: indistinguishable on the wire from "no value"
    let norm (it : Item) : Item := (it.1, match it.2 with | some "" => none | x => x)
    let impl := match newPropFindResponse avail form with
      | some ps => s!"ok 1 0 {prGrouped ((flat ps).map (fun x => (x.1, norm x.2)))}"
      | none => "400"
    -- the specification's expectation, computed independently of the implementation's grouping
    let want := match form with
      | .none => "400"
      | .propname => s!"ok 1 0 {prGrouped ((GoWebdav.Spec.Propfind.names avail).map (fun n => (200, (n, none))))}"
      | .allprop => s!"ok 1 0 {prGrouped ((GoWebdav.Spec.Propfind.names avail).map (fun n => let a := answerFor avail n; (a.1, norm a.2)))}"
      | .prop ns => s!"ok 1 0 {prGrouped (ns.eraseDups.map (fun n => let a := answerFor avail n; (a.1, norm a.2)))}"
    pure ⟨impl, mustEqual "C11" (match form with | .prop _ => "prop-accounting" | .none => "no-form-400" | _ => "allprop-propname-accounting") want⟩
  | _ => none

def hierOf : SExp → Option Hierarchy
  | .list [p, hs, .list colls] => do
    let colls ← colls.mapM (fun c => match c with
      | .list [cp, .list objs] => do pure (← cp.str?, ← objs.mapM SExp.str?)
      | _ => none)
    pure ⟨← p.str?, ← hs.str?, colls⟩
  | _ => none

/-- `pf.scope <server> <level> <depth> <form> <hierarchy> <path> => 207 ( hrefs ) | <status>` -/
def opPfScope (args : List SExp) : Option OpResult := do
  match args with
  | [.atom server, .atom level, depth, .atom form, hier, path] =>
    let depth ← depth.str?
    let h ← hierOf hier
    let path ← path.str?
    let level ← (match level with
      | "root" => some Level.root | "principal" => some Level.principal | "homeSet" => some Level.homeSet
      | "collection" => some Level.collection | "object" => some Level.object | "deeper" => some Level.deeper | _ => none)
    let d : Option DepthV := if depth = "" ∨ depth = "infinity" then some .infinity else if depth = "0" then some .zero else if depth = "1" then some .one else none
    let pr (l : List String) := "207 " ++ sxList (sortStr (l.map hexStr))
    if server = "principal" then
      -- the principal helper answers for the addressed path only (Depth is not consulted)
      let out := if form = "noform" then "400" else pr [path]
      pure ⟨out, mustEqual "C11" "principal-helper" out⟩
    else
      let notFound := (level == .collection && !(h.collections.any (fun c => c.1 == path))) || (level == .object && !(h.collections.any (fun c => c.2.contains path)))
      match d with
      | none => pure ⟨"400", mustEqual "C11" "invalid-depth" "400"⟩
      | some d =>
        -- a path at which the hierarchy exposes no resource is answered 404 (an empty scope is no multi-status)
        let impl := if notFound || (GoWebdav.Impl.Propfind.scope h path level d).isEmpty then "404" else if form = "noform" then "400" else pr (GoWebdav.Impl.Propfind.scope h path level d)
        let want := if notFound || (GoWebdav.Spec.Propfind.scope h path level d).isEmpty then "404" else if form = "noform" then "400" else pr (GoWebdav.Spec.Propfind.scope h path level d)
        let cls := s!"{server}-scope-{match level with | .root => "root" | .principal => "principal" | .homeSet => "homeset" | .collection => "collection" | .object => "object" | .deeper => "deeper"}"
        -- C12: a principal or home-set path other than the current user's exposes nothing of the current user's
        let foreign := (level == .principal && path != h.principal) || (level == .homeSet && path != h.homeSet)
        pure ⟨impl, fun got => mustEqual "C11" cls want got ++
          (if foreign && got.startsWith "207" && got != "207 ( )" then [("C12", s!"{server}-foreign-path-exposes-resources")] else []) ++
          -- a path answered at the wrong level (a multi-status where none is due or the reverse) is a routing defect
          (if got != want && (got.startsWith "207") != (want.startsWith "207") then [("C12", s!"{cls}-routed-to-another-level")]
           -- …and so is any other status than the one the level of the path calls for (a redirect, say, because of the
           -- NAME of a segment)
           else if (got.take 3).toString != (want.take 3).toString then [("C12", s!"{cls}-answered-{got.take 3}-where-{want.take 3}-is-due")] else [])⟩
  | _ => none

/-- `pf.prin <principal> ( ( cal|card <path> ) … ) => ( ( cal <href> ) ( card <href> ) ( cup <href> ) )`: the principal
    helper exposes every configured home set under its own name with its own path, and the principal's href -/
def opPfPrin (args : List SExp) : Option OpResult := do
  match args with
  | [pr, .list sets] =>
    let pr ← pr.str?
    let sets ← sets.mapM (fun s => match s with
      | .list [.atom k, p] => do pure s!"( {k} {hexStr (escStr (← p.str?))} )"
      | _ => none)
    let want := sxList (sortStr (s!"( cup {hexStr (escStr pr)} )" :: sets))
    pure ⟨want, mustEqual "C11" "principal-helper-property-values" want⟩
  | _ => none

/-- `pf.discover <cal|card> <principal> <homeSet> ( collections ) => <principal> <homeSet> ( collections )`: the
    discovery chain of the real client against the real handler returns exactly the backend's paths (C12), whatever
    the mount prefix and the characters of the segment names -/
def opPfDiscover (args : List SExp) : Option OpResult := do
  match args with
  | [.atom _srv, .atom p, .atom hs, .list cs] =>
    let cs ← cs.mapM (fun c => match c with | .atom a => some a | _ => none)
    -- the specification: exactly the backend's paths
    let want := s!"{p} {hs} {sxList cs}"
    -- the model (`Impl.Discovery`, proved equal to it for all addressable paths: `C12_discovery_chain`): what the
    -- servers put on the wire, read back the way the clients read it
    let b : GoWebdav.Impl.Discovery.Backend := { principal := ← unhex p, homeSet := ← unhex hs, collections := ← cs.mapM unhex }
    let impl := match GoWebdav.Impl.Discovery.discover (GoWebdav.Impl.Discovery.serve b) with
      | some (wk, p', hs', cs') =>
        if wk != b.principal then s!"wellknown-redirects-to-{hexBytes wk}"
        else s!"{hexBytes p'} {hexBytes hs'} {sxList (cs'.map hexBytes)}"
      | none => "principal-unreadable-href"
    pure ⟨impl, mustEqual "C12" "discovery-chain-does-not-return-the-backend-paths" want⟩
  | _ => none

/-- `pf.consist <server> => ok | <what disagrees> <href>`: the three request forms tell one story about which
    properties each resource has (C11: propname lists the available names, allprop returns all of them with values,
    a named property is under 200 if the resource has it and under 404 if not) -/
def opPfConsist (args : List SExp) : Option OpResult := do
  match args with
  | [.atom _srv] => pure ⟨"ok", mustEqual "C11" "request-forms-disagree-about-the-available-properties" "ok"⟩
  | _ => none

end Driver
