import Driver.OpsCodec
import GoWebdav.Spec.Cond
namespace Driver
open GoWebdav GoWebdav.Impl.Cond

def headerChars (items : List SExp) : Option (List Char) := do
  let rs ← goRunes items
  pure (rs.map (fun r => match r.1 with | .valid c => c | .bad _ => Char.ofNat 0xFFFD))

def prVerdict : Verdict → String
  | .proceed => "proceed"
  | .badRequest => "400"
  | .preconditionFailed => "412"

/-- `cond <n | etaghex> ( ifmatch runes ) ( ifnonematch runes ) => proceed | 400 | 412` -/
def opCond (args : List SExp) : Option OpResult := do
  match args with
  | [st, .list im, .list inm] =>
    let st ← (match st with | .atom "n" => some none | x => do pure (some (← x.bytes?)))
    let im ← headerChars im
    let inm ← headerChars inm
    let impl := prVerdict (check utf8Bytes st im inm)
    let wf := match st with | some e => !e.isEmpty | none => true
    pure ⟨impl, fun got => if wf then mustEqual "C04" "precondition-table" (prVerdict (Spec.Cond.verdict utf8Bytes st im inm)) got else []⟩
  | _ => none

/-- `cond.match ( v runes ) <etaghex> => ok 0|1 | err` (the public `ConditionalMatch.MatchETag`) -/
def opCondMatch (args : List SExp) : Option OpResult := do
  match args with
  | [.list v, e] =>
    let v ← headerChars v
    let e ← e.bytes?
    let impl := match matchETag utf8Bytes v e with | some b => s!"ok {boolTok b}" | none => "err"
    let want := if e.isEmpty then "ok 0" else if v = ['*'] then "ok 1" else
      match etagOf utf8Bytes v with | some t => s!"ok {boolTok (t == e)}" | none => "err"
    pure ⟨impl, mustEqual "C04" "match-etag" want⟩
  | _ => none

/-- `cond.pass <cal|card> <ifmatch hex> <ifnonematch hex> => got <hex> <hex> | not-called <status>`: the CalDAV and
CardDAV servers hand both header values to the backend unaltered (a valid object PUT always reaches the backend) -/
def opCondPass (args : List SExp) : Option OpResult := do
  match args with
  | [.atom _srv, .atom im, .atom inm] =>
    let want := s!"got {im} {inm}"
    pure ⟨want, mustEqual "C04" "conditional-header-altered-before-backend" want⟩
  | _ => none

/-- `cond.announce <tag hex> => <put status> <ETag hex> <get status> <ETag hex> <head status> <ETag hex> <propfind status> <getetag hex>`:
    the entity tag announced by PUT, GET, HEAD and PROPFIND for the same unmodified resource is one and the same
    string (C04) — the header values and the character data of `getetag` are compared as announced -/
def opCondAnnounce (args : List SExp) : Option OpResult := do
  match args with
  | [.atom _tag] =>
    pure ⟨"?announcements-compared-with-each-other", fun got =>
      match (got.splitOn " ").filter (· ≠ "") with
      | [_, p, _, g, _, h, _, f] =>
        -- the PROPFIND value is printed as `text:<chardata>`; strip the marker (hex of "text:")
        let pfTag := if f.startsWith "746578743a" then (f.drop 10).toString else f
        if p = g && g = h && h = pfTag && p ≠ "-" then [] else [("C04", "entity-tag-announced-differently-by-PUT-GET-HEAD-PROPFIND")]
      | _ => [("C04", "entity-tag-announcement-unreadable")]⟩
  | _ => none

end Driver
