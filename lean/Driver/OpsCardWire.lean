import GoWebdav.Spec.CarddavWire
import Driver.Codec
import Driver.OpsFs
import GoWebdav.Impl.CarddavWire
import GoWebdav.Std.Url
namespace Driver
open GoWebdav GoWebdav.Std.Xml GoWebdav.Impl.CarddavWire

partial def xnTree : SExp → Option Node
  | .list [.atom "e", sp, loc, .list attrs, .list children] => do
    let attrs ← attrs.mapM (fun a => match a with
      | .list [s, l, v] => do pure ((⟨← s.str?, ← l.str?⟩ : QName), ← v.str?)
      | _ => none)
    pure (.elem ⟨← sp.str?, ← loc.str?⟩ attrs (← children.mapM xnTree))
  | .list [.atom "l", .atom "0", d] => do pure (.text (← d.str?))
  | .list [.atom "l", _, d] => do pure (.comment (← d.str?))
  | _ => none

partial def prNode : Node → String
  | .elem q attrs cs =>
    let as := sortStr (attrs.map (fun a => s!"( {hexStr a.1.space} {hexStr a.1.loc} {hexStr a.2} )"))
    let as := if as.isEmpty then "( )" else "( " ++ " ".intercalate as ++ " )"
    let cl := cs.map prNode
    let cl := if cl.isEmpty then "( )" else "( " ++ " ".intercalate cl ++ " )"
    s!"( e {hexStr q.space} {hexStr q.loc} {as} {cl} )"
  | .text s => s!"( l 0 {hexStr s} )"
  | .comment s => s!"( l 1 {hexStr s} )"

def cwTextMatch : SExp → Option TextMatch
  | .list [.atom "tm", t, n, m] => do pure ⟨← t.str?, ← n.bool?, ← m.str?⟩
  | _ => none
def cwParam : SExp → Option ParamFilter
  | .list [.atom "prm", n, i, tm] => do
    let tm ← (match tm with | .atom "nil" => some none | x => do pure (some (← cwTextMatch x)))
    pure ⟨← n.str?, ← i.bool?, tm⟩
  | _ => none
def cwPropFilter : SExp → Option PropFilter
  | .list [.atom "pf", n, t, i, .list tms, .list prms] => do
    pure ⟨← n.str?, ← t.str?, ← i.bool?, ← tms.mapM cwTextMatch, ← prms.mapM cwParam⟩
  | _ => none
def cwQuery : SExp → Option Query
  | .list [.atom "q", t, l, a, .list ps, .list pfs] => do
    pure ⟨← a.bool?, ← ps.mapM SExp.str?, ← t.str?, ← pfs.mapM cwPropFilter, ← l.int?⟩
  | _ => none

def sxl' (items : List String) : String := if items.isEmpty then "( )" else "( " ++ " ".intercalate items ++ " )"
def prTM (t : TextMatch) : String := s!"( tm {hexStr t.text} {boolTok t.negate} {hexStr t.matchType} )"
def prParam (p : ParamFilter) : String := s!"( prm {hexStr p.name} {boolTok p.isNotDefined} {match p.textMatch with | some t => prTM t | none => "nil"} )"
def prPF (p : PropFilter) : String :=
  s!"( pf {hexStr p.name} {hexStr p.test} {boolTok p.isNotDefined} {sxl' (p.textMatches.map prTM)} {sxl' (p.params.map prParam)} )"
def prQuery (q : Query) : String :=
  s!"( q {hexStr q.filterTest} {q.limit} {boolTok q.allProp} {sxl' (q.props.map hexStr)} {sxl' (q.propFilters.map prPF)} )"

def escStr (s : String) : String :=
  match String.fromUTF8? (ByteArray.mk (Std.Url.escapePath s.toUTF8.toList).toArray) with | some r => r | none => s
def unescStr (s : String) : Option String :=
  match Std.Url.parseRef s.toUTF8.toList with
  | .path p => String.fromUTF8? (ByteArray.mk p.toArray)
  | _ => none

/-- the caller's query as the backend must receive it (C09): defaults stay as written, a non-positive limit is
    "unlimited", properties are dropped when all-properties is asked for -/
def expectedQuery (q : Query) : Query :=
  { q with props := if q.allProp then [] else q.props, limit := if q.limit > 0 then q.limit else 0 }

/-- `card.enc <query> => <tree> | err` -/
def opCardEnc (args : List SExp) : Option OpResult := do
  match args with
  | [q] =>
    let q ← cwQuery q
    let impl := match encodeQuery q with | .ok n => prNode n | .error _ => "err"
    -- the independent RFC 6352 reader is the model's decoder of the specification tree: what is sent must decode to the query
    let validTest (t : String) : Bool := t = "" || Generated.carddavFilterTests.contains t
    let validMT (t : String) : Bool := t = "" || Generated.carddavMatchTypes.contains t
    let validTM (t : TextMatch) : Bool := validMT t.matchType
    -- expressible in RFC 6352: enumeration values of the grammar (the client passes others through; the server refuses them)
    let expressible := validTest q.filterTest && q.propFilters.all (fun pf => validTest pf.test && pf.textMatches.all validTM &&
      pf.params.all (fun pm => match pm.textMatch with | some t => validTM t | none => true))
    let judge : String → List (String × String) := fun got =>
      if !expressible then []
      else if got = "err" then (if impl = "err" then [] else [("C09", "client-refuses-expressible-query")])
      else
        let toks := (got.splitOn " ").filter (· ≠ "")
        match parseToks toks [[]] with
        | some [t] => (match xnTree t with
          -- the independent strict RFC 6352 reader (Spec.CarddavWire): what is sent must be read by it, to the caller's query
          | some n => (match GoWebdav.Spec.CarddavWire.readQuery n with
            | some q' => if q' = expectedQuery q then [] else [("C09", "client-query-altered-on-the-wire")]
            | none => [("C09", "client-emits-non-rfc-document")])
          | none => [("C09", "client-emits-non-rfc-document")])
        | _ => [("C09", "client-emits-non-rfc-document")]
    pure ⟨impl, judge⟩
  | _ => none

/-- `card.dec <tree> => ok <query> | 400 | nobackend` -/
def opCardDec (args : List SExp) : Option OpResult := do
  match args with
  | [t] =>
    let n ← xnTree t
    let impl := match decodeQuery n with
      | .ok (some q) => s!"ok {prQuery q}"
      | .ok none => "nobackend"
      | .error _ => "400"
    pure ⟨impl, fun got => (if got.startsWith "5" || got = "panic" then [("C13", "report-answered-5xx")] else []) ++
      -- a document the RFC 6352 reading refuses (exclusive elements, invalid enumerations / limits, wrong roots) is malformed
      (if impl = "400" && !(got.startsWith "4") then [("C13", s!"malformed-report-answered-{(got.splitOn " ").headD got}")] else []) ++
      (if got = impl then [] else [("C09", "server-reads-query-differently")])⟩
  | _ => none

def cwMultiGet : SExp → Option MultiGet
  | .list [.atom "mg", a, .list ps, .list paths] => do pure ⟨← a.bool?, ← ps.mapM SExp.str?, ← paths.mapM SExp.str?⟩
  | _ => none
def prMultiGet (m : MultiGet) : String := s!"( mg {boolTok m.allProp} {sxl' (m.props.map hexStr)} {sxl' (m.paths.map hexStr)} )"

/-- `card.encmg <reqpath> <multiget> => <tree>` -/
def opCardEncMg (args : List SExp) : Option OpResult := do
  match args with
  | [rp, m] =>
    let rp ← rp.str?
    let m ← cwMultiGet m
    let impl := prNode (encodeMultiGet rp escStr m)
    let want : MultiGet := { m with props := if m.allProp then [] else m.props, paths := if m.paths.isEmpty then [rp] else m.paths }
    let judge : String → List (String × String) := fun got =>
      let toks := (got.splitOn " ").filter (· ≠ "")
      match parseToks toks [[]] with
      | some [t] => (match xnTree t with
        | some n =>
          -- RFC 6352 §8.7: (allprop | propname | prop)?, href+ — read by the strict reader (order, namespaces, attributes)
          (match GoWebdav.Spec.CarddavWire.readMultiGet unescStr n with
            | some m' => if m' = want then [] else [("C09", "multiget-altered-on-the-wire")]
            | none => [("C09", "client-emits-non-rfc-document")])
        | none => [("C09", "client-emits-non-rfc-document")])
      | _ => [("C09", "client-emits-non-rfc-document")]
    pure ⟨impl, judge⟩
  | _ => none

/-- `card.decmg <tree> => ok <multiget> | 400` -/
def opCardDecMg (args : List SExp) : Option OpResult := do
  match args with
  | [t] =>
    let n ← xnTree t
    let impl := match decodeMultiGet unescStr n with
      | .ok m => s!"ok {prMultiGet m}"
      | .error _ => "400"
    pure ⟨impl, fun got => if got = impl then [] else [("C09", "server-reads-multiget-differently")]⟩
  | _ => none

end Driver
