import GoWebdav.Std.Basic
/-!
Line-protocol codec of the driver (not part of any theorem).

Tokens are separated by single spaces; byte strings travel as lower-case hex (`-` = empty string);
structured values are S-expressions whose parentheses are separate tokens.
-/
namespace Driver

inductive SExp where
  | atom (s : String)
  | list (l : List SExp)
deriving Repr, Inhabited

def hexVal (c : Char) : Option Nat :=
  let n := c.toNat
  if 48 ≤ n ∧ n ≤ 57 then some (n - 48)
  else if 97 ≤ n ∧ n ≤ 102 then some (n - 87)
  else none

def unhexChars : List Char → Option (List UInt8)
  | [] => some []
  | a :: b :: rest => do
    let x ← hexVal a
    let y ← hexVal b
    let r ← unhexChars rest
    pure (UInt8.ofNat (16 * x + y) :: r)
  | _ => none

/-- hex atom → bytes -/
def unhex (s : String) : Option (List UInt8) :=
  if s = "-" then some [] else unhexChars s.toList

def hexDigit (n : Nat) : Char := if n < 10 then Char.ofNat (48 + n) else Char.ofNat (87 + n)

def hexBytes (bs : List UInt8) : String :=
  if bs.isEmpty then "-" else
  String.ofList (bs.flatMap (fun b => [hexDigit (b.toNat / 16), hexDigit (b.toNat % 16)]))

/-- hex atom → String (must be valid UTF-8) -/
def unhexStr (s : String) : Option String := do
  let bs ← unhex s
  String.fromUTF8? (ByteArray.mk bs.toArray)

def hexStr (s : String) : String := hexBytes s.toUTF8.toList

def parseToks : List String → List (List SExp) → Option (List SExp)
  | [], [top] => some top.reverse
  | [], _ => none
  | t :: ts, stack =>
    if t = "(" then parseToks ts ([] :: stack)
    else if t = ")" then
      match stack with
      | cur :: parent :: rest => parseToks ts ((SExp.list cur.reverse :: parent) :: rest)
      | _ => none
    else
      match stack with
      | cur :: rest => parseToks ts ((SExp.atom t :: cur) :: rest)
      | [] => none

/-- split a protocol line into (op, args, go-output tokens) -/
def parseLine (line : String) : Option (String × List SExp × List String) :=
  let toks := (line.splitOn " ").filter (· ≠ "")
  match toks with
  | [] => none
  | op :: rest =>
    let (args, out) := rest.span (· ≠ "=>")
    match parseToks args [[]] with
    | some a => some (op, a, out.drop 1)
    | none => none

def SExp.str? : SExp → Option String
  | .atom s => unhexStr s
  | _ => none
def SExp.bytes? : SExp → Option (List UInt8)
  | .atom s => unhex s
  | _ => none
def SExp.nat? : SExp → Option Nat
  | .atom s => s.toNat?
  | _ => none
def SExp.int? : SExp → Option Int
  | .atom s => s.toInt?
  | _ => none
def SExp.bool? : SExp → Option Bool
  | .atom "1" => some true
  | .atom "0" => some false
  | _ => none

def boolTok (b : Bool) : String := if b then "1" else "0"

/-- result of one op: the model's own output and the specification's judgement of any output
    (a list of violated `(property id, class)` pairs; empty = conforms) -/
structure OpResult where
  impl : String
  judge : String → List (String × String)

def fmtVerdict (v : List (String × String)) : String :=
  if v.isEmpty then "ok" else "viol:" ++ ",".intercalate (v.map (fun x => x.1 ++ ":" ++ x.2))

/-- deterministic spec: the output must equal `want` -/
def mustEqual (prop cls want : String) : String → List (String × String) :=
  fun got => if got = want then [] else [(prop, cls)]

end Driver
