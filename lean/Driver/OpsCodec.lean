import Driver.Codec
import GoWebdav.Impl.Codec
import GoWebdav.Expected.Tables
namespace Driver
open GoWebdav GoWebdav.Std GoWebdav.Impl.Codec GoWebdav.Generated

def utf8Bytes (c : Char) : List UInt8 := (String.singleton c).toUTF8.toList
def charsToHex (l : List Char) : String := hexStr (String.ofList l)
def hexToChars (s : String) : Option (List Char) := do pure (← unhexStr s).toList

def outBytes (l : List Quote.Out) : List UInt8 :=
  l.flatMap (fun o => match o with | .rune c => utf8Bytes c | .byte b => [b])

def lookupTable {β} (t : List (String × β)) (s : String) : Option β := (t.find? (·.1 == s)).map (·.2)

def opDepthParse (args : List SExp) : Option OpResult := do
  match args with
  | [s] =>
    let s ← s.str?
    let pr (r : Option Int) := match r with | some d => s!"ok {d}" | none => "err"
    pure ⟨pr (parseDepth s), mustEqual "C16" "depth" (pr (lookupTable Expected.depthTable s))⟩
  | _ => none

def opDepthStr (args : List SExp) : Option OpResult := do
  match args with
  | [d] =>
    let d ← d.int?
    let pr (r : Option String) := match r with | some s => s!"ok {hexStr s}" | none => "panic"
    pure ⟨pr (depthString d), mustEqual "C16" "depth" (pr ((Expected.depthTable.find? (·.2 == d)).map (·.1)))⟩
  | _ => none

def opOwParse (args : List SExp) : Option OpResult := do
  match args with
  | [s] =>
    let s ← s.str?
    let pr (r : Option Bool) := match r with | some b => s!"ok {boolTok b}" | none => "err"
    pure ⟨pr (parseOverwrite s), mustEqual "C16" "overwrite" (pr (lookupTable Expected.overwriteTable s))⟩
  | _ => none

def opOwFmt (args : List SExp) : Option OpResult := do
  match args with
  | [b] =>
    let b ← b.bool?
    pure ⟨hexStr (formatOverwrite b), mustEqual "C16" "overwrite" (hexStr (if b then "T" else "F"))⟩
  | _ => none

/-- `status.enc code text statusText` -/
def opStatusEnc (args : List SExp) : Option OpResult := do
  match args with
  | [c, t, st] =>
    let c ← c.int?
    let t ← t.str?
    let st ← st.str?
    let out := charsToHex (statusEncode (fun _ => st.toList) c t.toList)
    let want := hexStr (s!"HTTP/1.1 {c} " ++ (if t = "" then st else t))
    pure ⟨out, mustEqual "C16" "status" want⟩
  | _ => none

def opStatusDec (args : List SExp) : Option OpResult := do
  match args with
  | [s] =>
    let s ← s.str?
    let impl := match statusDecode s.toList with
      | some (c, t) => s!"ok {c} {charsToHex t}"
      | none => "err"
    pure ⟨impl, fun got => if got = impl then [] else [("C16", "status")]⟩
  | _ => none

/-- `status.rt code text statusText => ok code text | err`: MarshalText then UnmarshalText through the real code -/
def opStatusRt (args : List SExp) : Option OpResult := do
  match args with
  | [c, t, st] =>
    let c ← c.int?
    let t ← t.str?
    let st ← st.str?
    let impl := match statusDecode (statusEncode (fun _ => st.toList) c t.toList) with
      | some (c', t') => s!"ok {c'} {charsToHex t'}"
      | none => "err"
    pure ⟨impl, mustEqual "C16" "status-roundtrip" s!"ok {c} {hexStr (if t = "" then st else t)}"⟩
  | _ => none

def goRunes (items : List SExp) : Option (List (Quote.GoRune × Bool)) :=
  items.mapM (fun it => match it with
    | .list [.atom "v", cp, p] => do pure (Quote.GoRune.valid (Char.ofNat (← cp.nat?)), ← p.bool?)
    | .list [.atom "b", b] => do pure (Quote.GoRune.bad (UInt8.ofNat (← b.nat?)), false)
    | _ => none)

def runeBytes : Quote.GoRune → List UInt8
  | .valid c => utf8Bytes c
  | .bad b => [b]

def opEtagEnc (args : List SExp) : Option OpResult := do
  match args with
  | [.list items] =>
    let rs ← goRunes items
    let p : Char → Bool := fun c => match rs.find? (fun r => r.1 == Quote.GoRune.valid c) with | some r => r.2 | none => false
    let out := charsToHex (etagEncode p (rs.map (·.1)))
    pure ⟨out, fun got => if got = out then [] else [("C16", "etag-encode")]⟩
  | _ => none

/-- `etag.dec ( items )`: the text as decoded runes; a stray byte is read by Go as U+FFFD -/
def opEtagDec (args : List SExp) : Option OpResult := do
  match args with
  | [.list items] =>
    let rs ← goRunes items
    let chars := rs.map (fun r => match r.1 with | .valid c => c | .bad _ => Char.ofNat 0xFFFD)
    let impl := match etagDecode chars with
      | some out => s!"ok {hexBytes (outBytes out)}"
      | none => "err"
    let quoted := chars.head? == some '"' && chars.getLast? == some '"' && chars.length ≥ 2
    let judge : String → List (String × String) := fun got =>
      if !quoted then mustEqual "C16" "etag-not-quoted-accepted" "err" got
      else if got = impl then [] else [("C16", "etag-decode")]
    pure ⟨impl, judge⟩
  | _ => none

/-- `etag.rt ( items )`: `%q` then Unquote through the real code; must give back the same bytes -/
def opEtagRt (args : List SExp) : Option OpResult := do
  match args with
  | [.list items] =>
    let rs ← goRunes items
    let p : Char → Bool := fun c => match rs.find? (fun r => r.1 == Quote.GoRune.valid c) with | some r => r.2 | none => false
    let impl := match etagDecode (etagEncode p (rs.map (·.1))) with
      | some out => s!"ok {hexBytes (outBytes out)}"
      | none => "err"
    pure ⟨impl, mustEqual "C16" "etag-roundtrip" s!"ok {hexBytes (rs.flatMap (fun r => runeBytes r.1))}"⟩
  | _ => none

/-- `etag.hdr <tag> => ok <tag read back> <matches>`: the announced entity tag sent back in a conditional header names
    the same tag (for a non-empty tag; the empty tag means "no resource") -/
def opEtagHdr (args : List SExp) : Option OpResult := do
  match args with
  | [.list items] =>
    let rs ← goRunes items
    let bytes := hexBytes (rs.flatMap (fun r => runeBytes r.1))
    let want := s!"ok {bytes} {if rs.isEmpty then "0" else "1"}"
    pure ⟨want, mustEqual "C16" "etag-through-headers" want⟩
  | _ => none

def opHrefEnc (args : List SExp) : Option OpResult := do
  match args with
  | [p] =>
    let p ← p.bytes?
    let out := hexBytes (hrefEncode p)
    pure ⟨out, fun got => if got = out then [] else [("C16", "href-encode")]⟩
  | _ => none

def prParse : Url.ParseResult → String
  | .path p => s!"ok {hexBytes p}"
  | .err => "err"
  | .other => "?other"

def opHrefDec (args : List SExp) : Option OpResult := do
  match args with
  | [s] =>
    let s ← s.bytes?
    let impl := prParse (hrefDecode s)
    pure ⟨impl, fun got => if impl = "?other" || got = impl then [] else [("C16", "href-decode")]⟩
  | _ => none

def opHrefRt (args : List SExp) : Option OpResult := do
  match args with
  | [p] =>
    let p ← p.bytes?
    let impl := prParse (hrefDecode (hrefEncode p))
    let inDomain := p.head? == some 47 && (p.drop 1).head? != some 47
    pure ⟨impl, fun got => if inDomain then mustEqual "C16" "href-roundtrip" s!"ok {hexBytes p}" got else []⟩
  | _ => none

def inRange (t : Int) : Bool := -62162035200 ≤ t && t ≤ 253402300799

def opDateEnc (cal : Bool) (args : List SExp) : Option OpResult := do
  match args with
  | [u, off] =>
    let t : GoTime := ⟨← u.int?, ← off.int?⟩
    let out := charsToHex (if cal then calDateEncode t else httpDateEncode t)
    pure ⟨if inRange t.unix then out else "?range", fun got => if !inRange t.unix || got = out then [] else [("C16", if cal then "caldate-encode" else "httpdate-encode")]⟩
  | _ => none

/-- `time.Parse` accepts (when parsing only) a fractional second — a period or comma followed by digits — right after
    the seconds field even if the layout has none: the text without that part -/
def stripFrac (s : List Char) : Option (List Char) :=
  match s.reverse with
  | 'Z' :: rest =>
    let ds := rest.takeWhile Char.isDigit
    (match rest.drop ds.length with
     | c :: before => if (c = '.' || c = ',') && !ds.isEmpty then some (before.reverse ++ ['Z']) else none
     | [] => none)
  | _ => none

def opDateDec (cal : Bool) (args : List SExp) : Option OpResult := do
  match args with
  | [s] =>
    let s ← s.str?
    let r := if cal then Time.parseCal s.toList else Time.parseHttp s.toList
    let impl := match r with | some v => s!"ok {v}" | none => "?rej"
    -- a text of the strict grammar must decode to its value.  HTTP dates: texts outside the IMF-fixdate grammar are
    -- http.ParseTime's business (it also reads RFC 850 and asctime forms).  iCalendar UTC date-times have ONE form:
    -- anything else must be refused (C16 "reject what they cannot represent"), except time.Parse's fractional second
    pure ⟨impl, fun got => match r with
      | some v => if inRange v then mustEqual "C16" (if cal then "caldate-decode" else "httpdate-decode") s!"ok {v}" got else []
      | none =>
        -- (the shortest text of the three HTTP-date forms, an asctime date with a one-digit day, has 23 characters:
        -- anything shorter, the empty text first of all, is outside the grammar and must be refused)
        if !cal then (if s.length < 23 && got ≠ "err" then [("C16", "httpdate-accepts-text-outside-the-grammar")] else []) else
        let frac := match stripFrac s.toList with | some t => (Time.parseCal t).isSome | none => false
        if frac || got = "err" then [] else [("C16", "caldate-accepts-text-outside-the-grammar")]⟩
  | _ => none

def opDateRt (cal : Bool) (args : List SExp) : Option OpResult := do
  match args with
  | [u, off] =>
    let t : GoTime := ⟨← u.int?, ← off.int?⟩
    let r := if cal then Time.parseCal (calDateEncode t) else Time.parseHttp (httpDateEncode t)
    let impl := match r with | some v => s!"ok {v}" | none => "err"
    pure ⟨if inRange t.unix then impl else "?range", fun got => if inRange t.unix then mustEqual "C16" (if cal then "caldate-roundtrip" else "httpdate-roundtrip") s!"ok {t.unix}" got else []⟩
  | _ => none

/-- `neg.parse pkg s`, `ftest.parse s`, `mtype.parse s`: the regenerated enumeration tables -/
def opEnumParse (args : List SExp) : Option OpResult := do
  match args with
  | [.atom kind, s] =>
    let s ← s.str?
    let prB (r : Option Bool) := match r with | some b => s!"ok {boolTok b}" | none => "err"
    let prM (b : Bool) := if b then "ok" else "err"
    match kind with
    | "caldav-neg" => pure ⟨prB (caldavNegateParse s), mustEqual "C16" "negate" (prB (lookupTable Expected.negateTable s))⟩
    | "carddav-neg" => pure ⟨prB (carddavNegateParse s), mustEqual "C16" "negate" (prB (lookupTable Expected.negateTable s))⟩
    | "ftest" => pure ⟨prM (carddavFilterTests.contains s), mustEqual "C16" "filter-test" (prM (Expected.filterTests.contains s))⟩
    | "mtype" => pure ⟨prM (carddavMatchTypes.contains s), mustEqual "C16" "match-type" (prM (Expected.matchTypes.contains s))⟩
    | _ => none
  | _ => none

end Driver
