import Driver.OpsValidate
import Driver.OpsCarddav
import Driver.OpsCaldav
import Driver.OpsCodec
import Driver.OpsCond
import Driver.OpsPath
import Driver.OpsFs
import Driver.OpsRawXml
import Driver.OpsUpload
import Driver.OpsPropfind
import Driver.OpsCardWire
import Driver.OpsCalWire
import Driver.OpsFront
import Driver.OpsClient
import Driver.OpsObjWire
import Driver.OpsDavWire
namespace Driver

def dispatch (op : String) (args : List SExp) : Option OpResult :=
  match op with
  | "cal.validate" => opValidate args
  | "card.match" => opCardMatch args
  | "cal.match" => opCalMatch args
  | "cal.filter" => opCalFilter args
  | "cal.dtend" => opCalDtend args
  | "depth.parse" => opDepthParse args
  | "depth.str" => opDepthStr args
  | "ow.parse" => opOwParse args
  | "ow.fmt" => opOwFmt args
  | "status.enc" => opStatusEnc args
  | "status.dec" => opStatusDec args
  | "status.rt" => opStatusRt args
  | "etag.enc" => opEtagEnc args
  | "etag.dec" => opEtagDec args
  | "etag.rt" => opEtagRt args
  | "etag.hdr" => opEtagHdr args
  | "href.enc" => opHrefEnc args
  | "href.dec" => opHrefDec args
  | "href.rt" => opHrefRt args
  | "httpdate.enc" => opDateEnc false args
  | "httpdate.dec" => opDateDec false args
  | "httpdate.rt" => opDateRt false args
  | "caldate.enc" => opDateEnc true args
  | "caldate.dec" => opDateDec true args
  | "caldate.rt" => opDateRt true args
  | "enum.parse" => opEnumParse args
  | "cond" => opCond args
  | "cond.match" => opCondMatch args
  | "cond.pass" => opCondPass args
  | "cond.announce" => opCondAnnounce args
  | "clean" => opClean args
  | "localpath" => opLocalPath args
  | "extpath" => opExtPath args
  | "rtype" => opRType args
  | "fs.req" => opFsReq args
  | "raw.rt" => opRawRt args
  | "raw.typed" => opRawTyped args
  | "up" => opUpload args
  | "conc" => opConc args
  | "pf.resp" => opPfResp args
  | "pf.scope" => opPfScope args
  | "card.enc" => opCardEnc args
  | "card.dec" => opCardDec args
  | "card.encmg" => opCardEncMg args
  | "card.decmg" => opCardDecMg args
  | "dav.stat" => opDavStat args
  | "dav.open" => opDavOpen args
  | "dav.readdir" => opDavReadDir false args
  | "dav.readdir-local" => opDavReadDir true args
  | "dav.op" => opDavOp args
  | "dav.fail" => opDavFail args
  | "pf.prin" => opPfPrin args
  | "pf.discover" => opPfDiscover args
  | "fs.obs" => opFsObs args
  | "srv.opt" => opSrvOpt args
  | "pf.consist" => opPfConsist args
  | "obj.cals" => opObjCals args
  | "obj.books" => opObjBooks args
  | "obj.calobjs" => opObjObjs "calendar-object" "calendar-data" true args
  | "obj.cards" => opObjObjs "address-object" "address-data" false args
  | "obj.put" => opObjPut args
  | "obj.sync" => opObjSync args
  | "obj.mget" => opObjMget args
  | "obj.homeset" => opObjHomeSet args
  | "cli.do" => opCliDo args
  | "cli.ms" => opCliMs args
  | "cli.resp" => opCliResp args
  | "cli.sync" => opCliSync args
  | "cli.meth" => opCliMeth args
  | "srv.req" => opSrvReq args
  | "srv.obj" => opSrvObj args
  | "srv.fail" => opSrvFail args
  | "srv.wellknown" => opSrvWellKnown args
  | "cal.enc" => opCalEnc args
  | "cal.dec" => opCalDec args
  | "cal.encmg" => opCalEncMg args
  | "cal.decmg" => opCalDecMg args
  | "card.filter" => opCardFilter args
  | _ => none

def process (line : String) : String :=
  match parseLine line with
  | none => "bad-op"
  | some (op, args, go) =>
    match dispatch op args with
    | some r => s!"{r.impl} | {fmtVerdict (r.judge (" ".intercalate go))} | {fmtVerdict (r.judge r.impl)}"
    | none => "bad-op"

end Driver
