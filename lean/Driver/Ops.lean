import Driver.OpsValidate
import Driver.OpsCarddav
import Driver.OpsCaldav
namespace Driver

def dispatch (op : String) (args : List SExp) : Option OpResult :=
  match op with
  | "cal.validate" => opValidate args
  | "card.match" => opCardMatch args
  | "cal.match" => opCalMatch args
  | "cal.filter" => opCalFilter args
  | "cal.dtend" => opCalDtend args
  | "card.filter" => opCardFilter args
  | _ => none

def process (line : String) : String :=
  match parseLine line with
  | none => "bad-op"
  | some (op, args, go) =>
    match dispatch op args with
    | some r => s!"{r.impl} | {fmtVerdict (r.judge (" ".intercalate go))} | {fmtVerdict (r.judge r.impl)}"
    | none => "bad-op"

end Driver
