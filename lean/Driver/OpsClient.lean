import Driver.Codec
import Driver.OpsRawXml
import GoWebdav.Impl.ClientResp
namespace Driver
open GoWebdav GoWebdav.Impl.ClientResp

def ctOf : SExp → Option CT
  | .atom "absent" => some .absent | .atom "xml" => some .xml | .atom "textxml" => some .textxml
  | .atom "textOther" => some .textOther | .atom "other" => some .other | .atom "bad" => some .bad | _ => none
def ebOf : SExp → Option EBody
  | .atom "davError" => some .davError | .atom "xmlOther" => some .xmlOther | .atom "garbage" => some .garbage
  | .atom "blank" => some .blank | _ => none
def prWrapped : Wrapped → String
  | .dav => "dav" | .decodeErr => "decodeErr" | .text => "text" | .nothing => "nothing"
def prDo : DoOut → String
  | .ok => "ok" | .http c w => s!"http {c} {prWrapped w}"
def prMs : MsOut → String
  | .ok => "ok" | .http c w => s!"http {c} {prWrapped w}" | .plain => "plain"

/-- C14 on an observed error class: an error exactly when required, carrying the status -/
def judgeClass (status : Nat) (needMs : Bool) (got : String) : List (String × String) :=
  if got = "panic" || got = "hang" then [("C14", s!"client-{got}")]
  else if got = "nil-nil" then [("C14", "no-result-and-no-error")]
  else if status / 100 ≠ 2 then
    (if got.startsWith s!"http {status} " then [] else [("C14", if got = "ok" then "non-2xx-accepted" else "error-without-status-code")])
  else if needMs && status ≠ 207 then (if got = "ok" then [("C14", "non-207-accepted-as-multistatus")] else [])
  else []

/-- `cli.do <status> <ct> <ebody> => ok | http <code> <wrapped>` -/
def opCliDo (args : List SExp) : Option OpResult := do
  match args with
  | [st, ct, eb] =>
    let st ← st.nat?; let ct ← ctOf ct; let eb ← ebOf eb
    let impl := prDo (doOut st ct eb)
    pure ⟨impl, fun got => judgeClass st false got ++
      (if st / 100 ≠ 2 && isXmlCT ct && eb = .davError && !(got.endsWith " dav") then [("C14", "dav-error-element-lost")] else [])⟩
  | _ => none

/-- `cli.ms <status> <ct> <ebody> <msbody> => ok | http <code> <wrapped> | plain` -/
def opCliMs (args : List SExp) : Option OpResult := do
  match args with
  | [st, ct, eb, .atom mb] =>
    let st ← st.nat?; let ct ← ctOf ct; let eb ← ebOf eb
    let mb ← (match mb with | "decodes" => some MsBody.decodes | "broken" => some MsBody.broken | _ => none)
    let impl := prMs (msOut st ct eb mb)
    pure ⟨impl, fun got => judgeClass st true got ++
      (if st = 207 && mb = .broken && got = "ok" then [("C14", "undecodable-multistatus-accepted")] else [])⟩
  | _ => none

def respOf : SExp → Option Resp
  | .list [.atom "resp", n, st, .list stats, e, d] => do
    let n ← n.nat?
    let st ← (match st with | .atom "nil" => some none | x => do pure (some (← x.nat?)))
    let stats ← stats.mapM (fun s => match s with
      | .list [c, .list names] => do pure (⟨← c.nat?, ← names.mapM SExp.str?⟩ : PropStat)
      | _ => none)
    let hrefs := (List.range n).map (fun i => if i = 0 then "/c/x" else s!"/c/x-{i}")
    pure ⟨hrefs, st, stats, ← e.bool?, ← d.bool?⟩
  | .list [.atom "resp", n, st, .list stats] => do
    let n ← n.nat?
    let st ← (match st with | .atom "nil" => some none | x => do pure (some (← x.nat?)))
    let stats ← stats.mapM (fun s => match s with
      | .list [c, .list names] => do pure (⟨← c.nat?, ← names.mapM SExp.str?⟩ : PropStat)
      | _ => none)
    let hrefs := (List.range n).map (fun i => if i = 0 then "/c/x" else s!"/c/x-{i}")
    pure ⟨hrefs, st, stats, false, false⟩
  | _ => none

/-- `cli.resp <resp> <name> => err <code|none> path <…> prop <…>` -/
def opCliResp (args : List SExp) : Option OpResult := do
  match args with
  | [r, name] =>
    let r ← respOf r
    let name ← name.str?
    let e := match respErr r with
      | none => "none"
      | some c => s!"{c}" ++ (if r.hasError || r.hasDesc then (match respWrapped r with | .dav => ":dav" | .text => ":text" | .nothing => "") else "")
    let p := match respPath r with
      | .ok p => s!"ok {hexStr p}" | .http c p => s!"http {c} {hexStr p}" | .malformed => "malformed"
    let d := match decodeProp r name with | .value i => s!"value {i}" | .http c => s!"http {c}"
    let impl := s!"err {e} path {p} prop {d}"
    -- spec: a value may only come from a 200 propstat of a response that is not failed
    let failed := match r.status with | some c => c / 100 ≠ 2 | none => false
    let judge : String → List (String × String) := fun got =>
      match (got.splitOn " prop ") with
      | [_, d'] =>
        (match d'.splitOn " " with
         | ["value", i] =>
           (match i.toNat? with
            | some i => (match r.propstats[i]? with
              | some ps => if failed then [("C14", "failed-response-surfaced-as-data")]
                           else if ps.status ≠ 200 then [("C14", "failed-propstat-surfaced-as-data")] else []
              | none => [("C14", "value-from-nowhere")])
            | none => [("C14", "value-from-nowhere")])
         | ["http", c] =>
           -- a property under a failed propstat / in a failed response must be an error carrying THAT status
           (match decodeProp r name with
            | .http want => if c.toNat? = some want then [] else [("C14", s!"property-error-carries-{c}-instead-of-{want}")]
            | .value _ => [("C14", "good-property-reported-as-error")])
         | _ => if failed && !(d'.startsWith "http") then [("C14", "failed-response-without-status")] else [])
      | _ => [("C14", s!"client-{got}")]
    pure ⟨impl, judge⟩
  | _ => none

/-- `cli.sync <reqPath> ( ( <path> <resp> ) … ) => deleted ( … ) updated ( … ) | fail` -/
def opCliSync (args : List SExp) : Option OpResult := do
  match args with
  | [rp, .list items] =>
    let rp ← rp.str?
    let rs ← items.mapM (fun it => match it with
      | .list [p, r] => do
        let p ← p.str?
        let r ← respOf r
        let hrefs := (List.range r.hrefs.length).map (fun i => if i = 0 then p else s!"{p}-{i}")
        pure ({ r with hrefs := hrefs } : Resp)
      | _ => none)
    let outs := rs.map (syncOne rp)
    let impl := if outs.any (· == .fail) then "fail" else
      let del := outs.filterMap (fun o => match o with | .deleted p => some (hexStr p) | _ => none)
      let upd := outs.filterMap (fun o => match o with | .updated p => some (hexStr p) | _ => none)
      s!"deleted {sxList del} updated {sxList upd}"
    -- spec: a 404 resource is a deletion; no failed resource is reported as updated
    let judge : String → List (String × String) := fun got =>
      if got = "panic" then [("C14", "client-panic")] else
      let failedPaths := rs.filterMap (fun r => match respErr r, r.hrefs with | some _, [h] => some (hexStr h) | _, _ => none)
      match got.splitOn " updated " with
      | [_, upd] => if failedPaths.any (fun p => (upd.splitOn " ").contains p) &&
            !(rs.any (fun r => respErr r = none && failedPaths.contains (hexStr (r.hrefs.headD ""))))
          then [("C14", "failed-resource-reported-as-updated")] else []
      | _ => []
    pure ⟨impl, judge⟩
  | _ => none

/-- `cli.meth <kind> <name> <script> <expectData> => <class> leak <b>`: every public client method against a scripted
    response.  The model predicts the error class where the front of the method decides it; the placement scripts are
    judged by the specification only (no failed status may come out as data). -/
def opCliMeth (args : List SExp) : Option OpResult := do
  match args with
  | [.atom kind, _name, script, _expect] =>
    let isMs := kind.startsWith "ms-"
    let split (got : String) : String × Bool :=
      match got.splitOn " leak " with
      | [c, l] => (c, l = "1")
      | _ => ((got.splitOn " LEAK").headD got, got.endsWith " LEAK")
    match script with
    | .list [.atom "err", st, ct, eb] =>
      let st ← st.nat?; let ct ← ctOf ct; let eb ← ebOf eb
      let impl :=
        if st / 100 ≠ 2 then prDo (doOut st ct eb)
        else if isMs then "plain"        -- not a multi-status document
        else if kind = "getobj" then "?object-parser-not-modelled"
        else "ok"
      pure ⟨impl, fun got => judgeClass st isMs (split got).1 ++
        (if st / 100 ≠ 2 && isXmlCT ct && eb = .davError && !((split got).1.endsWith " dav") then [("C14", "dav-error-element-lost")] else [])⟩
    | .list [.atom "good", st] =>
      let st ← st.nat?
      let impl :=
        if st / 100 ≠ 2 then
          (if isMs then s!"http {st} decodeErr" else if kind = "getobj" then s!"http {st} text" else s!"http {st} nothing")
        else if isMs then (if st = 207 then "ok" else "plain")
        else "ok"
      -- an error exactly when the status or the body is bad: the good answer under a good status is no error
      let good := if isMs then st = 207 else st / 100 = 2
      pure ⟨impl, fun got => judgeClass st isMs (split got).1 ++
        (if got.endsWith " LEAK" then [("C14", "error-response-surfaced-as-data")] else []) ++
        (if good && (split got).1 ≠ "ok" && (split got).1 ≠ "panic" && (split got).1 ≠ "hang" then [("C14", "good-response-reported-as-error")] else [])⟩
    | .list [.atom "trunc", st] =>
      let st ← st.nat?
      let impl := if isMs then "plain" else "?object-parser-not-modelled"
      pure ⟨impl, fun got => judgeClass st false (split got).1 ++
        (if isMs && (split got).1 = "ok" then [("C14", "undecodable-multistatus-accepted")] else [])⟩
    | .list [.atom "fragile"] =>
      pure ⟨"?object-parser-not-modelled", fun got =>
        let c := (split got).1
        if c = "panic" || c = "hang" then [("C14", s!"client-{c}-in-object-parser")] else []⟩
    | .list [.atom "header"] =>
      pure ⟨"?header-parsers-not-modelled", fun got =>
        let c := (split got).1
        if c = "panic" || c = "hang" then [("C14", s!"client-{c}-on-a-response-header")] else []⟩
    | .list [.atom "oddprop"] =>
      -- a 200 propstat whose entity tag / date / length texts are not what their codecs accept: a value or an error,
      -- never a panic or a hang (the property decoders are C16's; here only that the call survives them)
      pure ⟨"?property-text-decoders-not-modelled-here", fun got =>
        let c := (split got).1
        if c = "panic" || c = "hang" then [("C14", s!"client-{c}-on-a-property-text")] else []⟩
    | .list [.atom "carry", _] =>
      -- two resources, the second reporting under 404 what the first reports under 200
      let judge : String → List (String × String) := fun got =>
        let (c, leak) := split got
        (if c = "panic" || c = "hang" then [("C14", s!"client-{c}")] else []) ++
        (if leak then [("C14", "value-of-another-resource-surfaced-for-a-404-property")] else [])
      pure ⟨"?placement-judged-by-spec", judge⟩
    | .list [.atom "place", .atom rs, .atom pst, nh, nresp] =>
      let nh ← nh.nat?; let nresp ← nresp.nat?
      let rsFailed := match rs.toNat? with | some c => c / 100 ≠ 2 | none => false
      let pstOK := match pst.toNat? with | some c => c / 100 = 2 | none => false
      let judge : String → List (String × String) := fun got =>
        let (c, leak) := split got
        (if c = "panic" || c = "hang" then [("C14", s!"client-{c}")] else []) ++
        (if leak && nresp > 0 && (rsFailed || !pstOK) then [("C14", "failed-status-surfaced-as-data")] else []) ++
        (if c = "ok" && nresp > 0 && nh = 1 && rsFailed && !(kind = "ms-sync" && rs = "404") then [("C14", "failed-resource-not-reported")] else []) ++
        (if c = "ok" && kind = "ms-flat" && nresp ≠ 1 then [("C14", "flat-propfind-accepted-wrong-response-count")] else [])
      pure ⟨"?placement-judged-by-spec", judge⟩
    | _ => none
  | _ => none

end Driver
