import Driver.Codec
import GoWebdav.Spec.Validate
namespace Driver
open GoWebdav.Impl.Validate GoWebdav.Spec.Validate

def compOfSExp : SExp → Option Comp
  | .list [.atom "comp", n, .atom "n"] => do pure ⟨← n.str?, .none⟩
  | .list [.atom "comp", n, .atom "e"] => do pure ⟨← n.str?, .err⟩
  | .list [.atom "comp", n, .list [.atom "t", u]] => do pure ⟨← n.str?, .text (← u.str?)⟩
  | _ => none

/-- `cal.validate m (comp ..)* => ok|err <type> <uid>` -/
def opValidate (args : List SExp) : Option OpResult := do
  match args with
  | m :: cs =>
    let m ← m.bool?
    let comps ← cs.mapM compOfSExp
    let impl := match validate m comps with
      | .ok (t, u) => s!"ok {hexStr t} {hexStr u}"
      | .error _ => "err - -"
    let spec := if Valid m comps then
        let r := result comps; s!"ok {hexStr r.1} {hexStr r.2}"
      else "err - -"
    pure ⟨impl, mustEqual "C19" "validate" spec⟩
  | _ => none

end Driver
