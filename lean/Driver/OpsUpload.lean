import Driver.Codec
import GoWebdav.Impl.Upload
namespace Driver

/-- `up <fault> <size> <chunk> => closed <nil|err> <leak>`: what the LTS allows as the result of `Close`
    (`C18_close_result`: nil exactly when the transport finished with a 2xx answer) -/
def opUpload (args : List SExp) : Option OpResult := do
  match args with
  | [.atom fault, _, _] =>
    -- `C18_close_result`: nil exactly when the transport finished with a 2xx answer; otherwise the failure — the
    -- server's status when it answered, the transport's error when it did not
    let want :=
      if fault = "ok" || fault = "early2xx" || fault = "early2xx-stall" then "closed nil 0"
      else if fault = "early" then "closed http-412 0"
      else if fault = "early308" then "closed http-308 0"
      else if fault = "late300" then "closed http-300 0"
      else if fault = "partial" || fault = "partial-json" || fault = "partial-bin" || fault = "early-text-endless" || fault = "partial-text-endless" then "closed http-507 0"
      else "closed other 0"
    pure ⟨want, fun got =>
      if got = want then []
      else if got.startsWith "hang" || got.startsWith "second-upload-hangs" then [("C18", "upload-does-not-terminate"), ("C14", "client-call-hangs")]
      else if got.startsWith "closed nil" && want != "closed nil 0" then [("C18", "close-result-wrong"), ("C14", "failure-not-reported-by-close")]
      else if got.endsWith " 1" then [("C18", "goroutine-outlives-upload")]
      else [("C18", "close-result-wrong")]⟩
  | _ => none

/-- `conc <kind> <n> <m> => agree | …`: concurrent requests on disjoint subtrees against their sequential results -/
def opConc (_args : List SExp) : Option OpResult :=
  some ⟨"agree", fun got => if got = "agree" then [] else [("C18", "concurrent-result-differs")]⟩

end Driver
