import Driver.Codec
import GoWebdav.Spec.Frontend
namespace Driver
open GoWebdav GoWebdav.Impl.Frontend GoWebdav.Spec.Frontend

def frSrv : SExp → Option Srv
  | .atom "cal" => some .cal | .atom "card" => some .card | .atom "prin" => some .prin | _ => none
def frCType : SExp → Option CType
  | .atom "none" => some .none | .atom "xml" => some .xml | .atom "textxml" => some .textxml | .atom "obj" => some .obj
  | .atom "objparam" => some .objparam | .atom "otherobj" => some .otherobj | .atom "other" => some .other | .atom "bad" => some .bad
  | .atom "objbadparam" => some .objbadparam | .atom "xmlbadparam" => some .xmlbadparam
  | _ => none
def frBody : SExp → Option Body
  | .atom "empty" => some .empty | .atom "trunc" => some .trunc | .atom "random" => some .random | .atom "wrongroot" => some .wrongroot
  | .atom "noform" => some .noform | .atom "valid" => some .valid | .atom "objok" => some .objok | .atom "objbad" => some .objbad
  | .atom "badrt" => some .badrt | _ => none
def frDepth : SExp → Option Depth
  | .atom "absent" => some .absent | .atom "0" => some .d0 | .atom "1" => some .d1 | .atom "infinity" => some .inf
  | .atom "bad" => some .bad | _ => none
def frOw : SExp → Option Ow
  | .atom "absent" => some .absent | .atom "T" => some .t | .atom "F" => some .f | .atom "bad" => some .bad | _ => none
def frDst : SExp → Option Dst
  | .atom "absent" => some .absent | .atom "ok" => some .ok | .atom "bad" => some .bad | _ => none

def frReq : SExp → Option Req
  | .list [.atom "rq", s, m, l, e, ct, b, d, ow, ds] => do
    pure ⟨← frSrv s, ← m.str?, ← l.nat?, ← e.bool?, ← frCType ct, ← frBody b, ← frDepth d, ← frOw ow, ← frDst ds⟩
  | _ => none

/-- C13 verdict on an observed outcome `status mutated` | `panic` | `NNN-broken-body m` -/
def judgeOutcome (malf : Bool) (what : String) (got : String) : List (String × String) :=
  if got = "panic" then [("C13", s!"panic-in-{what}")]
  else match (got.splitOn " ").filter (· ≠ "") with
    | [st, m] =>
      (match st.toNat? with
       | none => [("C13", s!"incomplete-response-{what}")]
       | some code =>
         (if code ≥ 500 && code ≠ 501 then [("C13", s!"{what}-answered-{code}")] else []) ++
         (if malf && !(400 ≤ code && code < 500) then [("C13", s!"malformed-{what}-answered-{code}")] else []) ++
         (if malf && m = "1" then [("C13", s!"malformed-{what}-reached-mutating-call")] else []))
    | _ => [("C13", s!"incomplete-response-{what}")]

/-- `srv.req <descriptor> => <status> <mutated>` -/
def opSrvReq (args : List SExp) : Option OpResult := do
  match args with
  | [q] =>
    let r ← frReq q
    let out := serve r
    let impl := s!"{out.status} {boolTok out.mutated}"
    -- C12: a well-formed request reaches a creating / updating / deleting backend call only where the level of its path
    -- allows the method (collections are created at collection level, objects written at object level, …)
    let c12 : String → List (String × String) := fun got =>
      if !malformed r && !out.mutated && got.endsWith " 1" then [("C12", s!"{r.method}-reached-a-mutating-call-at-level-{r.level}")] else []
    -- `altered-path`: a backend call carried a path that is neither the request path (unchanged, with or without its
    -- trailing slash) nor one the backend handed out (C12: operations are invoked with the request path)
    -- `slash-dependent`: the backend operation the request starts with differs when the trailing slash of the request
    -- path is added or removed (C12: the level is the depth below the prefix, with or without a trailing slash)
    let strip (got : String) : String :=
      if got.endsWith " altered-path" then String.ofList (got.toList.take (got.length - 13))
      else if got.endsWith " slash-dependent" then String.ofList (got.toList.take (got.length - 16))
      else if got.endsWith " options-not-by-level" then String.ofList (got.toList.take (got.length - 21)) else got
    let c12p : String → List (String × String) := fun got =>
      if got.endsWith " altered-path" then [("C12", s!"{r.method}-backend-called-with-an-altered-path")]
      else if got.endsWith " slash-dependent" then [("C12", s!"{r.method}-level-operation-depends-on-the-trailing-slash")]
      -- `options-not-by-level`: the Allow set of an OPTIONS answer, or whether an object was looked up for it, is not what
      -- the depth of the path below the prefix prescribes (object depth: the object's methods; any other depth: the
      -- collection-side methods and no object lookup)
      else if got.endsWith " options-not-by-level" then [("C12", "OPTIONS-answer-does-not-follow-the-level")] else []
    pure ⟨impl, fun got => judgeOutcome (malformed r) r.method (strip got) ++ c12 (strip got) ++ c12p got⟩
  | _ => none

/-- `srv.opt <cal|card> <level> <exists> => <status> <Allow, sorted, comma-separated> <object look-ups>`: the answer to
    OPTIONS as the model's `options` has it (C12: decided by the level, and at object level by the object's existence) -/
def opSrvOpt (args : List SExp) : Option OpResult := do
  match args with
  | [.atom _srv, .atom lvl, .atom ex] =>
    let level ← lvl.toNat?
    let a := optionsK level (ex = "1")
    let sorted := (a.allow.toArray.qsort (· < ·)).toList
    let want := s!"204 {",".intercalate sorted} {a.objectReads}"
    pure ⟨want, mustEqual "C12" "OPTIONS-answer-does-not-follow-the-level" want⟩
  | _ => none

/-- `srv.obj <srv> <body> => <status> <mutated>`: an object body through PUT; the object parsers are outside the model
    (the model abstains), the outcome must be 201 (parsed, stored) or 400 (refused, nothing stored) -/
def opSrvObj (args : List SExp) : Option OpResult := do
  match args with
  | [s, _body] =>
    let srv ← frSrv s
    let dec := match srv with | .cal => "ical-decoder" | _ => "vcard-decoder"
    let judge : String → List (String × String) := fun got =>
      if got = "panic" then [("C13", s!"{dec}-panic")]
      else if got = "201 1" || got = "400 0" then [] else [("C13", s!"object-put-answered-{got}")]
    pure ⟨"?object-parser-not-modelled", judge⟩
  | _ => none

/-- `srv.fail <srv> <method> <level> <depth> <kind> <report> => <status> [detail]`: every data call of the backend fails.
    The answer carries the backend's own status (500 for an error without one) wherever the request reaches a data
    call, a precondition element is served as a DAV:error document, and a multiget reports the failure per resource. -/
def opSrvFail (args : List SExp) : Option OpResult := do
  match args with
  | [.atom srv, m, lvl, .atom depth, .atom kind, .atom report] =>
    let m ← m.str?
    let lvl ← lvl.nat?
    let c : Nat := if kind = "plain" then 500 else if kind = "precond" then 409 else ((kind.drop 4).toNat?).getD 0
    let detail := if kind = "precond" then " no-uid-conflict" else ""
    let fails := s!"{c}{detail}"
    let want : String :=
      if m = "OPTIONS" then (if lvl = 4 then (if kind = "http404" then "204" else fails) else "204")
      else if m = "GET" || m = "HEAD" || m = "PUT" then fails
      else if m = "DELETE" then (if srv = "cal" || lvl = 3 || lvl = 4 then fails else "403")
      else if m = "MKCOL" then (if lvl = 3 then fails else "403")
      else if m = "PROPPATCH" || m = "COPY" then "400"      -- sent without a body / Destination: refused up front
      else if m = "PROPFIND" then
        (if lvl ≥ 3 || (lvl = 2 && depth ≠ "0") || (lvl ≤ 1 && depth = "infinity") then fails else "207")
      else if m = "REPORT" then (if report = "multiget" then s!"207 {c}" else fails)
      else "405"
    pure ⟨want, fun got => mustEqual "C13" s!"backend-failure-{m}-answered-{(got.splitOn " ").headD got}" want got ++
      (if m = "REPORT" && report = "multiget" && got != want then [("C10", "multiget-does-not-carry-the-backend-status")] else [])⟩
  | _ => none

/-- `srv.wellknown <srv> <method> <principal> => 308 <Location>`: discovery starts at the well-known URL -/
def opSrvWellKnown (args : List SExp) : Option OpResult := do
  match args with
  | [_, _, p] =>
    let p ← p.str?
    let want := s!"308 {hexStr p}"
    pure ⟨want, mustEqual "C12" "well-known-redirect" want⟩
  | _ => none

end Driver
