import Driver.Codec
import Driver.OpsCardWire
import GoWebdav.Impl.CaldavWire
import GoWebdav.Spec.CaldavWire
namespace Driver
open GoWebdav GoWebdav.Std.Xml GoWebdav.Impl.Caldav GoWebdav.Impl.CaldavWire

def kwTM : SExp → Option (Option TextMatch)
  | .atom "nil" => some none
  | .list [.atom "tm", t, n] => do pure (some ⟨← t.str?, ← n.bool?⟩)
  | _ => none
def kwParam : SExp → Option ParamFilter
  | .list [.atom "prm", n, i, tm] => do pure ⟨← n.str?, ← i.bool?, ← kwTM tm⟩
  | _ => none
def kwPropFilter : SExp → Option PropFilter
  | .list [.atom "pf", n, i, s, e, tm, .list prms] => do
    pure ⟨← n.str?, ← i.bool?, ← s.int?, ← e.int?, ← kwTM tm, ← prms.mapM kwParam⟩
  | _ => none
partial def kwCompFilter : SExp → Option CompFilter
  | .list [.atom "cf", n, i, s, e, .list pfs, .list cfs] => do
    pure (.mk (← n.str?) (← i.bool?) (← s.int?) (← e.int?) (← pfs.mapM kwPropFilter) (← cfs.mapM kwCompFilter))
  | _ => none
partial def kwComp : SExp → Option CompReq
  | .list [.atom "c", n, ap, .list ps, ac, .list cs] => do
    pure (.mk (← n.str?) (← ap.bool?) (← ps.mapM SExp.str?) (← ac.bool?) (← cs.mapM kwComp))
  | _ => none
def kwDataReq : SExp → Option DataReq
  | .list [.atom "dr", c, ex] => do
    let ex ← (match ex with
      | .atom "nil" => some none
      | .list [.atom "ex", s, e] => do pure (some (← s.int?, ← e.int?))
      | _ => none)
    pure ⟨← kwComp c, ex⟩
  | _ => none
def kwQuery : SExp → Option Query
  | .list [.atom "q", d, f] => do pure ⟨← kwDataReq d, ← kwCompFilter f⟩
  | _ => none
def kwMultiGet : SExp → Option MultiGet
  | .list [.atom "mg", d, .list paths] => do pure ⟨← kwDataReq d, ← paths.mapM SExp.str?⟩
  | _ => none

def kpTM : Option TextMatch → String
  | none => "nil"
  | some t => s!"( tm {hexStr t.text} {boolTok t.negate} )"
def kpParam (p : ParamFilter) : String := s!"( prm {hexStr p.name} {boolTok p.isNotDefined} {kpTM p.textMatch} )"
def kpPropFilter (p : PropFilter) : String :=
  s!"( pf {hexStr p.name} {boolTok p.isNotDefined} {p.start} {p.end_} {kpTM p.textMatch} {sxl' (p.paramFilters.map kpParam)} )"
partial def kpCompFilter : CompFilter → String
  | .mk n i s e pfs cfs => s!"( cf {hexStr n} {boolTok i} {s} {e} {sxl' (pfs.map kpPropFilter)} {sxl' (cfs.map kpCompFilter)} )"
partial def kpComp : CompReq → String
  | .mk n ap ps ac cs => s!"( c {hexStr n} {boolTok ap} {sxl' (ps.map hexStr)} {boolTok ac} {sxl' (cs.map kpComp)} )"
def kpDataReq (d : DataReq) : String :=
  s!"( dr {kpComp d.comp} {match d.expand with | some (s, e) => s!"( ex {s} {e} )" | none => "nil"} )"
def kpQuery (q : Query) : String := s!"( q {kpDataReq q.data} {kpCompFilter q.filter} )"
def kpMultiGet (m : MultiGet) : String := s!"( mg {kpDataReq m.data} {sxl' (m.paths.map hexStr)} )"

def parseTree (got : String) : Option Node :=
  let toks := (got.splitOn " ").filter (· ≠ "")
  match parseToks toks [[]] with
  | some [t] => xnTree t
  | _ => none

/-- `cal.enc <query> => <tree>` -/
def opCalEnc (args : List SExp) : Option OpResult := do
  match args with
  | [q] =>
    let q ← kwQuery q
    let impl := prNode (encodeQuery q)
    let expressible := Spec.CaldavWire.Expressible q
    let judge : String → List (String × String) := fun got =>
      if !expressible then []
      else match parseTree got with
        | none => [("C08", "client-emits-no-document")]
        | some n =>
          -- the independent strict RFC 4791 reader must read what was sent, to the request the caller expressed
          match Spec.CaldavWire.readQuery n with
          | none => [("C08", "client-emits-non-rfc-document")]
          | some q' => if kpQuery q' = kpQuery q then [] else [("C08", "client-query-altered-on-the-wire")]
    pure ⟨impl, judge⟩
  | _ => none

/-- `cal.dec <tree> <intended|nil> => ok <query> | 400` -/
def opCalDec (args : List SExp) : Option OpResult := do
  match args with
  | [t, intended] =>
    let n ← xnTree t
    let intended ← (match intended with | .atom "nil" => some none | x => do pure (some (← kwQuery x)))
    let impl := match decodeQuery n with
      | .ok q => s!"ok {kpQuery q}"
      | .error .badRequest => "400"
      | .error .abstain => "?singular-element-twice"
    let judge : String → List (String × String) := fun got =>
      (if got.startsWith "5" || got = "panic" then [("C13", "report-answered-5xx")] else []) ++
      (if impl = "400" && !(got.startsWith "4") then [("C13", s!"malformed-report-answered-{(got.splitOn " ").headD got}")] else []) ++
      (match intended with
       | some q => if got = s!"ok {kpQuery q}" then [] else [("C08", "server-alters-rfc-query")]
       | none => if impl.startsWith "?" || got = impl then [] else [("C08", "server-reads-query-differently")])
    pure ⟨impl, judge⟩
  | _ => none

/-- `cal.encmg <reqpath> <multiget> => <tree>` -/
def opCalEncMg (args : List SExp) : Option OpResult := do
  match args with
  | [rp, m] =>
    let rp ← rp.str?
    let m ← kwMultiGet m
    let impl := prNode (encodeMultiGet rp escStr m)
    let want : MultiGet := { m with paths := if m.paths.isEmpty then [rp] else m.paths }
    let judge : String → List (String × String) := fun got =>
      if !(Spec.CaldavWire.okData m.data && Spec.CaldavWire.rfcData m.data) then [] else
      match parseTree got with
      | none => [("C08", "client-emits-no-document")]
      | some n =>
        match Spec.CaldavWire.readMultiGet unescStr n with
        | none => [("C08", "client-emits-non-rfc-multiget")]
        | some m' => if kpMultiGet m' = kpMultiGet want then [] else [("C08", "multiget-altered-on-the-wire")]
    pure ⟨impl, judge⟩
  | _ => none

/-- `cal.decmg <tree> <intended> => ok <multiget> | 400` -/
def opCalDecMg (args : List SExp) : Option OpResult := do
  match args with
  | [t, intended] =>
    let n ← xnTree t
    let intended ← kwMultiGet intended
    let impl := match decodeMultiGet unescStr n with
      | .ok m => s!"ok {kpMultiGet m}"
      | .error .badRequest => "400"
      | .error .abstain => "?singular-element-twice"
    pure ⟨impl, fun got => if got = s!"ok {kpMultiGet intended}" then [] else [("C08", "server-alters-rfc-multiget")]⟩
  | _ => none

end Driver
