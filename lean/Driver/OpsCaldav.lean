import Driver.Codec
import GoWebdav.Spec.Caldav
namespace Driver
open GoWebdav.Impl.Caldav GoWebdav.Spec.Caldav

def cvOptInt : SExp → Option (Option Int)
  | .atom "e" => some none
  | x => do pure (some (← x.int?))

def cvTextMatch : SExp → Option (Option TextMatch)
  | .atom "nil" => some none
  | .list [.atom "tm", t, n] => do pure (some ⟨← t.str?, ← n.bool?⟩)
  | _ => none
def cvParamFilter : SExp → Option ParamFilter
  | .list [.atom "prm", n, i, tm] => do pure ⟨← n.str?, ← i.bool?, ← cvTextMatch tm⟩
  | _ => none
def cvPropFilter : SExp → Option PropFilter
  | .list [.atom "pf", n, i, s, e, tm, .list prms] => do
    pure ⟨← n.str?, ← i.bool?, ← s.int?, ← e.int?, ← cvTextMatch tm, ← prms.mapM cvParamFilter⟩
  | _ => none

partial def cvCompFilter : SExp → Option CompFilter
  | .list [.atom "cf", n, i, s, e, .list pfs, .list cfs] => do
    pure (.mk (← n.str?) (← i.bool?) (← s.int?) (← e.int?) (← pfs.mapM cvPropFilter) (← cfs.mapM cvCompFilter))
  | _ => none

def cvProp : SExp → Option IProp
  | .list [.atom "p", n, v, .list params, t] => do
    let ps ← params.mapM (fun kv => match kv with
      | .list (k :: vs) => do pure (← k.str?, ← vs.mapM SExp.str?)
      | _ => none)
    let tm ← (match t with | .atom "e" => some none | x => do pure (some (← x.int?)))
    pure ⟨← n.str?, ← v.str?, ps, tm⟩
  | _ => none

def cvTiming : SExp → Option Timing
  | .list [.atom "tim", r, ds, es] => do
    let recur ← (match r with
      | .atom "n" => some Recur.none
      | .atom "e" => some Recur.err
      | .list [.atom "r", f, st, c] => do pure (Recur.rule (← f.int?) (← st.int?) (← c.nat?))
      | _ => none)
    let dtstart ← (match ds with
      | .atom "n" => some none
      | .list [.atom "s", v, d] => do pure (some (← cvOptInt v, ← d.bool?))
      | _ => none)
    let endSpec ← (match es with
      | .atom "n" => some EndSpec.none
      | .list [.atom "dtend", v] => do pure (EndSpec.dtend (← cvOptInt v))
      | .list [.atom "dur", v] => do pure (EndSpec.duration (← cvOptInt v))
      | _ => none)
    pure ⟨recur, dtstart, endSpec⟩
  | _ => none

partial def cvComponent : SExp → Option Component
  | .list [.atom "comp", n, .list props, tim, .list ch] => do
    pure (.mk (← n.str?) (← props.mapM cvProp) (← cvTiming tim) (← ch.mapM cvComponent))
  | _ => none

/-- does the filter put a time range on a component other than VEVENT (the property is silent there)? -/
partial def rangeOnNonEvent : CompFilter → Bool
  | .mk n _ s e _ comps => (hasRange s e && n != "VEVENT") || comps.any rangeOnNonEvent

partial def hasIND : CompFilter → Bool
  | .mk _ i _ _ props comps => i || props.any (fun p => p.isNotDefined || p.paramFilters.any (·.isNotDefined)) || comps.any hasIND
partial def hasCompRange : CompFilter → Bool
  | .mk _ _ s e _ comps => hasRange s e || comps.any hasCompRange
partial def hasPropRange : CompFilter → Bool
  | .mk _ _ _ _ props comps => props.any (fun p => hasRange p.start p.end_) || comps.any hasPropRange
partial def hasParam : CompFilter → Bool
  | .mk _ _ _ _ props comps => props.any (fun p => !p.paramFilters.isEmpty) || comps.any hasParam
partial def hasRecur : Component → Bool
  | .mk _ _ t ch => (match t.recur with | .rule _ _ _ => true | _ => false) || ch.any hasRecur

def classify (f : CompFilter) (c : Component) : String :=
  if hasCompRange f && hasRecur c then "recurring-time-range"
  else if hasCompRange f then "event-time-range"
  else if hasPropRange f then "prop-time-range"
  else if hasIND f then "is-not-defined"
  else if hasParam f then "param-filter"
  else "match"

def judgeMatch (f : CompFilter) (c : Component) (impl : String) : String → List (String × String) := fun got =>
  if rangeOnNonEvent f then []
  else if hasCompRange f && !(wf c) then []   -- outside the hypothesis (a time range against a VEVENT without DTSTART)
  else if got = "err" then (if impl = "err" then [] else [("C06", "spurious-error")])
  else if impl = "err" then []            -- answered although an unparsable value lies on the evaluation path of the model: the lazier answer is judged below only when it is a Boolean
  else mustEqual "C06" (classify f c) s!"ok {boolTok (holdsF f c)}" got

def opCalMatch (args : List SExp) : Option OpResult := do
  match args with
  | [f, c] =>
    let f ← cvCompFilter f
    let c ← cvComponent c
    let impl := match matchF f c with
      | .ok b => s!"ok {boolTok b}"
      | .error _ => "err"
    pure ⟨impl, judgeMatch f c impl⟩
  | _ => none

def opCalFilter (args : List SExp) : Option OpResult := do
  match args with
  | [q, .list cos] =>
    let q ← (match q with | .atom "nil" => some none | x => do pure (some (← cvCompFilter x)))
    let cos ← cos.mapM (fun co => match co with
      | .list [.atom "co", p, c] => do pure (← p.str?, ← cvComponent c)
      | _ => none)
    let pr (l : List (String × Component)) := "ok ( " ++ " ".intercalate (l.map (fun co => hexStr co.1)) ++ (if l.isEmpty then ")" else " )")
    let impl := match filter q cos with
      | .ok out => pr out
      | .error _ => "err"
    let judge : String → List (String × String) := fun got =>
      match q with
      | none => mustEqual "C06" "filter-nil" (pr cos) got
      | some f =>
        if rangeOnNonEvent f || (hasCompRange f && cos.any (fun co => !(wf co.2))) then []
        else if got = "err" || impl = "err" then (if got = impl then [] else [("C06", "filter-error")])
        else mustEqual "C06" ("filter-" ++ (match cos with | co :: _ => classify f co.2 | [] => "match")) (pr (cos.filter (fun co => holdsF f co.2))) got
    pure ⟨impl, judge⟩
  | _ => none

/-- `cal.dtend <timing> => ok <int> | err`: go-ical's `Event.DateTimeEnd` against `dateTimeEnd` -/
def opCalDtend (args : List SExp) : Option OpResult := do
  match args with
  | [t] =>
    let t ← cvTiming t
    let impl := match dateTimeStart t, dateTimeEnd t with
      | .ok s, .ok e => s!"ok {s} {e}"
      | _, _ => "err"
    pure ⟨impl, fun _ => []⟩
  | _ => none

end Driver
