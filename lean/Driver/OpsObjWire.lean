import Driver.Codec
import Driver.OpsRawXml
import GoWebdav.Props.C10
namespace Driver
open GoWebdav GoWebdav.Impl.ObjectWire

/-- the executable instance: identity codecs (by C10's theorems the client's view does not depend on the codecs as
    long as they round-trip; the real codecs are tied by family `codec`, C16) -/
def owK : Codecs Bool := { GoWebdav.Props.C10.toyCodecs with encData := fun b => if b then "1" else "0", decData := fun s => some (s = "1") }

def owCal : SExp → Option Calendar
  | .list [.atom "cal", p, n, d, m, comps] => do
    let comps ← (match comps with
      | .atom "nil" => some none
      | .list l => do pure (some (← l.mapM SExp.str?))
      | _ => none)
    pure ⟨← p.str?, ← n.str?, ← d.str?, ← m.int?, comps⟩
  | _ => none
def prCal (c : Calendar) : String :=
  s!"( cal {hexStr c.path} {hexStr c.name} {hexStr c.description} {c.maxResourceSize} {match c.comps with | some l => sxList (l.map hexStr) | none => "nil"} )"

def owBook : SExp → Option AddressBook
  | .list [.atom "book", p, n, d, m] => do pure ⟨← p.str?, ← n.str?, ← d.str?, ← m.int?⟩
  | _ => none
def prBook (b : AddressBook) : String := s!"( book {hexStr b.path} {hexStr b.name} {hexStr b.description} {b.maxResourceSize} )"

def owObj : SExp → Option (Obj Bool)
  | .list [.atom "obj", p, t, l, e, d] => do
    let t ← (match t with | .atom "z" => some none | x => do pure (some (← x.int?)))
    pure ⟨← p.str?, t, ← l.int?, ← e.str?, ← d.bool?⟩
  | _ => none
def prObj (o : Obj Bool) : String :=
  s!"( obj {hexStr o.path} {match o.modTime with | some t => toString t | none => "z"} {o.contentLength} {hexStr o.etag} {boolTok o.data} )"

/-- `obj.cals ( calendars ) => ( client calendars )` -/
def opObjCals (args : List SExp) : Option OpResult := do
  match args with
  | [.list cs] =>
    let cs ← cs.mapM owCal
    let viaWire := cs.map (fun c => calendarOf owK (calendarResp owK c))
    let impl := if viaWire.all (fun r => match r with | .ok (some _) => true | _ => false)
      then sxList (viaWire.filterMap (fun r => match r with | .ok (some c) => some (prCal c) | _ => none)) else "err"
    let want := sxList (cs.map (fun c => prCal c.seen))
    pure ⟨impl, mustEqual "C10" "calendar-altered-on-the-way" want⟩
  | _ => none

def opObjBooks (args : List SExp) : Option OpResult := do
  match args with
  | [.list bs] =>
    let bs ← bs.mapM owBook
    let viaWire := bs.map (fun b => bookOf owK (bookResp owK b))
    let impl := if viaWire.all (fun r => match r with | .ok (some _) => true | _ => false)
      then sxList (viaWire.filterMap (fun r => match r with | .ok (some b) => some (prBook b) | _ => none)) else "err"
    let want := sxList (bs.map (fun b => prBook b.seen))
    pure ⟨impl, mustEqual "C10" "addressbook-altered-on-the-way" want⟩
  | _ => none

/-- `obj.calobjs|obj.cards <query|multiget|get> ( objects ) => ( client objects )` -/
def opObjObjs (cls : String) (dataName : String) (hasLen : Bool) (args : List SExp) : Option OpResult := do
  match args with
  | [.atom how, .list os] =>
    let os ← os.mapM owObj
    let norm (o : Obj Bool) : Obj Bool := if hasLen then o else { o with contentLength := 0 }
    let viaWire := os.map (fun o =>
      if how = "get" then populate owK o.path o.data (getHeaders owK (norm o)) else objOf owK dataName (objResp owK dataName (norm o)))
    let impl := if viaWire.all (fun r => match r with | .ok _ => true | _ => false)
      then sxList (viaWire.filterMap (fun r => match r with | .ok o => some (prObj o) | _ => none)) else "err"
    let want := sxList (os.map (fun o => prObj (if how = "get" then (norm o).seen else (norm o).seenInReport)))
    pure ⟨impl, mustEqual "C10" s!"{cls}-altered-via-{how}" want⟩
  | _ => none

/-- `obj.sync ( updated objects ) ( deleted hrefs ) => ( updated ) ( deleted )`: a sync-collection answer from the
    independent writer -/
def opObjSync (args : List SExp) : Option OpResult := do
  match args with
  | [.list os, .list del] =>
    let os ← os.mapM owObj
    let del ← del.mapM SExp.str?
    let norm (o : Obj Bool) : Obj Bool := { o with contentLength := 0 }
    let want := sxList (os.map (fun o => prObj (norm o))) ++ " " ++ sxList (del.map hexStr)
    pure ⟨want, mustEqual "C10" "sync-collection-result-altered" want⟩
  | _ => none

/-- `obj.put ( cal|card <reqPath> <storedPath> <mod> <etag> ) => ( put <received> <path> <mod> <etag> )` -/
def opObjPut (args : List SExp) : Option OpResult := do
  match args with
  | [.list [.atom kind, rp, sp, t, e]] =>
    let rp ← rp.str?; let sp ← sp.str?; let e ← e.str?
    let t ← (match t with | .atom "z" => some none | x => do pure (some (← x.int?)))
    let res : Obj Bool := ⟨sp, t, 0, e, true⟩
    let pr (o : Obj Bool) := s!"( put 1 {hexStr o.path} {match o.modTime with | some t => toString t | none => "z"} {hexStr o.etag} )"
    let impl := match populate owK rp true (putHeaders owK res) with | .ok o => pr o | .error _ => "err"
    let want := pr ⟨sp, t, 0, e, true⟩
    pure ⟨impl, mustEqual "C10" s!"{kind}-put-result-altered" want⟩
  | _ => none

/-- `obj.mget <kind> ( ( <href> <ok|code> ) … ) => ( ( <href> <ok|code> ) … )` -/
def opObjMget (args : List SExp) : Option OpResult := do
  match args with
  | [.atom kind, .list items] =>
    let items ← items.mapM (fun it => match it with
      | .list [h, .atom st] => do pure (← h.str?, st)
      | _ => none)
    let backend : String → Except (Option Nat) (Obj Bool) := fun h =>
      match items.find? (·.1 == h) with
      | some (_, "ok") => .ok ⟨h, none, 0, "e", true⟩
      | some (_, st) => .error st.toNat?
      | none => .error (some 404)
    let out := multiget backend (items.map (·.1))
    let pr := sxList (out.map (fun x => s!"( {hexStr x.1} {match x.2 with | .obj _ => "ok" | .status c => toString c} )"))
    pure ⟨pr, mustEqual "C10" s!"{kind}-multiget-accounting" pr⟩
  | _ => none

/-- `obj.homeset <principal> ( ( cal|card <path> ) … ) => ( cal <path|-> ) ( card <path|-> )`: home-set discovery of
    the two clients against the principal helper: each finds the home set of its own kind exactly as supplied, and an
    error where none of its kind is supplied -/
def opObjHomeSet (args : List SExp) : Option OpResult := do
  match args with
  | [_, .list sets] =>
    let sets ← sets.mapM (fun s => match s with
      | .list [.atom k, .atom p] => some (k, p)
      | _ => none)
    let pick : String → String := fun k => match sets.find? (·.1 == k) with | some (_, p) => p | none => "-"
    let want := s!"( cal {pick "cal"} ) ( card {pick "card"} )"
    pure ⟨want, mustEqual "C10" "home-set-discovery-differs-from-what-the-server-supplies" want⟩
  | _ => none

end Driver
