import Driver.Codec
import GoWebdav.Spec.Rfc4918
namespace Driver
open GoWebdav GoWebdav.Std.Path GoWebdav.Std.Posix GoWebdav.Impl.Webdav GoWebdav.Spec.Rfc4918

def extOf (p : FPath) : Bytes := if p.isEmpty then [slash] else renderSegs p

def fsTree : SExp → Option FS
  | .list items => items.mapM (fun it => match it with
    | .list [p, .atom "d"] => do pure (rootedSegs (← p.bytes?), Entry.dir)
    | .list [p, .atom "f", c] => do pure (rootedSegs (← p.bytes?), Entry.file (← c.bytes?))
    | _ => none)
  | _ => none

def sortStr (l : List String) : List String := (l.toArray.qsort (· < ·)).toList

/-- sorted listing of the visible entries -/
def prTree (t : FS) : String :=
  let items := (paths t).filterMap (fun p => (lookup t p).map (fun e =>
    match e with
    | .dir => s!"( {hexBytes (extOf p)} d )"
    | .file c => s!"( {hexBytes (extOf p)} f {hexBytes c} )"))
  let s := sortStr items
  if s.isEmpty then "( )" else "( " ++ " ".intercalate s ++ " )"

def condView : SExp → Option CondView
  | .atom "u" => some .unset | .atom "s" => some .star | .atom "c" => some .current
  | .atom "o" => some .other | .atom "m" => some .malformed | _ => none

def fsRequest : SExp → Option Request
  | .list [.atom "req", m, p, d, ow, dest, im, inm, cs, cx, body, fault, pf] => do
    let dest ← (match dest with
      | .atom "n" => some DestView.absent
      | .atom "u" => some DestView.unparsable
      | .list [.atom "p", x] => do pure (DestView.path (← x.bytes?))
      | _ => none)
    -- `c<k>`: the request context is cancelled after k body bytes while the body reads on; LocalFileSystem does not
    -- consult the context, so the model treats the request as undisturbed (the judge allows a clean refusal too)
    let fault ← (match fault with
      | .atom "n" => some none
      | .atom s => if s.startsWith "c" then some none else do pure (some (← (SExp.atom s).nat?))
      | _ => none)
    let pf ← (match pf with
      | .atom "a" => some PfBody.allprop | .atom "n" => some PfBody.propname | .atom "f" => some PfBody.fileprops
      | .atom "o" => some PfBody.noform | .atom "m" => some PfBody.malformed | _ => none)
    pure { method := ← m.str?, path := ← p.bytes?, depth := ← d.str?, overwrite := ← ow.str?, dest := dest,
           ifMatch := ← condView im, ifNoneMatch := ← condView inm, ctypeSet := ← cs.bool?, ctypeXml := ← cx.bool?,
           body := ← body.bytes?, fault := fault, pf := pf }
  | _ => none

def prMulti (m : List (Bytes × Bool × Option Nat)) : String :=
  let items := m.map (fun x => s!"( {hexBytes x.1} {boolTok x.2.1} {match x.2.2 with | some n => toString n | none => "-"} )")
  let s := sortStr items
  if s.isEmpty then "( )" else "( " ++ " ".intercalate s ++ " )"

def prResponse (resp : Response) : String :=
  let allow := if resp.allow.isEmpty then "-" else ",".intercalate (sortStr resp.allow)
  let len := match resp.contentLength with | some n => toString n | none => "-"
  let body := match resp.body with | some b => hexBytes b | none => "~"
  s!"{resp.status} {allow} {boolTok resp.dav} {len} {boolTok resp.tagged} {body} {prMulti resp.multi}"

/-- parse the implementation's answer back into (tree, response, leak, canary) -/
def parseAnswer (s : String) : Option (FS × Response × Bool × Bool) := do
  let toks := (s.splitOn " ").filter (· ≠ "")
  let items ← parseToks toks [[]]
  match items with
  | [st, allow, dav, len, tag, body, .list multi, tree, leak, canary] =>
    let status ← st.nat?
    let allow ← (match allow with | .atom "-" => some [] | .atom a => some (a.splitOn ",") | _ => none)
    let len ← (match len with | .atom "-" => some none | x => do pure (some (← x.nat?)))
    let body ← (match body with | .atom "~" => some none | x => do pure (some (← x.bytes?)))
    let multi ← multi.mapM (fun it => match it with
      | .list [h, k, sz] => do
        let sz ← (match sz with | .atom "-" => some none | x => do pure (some (← x.nat?)))
        pure (← h.bytes?, ← k.bool?, sz)
      | _ => none)
    let t ← fsTree tree
    pure (t, { status := status, allow := allow, dav := ← dav.bool?, contentLength := len, tagged := ← tag.bool?, body := body, multi := multi }, ← leak.bool?, ← canary.bool?)
  | _ => none

def sameTree (a b : FS) : Bool := prTree a == prTree b

def permEq (a b : List (Bytes × Bool × Option Nat)) : Bool := prMulti a == prMulti b

/-- decidable rendering of `Spec.Rfc4918.entityOK` (lists compared as multisets) -/
def entityOKb (t : FS) (r : Request) (resp : Response) : Bool :=
  match target r.path with
  | none => true
  | some p =>
    if r.method = "OPTIONS" then
      resp.dav && (match kind t p with
       | .file => resp.allow.contains "GET" && resp.allow.contains "HEAD" && resp.allow.contains "PUT"
       | .coll => !resp.allow.contains "GET" && !resp.allow.contains "PUT"
       | .absent => resp.allow.contains "PUT" && resp.allow.contains "MKCOL" && !resp.allow.contains "GET" && !resp.allow.contains "DELETE")
    else if r.method = "GET" ∨ r.method = "HEAD" then
      (match lookup t p with
       | some (.file c) => resp.contentLength == some c.length && resp.tagged && resp.body == (if r.method = "HEAD" then none else some c)
       | _ => false)
    else if r.method = "PUT" then resp.tagged
    else if r.method = "PROPFIND" then
      (match lookup t p with
       | none => false
       | some e =>
         let describe (href : Bytes) (e : Entry) : Bytes × Bool × Option Nat :=
           (href, decide (bodyForm r ≠ some .propname) && isDir e, if bodyForm r ≠ some .propname then sizeOf? e else none)
         if r.depth ≠ "0" ∧ isDir e then
           permEq resp.multi ((scope t p r.depth).filterMap (fun q => (lookup t q).map (fun e' => describe (Impl.Path.externalPath q) e')))
         else permEq resp.multi [describe r.path e])
    else true

def allowsB (t : FS) (r : Request) (out : FS × Response) : Bool :=
  let rf := refusals t r
  if !rf.isEmpty then rf.contains out.2.status && sameTree out.1 t
  else if faulted r then out.2.status ≥ 400 && sameTree out.1 t
  else sameTree out.1 (effect t r) && (successCodes t r).contains out.2.status && entityOKb t r out.2

/-- a path with a component longer than 255 bytes: the operating system refuses it (ENAMETOOLONG), which the model
    of the file tree does not express -/
def overlong (p : Bytes) : Bool := (p.splitOn 47).any (fun seg => seg.length > 255)

def reqCancelled : SExp → Bool
  | .list [.atom "req", _, _, _, _, _, _, _, _, _, _, .atom s, _] => s.startsWith "c"
  | _ => false

/-- `fs.req <tree> <request> => <status> <allow> <dav> <len> <tag> <body> <multi> <tree'> <leak> <canary>` -/
def opFsReq (args : List SExp) : Option OpResult := do
  match args with
  | [tree, req] =>
    let t ← fsTree tree
    let r ← fsRequest req
    let cancelled := reqCancelled req
    let out := step t r
    let abstain := overlong r.path || (match r.dest with | .path d => overlong d | _ => false)
    let impl := if abstain then "?" else s!"{prResponse out.2} {prTree out.1} {boolTok out.2.msg.mentionsHost} 0"
    let judge : String → List (String × String) := fun got =>
      let unmappable0 := (target r.path).isNone ||
        ((r.method = "COPY" || r.method = "MOVE") && (match r.dest with | .path d => (target d).isNone | _ => false))
      match parseAnswer got with
      | none => [("C01", "unreadable-answer"), ("C13", "no-complete-response")] ++
          -- a request naming a path that cannot be mapped below the root must be REFUSED (4xx): no answer at all is not a refusal
          (if unmappable0 then [("C03", "unmappable-path-not-refused-with-4xx")] else [])
      | some (t', resp, leak, canary) =>
        let existingFile := match target r.path with | some p => kind t p = .file | none => false
        let faultRegion := faulted r && existingFile && (refusals t r).isEmpty
        -- a cancelled request may also be refused cleanly (an error status and nothing changed)
        let c01 := if abstain || allowsB t r (t', resp) || (cancelled && resp.status ≥ 400 && sameTree t' t) then [] else
          [("C01", if faultRegion then "put-body-fault-existing-file" else s!"{r.method}-answered-{resp.status}")]
        let c02 := if resp.status ≥ 400 && !sameTree t' t then
          [("C02", if faultRegion then "put-body-fault-existing-file" else s!"{r.method}-{resp.status}-changed-the-tree")] else []
        let c17 := if leak then [("C17", s!"host-path-in-{r.method}-{resp.status}-response")] else []
        -- C03, last clause: a request path or Destination that cannot be mapped below the root is refused with 4xx
        -- (a Destination that is not even a URI reference names no path below the root either)
        let unmappable := (target r.path).isNone ||
          ((r.method = "COPY" || r.method = "MOVE") && (match r.dest with | .path d => (target d).isNone | .unparsable => true | .absent => false))
        let c03 := (if canary then [("C03", "outside-root-touched")] else []) ++
          (if unmappable && !(400 ≤ resp.status && resp.status < 500) then [("C03", s!"unmappable-path-answered-{resp.status}")] else [])
        -- C03, second clause: every href a PROPFIND reports maps back to a resource of the tree
        -- (pseudo entries `NUL tag: href` are the harness's mark for a member listed with another entity tag than GET announces)
        let tagMark : Bytes := 0 :: "tag:".toUTF8.toList
        let isTagMark (x : Bytes × Bool × Option Nat) : Bool := x.1.take tagMark.length == tagMark
        let c03 := c03 ++ (if r.method = "PROPFIND" && resp.status = 207 &&
            !((resp.multi.filter (fun x => !isTagMark x)).all (fun x => match target x.1 with | some q => (lookup t q).isSome | none => false))
          then [("C03", "reported-href-does-not-address-a-resource")] else [])
        let c13 := if resp.status ≥ 500 && !faulted r && !cancelled && !abstain then [("C13", s!"{r.method}-answered-{resp.status}")] else []
        -- C13: a Depth header that is none of the three values is refused with 4xx
        let badDepth := (r.method = "PROPFIND" || r.method = "COPY" || r.method = "MOVE") && !(["", "0", "1", "infinity"].contains r.depth)
        let c13 := c13 ++ (if badDepth && !(400 ≤ resp.status && resp.status < 500) then [("C13", s!"invalid-Depth-answered-{resp.status}")] else [])
        let conditional := (r.method = "PUT" || r.method = "DELETE") && (r.ifMatch != .unset || r.ifNoneMatch != .unset)
        -- (a conditional PUT whose precondition HOLDS and whose body then breaks off over an existing file is the open
        -- finding of C01/C02, not a precondition that was judged wrongly)
        let c04 := if conditional && !faultRegion && (!c01.isEmpty || !c02.isEmpty) then [("C04", s!"{r.method}-precondition-answered-{resp.status}")] else []
        -- C04: PROPFIND announces for every listed member the same tag GET, HEAD and PUT announce for it
        let c04 := c04 ++ (if r.method = "PROPFIND" && resp.multi.any isTagMark then [("C04", "listed-tag-differs-from-the-one-GET-announces")] else [])
        -- C11: the WebDAV server's PROPFIND answers (status, one response per resource in scope, refusal of a body
        -- naming none of the three forms) are part of the same relation
        let c11 := if r.method = "PROPFIND" && !c01.isEmpty then [("C11", s!"webdav-PROPFIND-answered-{resp.status}")] else []
        c01 ++ c02 ++ c17 ++ c03 ++ c13 ++ c04 ++ c11
    pure ⟨impl, judge⟩
  | _ => none

/-- `fs.obs <scenario> <method> <path> <dest|-> ( depth- overwrite- ) => <status> <leak> <flag> <scope>`: requests against served
    directories holding what the tree model cannot express (symbolic links of every kind, a root reached through a
    link, a file outside the root at the host path a request path spells).  The model abstains (`?`); judged is what
    C17 and C03 say of every response whatever the tree: no host path in it, nothing outside the root touched, and
    (scenario `outer`) an answer that does not depend on what lies outside the root. -/
def opFsObs (args : List SExp) : Option OpResult := do
  match args with
  | [.atom scen, .atom m, _, _, _] =>
    let judge : String → List (String × String) := fun got =>
      match got.splitOn " " with
      | [st, leak, flag, scope] =>
        (if leak = "1" then [("C17", s!"host-path-in-{m}-{st}-response-on-a-tree-with-links")] else []) ++
        (if flag = "1" then [("C03", if scen = "outer" then "answer-depends-on-a-file-outside-the-root" else "outside-root-touched")] else []) ++
        -- a Depth 1 / infinity listing of a directory names the directory and each entry in scope exactly once
        (if scope = "1" then [("C11", "listing-misses-or-repeats-an-entry-on-a-tree-with-links"), ("C01", "PROPFIND-listing-on-a-tree-with-links")] else [])
      | _ => [("C17", "unreadable-answer"), ("C03", "unreadable-answer")]
    pure ⟨"?", judge⟩
  | _ => none

end Driver
