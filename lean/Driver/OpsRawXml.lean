import Driver.Codec
import GoWebdav.Impl.RawXml
namespace Driver
open GoWebdav.Impl.RawXml

partial def rxTree : SExp → Option Raw
  | .list [.atom "e", sp, loc, .list attrs, .list children] => do
    let attrs ← attrs.mapM (fun a => match a with
      | .list [s, l, v] => do pure (← s.str?, ← l.str?, ← v.str?)
      | _ => none)
    pure (.elem ⟨← sp.str?, ← loc.str?, attrs⟩ (← children.mapM rxTree))
  | .list [.atom "l", k, d] => do pure (.leaf ⟨← k.nat?, ← d.str?⟩)
  | _ => none

def sxList (items : List String) : String := if items.isEmpty then "( )" else "( " ++ " ".intercalate items ++ " )"

partial def prRaw : Raw → String
  | .elem t cs =>
    let attrs := t.attrs.map (fun a => s!"( {hexStr a.1} {hexStr a.2.1} {hexStr a.2.2} )")
    s!"( e {hexStr t.space} {hexStr t.loc} {sxList attrs} {sxList (cs.map prRaw)} )"
  | .leaf l => s!"( l {l.kind} {hexStr l.data} )"

/-- `raw.rt <tree> => <tree after MarshalXML> <tree from TokenReader> <balanced>` -/
def opRawRt (args : List SExp) : Option OpResult := do
  match args with
  | [tree] =>
    let v ← rxTree tree
    let toks := flatten v
    let viaMarshal := match parseElem toks with | some (r, []) => prRaw r | _ => "broken"
    let drained := drain (toks.length + 1) (fresh v)
    let viaReader := match parseElem drained with | some (r, []) => prRaw r | _ => "broken"
    let impl := s!"{viaMarshal} {viaReader} {boolTok (balanced [] drained)}"
    let want := s!"{prRaw v} {prRaw v} 1"
    pure ⟨impl, mustEqual "C15" "raw-value-tree" want⟩
  | _ => none

/-- `raw.typed <type> <doc> => same | differ | …` (typed decode via a raw value vs directly) -/
def opRawTyped (_args : List SExp) : Option OpResult :=
  some ⟨"same", mustEqual "C15" "typed-decode-differs" "same"⟩

end Driver
