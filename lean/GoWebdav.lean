-- Root of the library: every property module (and through them the models, specs and lemmas).
import GoWebdav.Props.C01
import GoWebdav.Props.C02
import GoWebdav.Props.C03
import GoWebdav.Props.C04
import GoWebdav.Props.C06
import GoWebdav.Props.C07
import GoWebdav.Props.C12
import GoWebdav.Props.C15
import GoWebdav.Props.C16
import GoWebdav.Props.C17
import GoWebdav.Props.C18
import GoWebdav.Props.C19
import GoWebdav.Generated.Tables
import GoWebdav.Generated.Schema
import GoWebdav.Generated.Facts
import GoWebdav.Expected.Tables
import GoWebdav.Expected.Concurrency
