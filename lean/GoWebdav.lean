-- This module serves as the root of the `GoWebdav` library.
-- Import modules here that should be built as part of the library.
import GoWebdav.Basic
