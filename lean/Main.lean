import Driver.Ops

partial def loop (h : IO.FS.Stream) (out : IO.FS.Stream) : IO Unit := do
  let line ← h.getLine
  if line.isEmpty then return ()
  let l := (line.dropEndWhile (fun c => c == '\n' || c == '\r')).toString
  out.putStrLn (Driver.process l)
  loop h out

def main : IO Unit := do
  let out ← IO.getStdout
  loop (← IO.getStdin) out
  out.flush
