package main

import (
	"bytes"
	"context"
	"fmt"
	"net/http"
	"net/http/httptest"
	"net/url"
	"os"
	"strings"
	"time"

	"github.com/emersion/go-ical"
	"github.com/emersion/go-vcard"
	webdav "github.com/emersion/go-webdav"
	"github.com/emersion/go-webdav/caldav"
	"github.com/emersion/go-webdav/carddav"
	"github.com/emersion/go-webdav/internal"
)

// C10: calendars, address books and their objects reach the client unchanged

func errStr(err error) string {
	if os.Getenv("VERIF_DEBUG") != "" {
		return "err " + strings.Replace(err.Error(), "\n", " ", -1)
	}
	return "err"
}

// an HTTPClient that serves requests in-process from a handler
type handlerClient struct {
	h        http.Handler
	lastBody []byte
	lastCT   string
}

func (c *handlerClient) Do(req *http.Request) (*http.Response, error) {
	rec := httptest.NewRecorder()
	if req.Body == nil {
		req.Body = http.NoBody
	}
	c.h.ServeHTTP(rec, req)
	// what every RoundTripper owes its caller: the request body is closed once the exchange is over (a writer still
	// feeding a pipe learns that nobody reads any more)
	req.Body.Close()
	res := rec.Result()
	res.Request = req
	c.lastBody = rec.Body.Bytes()
	c.lastCT = res.Header.Get("Content-Type")
	return res, nil
}

var owTexts = []string{"", "plain", "with space", "a,b;c", "line1\nline2", "back\\slash", "é ü 日本", "<&>\"'", "  lead", "trail  ", "tab\there", "q\"uote", strings.Repeat("long ", 40), "percent%41", "semi;colon:colon"}
var owNames = []string{"x", "a b", "é", "q#1", "w?x", "p%41", "s;t", "plus+", "a&b", "quote'\"", "x<y>", "dot.", "~t", "日本"}

func owTime(r *RNG) time.Time {
	if r.Chance(15) {
		return time.Time{}
	}
	if r.Chance(20) {
		// boundary instants: the Unix epoch, just around it, times before it, far future
		return time.Unix(int64(r.Pick2(0, 1, -1, -14182940, -2177452800, 253402300799, 4102444800)), 0).In(calZones[r.Intn(len(calZones))])
	}
	t := time.Unix(int64(r.Range(0, 2000000000)), int64(r.Pick2(0, 0, 500000000))).In(calZones[r.Intn(len(calZones))])
	return t
}

var owETagPool = []string{"", "e1", "W/weak", "with \"quote\"", "sp ace", "é", "back\\slash", "a,b", "\t", "'single'", "`back`", "ctl\x01", "\x7f",
	// tags that already look like a quoted string, or like half of one
	"\"abc\"", "\"\"", "\"W/\"x\"\"", "\"tag\\\"", "\"", "W/\"w\"", "révision-1", "版-1", "\u00a0", "\u2028"}

func owETag(r *RNG) string { return r.Pick(owETagPool) }

func encodeIcal(cal *ical.Calendar) string {
	if cal == nil {
		return "nil"
	}
	var buf bytes.Buffer
	if err := ical.NewEncoder(&buf).Encode(cal); err != nil {
		return "unencodable: " + err.Error()
	}
	return buf.String()
}

func encodeVcard(c vcard.Card) string {
	if c == nil {
		return "nil"
	}
	var buf bytes.Buffer
	if err := vcard.NewEncoder(&buf).Encode(c); err != nil {
		return "unencodable: " + err.Error()
	}
	return buf.String()
}

func randIcal(r *RNG) *ical.Calendar {
	cal := ical.NewCalendar()
	cal.Props.SetText(ical.PropVersion, "2.0")
	cal.Props.SetText(ical.PropProductID, "-//verif//"+r.Pick(owTexts[1:6]))
	for k := r.Range(1, 2); k > 0; k-- {
		ev := ical.NewEvent()
		ev.Props.SetText(ical.PropUID, "uid-"+r.Pick(owNames))
		ev.Props.SetDateTime(ical.PropDateTimeStamp, time.Unix(1710032400, 0).UTC())
		ev.Props.SetDateTime(ical.PropDateTimeStart, time.Unix(int64(1710032400+r.Range(0, 100000)), 0).UTC())
		ev.Props.SetText(ical.PropSummary, r.Pick(owTexts))
		if r.Bool() {
			ev.Props.SetText(ical.PropDescription, r.Pick(owTexts))
		}
		if r.Bool() {
			p := ical.NewProp(ical.PropCategories)
			p.SetTextList([]string{r.Pick(owTexts[1:]), r.Pick(owTexts[1:])})
			ev.Props.Set(p)
		}
		if r.Bool() {
			p := ical.NewProp(ical.PropAttendee)
			p.Value = "mailto:" + r.Pick([]string{"a@example.com", "ü@example.com"})
			// parameter values cannot hold line breaks or double quotes in iCalendar (RFC 5545 3.2)
			p.Params.Set(ical.ParamCommonName, r.Pick([]string{"plain", "with space", "a,b;c", "back\\slash", "é ü 日本", "<&>'", "semi;colon:colon"}))
			p.Params.Set(ical.ParamParticipationStatus, "NEEDS-ACTION")
			ev.Props.Add(p)
		}
		cal.Children = append(cal.Children, ev.Component)
	}
	return cal
}

func randVcard(r *RNG) vcard.Card {
	c := make(vcard.Card)
	c.SetValue(vcard.FieldVersion, r.Pick([]string{"3.0", "4.0"}))
	c.SetValue(vcard.FieldFormattedName, r.Pick(owTexts[1:]))
	c.SetValue(vcard.FieldUID, "uid-"+r.Pick(owNames))
	if r.Bool() {
		c.AddName(&vcard.Name{FamilyName: r.Pick(owTexts), GivenName: r.Pick(owTexts), AdditionalName: r.Pick(owTexts)})
	}
	for k := r.Range(0, 2); k > 0; k-- {
		c.Add(vcard.FieldEmail, &vcard.Field{Value: r.Pick([]string{"a@example.com", "ü@example.com", "x y@z"}), Params: vcard.Params{vcard.ParamType: {r.Pick([]string{"home", "work"}), "pref"}}})
	}
	if r.Bool() {
		c.SetValue(vcard.FieldNote, r.Pick(owTexts))
	}
	if r.Bool() {
		c.Add(vcard.FieldCategories, &vcard.Field{Value: r.Pick(owTexts[1:]) + "," + r.Pick(owTexts[1:])})
	}
	return c
}

func sxTimeZ(t time.Time) string {
	if t.IsZero() {
		return "z"
	}
	return fmt.Sprint(t.Unix())
}

func sxCalendarVal(c *caldav.Calendar) string {
	comps := "nil"
	if c.SupportedComponentSet != nil {
		var cs []string
		for _, n := range c.SupportedComponentSet {
			cs = append(cs, hx(n))
		}
		comps = sxl(cs)
	}
	return sx("cal", hx(c.Path), hx(c.Name), hx(c.Description), fmt.Sprint(c.MaxResourceSize), comps)
}

func sxBookVal(b *carddav.AddressBook) string {
	return sx("book", hx(b.Path), hx(b.Name), hx(b.Description), fmt.Sprint(b.MaxResourceSize))
}

func sxCalObj(path string, mod time.Time, length int64, etag string, dataeq bool) string {
	return sx("obj", hx(path), sxTimeZ(mod), fmt.Sprint(length), hx(etag), b01(dataeq))
}

func emitObjCals(o *Out, r *RNG) {
	prefix := "/u/cal/"
	var cals []caldav.Calendar
	var in []string
	for k := r.Range(0, 4); k > 0; k-- {
		c := caldav.Calendar{Path: prefix + r.Pick(owNames) + fmt.Sprint(k) + "/", Name: r.Pick(owTexts), Description: r.Pick(owTexts), MaxResourceSize: int64(r.Pick2(0, 0, 1, 4096, 9007199254740993, -5))}
		switch r.Intn(4) {
		case 0:
		case 1:
			c.SupportedComponentSet = []string{}
		default:
			for j := r.Range(1, 3); j > 0; j-- {
				c.SupportedComponentSet = append(c.SupportedComponentSet, r.Pick([]string{"VEVENT", "VTODO", "VJOURNAL", "X-é", "A&B"}))
			}
		}
		cals = append(cals, c)
		in = append(in, sxCalendarVal(&c))
	}
	b := &calBackend{principal: "/u/", homeSet: prefix, calendars: cals}
	hc := &handlerClient{h: &caldav.Handler{Backend: b}}
	res := guard(func() string {
		c, _ := caldav.NewClient(hc, "http://example.com/")
		got, err := c.FindCalendars(context.Background(), prefix)
		if err != nil {
			return errStr(err)
		}
		var out []string
		for i := range got {
			out = append(out, sxCalendarVal(&got[i]))
		}
		return sxl(out)
	})
	o.Emit("obj.cals", sxl(in), res)
}

func emitObjBooks(o *Out, r *RNG) {
	prefix := "/u/ab/"
	var books []carddav.AddressBook
	var in []string
	for k := r.Range(0, 4); k > 0; k-- {
		b := carddav.AddressBook{Path: prefix + r.Pick(owNames) + fmt.Sprint(k) + "/", Name: r.Pick(owTexts), Description: r.Pick(owTexts), MaxResourceSize: int64(r.Pick2(0, 0, 1, 4096, 9007199254740993, -5))}
		books = append(books, b)
		in = append(in, sxBookVal(&b))
	}
	b := &cardBackend{principal: "/u/", homeSet: prefix, books: books}
	hc := &handlerClient{h: &carddav.Handler{Backend: b}}
	res := guard(func() string {
		c, _ := carddav.NewClient(hc, "http://example.com/")
		got, err := c.FindAddressBooks(context.Background(), prefix)
		if err != nil {
			return errStr(err)
		}
		var out []string
		for i := range got {
			out = append(out, sxBookVal(&got[i]))
		}
		return sxl(out)
	})
	o.Emit("obj.books", sxl(in), res)
}

// calendar objects through Query, MultiGet and Get
func emitObjCalObjs(o *Out, r *RNG) {
	col := "/u/cal/a/"
	var objs []caldav.CalendarObject
	var in []string
	canon := map[string]string{}
	for k := r.Range(1, 3); k > 0; k-- {
		co := caldav.CalendarObject{Path: col + r.Pick(owNames) + fmt.Sprint(k) + ".ics", ModTime: owTime(r), ContentLength: int64(r.Pick2(0, 1, 12345, -1)), ETag: owETag(r), Data: randIcal(r)}
		objs = append(objs, co)
		canon[co.Path] = encodeIcal(co.Data)
		in = append(in, sxCalObj(co.Path, co.ModTime, co.ContentLength, co.ETag, true))
	}
	b := &calBackend{principal: "/u/", homeSet: "/u/cal/", calendars: []caldav.Calendar{{Path: col}}, objects: map[string][]caldav.CalendarObject{col: objs}}
	hc := &handlerClient{h: &caldav.Handler{Backend: b}}
	pr := func(got []caldav.CalendarObject, err error) string {
		if err != nil {
			return errStr(err)
		}
		if strings.Contains(hc.lastCT, "xml") {
			if t, perr := treeOfBytes(hc.lastBody); perr != nil || t.space != "DAV:" || t.local != "multistatus" {
				return "raw-body-not-a-multistatus"
			}
		}
		var out []string
		for i := range got {
			out = append(out, sxCalObj(got[i].Path, got[i].ModTime, got[i].ContentLength, got[i].ETag, encodeIcal(got[i].Data) == canon[got[i].Path]))
		}
		return sxl(out)
	}
	c, _ := caldav.NewClient(hc, "http://example.com/")
	o.Emit("obj.calobjs", "query "+sxl(in), guard(func() string {
		return pr(c.QueryCalendar(context.Background(), col, &caldav.CalendarQuery{CompRequest: caldav.CalendarCompRequest{Name: "VCALENDAR", AllProps: true, AllComps: true}, CompFilter: caldav.CompFilter{Name: "VCALENDAR"}}))
	}))
	var paths []string
	for _, co := range objs {
		paths = append(paths, co.Path)
	}
	o.Emit("obj.calobjs", "multiget "+sxl(in), guard(func() string {
		return pr(c.MultiGetCalendar(context.Background(), col, &caldav.CalendarMultiGet{Paths: paths, CompRequest: caldav.CalendarCompRequest{Name: "VCALENDAR", AllProps: true, AllComps: true}}))
	}))
	for i, co := range objs {
		o.Emit("obj.calobjs", "get "+sxl(in[i:i+1]), guard(func() string {
			got, err := c.GetCalendarObject(context.Background(), co.Path)
			if err != nil {
				return errStr(err)
			}
			return pr([]caldav.CalendarObject{*got}, nil)
		}))
		// the same object asked for by a name relative to the endpoint: what comes back is the resource's path
		o.Emit("obj.calobjs", "get "+sxl(in[i:i+1]), guard(func() string {
			got, err := c.GetCalendarObject(context.Background(), strings.TrimPrefix(co.Path, "/"))
			if err != nil {
				return errStr(err)
			}
			return pr([]caldav.CalendarObject{*got}, nil)
		}))
	}
}

func sxCardObj(path string, mod time.Time, etag string, dataeq bool) string {
	return sx("obj", hx(path), sxTimeZ(mod), "0", hx(etag), b01(dataeq))
}

func emitObjCards(o *Out, r *RNG) {
	col := "/u/ab/a/"
	var objs []carddav.AddressObject
	var in []string
	canon := map[string]string{}
	for k := r.Range(1, 3); k > 0; k-- {
		ao := carddav.AddressObject{Path: col + r.Pick(owNames) + fmt.Sprint(k) + ".vcf", ModTime: owTime(r), ETag: owETag(r), Card: randVcard(r)}
		objs = append(objs, ao)
		canon[ao.Path] = encodeVcard(ao.Card)
		in = append(in, sxCardObj(ao.Path, ao.ModTime, ao.ETag, true))
	}
	b := &cardBackend{principal: "/u/", homeSet: "/u/ab/", books: []carddav.AddressBook{{Path: col}}, objects: map[string][]carddav.AddressObject{col: objs}}
	hc := &handlerClient{h: &carddav.Handler{Backend: b}}
	pr := func(got []carddav.AddressObject, err error) string {
		if err != nil {
			return errStr(err)
		}
		if strings.Contains(hc.lastCT, "xml") {
			if t, perr := treeOfBytes(hc.lastBody); perr != nil || t.space != "DAV:" || t.local != "multistatus" {
				return "raw-body-not-a-multistatus"
			}
		}
		var out []string
		for i := range got {
			out = append(out, sxCardObj(got[i].Path, got[i].ModTime, got[i].ETag, encodeVcard(got[i].Card) == canon[got[i].Path]))
		}
		return sxl(out)
	}
	c, _ := carddav.NewClient(hc, "http://example.com/")
	o.Emit("obj.cards", "query "+sxl(in), guard(func() string {
		q := &carddav.AddressBookQuery{PropFilters: []carddav.PropFilter{{Name: vcard.FieldFormattedName}}}
		q.DataRequest.AllProp = true
		return pr(c.QueryAddressBook(context.Background(), col, q))
	}))
	var paths []string
	for _, ao := range objs {
		paths = append(paths, ao.Path)
	}
	o.Emit("obj.cards", "multiget "+sxl(in), guard(func() string {
		mg := &carddav.AddressBookMultiGet{Paths: paths}
		mg.DataRequest.AllProp = true
		return pr(c.MultiGetAddressBook(context.Background(), col, mg))
	}))
	for i, ao := range objs {
		o.Emit("obj.cards", "get "+sxl(in[i:i+1]), guard(func() string {
			got, err := c.GetAddressObject(context.Background(), ao.Path)
			if err != nil {
				return errStr(err)
			}
			return pr([]carddav.AddressObject{*got}, nil)
		}))
		o.Emit("obj.cards", "get "+sxl(in[i:i+1]), guard(func() string {
			got, err := c.GetAddressObject(context.Background(), strings.TrimPrefix(ao.Path, "/"))
			if err != nil {
				return errStr(err)
			}
			return pr([]carddav.AddressObject{*got}, nil)
		}))
	}
}

// PUT: what the backend receives and what the client gets back
func emitObjPut(o *Out, r *RNG) {
	reqPath := "/u/cal/a/" + r.Pick(owNames) + ".ics"
	resPath := reqPath
	if r.Chance(60) {
		resPath = "/u/cal/a/" + r.Pick(owNames) + "-stored.ics"
	}
	// a path argument relative to the client's endpoint: the backend's absolute path must come back all the same
	endpoint, arg := "http://example.com/", reqPath
	if r.Chance(35) {
		endpoint, arg = "http://example.com/u/", strings.TrimPrefix(reqPath, "/u/")
	}
	argCard := strings.Replace(strings.Replace(arg, "cal/", "ab/", 1), ".ics", ".vcf", 1)
	etag, mod := owETag(r), owTime(r)
	{
		b := &calBackend{principal: "/u/", homeSet: "/u/cal/", putResult: &caldav.CalendarObject{Path: resPath, ETag: etag, ModTime: mod}}
		hc := &handlerClient{h: &caldav.Handler{Backend: b}}
		cal := randIcal(r)
		res := guard(func() string {
			c, _ := caldav.NewClient(hc, endpoint)
			got, err := c.PutCalendarObject(context.Background(), arg, cal)
			if err != nil {
				return errStr(err)
			}
			recv := b.lastPut != nil && encodeIcal(b.lastPut) == encodeIcal(cal)
			return sx("put", b01(recv), hx(got.Path), sxTimeZ(got.ModTime), hx(got.ETag))
		})
		o.Emit("obj.put", sx("cal", hx(arg), hx(resPath), sxTimeZ(mod), hx(etag)), res)
	}
	{
		sp := strings.Replace(strings.Replace(resPath, "/cal/", "/ab/", 1), ".ics", ".vcf", 1)
		b := &cardBackend{principal: "/u/", homeSet: "/u/ab/", putResult: &carddav.AddressObject{Path: sp, ETag: etag, ModTime: mod}}
		hc := &handlerClient{h: &carddav.Handler{Backend: b}}
		card := randVcard(r)
		res := guard(func() string {
			c, _ := carddav.NewClient(hc, endpoint)
			got, err := c.PutAddressObject(context.Background(), argCard, card)
			if err != nil {
				return errStr(err)
			}
			recv := b.lastPut != nil && encodeVcard(b.lastPut) == encodeVcard(card)
			return sx("put", b01(recv), hx(got.Path), sxTimeZ(got.ModTime), hx(got.ETag))
		})
		o.Emit("obj.put", sx("card", hx(argCard), hx(sp), sxTimeZ(mod), hx(etag)), res)
	}
}

// multiget: every requested href exactly once, in order, with the object or the backend's own status
func emitObjMget(o *Out, r *RNG, card bool) {
	col, ext := "/u/cal/a/", ".ics"
	if card {
		col, ext = "/u/ab/a/", ".vcf"
	}
	var hrefs, in []string
	getErr := map[string]error{}
	var cobjs []caldav.CalendarObject
	var aobjs []carddav.AddressObject
	first := map[string]string{}
	for k := r.Range(0, 5); k > 0; k-- {
		p := col + r.Pick(owNames) + r.Pick([]string{"1", "2"}) + ext
		hrefs = append(hrefs, p)
		if lbl, dup := first[p]; dup {
			// a repeated href gets the same outcome as its first occurrence
			in = append(in, sx(hx(p), lbl))
			continue
		}
		switch r.Intn(4) {
		case 0:
			// incl. codes net/http has no reason phrase for
			code := r.Pick2(404, 403, 410, 423, 500, 507, 509, 420, 599)
			getErr[p] = internal.HTTPErrorf(code, "refused")
			if r.Chance(40) {
				// the backend's storage layer wrapped it: the status is the same
				getErr[p] = fmt.Errorf("storage: %w", getErr[p])
			}
			first[p] = itoa(code)
		case 1:
			getErr[p] = fmt.Errorf("plain backend failure")
			first[p] = "500"
		default:
			cobjs = append(cobjs, caldav.CalendarObject{Path: p, ETag: "e", Data: simpleCal("u", "s")})
			aobjs = append(aobjs, carddav.AddressObject{Path: p, ETag: "e", Card: simpleCard("A")})
			first[p] = "ok"
		}
		in = append(in, sx(hx(p), first[p]))
	}
	root := E(nsCal, "calendar-multiget")
	data := E(nsCal, "calendar-data")
	if card {
		root = E(nsCard, "addressbook-multiget")
		data = E(nsCard, "address-data")
	}
	root.Add(E("DAV:", "prop", E("DAV:", "getetag"), data))
	for _, h := range hrefs {
		root.Add(E("DAV:", "href").T(hrefSpelling(h)))
	}
	doc := randStyle(r).doc(root)
	res := guard(func() string {
		req := httptest.NewRequest("REPORT", "http://example.com"+(&url.URL{Path: col}).String(), strings.NewReader(doc))
		req.Header.Set("Content-Type", "application/xml")
		rec := httptest.NewRecorder()
		clean := getErr
		if card {
			b := &cardBackend{principal: "/u/", homeSet: "/u/ab/", objects: map[string][]carddav.AddressObject{col: aobjs}, getErr: clean}
			(&carddav.Handler{Backend: b}).ServeHTTP(rec, req)
		} else {
			b := &calBackend{principal: "/u/", homeSet: "/u/cal/", objects: map[string][]caldav.CalendarObject{col: cobjs}, getErr: clean}
			(&caldav.Handler{Backend: b}).ServeHTTP(rec, req)
		}
		if rec.Code != 207 {
			return itoa(rec.Code)
		}
		t, err := treeOfBytes(rec.Body.Bytes())
		if err != nil || t.space != "DAV:" || t.local != "multistatus" {
			return "207 not-a-multistatus"
		}
		var out []string
		for _, c := range t.children {
			if !c.elem {
				continue
			}
			pr := parseResponseNode(c)
			if len(pr.hrefs) != 1 {
				return "207 response-without-single-href"
			}
			u, err := url.Parse(pr.hrefs[0])
			if err != nil {
				return "207 bad-href"
			}
			st := "ok"
			if pr.status != 0 && pr.status/100 != 2 {
				st = itoa(pr.status)
			} else if !pr.has200(data.ns, data.local) {
				st = "no-data"
			}
			out = append(out, sx(hx(u.Path), st))
		}
		return sxl(out)
	})
	kind := "cal"
	if card {
		kind = "card"
	}
	o.Emit("obj.mget", kind+" "+sxl(in), res)
}

// the client reads conformant multi-status documents from the independent writer: properties split over several
// propstat elements, unknown extra properties under 200 and 404, any prefixes and white space
func splitProps(r *RNG, href string, props []*wEl) *wEl {
	resp := E("DAV:", "response", E("DAV:", "href").T(hrefSpelling(href)))
	var a, b []*wEl
	for _, p := range props {
		if r.Chance(35) {
			b = append(b, p)
		} else {
			a = append(a, p)
		}
	}
	if r.Chance(40) {
		a = append(a, E("urn:x", "extra").T("unknown extension"))
	}
	ok := func(l []*wEl) *wEl {
		return E("DAV:", "propstat", E("DAV:", "prop", l...), E("DAV:", "status").T("HTTP/1.1 200 OK"))
	}
	// RFC 4918 does not order the propstat elements: the failing one may come first, between or last
	stats := []*wEl{ok(a)}
	if len(b) > 0 {
		stats = append(stats, ok(b))
	}
	if r.Chance(60) {
		nf := E("DAV:", "propstat", E("DAV:", "prop", E("DAV:", "quota-used-bytes"), E("urn:x", "nope")), E("DAV:", "status").T("HTTP/1.1 404 Not Found"))
		at := r.Intn(len(stats) + 1)
		stats = append(stats[:at:at], append([]*wEl{nf}, stats[at:]...)...)
	}
	resp.Add(stats...)
	return resp
}

func httpDate(t time.Time) string { return t.UTC().Format("Mon, 02 Jan 2006 15:04:05") + " GMT" }

func emitObjRead(o *Out, r *RNG) {
	ctx := context.Background()
	simpleTag := func() string { return r.Pick([]string{"", "e1", "sp ace", "a,b", "é", "x-1:2"}) }
	// calendars
	{
		var in []string
		root := E("DAV:", "multistatus")
		for k := r.Range(0, 3); k > 0; k-- {
			c := caldav.Calendar{Path: "/u/cal/" + r.Pick(owNames) + fmt.Sprint(k) + "/", Name: r.Pick(owTexts), Description: r.Pick(owTexts), MaxResourceSize: int64(r.Pick2(0, 1, 4096)),
				SupportedComponentSet: []string{r.Pick([]string{"VEVENT", "VTODO"})}}
			in = append(in, sxCalendarVal(&c))
			props := []*wEl{E("DAV:", "resourcetype", E("DAV:", "collection"), E(nsCal, "calendar")),
				E(nsCal, "supported-calendar-component-set", E(nsCal, "comp").A("name", c.SupportedComponentSet[0]))}
			if c.Name != "" || r.Bool() {
				props = append(props, E("DAV:", "displayname").T(c.Name))
			}
			if c.Description != "" || r.Bool() {
				props = append(props, E(nsCal, "calendar-description").T(c.Description))
			}
			if c.MaxResourceSize > 0 {
				props = append(props, E(nsCal, "max-resource-size").T(fmt.Sprint(c.MaxResourceSize)))
			}
			root.Add(splitProps(r, c.Path, props))
		}
		// the home set itself is listed too and must be skipped
		root.Add(splitProps(r, "/u/cal/", []*wEl{E("DAV:", "resourcetype", E("DAV:", "collection"))}))
		sc := &scriptClient{status: 207, ctype: "application/xml; charset=utf-8", body: randStyle(r).doc(root)}
		o.Emit("obj.cals", sxl(in), guard(func() string {
			c, _ := caldav.NewClient(sc, "http://example.com/")
			got, err := c.FindCalendars(ctx, "/u/cal/")
			if err != nil {
				return errStr(err)
			}
			var out []string
			for i := range got {
				out = append(out, sxCalendarVal(&got[i]))
			}
			return sxl(out)
		}))
	}
	// address books
	{
		var in []string
		root := E("DAV:", "multistatus")
		for k := r.Range(0, 3); k > 0; k-- {
			b := carddav.AddressBook{Path: "/u/ab/" + r.Pick(owNames) + fmt.Sprint(k) + "/", Name: r.Pick(owTexts), Description: r.Pick(owTexts), MaxResourceSize: int64(r.Pick2(0, 1, 4096))}
			in = append(in, sxBookVal(&b))
			props := []*wEl{E("DAV:", "resourcetype", E("DAV:", "collection"), E(nsCard, "addressbook"))}
			if b.Name != "" || r.Bool() {
				props = append(props, E("DAV:", "displayname").T(b.Name))
			}
			if b.Description != "" || r.Bool() {
				props = append(props, E(nsCard, "addressbook-description").T(b.Description))
			}
			if b.MaxResourceSize > 0 {
				props = append(props, E(nsCard, "max-resource-size").T(fmt.Sprint(b.MaxResourceSize)))
			}
			root.Add(splitProps(r, b.Path, props))
		}
		sc := &scriptClient{status: 207, ctype: "text/xml", body: randStyle(r).doc(root)}
		o.Emit("obj.books", sxl(in), guard(func() string {
			c, _ := carddav.NewClient(sc, "http://example.com/")
			got, err := c.FindAddressBooks(ctx, "/u/ab/")
			if err != nil {
				return errStr(err)
			}
			var out []string
			for i := range got {
				out = append(out, sxBookVal(&got[i]))
			}
			return sxl(out)
		}))
	}
	// calendar and address objects (multiget documents), and a sync-collection answer
	{
		var inCal, inCard, inSync, deleted []string
		rootCal, rootCard, rootSync := E("DAV:", "multistatus"), E("DAV:", "multistatus"), E("DAV:", "multistatus")
		canonCal, canonCard := map[string]string{}, map[string]string{}
		for k := r.Range(1, 3); k > 0; k-- {
			mod, etag := owTime(r), simpleTag()
			name := r.Pick(owNames) + fmt.Sprint(k)
			common := func() []*wEl {
				var l []*wEl
				if !mod.IsZero() {
					l = append(l, E("DAV:", "getlastmodified").T(httpDate(mod)))
				}
				if etag != "" {
					l = append(l, E("DAV:", "getetag").T("\""+etag+"\""))
				}
				return l
			}
			cal, card := randIcal(r), randVcard(r)
			cp, ap := "/u/cal/a/"+name+".ics", "/u/ab/a/"+name+".vcf"
			canonCal[cp], canonCard[ap] = encodeIcal(cal), encodeVcard(card)
			inCal = append(inCal, sxCalObj(cp, mod, 0, etag, true))
			inCard = append(inCard, sxCardObj(ap, mod, etag, true))
			rootCal.Add(splitProps(r, cp, append(common(), E(nsCal, "calendar-data").T(canonCal[cp]))))
			rootCard.Add(splitProps(r, ap, append(common(), E(nsCard, "address-data").T(canonCard[ap]))))
			if r.Chance(30) {
				rootSync.Add(E("DAV:", "response", E("DAV:", "href").T(hrefSpelling(ap)), E("DAV:", "status").T("HTTP/1.1 404 Not Found")))
				deleted = append(deleted, hx(ap))
			} else {
				inSync = append(inSync, sxCardObj(ap, mod, etag, true))
				rootSync.Add(splitProps(r, ap, common()))
			}
		}
		rootSync.Add(E("DAV:", "sync-token").T("http://example.com/sync/" + r.Pick(owNames)))
		scCal := &scriptClient{status: 207, ctype: "application/xml", body: randStyle(r).doc(rootCal)}
		o.Emit("obj.calobjs", "multiget "+sxl(inCal), guard(func() string {
			c, _ := caldav.NewClient(scCal, "http://example.com/")
			got, err := c.MultiGetCalendar(ctx, "/u/cal/a/", &caldav.CalendarMultiGet{})
			if err != nil {
				return errStr(err)
			}
			var out []string
			for i := range got {
				out = append(out, sxCalObj(got[i].Path, got[i].ModTime, got[i].ContentLength, got[i].ETag, encodeIcal(got[i].Data) == canonCal[got[i].Path]))
			}
			return sxl(out)
		}))
		scCard := &scriptClient{status: 207, ctype: "application/xml", body: randStyle(r).doc(rootCard)}
		o.Emit("obj.cards", "multiget "+sxl(inCard), guard(func() string {
			c, _ := carddav.NewClient(scCard, "http://example.com/")
			got, err := c.MultiGetAddressBook(ctx, "/u/ab/a/", &carddav.AddressBookMultiGet{})
			if err != nil {
				return errStr(err)
			}
			var out []string
			for i := range got {
				out = append(out, sxCardObj(got[i].Path, got[i].ModTime, got[i].ETag, encodeVcard(got[i].Card) == canonCard[got[i].Path]))
			}
			return sxl(out)
		}))
		scSync := &scriptClient{status: 207, ctype: "application/xml", body: randStyle(r).doc(rootSync)}
		o.Emit("obj.sync", sxl(inSync)+" "+sxl(deleted), guard(func() string {
			c, _ := carddav.NewClient(scSync, "http://example.com/")
			got, err := c.SyncCollection(ctx, "/u/ab/a/", &carddav.SyncQuery{})
			if err != nil {
				return errStr(err)
			}
			var out, del []string
			for i := range got.Updated {
				out = append(out, sxCardObj(got.Updated[i].Path, got.Updated[i].ModTime, got.Updated[i].ETag, true))
			}
			for _, d := range got.Deleted {
				del = append(del, hx(d))
			}
			return sxl(out) + " " + sxl(del)
		}))
	}
}

// home-set discovery of both clients against the principal helper serving 0..2 home sets in either order
func emitObjHomeSets(o *Out, r *RNG) {
	principal := "/" + r.Pick(owNames) + "/"
	var opts []webdav.BackendSuppliedHomeSet
	var in []string
	kinds := []string{"cal", "card"}
	if r.Bool() {
		kinds[0], kinds[1] = kinds[1], kinds[0]
	}
	for _, k := range kinds {
		if !r.Chance(80) {
			continue
		}
		p := principal + r.Pick(owNames) + "-" + k + "/"
		if k == "cal" {
			opts = append(opts, caldav.NewCalendarHomeSet(p))
		} else {
			opts = append(opts, carddav.NewAddressBookHomeSet(p))
		}
		in = append(in, sx(k, hx(p)))
	}
	hc := &handlerClient{h: http.HandlerFunc(func(w http.ResponseWriter, req *http.Request) {
		webdav.ServePrincipal(w, req, &webdav.ServePrincipalOptions{CurrentUserPrincipalPath: principal, HomeSets: opts})
	})}
	res := guard(func() string {
		ctx := context.Background()
		out := []string{"-", "-"}
		if c, err := caldav.NewClient(hc, "http://example.com/"); err == nil {
			if hs, err := c.FindCalendarHomeSet(ctx, principal); err == nil {
				out[0] = hx(hs)
			}
		}
		if c, err := carddav.NewClient(hc, "http://example.com/"); err == nil {
			if hs, err := c.FindAddressBookHomeSet(ctx, principal); err == nil {
				out[1] = hx(hs)
			}
		}
		return sx("cal", out[0]) + " " + sx("card", out[1])
	})
	o.Stat(fmt.Sprintf("objwire.homesets.%d", len(in)))
	o.Emit("obj.homeset", hx(principal)+" "+sxl(in), res)
}

func famObjWire(o *Out, r *RNG, thorough bool) {
	n := 300
	if thorough {
		n = 6000
	}
	for i := 0; i < n; i++ {
		emitObjCals(o, r)
		emitObjBooks(o, r)
		emitObjCalObjs(o, r)
		emitObjCards(o, r)
		emitObjPut(o, r)
		emitObjMget(o, r, false)
		emitObjMget(o, r, true)
		emitObjRead(o, r)
		emitObjHomeSets(o, r)
	}
}

func init() { families["objwire"] = famObjWire }
