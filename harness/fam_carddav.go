package main

import (
	"reflect"
	"sort"
	"strings"

	"github.com/emersion/go-vcard"
	"github.com/emersion/go-webdav/carddav"
)

// C07: carddav.Match / carddav.Filter

type cardSpec [][]string // each: key, v1, v2...

func buildCard(cs cardSpec) vcard.Card {
	c := make(vcard.Card)
	for _, kv := range cs {
		for i, v := range kv[1:] {
			f := &vcard.Field{Value: v}
			// parameters and groups say nothing to a filter without param-filters (the model is not told): later
			// instances marked preferred, typed instances, grouped instances
			switch (len(kv[0]) + 2*i + len(v)) % 4 {
			case 0:
				if i > 0 {
					f.Params = vcard.Params{"PREF": {"1"}}
				}
			case 1:
				f.Params = vcard.Params{"TYPE": {"home", "pref"}}
			case 2:
				f.Group = "item" + itoa(i)
			}
			c[kv[0]] = append(c[kv[0]], f)
		}
		if len(kv) == 1 {
			c[kv[0]] = nil
		}
	}
	return c
}

func sxCard(cs cardSpec) string {
	var items []string
	for _, kv := range cs {
		it := []string{hx(kv[0])}
		for _, v := range kv[1:] {
			it = append(it, hx(v))
		}
		items = append(items, sxl(it))
	}
	return sxl(items)
}

func canonGoCard(c vcard.Card) string {
	type e struct {
		k  string
		vs []string
	}
	var es []e
	for k, fs := range c {
		if len(fs) == 0 {
			continue
		}
		var vs []string
		for _, f := range fs {
			vs = append(vs, hx(f.Value))
		}
		es = append(es, e{hx(k), vs})
	}
	sort.Slice(es, func(i, j int) bool { return es[i].k < es[j].k })
	var items []string
	for _, x := range es {
		items = append(items, sxl(append([]string{x.k}, x.vs...)))
	}
	return sxl(items)
}

func sxQuery(q *carddav.AddressBookQuery) string {
	if q == nil {
		return "nil"
	}
	var props, pfs []string
	for _, p := range q.DataRequest.Props {
		props = append(props, hx(p))
	}
	for _, pf := range q.PropFilters {
		var tms []string
		for _, tm := range pf.TextMatches {
			tms = append(tms, sx("tm", hx(tm.Text), b01(tm.NegateCondition), hx(string(tm.MatchType))))
		}
		pfs = append(pfs, sx("pf", hx(pf.Name), hx(string(pf.Test)), b01(pf.IsNotDefined), sxl(tms)))
	}
	return sx("q", hx(string(q.FilterTest)), itoa(q.Limit), b01(q.DataRequest.AllProp), sxl(props), sxl(pfs))
}

func deepCopyQuery(q *carddav.AddressBookQuery) *carddav.AddressBookQuery {
	if q == nil {
		return nil
	}
	c := *q
	c.DataRequest.Props = append([]string(nil), q.DataRequest.Props...)
	c.PropFilters = nil
	for _, pf := range q.PropFilters {
		p := pf
		p.TextMatches = append([]carddav.TextMatch(nil), pf.TextMatches...)
		p.Params = append([]carddav.ParamFilter(nil), pf.Params...)
		c.PropFilters = append(c.PropFilters, p)
	}
	return &c
}

func deepCopyCard(c vcard.Card) vcard.Card {
	n := make(vcard.Card)
	for k, fs := range c {
		var l []*vcard.Field
		for _, f := range fs {
			g := *f
			l = append(l, &g)
		}
		n[k] = l
	}
	return n
}

func cardEqual(a, b vcard.Card) bool {
	if len(a) != len(b) {
		return false
	}
	for k, fa := range a {
		fb, ok := b[k]
		if !ok || len(fa) != len(fb) {
			return false
		}
		for i := range fa {
			if !reflect.DeepEqual(*fa[i], *fb[i]) {
				return false
			}
		}
	}
	return true
}

func queryEqual(a, b *carddav.AddressBookQuery) bool {
	if a == nil || b == nil {
		return a == b
	}
	return sxQuery(a) == sxQuery(b) && reflect.DeepEqual(len(a.PropFilters), len(b.PropFilters))
}

func emitCardMatch(o *Out, q *carddav.AddressBookQuery, cs cardSpec) {
	card := buildCard(cs)
	ao := &carddav.AddressObject{Path: "/p", Card: card}
	qc, cc := deepCopyQuery(q), deepCopyCard(card)
	res := guard(func() string {
		ok, err := carddav.Match(q, ao)
		if err != nil {
			return "err"
		}
		return "ok " + b01(ok)
	})
	if !queryEqual(q, qc) || !cardEqual(card, cc) || ao.Path != "/p" {
		res = "mutated"
	}
	o.Stat("cardmatch." + strings.Replace(res, " ", "", -1))
	o.Emit("card.match", sxQuery(qc)+" "+sxCard(cs), res)
}

type aoSpec struct {
	path string
	card cardSpec
}

func emitCardFilter(o *Out, q *carddav.AddressBookQuery, aos []aoSpec) {
	var l []carddav.AddressObject
	var items []string
	for _, a := range aos {
		l = append(l, carddav.AddressObject{Path: a.path, Card: buildCard(a.card), ETag: "e" + a.path, ContentLength: 7})
		items = append(items, sx("ao", hx(a.path), sxCard(a.card)))
	}
	qc := deepCopyQuery(q)
	var copies []vcard.Card
	for _, a := range l {
		copies = append(copies, deepCopyCard(a.Card))
	}
	res := guard(func() string {
		out, err := carddav.Filter(q, l)
		if err != nil {
			return "err"
		}
		var its []string
		for _, a := range out {
			if a.ETag != "e"+a.Path {
				return "meta-lost"
			}
			its = append(its, sx("ao", hx(a.Path), canonGoCard(a.Card)))
		}
		return "ok " + sxl(its)
	})
	mut := !queryEqual(q, qc)
	for i := range l {
		if !cardEqual(l[i].Card, copies[i]) || l[i].Path != aos[i].path {
			mut = true
		}
	}
	if mut {
		res = "mutated"
	}
	o.Stat("cardfilter." + strings.Fields(res)[0])
	o.Emit("card.filter", sxQuery(qc)+" "+sxl(items), res)
}

func famCardMatch(o *Out, r *RNG, thorough bool) {
	tests := []carddav.FilterTest{"", "anyof", "allof", "bogus"}
	mtypes := []carddav.MatchType{"", "equals", "contains", "starts-with", "ends-with", "regex"}
	cards := []cardSpec{
		{{"VERSION", "4.0"}},
		{{"VERSION", "4.0"}, {"A", "ab"}},
		{{"VERSION", "4.0"}, {"A", "ba", "ab"}},
		{{"VERSION", "4.0"}, {"A", ""}, {"B", "a"}},
	}
	texts := []string{"", "a", "ab", "b"}
	emitCardMatch(o, nil, cards[1])
	// exhaustive: outer test x inner test x (two text-matches: type x negate x text) x is-not-defined x presence
	for _, ot := range tests {
		for _, it := range tests {
			for _, ind := range []bool{false, true} {
				for _, m1 := range mtypes {
					for _, n1 := range []bool{false, true} {
						for _, t1 := range texts {
							pf1 := carddav.PropFilter{Name: "A", Test: it, IsNotDefined: ind,
								TextMatches: []carddav.TextMatch{{Text: t1, NegateCondition: n1, MatchType: m1}, {Text: "b", MatchType: "starts-with"}}}
							pf2 := carddav.PropFilter{Name: "B", Test: "allof", TextMatches: []carddav.TextMatch{{Text: "a", MatchType: m1, NegateCondition: n1}}}
							for ci, c := range cards {
								if !thorough && (ci+len(t1))%2 == 1 && m1 != "" {
									continue
								}
								emitCardMatch(o, &carddav.AddressBookQuery{FilterTest: ot, PropFilters: []carddav.PropFilter{pf1, pf2}}, c)
								emitCardMatch(o, &carddav.AddressBookQuery{FilterTest: ot, PropFilters: []carddav.PropFilter{pf2, pf1}}, c)
							}
						}
					}
				}
			}
		}
	}
	// shapes: no filters, no text matches, is-not-defined only
	for _, ot := range tests {
		for _, c := range cards {
			emitCardMatch(o, &carddav.AddressBookQuery{FilterTest: ot}, c)
			emitCardMatch(o, &carddav.AddressBookQuery{FilterTest: ot, PropFilters: []carddav.PropFilter{{Name: "A"}}}, c)
			emitCardMatch(o, &carddav.AddressBookQuery{FilterTest: ot, PropFilters: []carddav.PropFilter{{Name: "A", IsNotDefined: true}, {Name: "Z", IsNotDefined: true}}}, c)
		}
	}
	n := 4000
	if thorough {
		n = 80000
	}
	for i := 0; i < n; i++ {
		emitCardMatch(o, randCardQuery(r), randCard(r))
	}
}

var cdKeys = []string{"VERSION", "EMAIL", "FN", "TEL", "X-é", "N"}
var cdVals = []string{"", "a", "ab", "abc", "bca", "a b", "é", "x@y.z", "<&>", " a", "ABC"}

func randCard(r *RNG) cardSpec {
	cs := cardSpec{{"VERSION", "4.0"}}
	if r.Chance(5) {
		cs = cardSpec{}
	}
	for _, k := range cdKeys[1:] {
		if r.Chance(55) {
			kv := []string{k}
			for j := r.Range(0, 2); j >= 0; j-- {
				kv = append(kv, r.Pick(cdVals))
			}
			cs = append(cs, kv)
		}
	}
	return cs
}

func randCardQuery(r *RNG) *carddav.AddressBookQuery {
	tests := []carddav.FilterTest{"", "anyof", "allof"}
	mtypes := []carddav.MatchType{"", "equals", "contains", "starts-with", "ends-with"}
	pt := func() carddav.FilterTest {
		if r.Chance(4) {
			return carddav.FilterTest(r.Pick([]string{"bogus", "ANYOF", "all"}))
		}
		return tests[r.Intn(3)]
	}
	q := &carddav.AddressBookQuery{FilterTest: pt(), Limit: r.Range(-1, 4)}
	for i := r.Range(0, 3); i > 0; i-- {
		pf := carddav.PropFilter{Name: r.Pick(cdKeys), Test: pt(), IsNotDefined: r.Chance(20)}
		for j := r.Range(0, 3); j > 0; j-- {
			mt := mtypes[r.Intn(5)]
			if r.Chance(3) {
				mt = "regex"
			}
			pf.TextMatches = append(pf.TextMatches, carddav.TextMatch{Text: r.Pick(cdVals), NegateCondition: r.Chance(30), MatchType: mt})
		}
		q.PropFilters = append(q.PropFilters, pf)
	}
	if r.Chance(30) {
		q.DataRequest.AllProp = true
	}
	for i := r.Range(0, 3); i > 0; i-- {
		if r.Chance(60) {
			q.DataRequest.Props = append(q.DataRequest.Props, r.Pick(append(cdKeys, "ABSENT")))
		}
	}
	return q
}

func famCardFilter(o *Out, r *RNG, thorough bool) {
	base := []aoSpec{
		{"/a", cardSpec{{"VERSION", "3.0"}, {"EMAIL", "x@a"}, {"FN", "A"}, {"TEL", "1"}}},
		{"/b", cardSpec{{"VERSION", "4.0"}, {"EMAIL", "y@b", "x@b"}, {"FN", "B"}}},
		{"/c", cardSpec{{"VERSION", "4.0"}, {"EMAIL", "x@c"}, {"TEL", "3"}, {"N", "c"}}},
		{"/d", cardSpec{{"VERSION", "4.0"}, {"FN", "D"}}},
		{"/e", cardSpec{{"VERSION", "4.0"}, {"EMAIL", "x@e"}}},
	}
	emitCardFilter(o, nil, base)
	emitCardFilter(o, nil, nil)
	propSets := [][]string{nil}
	all := []string{"EMAIL", "FN", "TEL", "N"}
	for m := 1; m < 16; m++ {
		var s []string
		for i, p := range all {
			if m&(1<<uint(i)) != 0 {
				s = append(s, p)
			}
		}
		propSets = append(propSets, s)
	}
	propSets = append(propSets, []string{"VERSION"}, []string{"ABSENT", "FN", "FN"})
	filters := [][]carddav.PropFilter{
		nil,
		{{Name: "EMAIL", TextMatches: []carddav.TextMatch{{Text: "x@", MatchType: "starts-with"}}}},
		{{Name: "TEL", IsNotDefined: true}},
		{{Name: "EMAIL"}, {Name: "FN"}},
	}
	for _, ft := range []carddav.FilterTest{"", "allof"} {
		for _, pfs := range filters {
			for limit := -1; limit <= len(base)+1; limit++ {
				for n := 0; n <= len(base); n++ {
					for pi, ps := range propSets {
						if !thorough && pi > 2 && (pi+limit+n)%3 != 0 {
							continue
						}
						for _, ap := range []bool{false, true} {
							if ap && pi > 1 && !thorough {
								continue
							}
							q := &carddav.AddressBookQuery{FilterTest: ft, PropFilters: pfs, Limit: limit}
							q.DataRequest.Props = ps
							q.DataRequest.AllProp = ap
							emitCardFilter(o, q, base[:n])
						}
					}
				}
			}
		}
	}
	n := 3000
	if thorough {
		n = 50000
	}
	for i := 0; i < n; i++ {
		var aos []aoSpec
		for j := r.Range(0, 6); j > 0; j-- {
			aos = append(aos, aoSpec{"/r" + itoa(j), randCard(r)})
		}
		q := randCardQuery(r)
		if r.Chance(3) {
			q = nil
		}
		emitCardFilter(o, q, aos)
	}
}

func init() {
	families["cardmatch"] = famCardMatch
	families["cardfilter"] = famCardFilter
}
