package main

import (
	"github.com/emersion/go-ical"
	"github.com/emersion/go-webdav/caldav"
)

// C19: caldav.ValidateCalendarObject

type vComp struct {
	name string
	uid  int // 0 none, 1 err, 2 text
	text string
}

// the spellings of a METHOD property: any of them IS a METHOD property (the value is not looked at by the rule)
var methodSpelling int
var bystanders int

func buildCal(method bool, comps []vComp) *ical.Calendar {
	cal := ical.NewCalendar()
	if method {
		methodSpelling++
		switch methodSpelling % 4 {
		case 0:
			cal.Props.SetText(ical.PropMethod, "PUBLISH")
		case 1:
			cal.Props.SetText(ical.PropMethod, "") // present with an empty value
		case 2:
			cal.Props.SetText(ical.PropMethod, "REQUEST")
		default:
			p := ical.NewProp(ical.PropMethod)
			p.Params.Set("X-P", "q")
			p.Value = "x-custom"
			cal.Props.Set(p)
		}
	}
	for _, c := range comps {
		comp := &ical.Component{Name: c.name, Props: make(ical.Props)}
		switch c.uid {
		case 1:
			p := ical.NewProp(ical.PropUID)
			p.Params.Set(ical.ParamValue, "BINARY") // Props.Text fails: not a TEXT value
			p.Value = "x"
			comp.Props.Set(p)
		case 2:
			comp.Props.SetText(ical.PropUID, c.text)
		}
		// what the rule does not look at (the model is not told): times in a zone no VTIMEZONE of the object defines,
		// other properties, nested components
		bystanders++
		if c.name != "VTIMEZONE" {
			switch bystanders % 5 {
			case 0:
				p := ical.NewProp(ical.PropDateTimeStart)
				p.Params.Set(ical.ParamTimezoneID, "Europe/Paris")
				p.Value = "20240310T010000"
				comp.Props.Set(p)
			case 1:
				comp.Props.SetText(ical.PropSummary, "s; with, specials\\")
				comp.Children = append(comp.Children, &ical.Component{Name: "VALARM", Props: make(ical.Props)})
			case 2:
				p := ical.NewProp("X-UID")
				p.Value = "other"
				comp.Props.Set(p)
			}
		} else if bystanders%2 == 0 {
			comp.Props.SetText(ical.PropTimezoneID, "Europe/Paris")
		}
		cal.Children = append(cal.Children, comp)
	}
	return cal
}

func emitValidate(o *Out, method bool, comps []vComp) {
	args := b01(method)
	for _, c := range comps {
		u := "n"
		switch c.uid {
		case 1:
			u = "e"
		case 2:
			u = sx("t", hx(c.text))
		}
		args += " " + sx("comp", hx(c.name), u)
	}
	res := guard(func() string {
		t, u, err := caldav.ValidateCalendarObject(buildCal(method, comps))
		if err != nil {
			return "err " + hx(t) + " " + hx(u)
		}
		return "ok " + hx(t) + " " + hx(u)
	})
	if res[:2] == "ok" {
		o.Stat("validate.accept")
	} else {
		o.Stat("validate.reject")
	}
	o.Emit("cal.validate", args, res)
}

func famValidate(o *Out, r *RNG, thorough bool) {
	names := []string{"VEVENT", "VTODO", "VJOURNAL", "VFREEBUSY", "VTIMEZONE"}
	// per component: 5 names x {none, err, "", a, b}
	var kinds []vComp
	for _, n := range names {
		kinds = append(kinds, vComp{n, 0, ""}, vComp{n, 2, ""}, vComp{n, 2, "a"}, vComp{n, 2, "b"}, vComp{n, 1, ""})
	}
	maxLen := 3
	if thorough {
		maxLen = 4
	}
	var rec func(prefix []vComp, depth int)
	rec = func(prefix []vComp, depth int) {
		for _, m := range []bool{false, true} {
			if m && depth > 1 {
				continue // METHOD short-circuits; longer lists add nothing
			}
			emitValidate(o, m, prefix)
		}
		if depth == maxLen {
			return
		}
		for _, k := range kinds {
			rec(append(append([]vComp{}, prefix...), k), depth+1)
		}
	}
	rec(nil, 0)
	// random larger calendars, incl. unusual names and UIDs
	n := 3000
	if thorough {
		n = 60000
	}
	exNames := append([]string{"VALARM", "X-FOO", "vevent"}, names...)
	uids := []string{"a", "b", "a ", "A", "é", "a,b", "x\\y"}
	for i := 0; i < n; i++ {
		l := r.Range(0, 9)
		var cs []vComp
		base := r.Pick(exNames)
		bu := r.Pick(uids)
		for j := 0; j < l; j++ {
			c := vComp{name: base, uid: 2, text: bu}
			if r.Chance(25) {
				c.name = "VTIMEZONE"
			}
			if r.Chance(8) {
				c.name = r.Pick(exNames)
			}
			switch {
			case r.Chance(25):
				c.uid = 0
			case r.Chance(5):
				c.uid = 1
			case r.Chance(8):
				c.text = r.Pick(uids)
			case r.Chance(5):
				c.text = ""
			}
			cs = append(cs, c)
		}
		emitValidate(o, r.Chance(5), cs)
	}
}

func init() { families["validate"] = famValidate }
