package main

import (
	"bytes"
	"context"
	"fmt"
	"io"
	"net/http"
	"net/http/httptest"
	"strings"

	"github.com/emersion/go-webdav/carddav"
)

// C09: CardDAV queries across the wire

const nsCard = "urn:ietf:params:xml:ns:carddav"

// an HTTP client that records the request and answers with an empty multi-status
type captureClient struct {
	method string
	path   string
	header http.Header
	body   []byte
}

func (c *captureClient) Do(req *http.Request) (*http.Response, error) {
	c.method, c.path, c.header = req.Method, req.URL.Path, req.Header
	if req.Body != nil {
		c.body, _ = io.ReadAll(req.Body)
	}
	body := `<?xml version="1.0" encoding="utf-8"?><multistatus xmlns="DAV:"></multistatus>`
	return &http.Response{StatusCode: 207, Status: "207 Multi-Status", Header: http.Header{"Content-Type": {"application/xml"}},
		Body: io.NopCloser(strings.NewReader(body)), Request: req}, nil
}

func sxCardQueryFull(q *carddav.AddressBookQuery) string {
	var props, pfs []string
	for _, p := range q.DataRequest.Props {
		props = append(props, hx(p))
	}
	for _, pf := range q.PropFilters {
		var tms, prms []string
		for _, tm := range pf.TextMatches {
			tms = append(tms, sx("tm", hx(tm.Text), b01(tm.NegateCondition), hx(string(tm.MatchType))))
		}
		for _, pm := range pf.Params {
			t := "nil"
			if pm.TextMatch != nil {
				t = sx("tm", hx(pm.TextMatch.Text), b01(pm.TextMatch.NegateCondition), hx(string(pm.TextMatch.MatchType)))
			}
			prms = append(prms, sx("prm", hx(pm.Name), b01(pm.IsNotDefined), t))
		}
		pfs = append(pfs, sx("pf", hx(pf.Name), hx(string(pf.Test)), b01(pf.IsNotDefined), sxl(tms), sxl(prms)))
	}
	return sx("q", hx(string(q.FilterTest)), itoa(q.Limit), b01(q.DataRequest.AllProp), sxl(props), sxl(pfs))
}

func emitCardEnc(o *Out, q *carddav.AddressBookQuery) {
	// the caller's value is described BEFORE the call and handed to the client twice: a call must not alter it
	args := sxCardQueryFull(q)
	emitCardEncOnce(o, q, args)
	emitCardEncOnce(o, q, args)
}

func emitCardEncOnce(o *Out, q *carddav.AddressBookQuery, args string) {
	cc := &captureClient{}
	res := guard(func() string {
		c, err := carddav.NewClient(cc, "http://example.com/dav/")
		if err != nil {
			return "setup-error"
		}
		_, err = c.QueryAddressBook(context.Background(), "/dav/u/ab/", q)
		if cc.body == nil {
			return "err"
		}
		t, err2 := treeOfBytes(cc.body)
		if err2 != nil {
			return "not-well-formed"
		}
		if cc.method != "REPORT" || cc.header.Get("Depth") != "1" || !strings.Contains(cc.header.Get("Content-Type"), "xml") {
			return "wrong-request-headers"
		}
		_ = err
		return sxNode(t)
	})
	o.Stat("cardenc." + strings.Fields(res + " x")[0][:1])
	o.Emit("card.enc", args, res)
}

// the RFC 6352 document of a query, from the independent writer
// values outside the RFC enumerations, in turn: unknown words, case variants, padded spellings (XML attribute values are
// case-sensitive and the DTD lists the values literally)
var badPick int

func badValue(kind string) string {
	badPick++
	var l []string
	switch kind {
	case "test":
		l = []string{"oneof", "ANYOF", "AnyOf", "any of", " anyof", "allOf"}
	case "match-type":
		l = []string{"regex", "Equals", "CONTAINS", "starts_with", "equals ", "Starts-With"}
	default:
		l = []string{"true", "YES", "Yes", "No", "nO", "1", "yes ", "NO"}
	}
	return l[badPick%len(l)]
}

func cardQueryDoc(q *carddav.AddressBookQuery, mut string) *wEl {
	// "limit-zero+<defect>": a document with nresults 0 AND another defect - the defect must still be refused
	if strings.HasPrefix(mut, "limit-zero+") {
		root := cardQueryDoc(q, strings.TrimPrefix(mut, "limit-zero+"))
		keep := root.children[:0]
		for _, c := range root.children {
			if c.local != "limit" {
				keep = append(keep, c)
			}
		}
		root.children = keep
		zero := "0"
		if q.Limit%2 == 0 {
			zero = "18446744073709551615"
		}
		root.Add(E(nsCard, "limit", E(nsCard, "nresults").T(zero)))
		return root
	}
	tm := func(t carddav.TextMatch) *wEl {
		e := E(nsCard, "text-match").T(t.Text)
		if t.NegateCondition {
			e.A("negate-condition", "yes")
		} else if mut == "explicit-defaults" {
			e.A("negate-condition", "no").A("collation", "i;unicode-casemap")
		}
		if t.MatchType != "" {
			e.A("match-type", string(t.MatchType))
		}
		return e
	}
	root := E(nsCard, "addressbook-query")
	ad := E(nsCard, "address-data")
	if q.DataRequest.AllProp {
		ad.Add(E(nsCard, "allprop"))
	} else {
		for _, p := range q.DataRequest.Props {
			ad.Add(E(nsCard, "prop").A("name", p))
		}
	}
	prop := E("DAV:", "prop", E("DAV:", "getetag"), ad)
	root.Add(prop)
	f := E(nsCard, "filter")
	if q.FilterTest != "" {
		f.A("test", string(q.FilterTest))
	}
	for _, pf := range q.PropFilters {
		e := E(nsCard, "prop-filter").A("name", pf.Name)
		if pf.Test != "" {
			e.A("test", string(pf.Test))
		}
		if pf.IsNotDefined {
			e.Add(E(nsCard, "is-not-defined"))
		}
		for _, t := range pf.TextMatches {
			e.Add(tm(t))
		}
		for _, pm := range pf.Params {
			pe := E(nsCard, "param-filter").A("name", pm.Name)
			if pm.IsNotDefined {
				pe.Add(E(nsCard, "is-not-defined"))
			}
			if pm.TextMatch != nil {
				pe.Add(tm(*pm.TextMatch))
			}
			e.Add(pe)
		}
		f.Add(e)
	}
	root.Add(f)
	if q.Limit > 0 || mut == "limit-zero" {
		root.Add(E(nsCard, "limit", E(nsCard, "nresults").T(fmt.Sprint(q.Limit))))
	}
	switch mut {
	case "bad-test":
		f.attrs = [][2]string{{"test", badValue("test")}}
	case "empty-test":
		f.attrs = [][2]string{{"test", ""}}
	case "bad-match-type":
		root.children[1].Add(E(nsCard, "prop-filter", E(nsCard, "text-match").T("x").A("match-type", badValue("match-type"))).A("name", "FN"))
	case "bad-negate":
		root.children[1].Add(E(nsCard, "prop-filter", E(nsCard, "text-match").T("x").A("negate-condition", badValue("negate"))).A("name", "FN"))
	case "ind-with-match":
		root.children[1].Add(E(nsCard, "prop-filter", E(nsCard, "is-not-defined"), E(nsCard, "text-match").T("x")).A("name", "FN"))
	case "param-ind-with-match":
		root.children[1].Add(E(nsCard, "prop-filter", E(nsCard, "param-filter", E(nsCard, "is-not-defined"), E(nsCard, "text-match").T("x")).A("name", "TYPE")).A("name", "FN"))
	case "allprop-and-prop":
		ad.children = []*wEl{E(nsCard, "allprop"), E(nsCard, "prop").A("name", "FN")}
	case "wrong-root":
		root.local = "addressbook-query2"
	case "wrong-root-ns":
		root.ns = "DAV:"
	case "bad-nresults":
		root.Add(E(nsCard, "limit", E(nsCard, "nresults").T("many")))
	case "negative-nresults":
		root.Add(E(nsCard, "limit", E(nsCard, "nresults").T("-1")))
	case "padded-nresults":
		root.Add(E(nsCard, "limit", E(nsCard, "nresults").T(" 7\n")))
	case "no-filter":
		root.children = root.children[:1]
	case "no-prop":
		root.children = root.children[1:]
	}
	return root
}

func emitCardDec(o *Out, doc string) {
	t, err := treeOfBytes([]byte(doc))
	if err != nil {
		o.Stat("carddec.generator-rejected")
		return
	}
	b := &cardBackend{principal: "/u/", homeSet: "/u/ab/"}
	h := &carddav.Handler{Backend: b}
	res := guard(func() string {
		req := httptest.NewRequest("REPORT", "http://example.com/u/ab/a/", strings.NewReader(doc))
		req.Header.Set("Content-Type", xmlCTSpelling(len(doc)))
		rec := httptest.NewRecorder()
		h.ServeHTTP(rec, req)
		code := rec.Result().StatusCode
		if code != 207 {
			return fmt.Sprint(code)
		}
		if b.lastQuery == nil {
			for _, c := range b.log.take() {
				if strings.HasPrefix(c, "GetAddressObject") {
					return "multiget"
				}
			}
			return "nobackend"
		}
		return "ok " + sxCardQueryFull(b.lastQuery)
	})
	o.Stat("carddec." + strings.Fields(res)[0])
	o.Emit("card.dec", sxNode(t), res)
}

func sxMultiGet(allprop bool, props, paths []string) string {
	var ps, hs []string
	for _, p := range props {
		ps = append(ps, hx(p))
	}
	for _, p := range paths {
		hs = append(hs, hx(p))
	}
	return sx("mg", b01(allprop), sxl(ps), sxl(hs))
}

func emitCardMg(o *Out, r *RNG, reqPath string, mg *carddav.AddressBookMultiGet) {
	// the caller's value is described BEFORE the call; the same value is then used for a second call on another path
	args := sxMultiGet(mg.DataRequest.AllProp, mg.DataRequest.Props, mg.Paths)
	defer func() {
		cc2 := &captureClient{}
		other := reqPath + "other/"
		res := guard(func() string {
			c, _ := carddav.NewClient(cc2, "http://example.com/")
			c.MultiGetAddressBook(context.Background(), other, mg)
			if cc2.body == nil {
				return "err"
			}
			t, err := treeOfBytes(cc2.body)
			if err != nil {
				return "not-well-formed"
			}
			return sxNode(t)
		})
		o.Emit("card.encmg", hx(other)+" "+args, res)
	}()
	cc := &captureClient{}
	res := guard(func() string {
		c, _ := carddav.NewClient(cc, "http://example.com/")
		c.MultiGetAddressBook(context.Background(), reqPath, mg)
		if cc.body == nil {
			return "err"
		}
		t, err := treeOfBytes(cc.body)
		if err != nil {
			return "not-well-formed"
		}
		return sxNode(t)
	})
	o.Emit("card.encmg", hx(reqPath)+" "+args, res)
	// wire -> backend with an independently written RFC document (prop first, then hrefs)
	root := E(nsCard, "addressbook-multiget")
	ad := E(nsCard, "address-data")
	if mg.DataRequest.AllProp {
		ad.Add(E(nsCard, "allprop"))
	} else {
		for _, p := range mg.DataRequest.Props {
			ad.Add(E(nsCard, "prop").A("name", p))
		}
	}
	root.Add(E("DAV:", "prop", ad, E("DAV:", "getetag")))
	paths := mg.Paths
	if len(paths) == 0 {
		paths = []string{reqPath}
	}
	for _, p := range paths {
		root.Add(E("DAV:", "href").T(hrefSpellingPath(p)))
	}
	doc := randStyle(r).doc(root)
	t, err := treeOfBytes([]byte(doc))
	if err != nil {
		return
	}
	b := &cardBackend{principal: "/u/", homeSet: "/u/ab/"}
	h := &carddav.Handler{Backend: b}
	res2 := guard(func() string {
		req := httptest.NewRequest("REPORT", "http://example.com/u/ab/a/", strings.NewReader(doc))
		req.Header.Set("Content-Type", "text/xml")
		rec := httptest.NewRecorder()
		h.ServeHTTP(rec, req)
		if rec.Result().StatusCode != 207 {
			return fmt.Sprint(rec.Result().StatusCode)
		}
		var got []string
		for _, c := range b.log.take() {
			if strings.HasPrefix(c, "GetAddressObject ") {
				got = append(got, strings.TrimPrefix(c, "GetAddressObject "))
			}
		}
		allprop, props := false, []string(nil)
		if b.lastGetReq != nil {
			allprop = b.lastGetReq.AllProp
			props = b.lastGetReq.Props
		}
		var ps []string
		for _, p := range props {
			ps = append(ps, hx(p))
		}
		return "ok " + sx("mg", b01(allprop), sxl(ps), sxl(got))
	})
	o.Emit("card.decmg", sxNode(t), res2)
	_ = bytes.NewReader
}

var cwTexts = []string{"", "a", " lead", "trail ", "a b", "<&>", "é", "x@y.z", "\"q\"", "a\nb", "]]>", "\r", "Main St 1\r\nSpringfield", "trailing\r", "\ttab", "nel\u0085ls\u2028", "&amp;"}
var cwNames = []string{"FN", "EMAIL", "TEL", "X-é", "N", ""}

func randCardWireQuery(r *RNG, valid bool) *carddav.AddressBookQuery {
	tests := []carddav.FilterTest{"", "anyof", "allof"}
	mts := []carddav.MatchType{"", "equals", "contains", "starts-with", "ends-with"}
	q := &carddav.AddressBookQuery{FilterTest: tests[r.Intn(3)], Limit: r.Range(-1, 5)}
	if r.Chance(30) {
		q.DataRequest.AllProp = true
	}
	for i := r.Range(0, 3); i > 0; i-- {
		q.DataRequest.Props = append(q.DataRequest.Props, r.Pick(cwNames))
	}
	mkTM := func() carddav.TextMatch {
		return carddav.TextMatch{Text: r.Pick(cwTexts), NegateCondition: r.Chance(40), MatchType: mts[r.Intn(5)]}
	}
	for i := r.Range(0, 3); i > 0; i-- {
		pf := carddav.PropFilter{Name: r.Pick(cwNames), Test: tests[r.Intn(3)]}
		if r.Chance(25) {
			pf.IsNotDefined = true
			if !valid && r.Chance(50) {
				pf.TextMatches = append(pf.TextMatches, mkTM())
			}
		} else {
			for j := r.Range(0, 3); j > 0; j-- {
				pf.TextMatches = append(pf.TextMatches, mkTM())
			}
			for j := r.Range(0, 2); j > 0; j-- {
				pm := carddav.ParamFilter{Name: r.Pick([]string{"TYPE", "PREF", ""})}
				if r.Chance(40) {
					pm.IsNotDefined = true
					if !valid && r.Chance(50) {
						t := mkTM()
						pm.TextMatch = &t
					}
				} else if r.Chance(70) {
					t := mkTM()
					pm.TextMatch = &t
				}
				pf.Params = append(pf.Params, pm)
			}
		}
		q.PropFilters = append(q.PropFilters, pf)
	}
	return q
}

func famCardWire(o *Out, r *RNG, thorough bool) {
	// enumerations exhaustively, at both levels, incl. invalid ones (the client passes them through, the server must refuse)
	for _, ft := range []carddav.FilterTest{"", "anyof", "allof", "oneof", "ANYOF"} {
		for _, pt := range []carddav.FilterTest{"", "anyof", "allof", "bogus"} {
			for _, mt := range []carddav.MatchType{"", "equals", "contains", "starts-with", "ends-with", "regex"} {
				for _, neg := range []bool{false, true} {
					q := &carddav.AddressBookQuery{FilterTest: ft, PropFilters: []carddav.PropFilter{{Name: "FN", Test: pt,
						TextMatches: []carddav.TextMatch{{Text: " a<b ", NegateCondition: neg, MatchType: mt}}}}}
					emitCardEnc(o, q)
					emitCardDec(o, randStyle(r).doc(cardQueryDoc(q, "")))
				}
			}
		}
	}
	n := 2500
	if thorough {
		n = 50000
	}
	muts := []string{"", "", "", "", "explicit-defaults", "bad-test", "empty-test", "bad-match-type", "bad-negate", "ind-with-match", "param-ind-with-match",
		"allprop-and-prop", "wrong-root", "wrong-root-ns", "bad-nresults", "negative-nresults", "padded-nresults", "no-filter", "no-prop", "limit-zero",
		"limit-zero+ind-with-match", "limit-zero+param-ind-with-match", "limit-zero+allprop-and-prop", "limit-zero+bad-test", "limit-zero+bad-match-type", "limit-zero+bad-negate", "limit-zero+"}
	for i := 0; i < n; i++ {
		q := randCardWireQuery(r, i%10 != 0)
		emitCardEnc(o, q)
		qd := randCardWireQuery(r, true)
		if qd.DataRequest.AllProp {
			qd.DataRequest.Props = nil
		}
		emitCardDec(o, randStyle(r).doc(cardQueryDoc(qd, muts[r.Intn(len(muts))])))
		if i%5 == 0 {
			var paths []string
			for j := r.Range(0, 4); j > 0; j-- {
				paths = append(paths, "/u/ab/a/"+r.Pick([]string{"x.vcf", "a b.vcf", "é#1?.vcf", "%41.vcf", "x.vcf"}))
			}
			mg := &carddav.AddressBookMultiGet{Paths: paths}
			mg.DataRequest.AllProp = r.Chance(30)
			for j := r.Range(0, 2); j > 0; j-- {
				mg.DataRequest.Props = append(mg.DataRequest.Props, r.Pick(cwNames[:4]))
			}
			emitCardMg(o, r, "/u/ab/a/", mg)
		}
	}
	emitCardLarge(o, r)
}

// documents far larger than any buffer: one text of 1.3 MB, and a multiget naming 20000 objects
func emitCardLarge(o *Out, r *RNG) {
	q := &carddav.AddressBookQuery{PropFilters: []carddav.PropFilter{{Name: "NOTE", TextMatches: []carddav.TextMatch{{Text: strings.Repeat("long text ", 130000), MatchType: "contains"}}}}}
	emitCardDec(o, randStyle(r).doc(cardQueryDoc(q, "")))
}

func init() { families["cardwire"] = famCardWire }
